(* MacrosP.v — proofs about theories/Macros.v (property C14). *)
From Coq Require Import List Bool Lia Relations.
From SFV Require Import Base Macros.
From SFV.P Require Import BaseP.
Import ListNotations.
Local Open Scope nat_scope.

Set Implicit Arguments.

Ltac splits := repeat match goal with |- _ /\ _ => split end.

(* ================================================================== strings, mem *)
Lemma eqb_sym_s (a b : string) : String.eqb a b = String.eqb b a.
Proof.
  destruct (String.eqb a b) eqn:E.
  - apply String.eqb_eq in E. subst. symmetry. apply String.eqb_refl.
  - destruct (String.eqb b a) eqn:E2; [|reflexivity].
    apply String.eqb_eq in E2. subst. rewrite String.eqb_refl in E. discriminate.
Qed.

Lemma mem_In k l : mem k l = true <-> In k l.
Proof.
  unfold mem. rewrite existsb_exists. split.
  - intros [x [Hx E]]. apply String.eqb_eq in E. subst. assumption.
  - intros H. exists k. split; [assumption|apply String.eqb_refl].
Qed.

Lemma mem_false k l : mem k l = false <-> ~ In k l.
Proof.
  rewrite <- mem_In. destruct (mem k l); split; intros H; congruence.
Qed.

Lemma mem_app k a b : mem k (a ++ b) = mem k a || mem k b.
Proof. unfold mem. apply existsb_app. Qed.

Lemma filter_filter {A} (p q : A -> bool) l :
  filter p (filter q l) = filter (fun x => q x && p x) l.
Proof.
  induction l as [|x l IH]; cbn [filter]; [reflexivity|].
  destruct (q x); cbn [filter andb]; [destruct (p x)|]; rewrite IH; reflexivity.
Qed.

Lemma filter_id {A} (p : A -> bool) l : (forall x, In x l -> p x = true) -> filter p l = l.
Proof.
  induction l as [|x l IH]; cbn [filter]; intros H; [reflexivity|].
  rewrite (H x) by (cbn; auto). f_equal. apply IH. intros. apply H. cbn; auto.
Qed.

(* ================================================================== first_occurrences *)
Lemma first_occ_In n ns : In n (first_occurrences ns) <-> In n ns.
Proof.
  induction ns as [|m r IH]; cbn [first_occurrences In]; [tauto|].
  rewrite filter_In, IH. cbn beta. split.
  - intros [H|[H _]]; auto.
  - intros [H|H]; auto. destruct (String.eqb n m) eqn:E.
    + apply String.eqb_eq in E. auto.
    + right. split; [assumption|]. reflexivity.
Qed.

Lemma first_occ_NoDup ns : NoDup (first_occurrences ns).
Proof.
  induction ns as [|m r IH]; cbn [first_occurrences]; constructor.
  - rewrite filter_In. cbn beta. intros [_ H]. rewrite String.eqb_refl in H. discriminate.
  - apply filter_NoDup. assumption.
Qed.

Lemma first_occ_NoDup_id ns : NoDup ns -> first_occurrences ns = ns.
Proof.
  induction 1 as [|m r Hm Hr IH]; cbn [first_occurrences]; [reflexivity|].
  rewrite IH. f_equal. apply filter_id. intros x Hx.
  destruct (String.eqb x m) eqn:E; [|reflexivity].
  apply String.eqb_eq in E. subst. contradiction.
Qed.

Lemma first_occ_idem ns : first_occurrences (first_occurrences ns) = first_occurrences ns.
Proof. apply first_occ_NoDup_id, first_occ_NoDup. Qed.

(* ================================================================== dicts *)
Section DictP.
  Variable V : Type.
  Notation dict := (dict V).
  Implicit Types (d : dict) (l a b c : list (string * V)).

  Lemma names_app d1 d2 : names (d1 ++ d2) = names d1 ++ names d2.
  Proof. unfold names. apply map_app. Qed.

  Lemma lookup_set k v d n :
    lookup n (dict_set d k v) = if String.eqb k n then Some v else lookup n d.
  Proof.
    induction d as [|[k' v'] r IH]; cbn [dict_set lookup].
    - reflexivity.
    - destruct (String.eqb k' k) eqn:E; cbn [lookup].
      + apply String.eqb_eq in E. subst k'. destruct (String.eqb k n); reflexivity.
      + destruct (String.eqb k' n) eqn:E2.
        * destruct (String.eqb k n) eqn:E3; [|reflexivity].
          apply String.eqb_eq in E2, E3. subst. rewrite String.eqb_refl in E. discriminate.
        * apply IH.
  Qed.

  Lemma names_set k v d :
    names (dict_set d k v) = if mem k (names d) then names d else names d ++ [k].
  Proof.
    induction d as [|[k' v'] r IH]; cbn [dict_set names map fst mem existsb app].
    - reflexivity.
    - rewrite (eqb_sym_s k k'). destruct (String.eqb k' k) eqn:E; cbn [orb map fst].
      + reflexivity.
      + fold (names (dict_set r k v)). rewrite IH. fold (names r). fold (mem k (names r)).
        destruct (mem k (names r)); reflexivity.
  Qed.

  Lemma set_not_in k v d : ~ In k (names d) -> dict_set d k v = d ++ [(k, v)].
  Proof.
    induction d as [|[k' v'] r IH]; cbn [dict_set names map fst In app]; intros H.
    - reflexivity.
    - destruct (String.eqb k' k) eqn:E.
      + apply String.eqb_eq in E. tauto.
      + rewrite IH; [reflexivity|]. tauto.
  Qed.

  Lemma lookup_not_in n d : ~ In n (names d) -> lookup n d = None.
  Proof.
    induction d as [|[k v] r IH]; cbn [lookup names map fst In]; intros H; [reflexivity|].
    destruct (String.eqb k n) eqn:E.
    - apply String.eqb_eq in E. tauto.
    - apply IH. tauto.
  Qed.

  Lemma lookup_In_names n d v : lookup n d = Some v -> In n (names d).
  Proof.
    induction d as [|[k v'] r IH]; cbn [lookup names map fst In]; [discriminate|].
    destruct (String.eqb k n) eqn:E.
    - apply String.eqb_eq in E. auto.
    - intros H. right. apply IH. assumption.
  Qed.

  Lemma In_names_lookup n d : In n (names d) -> exists v, lookup n d = Some v.
  Proof.
    induction d as [|[k v'] r IH]; cbn [lookup names map fst In]; [tauto|].
    destruct (String.eqb k n) eqn:E; [eauto|].
    intros [H|H]; [subst; rewrite String.eqb_refl in E; discriminate|auto].
  Qed.

  Lemma last_lookup_app n l1 l2 :
    last_lookup n (l1 ++ l2) =
    match last_lookup n l2 with Some x => Some x | None => last_lookup n l1 end.
  Proof.
    induction l1 as [|[k v] r IH]; cbn [app last_lookup].
    - destruct (last_lookup n l2); reflexivity.
    - rewrite IH. destruct (last_lookup n l2); [reflexivity|].
      destruct (last_lookup n r); reflexivity.
  Qed.

  Lemma last_lookup_not_in n l : ~ In n (names l) -> last_lookup n l = None.
  Proof.
    induction l as [|[k v] r IH]; cbn [last_lookup names map fst In]; intros H; [reflexivity|].
    rewrite IH by tauto. destruct (String.eqb k n) eqn:E; [|reflexivity].
    apply String.eqb_eq in E. tauto.
  Qed.

  Lemma last_lookup_In_names n l v : last_lookup n l = Some v -> In n (names l).
  Proof.
    intros H. destruct (in_dec string_dec n (names l)) as [Hi|Hn]; [assumption|].
    rewrite last_lookup_not_in in H by assumption. discriminate.
  Qed.

  (* without duplicate names, first and last definition coincide *)
  Lemma last_lookup_NoDup n d : NoDup (names d) -> last_lookup n d = lookup n d.
  Proof.
    induction d as [|[k v] r IH]; cbn [last_lookup lookup names map fst]; intros H; [reflexivity|].
    inversion H as [|? ? Hk Hr]; subst. fold (names r) in *.
    destruct (String.eqb k n) eqn:E.
    - apply String.eqb_eq in E. subst. rewrite last_lookup_not_in by assumption. reflexivity.
    - rewrite IH by assumption. destruct (lookup n r); reflexivity.
  Qed.

  (* ---- dict_update: the general statements, for an arbitrary starting dict *)
  Lemma update_cons d kv l : dict_update d (kv :: l) = dict_update (dict_set d (fst kv) (snd kv)) l.
  Proof. reflexivity. Qed.

  Lemma update_app d l1 l2 : dict_update d (l1 ++ l2) = dict_update (dict_update d l1) l2.
  Proof. unfold dict_update. apply fold_left_app. Qed.

  Lemma update_lookup n l d :
    lookup n (dict_update d l) =
    match last_lookup n l with Some x => Some x | None => lookup n d end.
  Proof.
    revert d. induction l as [|[k v] r IH]; intros d; [reflexivity|].
    rewrite update_cons, IH. cbn [fst snd last_lookup]. rewrite lookup_set.
    destruct (last_lookup n r); [reflexivity|]. destruct (String.eqb k n); reflexivity.
  Qed.

  Lemma update_names l d :
    names (dict_update d l) =
    names d ++ filter (fun k => negb (mem k (names d))) (first_occurrences (names l)).
  Proof.
    revert d. induction l as [|[k v] r IH]; intros d.
    - cbn. rewrite app_nil_r. reflexivity.
    - rewrite update_cons, IH. cbn [fst snd]. rewrite names_set.
      cbn [names map fst first_occurrences filter]. fold (names r).
      destruct (mem k (names d)) eqn:Hk; cbn [negb].
      + f_equal. rewrite filter_filter. apply filter_ext_in. intros x _.
        destruct (String.eqb x k) eqn:E; cbn [negb andb]; [|reflexivity].
        apply String.eqb_eq in E. subst. rewrite Hk. reflexivity.
      + rewrite <- app_assoc. cbn [app]. do 2 f_equal. rewrite filter_filter.
        apply filter_ext_in. intros x _. rewrite mem_app. cbn [mem existsb].
        rewrite orb_false_r, negb_orb, andb_comm. reflexivity.
  Qed.

  Lemma set_NoDup k v d : NoDup (names d) -> NoDup (names (dict_set d k v)).
  Proof.
    intros H. rewrite names_set. destruct (mem k (names d)) eqn:E; [assumption|].
    apply mem_false in E. apply NoDup_app_intro; [assumption|repeat constructor; cbn; tauto|].
    intros x Hx [Hk|[]]. subst. contradiction.
  Qed.

  Lemma update_NoDup l d : NoDup (names d) -> NoDup (names (dict_update d l)).
  Proof.
    revert d. induction l as [|kv r IH]; intros d H; [assumption|].
    rewrite update_cons. apply IH, set_NoDup, H.
  Qed.

  (* two dicts with the same keys in the same order and the same values are equal *)
  Lemma dict_ext d1 d2 :
    names d1 = names d2 -> NoDup (names d1) ->
    (forall n, lookup n d1 = lookup n d2) -> d1 = d2.
  Proof.
    revert d2. induction d1 as [|[k v] r IH]; intros [|[k2 v2] r2]; cbn [names map fst];
      intros Hn Hd Hl; try discriminate; [reflexivity|].
    injection Hn as Hk Hr. subst k2. fold (names r) in *. fold (names r2) in *.
    inversion Hd as [|? ? Hk Hd']; subst.
    assert (v = v2).
    { specialize (Hl k). cbn [lookup] in Hl. rewrite String.eqb_refl in Hl. congruence. }
    subst v2. f_equal. apply IH; [assumption|assumption|].
    intros n. specialize (Hl n). cbn [lookup] in Hl. destruct (String.eqb k n) eqn:E.
    - apply String.eqb_eq in E. subst n.
      rewrite !lookup_not_in; [reflexivity|rewrite <- Hr|]; assumption.
    - assumption.
  Qed.

  (* ---- dedupe *)
  Theorem dedupe_names l : names (dedupe l) = first_occurrences (names l).
  Proof.
    unfold dedupe. rewrite update_names. cbn [names map app]. apply filter_id. reflexivity.
  Qed.

  Theorem dedupe_NoDup l : NoDup (names (dedupe l)).
  Proof. rewrite dedupe_names. apply first_occ_NoDup. Qed.

  Theorem dedupe_lookup n l : lookup n (dedupe l) = last_lookup n l.
  Proof. unfold dedupe. rewrite update_lookup. destruct (last_lookup n l); reflexivity. Qed.

  Theorem dedupe_spec l :
    NoDup (names (dedupe l)) /\
    names (dedupe l) = first_occurrences (names l) /\
    forall n, lookup n (dedupe l) = last_lookup n l.
  Proof. splits; [apply dedupe_NoDup|apply dedupe_names|intros; apply dedupe_lookup]. Qed.

  Lemma dedupe_In_names n l : In n (names (dedupe l)) <-> In n (names l).
  Proof. rewrite dedupe_names. apply first_occ_In. Qed.

  (* a list without duplicate names is left alone *)
  Lemma dedupe_NoDup_id l : NoDup (names l) -> dedupe l = l.
  Proof.
    intros H. apply dict_ext.
    - rewrite dedupe_names. apply first_occ_NoDup_id, H.
    - apply dedupe_NoDup.
    - intros n. rewrite dedupe_lookup. apply last_lookup_NoDup, H.
  Qed.

  Lemma dedupe_idem l : dedupe (dedupe l) = dedupe l.
  Proof. apply dedupe_NoDup_id, dedupe_NoDup. Qed.

  (* feeding a de-duplicated segment into a dict is the same as feeding the raw segment *)
  Lemma update_dedupe d l : NoDup (names d) -> dict_update d (dedupe l) = dict_update d l.
  Proof.
    intros H. apply dict_ext.
    - rewrite !update_names, dedupe_names, first_occ_idem. reflexivity.
    - apply update_NoDup, H.
    - intros n. rewrite !update_lookup.
      rewrite last_lookup_NoDup by apply dedupe_NoDup. rewrite dedupe_lookup. reflexivity.
  Qed.

  (* [l1] and [l2] have the same effect on every dict *)
  Definition same_effect l1 l2 : Prop :=
    forall d, NoDup (names d) -> dict_update d l1 = dict_update d l2.

  Lemma same_effect_refl l : same_effect l l.
  Proof. intros d _. reflexivity. Qed.

  Lemma same_effect_dedupe l : same_effect (dedupe l) l.
  Proof. intros d H. apply update_dedupe, H. Qed.

  Lemma same_effect_app a a' b b' :
    same_effect a a' -> same_effect b b' -> same_effect (a ++ b) (a' ++ b').
  Proof.
    intros Ha Hb d H. rewrite !update_app, (Ha d H). apply Hb, update_NoDup, H.
  Qed.

  Lemma same_effect_trans a b c : same_effect a b -> same_effect b c -> same_effect a c.
  Proof. intros H1 H2 d H. rewrite (H1 d H). apply H2, H. Qed.

  Lemma same_effect_dedupe_eq a b : same_effect a b -> dedupe a = dedupe b.
  Proof. intros H. apply H. constructor. Qed.

  Lemma dedupe_app_dedupe a b c : dedupe (a ++ dedupe b ++ c) = dedupe (a ++ b ++ c).
  Proof.
    apply same_effect_dedupe_eq. apply same_effect_app; [apply same_effect_refl|].
    apply same_effect_app; [apply same_effect_dedupe|apply same_effect_refl].
  Qed.
End DictP.

(* ================================================================== macros *)
Section MacroP.
  Variables P F V : Type.
  Notation field := (field P).
  Notation menv := (menv P F).
  Notation res := (result (list field * list F)).
  Implicit Types (env : menv) (parents ns : list string) (name : string).

  (* ---- incl_all *)
  Lemma incl_all_app (f : string -> res) ns1 ns2 :
    incl_all f (ns1 ++ ns2) =
    (do '(a, b) <- incl_all f ns1; do '(a', b') <- incl_all f ns2; Ok (a ++ a', b ++ b')).
  Proof.
    induction ns1 as [|n r IH]; cbn [app incl_all bind].
    - destruct (incl_all f ns2) as [[a b]|e]; reflexivity.
    - destruct (f n) as [[a b]|e]; cbn [bind]; [|reflexivity]. rewrite IH.
      destruct (incl_all f r) as [[a1 b1]|e]; cbn [bind]; [|reflexivity].
      destruct (incl_all f ns2) as [[a2 b2]|e]; cbn [bind]; [|reflexivity].
      rewrite !app_assoc. reflexivity.
  Qed.

  Lemma incl_all_err (f : string -> res) ns e :
    incl_all f ns = Err e -> exists n, In n ns /\ f n = Err e.
  Proof.
    induction ns as [|n r IH]; cbn [incl_all bind]; [discriminate|].
    destruct (f n) as [[a b]|e1] eqn:E; cbn [bind].
    - destruct (incl_all f r) as [[a1 b1]|e2]; cbn [bind]; [discriminate|].
      intros H. injection H as ->. destruct (IH eq_refl) as [x [Hx Hf]].
      exists x. cbn; auto.
    - intros H. injection H as ->. exists n. cbn; auto.
  Qed.

  Lemma incl_all_ok (f : string -> res) ns r :
    incl_all f ns = Ok r -> forall n, In n ns -> exists x, f n = Ok x.
  Proof.
    revert r. induction ns as [|n0 r0 IH]; cbn [incl_all bind In]; intros r H n Hn; [tauto|].
    destruct (f n0) as [[a b]|e1] eqn:E; cbn [bind] in H; [|discriminate].
    destruct (incl_all f r0) as [[a1 b1]|e2] eqn:E2; cbn [bind] in H; [|discriminate].
    destruct Hn as [->|Hn]; [eauto|]. eapply IH; [reflexivity|assumption].
  Qed.

  Lemma incl_all_has_err (f : string -> res) ns n e :
    In n ns -> f n = Err e -> exists e', incl_all f ns = Err e'.
  Proof.
    intros Hn Hf. destruct (incl_all f ns) as [r|e'] eqn:E; [|eauto].
    destruct (incl_all_ok _ _ E n Hn) as [x Hx]. congruence.
  Qed.

  Lemma incl_all_agree (f g : string -> res) ns :
    incl_all f ns <> Err OutOfFuel ->
    (forall n, f n <> Err OutOfFuel -> g n = f n) ->
    incl_all g ns = incl_all f ns.
  Proof.
    intros H Hfg. induction ns as [|n r IH]; cbn [incl_all bind] in *; [reflexivity|].
    destruct (f n) as [[a b]|e1] eqn:E; cbn [bind] in *.
    - rewrite (Hfg n) by (rewrite E; discriminate). rewrite E. cbn [bind].
      rewrite IH; [reflexivity|].
      intros C. rewrite C in H. cbn [bind] in H. congruence.
    - rewrite (Hfg n) by (rewrite E; assumption). rewrite E. reflexivity.
  Qed.

  (* ---- expand vs. flat: same errors, same friends, and field lists with the same effect *)
  Definition rel (r1 r2 : res) : Prop :=
    match r1, r2 with
    | Ok (fs, fr), Ok (raw, fr') => fr = fr' /\ same_effect fs raw
    | Err e, Err e' => e = e'
    | _, _ => False
    end.

  Lemma incl_all_rel (f g : string -> res) ns :
    (forall n, rel (f n) (g n)) -> rel (incl_all f ns) (incl_all g ns).
  Proof.
    intros H. induction ns as [|n r IH]; cbn [incl_all bind].
    - split; [reflexivity|apply same_effect_refl].
    - specialize (H n). unfold rel in H.
      destruct (f n) as [[a b]|e1], (g n) as [[a' b']|e1']; cbn [bind]; try contradiction.
      + unfold rel in IH.
        destruct (incl_all f r) as [[a1 b1]|e2], (incl_all g r) as [[a1' b1']|e2'];
          cbn [bind rel]; try contradiction; [|assumption].
        destruct H as [-> H], IH as [-> IH]. split; [reflexivity|].
        apply same_effect_app; assumption.
      + assumption.
  Qed.

  Lemma expand_flat fuel env parents name :
    rel (expand fuel env parents name) (flat fuel env parents name).
  Proof.
    revert parents name. induction fuel as [|k IH]; intros parents name; cbn [expand flat].
    - reflexivity.
    - destruct (find_macro name env) as [m|]; [|reflexivity].
      destruct (mem name parents); [reflexivity|].
      pose proof (incl_all_rel (expand k env (parents ++ [name])) (flat k env (parents ++ [name]))
                               (m_include m) (fun n => IH (parents ++ [name]) n)) as R.
      unfold rel in R.
      destruct (incl_all (expand k env (parents ++ [name])) (m_include m)) as [[a b]|e1],
               (incl_all (flat k env (parents ++ [name])) (m_include m)) as [[a' b']|e1'];
        cbn [bind rel]; try contradiction; [|assumption].
      destruct R as [-> R]. split; [reflexivity|].
      eapply same_effect_trans; [apply same_effect_dedupe|].
      apply same_effect_app; [assumption|apply same_effect_refl].
  Qed.

  Lemma expand_includes_flat env ns : rel (expand_includes env ns) (flat_includes env ns).
  Proof. apply incl_all_rel. intros n. apply expand_flat. Qed.

  (* ---- the template: macro fields first (raw, in inclusion order), own fields last, de-duplicated *)
  Theorem macro_inline_eq env t inc own fro :
    parse_stmt env (SObj t inc own fro) =
    (do '(raw, fr) <- flat_includes env inc; Ok (PObj t (dedupe (raw ++ own)) (fr ++ fro))).
  Proof.
    cbn [parse_stmt]. pose proof (expand_includes_flat env inc) as R. unfold rel in R.
    destruct (expand_includes env inc) as [[a b]|e1], (flat_includes env inc) as [[a' b']|e1'];
      cbn [bind]; try contradiction.
    - destruct R as [-> R]. do 2 f_equal.
      apply same_effect_dedupe_eq, same_effect_app; [assumption|apply same_effect_refl].
    - congruence.
  Qed.

  (* the same template with the expansion written inline and no `include` *)
  Theorem macro_inline_template env t inc own fro raw fr :
    flat_includes env inc = Ok (raw, fr) ->
    parse_stmt env (SObj t inc own fro) = parse_stmt env (SObj t [] (raw ++ own) (fr ++ fro)).
  Proof.
    intros H. rewrite !macro_inline_eq, H. reflexivity.
  Qed.

  Theorem macro_fields_spec env t inc own fro raw fr fs frs :
    flat_includes env inc = Ok (raw, fr) ->
    parse_stmt env (SObj t inc own fro) = Ok (PObj t fs frs) ->
    NoDup (names fs) /\
    names fs = first_occurrences (names raw ++ names own) /\
    (forall n, lookup n fs =
               match last_lookup n own with Some v => Some v | None => last_lookup n raw end) /\
    frs = fr ++ fro.
  Proof.
    intros H. rewrite macro_inline_eq, H. cbn [bind]. intros E. injection E as <- <-.
    splits.
    - apply dedupe_NoDup.
    - rewrite dedupe_names, names_app. reflexivity.
    - intros n. rewrite dedupe_lookup. apply last_lookup_app.
    - reflexivity.
  Qed.

  Theorem macro_disjoint_inline env t inc own fro raw fr :
    flat_includes env inc = Ok (raw, fr) -> NoDup (names (raw ++ own)) ->
    parse_stmt env (SObj t inc own fro) = Ok (PObj t (raw ++ own) (fr ++ fro)).
  Proof.
    intros H Hd. rewrite macro_inline_eq, H. cbn [bind]. rewrite dedupe_NoDup_id by assumption.
    reflexivity.
  Qed.

  (* including a, b, ... = the raw fields of a, then those of b, ... *)
  Theorem flat_includes_app env ns1 ns2 :
    flat_includes env (ns1 ++ ns2) =
    (do '(a, b) <- flat_includes env ns1; do '(a', b') <- flat_includes env ns2;
     Ok (a ++ a', b ++ b')).
  Proof. apply incl_all_app. Qed.

  (* ---- fuel *)
  Lemma expand_fuel_ok env fuel parents name :
    NoDup parents -> incl parents (names env) -> length env < fuel + length parents ->
    expand fuel env parents name <> Err OutOfFuel.
  Proof.
    revert parents name. induction fuel as [|k IH]; intros parents name Hd Hi Hl.
    - exfalso. pose proof (NoDup_incl_length Hd Hi) as L. unfold names in L.
      rewrite map_length in L. cbn in Hl. lia.
    - cbn [expand]. destruct (find_macro name env) as [m|] eqn:Hm; [|discriminate].
      destruct (mem name parents) eqn:Hp; [discriminate|].
      apply mem_false in Hp. apply last_lookup_In_names in Hm.
      destruct (incl_all (expand k env (parents ++ [name])) (m_include m)) as [[a b]|e] eqn:E;
        cbn [bind]; [discriminate|].
      intros C. injection C as ->. apply incl_all_err in E. destruct E as [n [_ E]].
      revert E. apply IH.
      + apply NoDup_app_intro; [assumption|repeat constructor; cbn; tauto|].
        intros x Hx [<-|[]]. contradiction.
      + intros x Hx. apply in_app_or in Hx. destruct Hx as [Hx|[<-|[]]]; auto.
      + rewrite app_length. cbn [length]. lia.
  Qed.

  Lemma expand_fuel_mono env fuel fuel' parents name :
    fuel <= fuel' -> expand fuel env parents name <> Err OutOfFuel ->
    expand fuel' env parents name = expand fuel env parents name.
  Proof.
    revert fuel' parents name. induction fuel as [|k IH]; intros fuel' parents name Hle H.
    - cbn in H. congruence.
    - destruct fuel' as [|k']; [lia|]. cbn [expand] in *.
      destruct (find_macro name env) as [m|]; [|reflexivity].
      destruct (mem name parents); [reflexivity|].
      rewrite (@incl_all_agree (expand k env (parents ++ [name])) (expand k' env (parents ++ [name]))).
      + reflexivity.
      + intros C. rewrite C in H. apply H. reflexivity.
      + intros n Hn. apply IH; [lia|assumption].
  Qed.

  Theorem expand_fuel_enough env fuel name :
    macro_fuel env <= fuel ->
    expand fuel env [] name = expand (macro_fuel env) env [] name /\
    expand (macro_fuel env) env [] name <> Err OutOfFuel.
  Proof.
    intros H.
    assert (expand (macro_fuel env) env [] name <> Err OutOfFuel) as N.
    { apply expand_fuel_ok; [constructor|intros x []|unfold macro_fuel; cbn; lia]. }
    split; [apply expand_fuel_mono; assumption|assumption].
  Qed.

  (* ---- error kinds *)
  Lemma expand_err_kind env fuel parents name e :
    expand fuel env parents name = Err e -> e = OutOfFuel \/ exists k, e = DGE k.
  Proof.
    revert parents name. induction fuel as [|k IH]; intros parents name; cbn [expand].
    - intros H. injection H as <-. auto.
    - destruct (find_macro name env) as [m|]; [|intros H; injection H as <-; eauto].
      destruct (mem name parents); [intros H; injection H as <-; eauto|].
      destruct (incl_all (expand k env (parents ++ [name])) (m_include m)) as [[a b]|e1] eqn:E;
        cbn [bind]; [discriminate|].
      intros H. injection H as ->. apply incl_all_err in E. destruct E as [n [_ E]].
      eapply IH, E.
  Qed.

  Lemma expand_includes_err env ns e :
    expand_includes env ns = Err e -> exists k, e = DGE k.
  Proof.
    intros H. apply incl_all_err in H. destruct H as [n [_ H]].
    destruct (expand_err_kind _ _ _ _ H) as [->|K]; [|assumption].
    exfalso. destruct (@expand_fuel_enough env (macro_fuel env) n (le_n _)) as [_ N]. exact (N H).
  Qed.

  Theorem parse_stmt_err env s e : parse_stmt env s = Err e -> exists k, e = DGE k.
  Proof.
    destruct s as [t inc own fro|n v]; cbn [parse_stmt]; [|discriminate].
    destruct (expand_includes env inc) as [[a b]|e1] eqn:E; cbn [bind]; [discriminate|].
    intros H. injection H as ->. eapply expand_includes_err, E.
  Qed.

  (* ---- unknown macro *)
  Theorem macro_unknown_rejected env t inc own fro n :
    In n inc -> find_macro n env = None ->
    exists k, parse_stmt env (SObj t inc own fro) = Err (DGE k).
  Proof.
    intros Hn Hf.
    assert (expand (macro_fuel env) env [] n = Err (DGE "Cannot find macro")) as E.
    { unfold macro_fuel. cbn [expand]. rewrite Hf. reflexivity. }
    destruct (incl_all_has_err _ _ _ Hn E) as [e' E'].
    destruct (expand_includes_err _ _ E') as [k ->].
    exists k. cbn [parse_stmt]. unfold expand_includes. rewrite E'. reflexivity.
  Qed.

  (* ---- cycles *)
  Definition calls env (a b : string) : Prop :=
    exists m, find_macro a env = Some m /\ In b (m_include m).

  (* there is a sequence of n successive `include`s starting at macro a *)
  Inductive chain env : nat -> string -> Prop :=
  | chain_O a : chain env O a
  | chain_S n a b : calls env a b -> chain env n b -> chain env (S n) a.

  Lemma expand_ok_no_chain env fuel parents a r :
    expand fuel env parents a = Ok r -> ~ chain env fuel a.
  Proof.
    revert parents a r. induction fuel as [|k IH]; intros parents a r; cbn [expand].
    - discriminate.
    - destruct (find_macro a env) as [m|] eqn:Hm; [|discriminate].
      destruct (mem a parents); [discriminate|].
      destruct (incl_all (expand k env (parents ++ [a])) (m_include m)) as [x|e1] eqn:E;
        [|discriminate].
      intros _ C. inversion C as [|n a' b [m' [Hm' Hb]] Hc]; subst.
      rewrite Hm in Hm'. injection Hm' as <-.
      destruct (incl_all_ok _ _ E b Hb) as [y Hy]. eapply IH; eassumption.
  Qed.

  Lemma cycle_chain env a :
    clos_trans _ (calls env) a a ->
    forall n x, clos_refl_trans _ (calls env) x a -> chain env n x.
  Proof.
    intros Hc.
    assert (exists b, calls env a b /\ clos_refl_trans _ (calls env) b a) as [b [Hab Hba]].
    { apply clos_trans_t1n in Hc. inversion Hc as [y H|y z H H2]; subst.
      - exists a. split; [assumption|apply rt_refl].
      - exists y. split; [assumption|]. apply clos_t1n_trans in H2.
        clear - H2. induction H2; [apply rt_step; assumption|eapply rt_trans; eassumption]. }
    induction n as [|n IH]; intros x Hx; [constructor|].
    apply clos_rt_rt1n in Hx. inversion Hx as [|y z Hxy Hya]; subst.
    - econstructor; [exact Hab|]. apply IH. assumption.
    - econstructor; [exact Hxy|]. apply IH. apply clos_rt1n_rt. assumption.
  Qed.

  Theorem macro_cycle_rejected env t inc own fro n0 a :
    In n0 inc -> clos_refl_trans _ (calls env) n0 a -> clos_trans _ (calls env) a a ->
    exists k, parse_stmt env (SObj t inc own fro) = Err (DGE k).
  Proof.
    intros Hn Hr Hc. cbn [parse_stmt].
    destruct (expand_includes env inc) as [r|e] eqn:E.
    - exfalso. destruct (incl_all_ok _ _ E n0 Hn) as [x Hx].
      apply (expand_ok_no_chain _ Hx). apply (cycle_chain Hc). assumption.
    - destruct (expand_includes_err _ _ E) as [k ->]. exists k. reflexivity.
  Qed.

  (* ---- statements *)
  Lemma parse_stmts_app env l1 l2 :
    parse_stmts env (l1 ++ l2) =
    (do a <- parse_stmts env l1; do b <- parse_stmts env l2; Ok (a ++ b)).
  Proof.
    induction l1 as [|s r IH]; cbn [app parse_stmts bind].
    - destruct (parse_stmts env l2); reflexivity.
    - destruct (parse_stmt env s); cbn [bind]; [|reflexivity]. rewrite IH.
      destruct (parse_stmts env r); cbn [bind]; [|reflexivity].
      destruct (parse_stmts env l2); reflexivity.
  Qed.

  (* ================================================================== files *)
  Notation file := (file P F V).
  Notation optdecl := (optdecl V).

  Lemma flatten_unfold (incs : list (option file)) (opts : list optdecl) macs stmts :
    flatten (File incs opts macs stmts) =
    (do '(s, o, m) <- flatten_incs incs; Ok (s ++ stmts, o ++ opts, m ++ macs)).
  Proof.
    reflexivity.
  Qed.

  Theorem include_prepend g (incs : list (option file)) (opts : list optdecl) macs stmts :
    flatten (File (Some g :: incs) opts macs stmts) =
    (do '(s1, o1, m1) <- flatten g;
     do '(s2, o2, m2) <- flatten (File incs opts macs stmts);
     Ok (s1 ++ s2, o1 ++ o2, m1 ++ m2)).
  Proof.
    rewrite !flatten_unfold. cbn [flatten_incs].
    destruct (flatten g) as [[[s1 o1] m1]|e]; cbn [bind]; [|reflexivity].
    destruct (flatten_incs incs) as [[[s2 o2] m2]|e]; cbn [bind]; [|reflexivity].
    rewrite !app_assoc. reflexivity.
  Qed.

  Lemma flatten_incs_snoc (incs : list (option file)) g :
    flatten_incs (incs ++ [Some g]) =
    (do '(s1, o1, m1) <- flatten_incs incs; do '(s2, o2, m2) <- flatten g;
     Ok (s1 ++ s2, o1 ++ o2, m1 ++ m2)).
  Proof.
    induction incs as [|[h|] r IH]; cbn [app flatten_incs bind].
    - destruct (flatten g) as [[[s o] m]|e]; cbn [bind]; [|reflexivity].
      rewrite !app_nil_r. reflexivity.
    - destruct (flatten h) as [[[s o] m]|e]; cbn [bind]; [|reflexivity]. rewrite IH.
      destruct (flatten_incs r) as [[[s1 o1] m1]|e]; cbn [bind]; [|reflexivity].
      destruct (flatten g) as [[[s2 o2] m2]|e]; cbn [bind]; [|reflexivity].
      rewrite !app_assoc. reflexivity.
    - reflexivity.
  Qed.

  (* the content of the last included file, written at the top of the including file *)
  Theorem include_last_inline (incs : list (option file)) g (opts : list optdecl) macs stmts s1 o1 m1 :
    flatten g = Ok (s1, o1, m1) ->
    flatten (File (incs ++ [Some g]) opts macs stmts) =
    flatten (File incs (o1 ++ opts) (m1 ++ macs) (s1 ++ stmts)).
  Proof.
    intros H. rewrite !flatten_unfold, flatten_incs_snoc, H.
    destruct (flatten_incs incs) as [[[s o] m]|e]; cbn [bind]; [|reflexivity].
    rewrite !app_assoc. reflexivity.
  Qed.

  Theorem parse_recipe_flatten (f1 f2 : file) :
    flatten f1 = flatten f2 -> parse_recipe f1 = parse_recipe f2.
  Proof. unfold parse_recipe. intros ->. reflexivity. Qed.

  (* a recipe is equivalent to the single file holding its flattened content *)
  Theorem parse_recipe_single_file (f : file) s o m :
    flatten f = Ok (s, o, m) -> parse_recipe f = parse_recipe (File [] o m s).
  Proof. unfold parse_recipe. intros ->. cbn. reflexivity. Qed.

  (* ================================================================== options *)
  Definition opt_value (user : dict V) (d : optdecl) : option V :=
    match lookup (o_name d) user with Some v => Some v | None => o_default d end.

  Lemma last_decl_In n (decls : list optdecl) d :
    last_decl n decls = Some d -> In d decls /\ o_name d = n.
  Proof.
    induction decls as [|d0 r IH]; cbn [last_decl In]; [discriminate|].
    destruct (last_decl n r) as [x|].
    - intros H. injection H as ->. destruct (IH eq_refl). auto.
    - destruct (String.eqb (o_name d0) n) eqn:E; [|discriminate].
      intros H. injection H as ->. apply String.eqb_eq in E. auto.
  Qed.

  Lemma last_decl_declared n (decls : list optdecl) :
    In n (map (@o_name V) decls) -> exists d, last_decl n decls = Some d.
  Proof.
    induction decls as [|d0 r IH]; cbn [last_decl map In]; [tauto|].
    intros [H|H].
    - destruct (last_decl n r); [eauto|]. rewrite H, String.eqb_refl. eauto.
    - destruct (IH H) as [d ->]. eauto.
  Qed.

  Lemma last_decl_unique (decls : list optdecl) d :
    NoDup (map (@o_name V) decls) -> In d decls -> last_decl (o_name d) decls = Some d.
  Proof.
    induction decls as [|d0 r IH]; cbn [last_decl map In]; [tauto|].
    intros Hd [->|H]; inversion Hd as [|? ? Hn Hr]; subst.
    - destruct (last_decl (o_name d) r) as [x|] eqn:E.
      + apply last_decl_In in E. destruct E as [Hx Hnx]. exfalso. apply Hn.
        rewrite <- Hnx. apply in_map. assumption.
      + rewrite String.eqb_refl. reflexivity.
    - rewrite IH by assumption. reflexivity.
  Qed.

  Lemma merge_loop_value (decls : list optdecl) user o0 o n :
    merge_loop decls user o0 = Ok o ->
    lookup n o = match last_decl n decls with
                 | Some d => opt_value user d
                 | None => lookup n o0
                 end.
  Proof.
    revert o0. induction decls as [|d r IH]; intros o0; cbn [merge_loop last_decl].
    - intros H. injection H as ->. reflexivity.
    - destruct (lookup (o_name d) user) as [v|] eqn:Eu.
      + intros H. rewrite (IH _ H). destruct (last_decl n r); [reflexivity|].
        rewrite lookup_set. destruct (String.eqb (o_name d) n); [|reflexivity].
        unfold opt_value. rewrite Eu. reflexivity.
      + destruct (o_default d) as [v|] eqn:Ed; [|discriminate].
        intros H. rewrite (IH _ H). destruct (last_decl n r); [reflexivity|].
        rewrite lookup_set. destruct (String.eqb (o_name d) n); [|reflexivity].
        unfold opt_value. rewrite Eu, Ed. reflexivity.
  Qed.

  Lemma merge_loop_err (decls : list optdecl) user o0 e :
    merge_loop decls user o0 = Err e ->
    (exists k, e = DGE k) /\
    exists d, In d decls /\ lookup (o_name d) user = None /\ o_default d = None.
  Proof.
    revert o0. induction decls as [|d r IH]; intros o0; cbn [merge_loop In]; [discriminate|].
    destruct (lookup (o_name d) user) as [v|] eqn:Eu.
    - intros H. destruct (IH _ H) as [K [d' [Hin Hd']]]. split; [assumption|]. exists d'. auto.
    - destruct (o_default d) as [v|] eqn:Ed.
      + intros H. destruct (IH _ H) as [K [d' [Hin Hd']]]. split; [assumption|]. exists d'. auto.
      + intros H. injection H as <-. split; [eauto|]. exists d. auto.
  Qed.

  Lemma merge_loop_ok (decls : list optdecl) user o0 :
    (forall d, In d decls -> opt_value user d <> None) ->
    exists o, merge_loop decls user o0 = Ok o.
  Proof.
    revert o0. induction decls as [|d r IH]; intros o0 H; cbn [merge_loop]; [eauto|].
    pose proof (H d (or_introl eq_refl)) as Hd. unfold opt_value in Hd.
    destruct (lookup (o_name d) user) as [v|].
    - apply IH. intros d' Hd'. apply H. cbn; auto.
    - destruct (o_default d) as [v|]; [|congruence].
      apply IH. intros d' Hd'. apply H. cbn; auto.
  Qed.

  Theorem option_value (decls : list optdecl) user plugin o extra n d :
    merge_options decls user plugin = Ok (o, extra) ->
    last_decl n decls = Some d ->
    lookup n o = match lookup n user with Some v => Some v | None => o_default d end.
  Proof.
    unfold merge_options. destruct (merge_loop decls user plugin) as [o'|e] eqn:E; cbn [bind];
      [|discriminate].
    intros H Hd. injection H as -> _. rewrite (merge_loop_value _ _ _ n E), Hd.
    unfold opt_value. destruct (last_decl_In _ _ Hd) as [_ ->]. reflexivity.
  Qed.

  Theorem option_user_wins (decls : list optdecl) user plugin o extra n v :
    merge_options decls user plugin = Ok (o, extra) ->
    In n (map (@o_name V) decls) -> lookup n user = Some v -> lookup n o = Some v.
  Proof.
    intros H Hn Hu. destruct (last_decl_declared _ _ Hn) as [d Hd].
    rewrite (@option_value _ _ _ _ _ _ _ H Hd), Hu. reflexivity.
  Qed.

  Theorem option_error_iff (decls : list optdecl) user plugin :
    (exists e, merge_options decls user plugin = Err e) <->
    (exists d, In d decls /\ lookup (o_name d) user = None /\ o_default d = None).
  Proof.
    unfold merge_options. split.
    - intros [e H]. destruct (merge_loop decls user plugin) as [o'|e'] eqn:E; cbn [bind] in H;
        [discriminate|].
      apply merge_loop_err in E. tauto.
    - intros [d [Hin [Hu Hd]]].
      destruct (merge_loop decls user plugin) as [o'|e'] eqn:E; cbn [bind]; [|eauto].
      exfalso. revert plugin E. induction decls as [|d0 r IH]; intros o0 E; [destruct Hin|].
      cbn [merge_loop] in E. destruct Hin as [->|Hin].
      + rewrite Hu, Hd in E. discriminate.
      + destruct (lookup (o_name d0) user); [eapply IH; eassumption|].
        destruct (o_default d0); [eapply IH; eassumption|discriminate].
  Qed.

  Theorem option_error_kind (decls : list optdecl) user plugin e :
    merge_options decls user plugin = Err e -> exists k, e = DGE k.
  Proof.
    unfold merge_options. destruct (merge_loop decls user plugin) as [o'|e'] eqn:E; cbn [bind];
      [discriminate|].
    intros H. injection H as ->. apply merge_loop_err in E. tauto.
  Qed.

  Theorem option_extras (decls : list optdecl) user plugin o extra k :
    merge_options decls user plugin = Ok (o, extra) ->
    (In k extra <-> In k (names user) /\ ~ In k (names o)).
  Proof.
    unfold merge_options. destruct (merge_loop decls user plugin) as [o'|e'] eqn:E; cbn [bind];
      [|discriminate].
    intros H. injection H as -> <-. rewrite filter_In. cbn beta.
    rewrite negb_true_iff, mem_false. tauto.
  Qed.
End MacroP.

(* ================================================================== names seen by formulas *)
Section NamespaceP.
  Variable V : Type.
  Notation scopes := (scopes V).
  Implicit Types (s : scopes) (n : string).

  Definition pick (a b : option V) : option V := match a with Some x => Some x | None => b end.

  (* ${{n}}: the closest scope that defines n wins
     (functions > variables > plugins > row fields > object names > options > built-in names) *)
  Theorem resolve_spec n s :
    resolve n s =
    pick (last_lookup n (sc_funcs s)) (pick (last_lookup n (sc_vars s))
    (pick (last_lookup n (sc_plugins s)) (pick (last_lookup n (sc_fields s))
    (pick (last_lookup n (sc_objects s)) (pick (last_lookup n (sc_options s))
    (last_lookup n (sc_builtins s))))))).
  Proof.
    unfold resolve, field_vars, merge_dicts, layers. cbn [fold_left].
    rewrite !update_lookup. cbn [lookup]. unfold pick.
    destruct (last_lookup n (sc_builtins s)); reflexivity.
  Qed.

  Theorem resolve_not_closer n s :
    ~ closer_defines n s ->
    resolve n s = pick (last_lookup n (sc_options s)) (last_lookup n (sc_builtins s)).
  Proof.
    intros H. rewrite resolve_spec. unfold closer_defines in H.
    destruct (last_lookup n (sc_funcs s)); [exfalso; apply H; do 4 right; discriminate|].
    destruct (last_lookup n (sc_vars s)); [exfalso; apply H; do 3 right; left; discriminate|].
    destruct (last_lookup n (sc_plugins s)); [exfalso; apply H; do 2 right; left; discriminate|].
    destruct (last_lookup n (sc_fields s)); [exfalso; apply H; right; left; discriminate|].
    destruct (last_lookup n (sc_objects s)); [exfalso; apply H; left; discriminate|].
    reflexivity.
  Qed.

  (* a defined option hides the built-in name of the same spelling, whatever its value *)
  Theorem resolve_option_over_builtin n s v :
    ~ closer_defines n s -> last_lookup n (sc_options s) = Some v -> resolve n s = Some v.
  Proof. intros H E. rewrite (resolve_not_closer H), E. reflexivity. Qed.

  Lemma closer_with_options n s o : closer_defines n (with_options s o) <-> closer_defines n s.
  Proof. unfold closer_defines, with_options. cbn. tauto. Qed.

  Lemma merge_loop_NoDup (decls : list (optdecl V)) user o0 o :
    NoDup (names o0) -> merge_loop decls user o0 = Ok o -> NoDup (names o).
  Proof.
    revert o0. induction decls as [|d r IH]; intros o0 Hd; cbn [merge_loop].
    - intros H. injection H as <-. assumption.
    - destruct (lookup (o_name d) user) as [v|].
      + apply IH, set_NoDup, Hd.
      + destruct (o_default d) as [v|]; [|discriminate]. apply IH, set_NoDup, Hd.
  Qed.

  (* the options of a run, as ${{name}} sees them *)
  Theorem option_seen (decls : list (optdecl V)) user plugin o extra n d s :
    merge_options decls user plugin = Ok (o, extra) -> NoDup (names plugin) ->
    last_decl n decls = Some d -> ~ closer_defines n s ->
    resolve n (with_options s o) =
    match lookup n user with Some v => Some v | None => o_default d end /\
    resolve n (with_options s o) <> None.
  Proof.
    intros H Hp Hd Hc.
    assert (NoDup (names o)) as No.
    { unfold merge_options in H.
      destruct (merge_loop decls user plugin) as [o'|e] eqn:E; cbn [bind] in H; [|discriminate].
      injection H as <- _. eapply merge_loop_NoDup; eassumption. }
    pose proof (option_value _ _ _ _ H Hd) as Hv.
    assert (lookup n o <> None) as Some_o.
    { rewrite Hv. destruct (lookup n user) as [v|] eqn:Eu; [discriminate|].
      destruct (o_default d) eqn:Ed; [discriminate|].
      (* neither user value nor default: the merge would have failed *)
      exfalso. destruct (last_decl_In _ _ Hd) as [Hin Hname].
      assert (exists e, merge_options decls user plugin = Err e) as [e C].
      { apply option_error_iff. exists d. rewrite Hname. auto. }
      rewrite C in H. discriminate H. }
    assert (resolve n (with_options s o) = lookup n o) as R.
    { rewrite resolve_not_closer by (rewrite closer_with_options; assumption).
      cbn [with_options sc_options sc_builtins]. rewrite (last_lookup_NoDup _ _ No).
      unfold pick. destruct (lookup n o); [reflexivity|congruence]. }
    rewrite R. split; [assumption|assumption].
  Qed.
End NamespaceP.

(* ================================================================== include files on disk *)
Lemma path_eqb_eq (a b : path) : path_eqb a b = true <-> a = b.
Proof.
  unfold path_eqb. revert b. induction a as [|x a IH]; intros [|y b]; cbn [list_eqb];
    try (split; [discriminate|discriminate]); [tauto|].
  rewrite andb_true_iff, String.eqb_eq, IH. split; [intros [-> ->]; reflexivity|].
  intros H. injection H as -> ->. auto.
Qed.

Lemma path_eqb_refl (a : path) : path_eqb a a = true.
Proof. apply path_eqb_eq. reflexivity. Qed.

Lemma path_eqb_neq (a b : path) : path_eqb a b = false <-> a <> b.
Proof.
  split.
  - intros H E. apply path_eqb_eq in E. congruence.
  - intros H. destruct (path_eqb a b) eqn:E; [|reflexivity]. apply path_eqb_eq in E. contradiction.
Qed.

Lemma mem_path_In (p : path) l : mem_path p l = true <-> In p l.
Proof.
  unfold mem_path. rewrite existsb_exists. split.
  - intros [x [Hx E]]. apply path_eqb_eq in E. subst. assumption.
  - intros H. exists p. split; [assumption|apply path_eqb_refl].
Qed.

Lemma mem_path_false (p : path) l : mem_path p l = false <-> ~ In p l.
Proof.
  rewrite <- mem_path_In. destruct (mem_path p l); split; intros; try congruence; tauto.
Qed.

Section FsP.
  Variables P F V : Type.
  Notation fsys := (fsys P F V).
  Notation fsfile := (fsfile P F V).
  Notation flat3 := (flat3 P F V).
  Notation file := (file P F V).
  Implicit Types (fs : fsys) (p q : path) (stack : list path).

  Lemma fs_lookup_In p fs f : fs_lookup p fs = Some f -> In p (fs_paths fs).
  Proof.
    induction fs as [|[q g] r IH]; cbn [fs_lookup fs_paths map fst In]; [discriminate|].
    destruct (path_eqb q p) eqn:E.
    - apply path_eqb_eq in E. auto.
    - intros H. right. apply IH. assumption.
  Qed.

  (* ---- fs_incs *)
  (* what the loop over the include_file lines of file p guarantees about each line *)
  Definition inc_ok fs p stack (rel : list string) q : Prop :=
    resolve_include fs p rel = WPath q /\ fs_lookup q fs <> None /\ q <> p /\ ~ In q stack.

  Lemma fs_incs_ok {A} fs p stack (rec : path -> result A) l parts :
    fs_incs fs p stack rec l = Ok parts ->
    forall rel, In rel l -> exists q a, inc_ok fs p stack rel q /\ rec q = Ok a.
  Proof.
    revert parts. induction l as [|rel0 r IH]; intros parts; cbn [fs_incs In]; [tauto|].
    destruct (resolve_include fs p rel0) as [q| |] eqn:W; try discriminate.
    destruct (fs_lookup q fs) as [g|] eqn:L; [|discriminate].
    destruct (path_eqb q p) eqn:E1; [discriminate|].
    destruct (mem_path q stack) eqn:E2; [discriminate|]. cbn [orb].
    destruct (rec q) as [a|e] eqn:R; cbn [bind]; [|discriminate].
    destruct (fs_incs fs p stack rec r) as [rest|e] eqn:Rest; cbn [bind]; [|discriminate].
    intros _ rel [<-|Hin].
    - exists q, a. split; [|assumption]. unfold inc_ok. rewrite L.
      apply path_eqb_neq in E1. apply mem_path_false in E2. splits; auto; discriminate.
    - eapply IH; [reflexivity|assumption].
  Qed.

  Lemma fs_incs_err {A} fs p stack (rec : path -> result A) l e :
    fs_incs fs p stack rec l = Err e ->
    e = Unsupported \/ (exists k, e = DGE k) \/
    exists rel q, In rel l /\ inc_ok fs p stack rel q /\ rec q = Err e.
  Proof.
    induction l as [|rel0 r IH]; cbn [fs_incs In]; [discriminate|].
    destruct (resolve_include fs p rel0) as [q| |] eqn:W;
      [|intros H; injection H as <-; eauto|intros H; injection H as <-; eauto].
    destruct (fs_lookup q fs) as [g|] eqn:L; [|intros H; injection H as <-; eauto].
    destruct (path_eqb q p) eqn:E1; [intros H; injection H as <-; eauto|].
    destruct (mem_path q stack) eqn:E2; [intros H; injection H as <-; eauto|]. cbn [orb].
    assert (inc_ok fs p stack rel0 q) as OK.
    { unfold inc_ok. rewrite L. apply path_eqb_neq in E1. apply mem_path_false in E2.
      splits; auto; discriminate. }
    destruct (rec q) as [a|e1] eqn:R; cbn [bind].
    - destruct (fs_incs fs p stack rec r) as [rest|e2] eqn:Rest; cbn [bind]; [discriminate|].
      intros H. injection H as ->. destruct (IH eq_refl) as [?|[?|[rel [q' [Hin H']]]]]; auto.
      right. right. exists rel, q'. auto.
    - intros H. injection H as ->. right. right. exists rel0, q. auto.
  Qed.

  Lemma fs_incs_agree {A} fs p stack (f g : path -> result A) l :
    fs_incs fs p stack f l <> Err OutOfFuel ->
    (forall rel q, In rel l -> inc_ok fs p stack rel q -> f q <> Err OutOfFuel -> g q = f q) ->
    fs_incs fs p stack g l = fs_incs fs p stack f l.
  Proof.
    induction l as [|rel0 r IH]; cbn [fs_incs In]; [reflexivity|]. intros H Hfg.
    destruct (resolve_include fs p rel0) as [q| |] eqn:W; try reflexivity.
    destruct (fs_lookup q fs) as [x|] eqn:L; [|reflexivity].
    destruct (path_eqb q p) eqn:E1; [reflexivity|].
    destruct (mem_path q stack) eqn:E2; [reflexivity|]. cbn [orb] in *.
    assert (inc_ok fs p stack rel0 q) as OK.
    { unfold inc_ok. rewrite L. apply path_eqb_neq in E1. apply mem_path_false in E2.
      splits; auto; discriminate. }
    destruct (f q) as [a|e1] eqn:R; cbn [bind] in *.
    - rewrite (Hfg rel0 q (or_introl eq_refl) OK) by (rewrite R; discriminate). rewrite R. cbn [bind].
      rewrite IH; [reflexivity| |].
      + intros C. rewrite C in H. cbn [bind] in H. congruence.
      + intros rel q' Hin. apply Hfg. auto.
    - rewrite (Hfg rel0 q (or_introl eq_refl) OK) by (rewrite R; intros C; apply H; injection C as ->; reflexivity). rewrite R. reflexivity.
  Qed.

  (* ---- fuel: S (number of files) is enough, the nesting depth is bounded by the stack check *)
  Lemma fs_fuel_ok fs fuel stack p :
    NoDup stack -> incl stack (fs_paths fs) -> ~ In p stack ->
    length fs < fuel + length stack ->
    fs_flatten fuel fs stack p <> Err OutOfFuel.
  Proof.
    revert stack p. induction fuel as [|k IH]; intros stack p Hd Hi Hp Hl.
    - exfalso. pose proof (NoDup_incl_length Hd Hi) as L. unfold fs_paths in L.
      rewrite map_length in L. cbn in Hl. lia.
    - cbn [fs_flatten]. destruct (fs_lookup p fs) as [[incs opts macs stmts]|] eqn:Lp; [|discriminate].
      destruct (fs_incs fs p stack (fs_flatten k fs (stack ++ [p])) incs) as [parts|e] eqn:E;
        cbn [bind].
      + destruct (concat3 parts) as [[s o] m]. discriminate.
      + intros C. injection C as ->. apply fs_incs_err in E.
        destruct E as [E|[[x E]|[rel [q [_ [[_ [_ [Hqp Hqs]]] E]]]]]]; try discriminate.
        revert E. apply IH.
        * apply NoDup_app_intro; [assumption|repeat constructor; cbn; tauto|].
          intros x Hx [<-|[]]. contradiction.
        * intros x Hx. apply in_app_or in Hx. destruct Hx as [Hx|[<-|[]]]; [auto|].
          eapply fs_lookup_In, Lp.
        * intros Hx. apply in_app_or in Hx. destruct Hx as [Hx|[Hx|[]]]; [contradiction|].
          congruence.
        * rewrite app_length. cbn [length]. lia.
  Qed.

  Lemma fs_fuel_mono fs fuel fuel' stack p :
    fuel <= fuel' -> fs_flatten fuel fs stack p <> Err OutOfFuel ->
    fs_flatten fuel' fs stack p = fs_flatten fuel fs stack p.
  Proof.
    revert fuel' stack p. induction fuel as [|k IH]; intros fuel' stack p Hle H.
    - cbn in H. congruence.
    - destruct fuel' as [|k']; [lia|]. cbn [fs_flatten] in *.
      destruct (fs_lookup p fs) as [[incs opts macs stmts]|]; [|reflexivity].
      rewrite (@fs_incs_agree _ fs p stack (fs_flatten k fs (stack ++ [p]))
                              (fs_flatten k' fs (stack ++ [p]))).
      + reflexivity.
      + intros C. rewrite C in H. apply H. reflexivity.
      + intros rel q _ _ Hn. apply IH; [lia|assumption].
  Qed.

  Theorem fs_fuel_enough fs fuel p :
    fs_fuel fs <= fuel ->
    fs_flatten fuel fs [] p = fs_flatten (fs_fuel fs) fs [] p /\
    fs_flatten (fs_fuel fs) fs [] p <> Err OutOfFuel.
  Proof.
    intros H.
    assert (fs_flatten (fs_fuel fs) fs [] p <> Err OutOfFuel) as N.
    { apply fs_fuel_ok; [constructor|intros x []|intros []|unfold fs_fuel; cbn; lia]. }
    split; [apply fs_fuel_mono; assumption|assumption].
  Qed.

  (* ---- error kinds *)
  Lemma fs_flatten_err_kind fs fuel stack p e :
    fs_flatten fuel fs stack p = Err e ->
    e = OutOfFuel \/ e = Unsupported \/ exists k, e = DGE k.
  Proof.
    revert stack p. induction fuel as [|k IH]; intros stack p; cbn [fs_flatten].
    - intros H. injection H as <-. auto.
    - destruct (fs_lookup p fs) as [[incs opts macs stmts]|]; [|intros H; injection H as <-; eauto].
      destruct (fs_incs fs p stack (fs_flatten k fs (stack ++ [p])) incs) as [parts|e1] eqn:E;
        cbn [bind].
      + destruct (concat3 parts) as [[s o] m]. discriminate.
      + intros H. injection H as ->. apply fs_incs_err in E.
        destruct E as [E|[E|[rel [q [_ [_ E]]]]]]; auto. eapply IH, E.
  Qed.

  Lemma parse_stmts_err (m : menv P F) (s : list (stmt P F)) e :
    parse_stmts m s = Err e -> exists k, e = DGE k.
  Proof.
    induction s as [|st r IH]; cbn [parse_stmts]; [discriminate|].
    destruct (parse_stmt m st) as [x|e3] eqn:E3; cbn [bind].
    - destruct (parse_stmts m r) as [y|e4]; cbn [bind]; [discriminate|].
      intros H. injection H as ->. apply IH. reflexivity.
    - intros H. injection H as ->. eapply parse_stmt_err, E3.
  Qed.

  (* parse_recipe on a file system ends, and fails only with a recipe error (or because an
     include_file path leaves the modelled directory) *)
  Theorem fs_parse_recipe_err fs main e :
    fs_parse_recipe fs main = Err e -> e = Unsupported \/ exists k, e = DGE k.
  Proof.
    unfold fs_parse_recipe.
    destruct (fs_flatten (fs_fuel fs) fs [] main) as [[[s o] m]|e1] eqn:E; cbn [bind].
    - destruct (parse_stmts m s) as [ps|e2] eqn:E2; cbn [bind]; [discriminate|].
      intros H. injection H as ->. right. eapply parse_stmts_err, E2.
    - intros H. injection H as ->.
      destruct (fs_flatten_err_kind _ _ _ _ E) as [->|[->|K]]; auto.
      exfalso. destruct (@fs_fuel_enough fs (fs_fuel fs) main (le_n _)) as [_ N]. exact (N E).
  Qed.

  (* ---- refinement: following the include_file lines on disk = flattening the tree they unfold to *)
  Lemma concat3_incs (gs : list file) parts :
    Forall2 (fun g part => flatten g = Ok part) gs parts ->
    flatten_incs (map Some gs) = Ok (concat3 parts).
  Proof.
    induction 1 as [|g part gs parts Hg _ IH]; cbn [map flatten_incs concat3]; [reflexivity|].
    rewrite Hg. destruct part as [[s1 o1] m1]. cbn [bind]. rewrite IH.
    destruct (concat3 parts) as [[s2 o2] m2]. reflexivity.
  Qed.

  Definition refines (t : result file) (fl : result flat3) : Prop :=
    match t with
    | Ok g => exists part, flatten g = Ok part /\ fl = Ok part
    | Err e => fl = Err e
    end.

  Lemma fs_incs_refines fs p stack (t : path -> result file) (fl : path -> result flat3) l :
    (forall q, refines (t q) (fl q)) ->
    match fs_incs fs p stack t l with
    | Ok gs => exists parts, fs_incs fs p stack fl l = Ok parts /\
                             Forall2 (fun g part => flatten g = Ok part) gs parts
    | Err e => fs_incs fs p stack fl l = Err e
    end.
  Proof.
    intros H. induction l as [|rel0 r IH]; cbn [fs_incs].
    - exists []. split; [reflexivity|constructor].
    - destruct (resolve_include fs p rel0) as [q| |]; try reflexivity.
      destruct (fs_lookup q fs); [|reflexivity].
      destruct (path_eqb q p || mem_path q stack); [reflexivity|].
      specialize (H q). unfold refines in H.
      destruct (t q) as [g|e]; cbn [bind].
      + destruct H as [part [Hg ->]]. cbn [bind].
        destruct (fs_incs fs p stack t r) as [gs|e]; cbn [bind].
        * destruct IH as [parts [-> Hf]]. cbn [bind]. exists (part :: parts).
          split; [reflexivity|constructor; assumption].
        * rewrite IH. reflexivity.
      + rewrite H. reflexivity.
  Qed.

  Lemma fs_tree_refines fs fuel stack p :
    refines (fs_tree fuel fs stack p) (fs_flatten fuel fs stack p).
  Proof.
    revert stack p. induction fuel as [|k IH]; intros stack p; cbn [fs_tree fs_flatten refines].
    - reflexivity.
    - destruct (fs_lookup p fs) as [[incs opts macs stmts]|]; [|reflexivity].
      pose proof (fs_incs_refines fs p stack (fs_tree k fs (stack ++ [p]))
                                  (fs_flatten k fs (stack ++ [p])) incs
                                  (fun q => IH (stack ++ [p]) q)) as R.
      destruct (fs_incs fs p stack (fs_tree k fs (stack ++ [p])) incs) as [gs|e]; cbn [bind].
      + destruct R as [parts [-> Hf]]. cbn [bind].
        unfold refines. rewrite flatten_unfold, (concat3_incs Hf).
        destruct (concat3 parts) as [[s o] m]. cbn [bind]. eexists. split; reflexivity.
      + rewrite R. reflexivity.
  Qed.

  Theorem fs_flatten_tree fs fuel stack p :
    fs_flatten fuel fs stack p = (do g <- fs_tree fuel fs stack p; flatten g).
  Proof.
    pose proof (fs_tree_refines fs fuel stack p) as R. unfold refines in R.
    destruct (fs_tree fuel fs stack p) as [g|e]; cbn [bind].
    - destruct R as [part [-> ->]]. reflexivity.
    - assumption.
  Qed.

  (* the recipe on disk parses like the tree of files it unfolds to *)
  Theorem fs_parse_recipe_tree fs main g :
    fs_tree (fs_fuel fs) fs [] main = Ok g ->
    fs_parse_recipe fs main = parse_recipe g.
  Proof.
    intros H. unfold fs_parse_recipe, parse_recipe. rewrite fs_flatten_tree, H. reflexivity.
  Qed.

  (* ---- cycles *)
  (* file a has an include_file line that points to file b *)
  Definition fs_includes fs (a b : path) : Prop :=
    exists incs opts macs stmts rel,
      fs_lookup a fs = Some (FsFile incs opts macs stmts) /\ In rel incs /\
      resolve_include fs a rel = WPath b.

  Inductive fchain fs : nat -> path -> Prop :=
  | fchain_O a : fchain fs O a
  | fchain_S n a b : fs_includes fs a b -> fchain fs n b -> fchain fs (S n) a.

  Lemma fs_ok_no_chain fs fuel stack a r :
    fs_flatten fuel fs stack a = Ok r -> ~ fchain fs fuel a.
  Proof.
    revert stack a r. induction fuel as [|k IH]; intros stack a r; cbn [fs_flatten].
    - discriminate.
    - destruct (fs_lookup a fs) as [[incs opts macs stmts]|] eqn:La; [|discriminate].
      destruct (fs_incs fs a stack (fs_flatten k fs (stack ++ [a])) incs) as [parts|e] eqn:E;
        [|discriminate].
      intros _ C. inversion C as [|n a' b [incs' [o' [m' [s' [rel [La' [Hin W]]]]]]] Hc]; subst.
      rewrite La in La'. injection La' as <- <- <- <-.
      destruct (fs_incs_ok _ _ _ _ _ E rel Hin) as [q [x [[W' _] Hx]]].
      rewrite W in W'. injection W' as <-. eapply IH; eassumption.
  Qed.

  Lemma fs_cycle_chain fs a :
    clos_trans _ (fs_includes fs) a a ->
    forall n x, clos_refl_trans _ (fs_includes fs) x a -> fchain fs n x.
  Proof.
    intros Hc.
    assert (exists b, fs_includes fs a b /\ clos_refl_trans _ (fs_includes fs) b a) as [b [Hab Hba]].
    { apply clos_trans_t1n in Hc. inversion Hc as [y H|y z H H2]; subst.
      - exists a. split; [assumption|apply rt_refl].
      - exists y. split; [assumption|]. apply clos_t1n_trans in H2.
        clear - H2. induction H2; [apply rt_step; assumption|eapply rt_trans; eassumption]. }
    induction n as [|n IH]; intros x Hx; [constructor|].
    apply clos_rt_rt1n in Hx. inversion Hx as [|y z Hxy Hya]; subst.
    - econstructor; [exact Hab|]. apply IH. assumption.
    - econstructor; [exact Hxy|]. apply IH. apply clos_rt1n_rt. assumption.
  Qed.

  (* a recipe from which a file that (transitively) includes itself can be reached is rejected *)
  Theorem fs_cycle_rejected fs main a :
    clos_refl_trans _ (fs_includes fs) main a -> clos_trans _ (fs_includes fs) a a ->
    exists e, fs_parse_recipe fs main = Err e /\ (e = Unsupported \/ exists k, e = DGE k).
  Proof.
    intros Hr Hc.
    destruct (fs_parse_recipe fs main) as [r|e] eqn:E.
    - exfalso. unfold fs_parse_recipe in E.
      destruct (fs_flatten (fs_fuel fs) fs [] main) as [x|e1] eqn:E1; cbn [bind] in E; [|discriminate].
      apply (fs_ok_no_chain _ E1). apply (fs_cycle_chain Hc). assumption.
    - exists e. split; [reflexivity|]. eapply fs_parse_recipe_err, E.
  Qed.
  (* ---- the result depends on the relative layout only: moving the whole tree of files into
     another directory changes nothing ("the same include_file path, read from a different
     directory, names a different file") *)
  Lemma path_eqb_app (pre a b : path) : path_eqb (pre ++ a) (pre ++ b) = path_eqb a b.
  Proof.
    unfold path_eqb. induction pre as [|x pre IH]; cbn [app list_eqb]; [reflexivity|].
    rewrite String.eqb_refl. exact IH.
  Qed.

  Lemma proper_prefix_app (pre d q : path) :
    proper_prefix (pre ++ d) (pre ++ q) = proper_prefix d q.
  Proof.
    induction pre as [|x pre IH]; cbn [app proper_prefix]; [reflexivity|].
    rewrite String.eqb_refl. exact IH.
  Qed.

  Lemma fs_lookup_relocate pre fs p : fs_lookup (pre ++ p) (relocate pre fs) = fs_lookup p fs.
  Proof.
    induction fs as [|[q g] r IH]; cbn [relocate map fs_lookup fst snd]; [reflexivity|].
    rewrite path_eqb_app. destruct (path_eqb q p); [reflexivity|]. exact IH.
  Qed.

  Lemma is_dir_relocate pre fs d : is_dir (relocate pre fs) (pre ++ d) = is_dir fs d.
  Proof.
    unfold is_dir, relocate. induction fs as [|[q g] r IH]; cbn [map existsb fst snd]; [reflexivity|].
    rewrite proper_prefix_app, IH. reflexivity.
  Qed.

  Lemma mem_path_relocate pre q stack :
    mem_path (pre ++ q) (map (app pre) stack) = mem_path q stack.
  Proof.
    unfold mem_path. induction stack as [|x r IH]; cbn [map existsb]; [reflexivity|].
    rewrite path_eqb_app, IH. reflexivity.
  Qed.

  Definition walked_map (f : path -> path) (w : walked) : walked :=
    match w with WPath q => WPath (f q) | WMissing => WMissing | WEscape => WEscape end.

  Lemma walk_relocate pre fs cur segs :
    walk fs cur segs <> WEscape ->
    walk (relocate pre fs) (pre ++ cur) segs = walked_map (app pre) (walk fs cur segs).
  Proof.
    revert cur. induction segs as [|sg r IH]; intros cur; cbn [walk walked_map]; [reflexivity|].
    destruct (String.eqb sg "..").
    - destruct cur as [|x c]; [congruence|]. intros H.
      destruct (pre ++ x :: c) as [|y t] eqn:E; [destruct pre; discriminate|]. rewrite <- E.
      rewrite removelast_app by discriminate. apply IH. assumption.
    - destruct r as [|sg2 r2].
      + intros _. cbn [walked_map]. rewrite app_assoc. reflexivity.
      + rewrite <- app_assoc, is_dir_relocate. destruct (is_dir fs (cur ++ [sg])).
        * intros H. apply IH. assumption.
        * reflexivity.
  Qed.

  Lemma fs_incs_relocate {A} pre fs p stack (f g : path -> result A) l :
    p <> [] ->
    (forall q, f q <> Err Unsupported -> g (pre ++ q) = f q) ->
    fs_incs fs p stack f l <> Err Unsupported ->
    fs_incs (relocate pre fs) (pre ++ p) (map (app pre) stack) g l = fs_incs fs p stack f l.
  Proof.
    intros Hp Hfg. induction l as [|rel0 r IH]; cbn [fs_incs]; [reflexivity|].
    unfold resolve_include. rewrite removelast_app by assumption. intros H.
    rewrite walk_relocate by (intros C; rewrite C in H; congruence).
    destruct (walk fs (removelast p) (pure_segs rel0)) as [q| |]; cbn [walked_map]; try reflexivity.
    rewrite fs_lookup_relocate. destruct (fs_lookup q fs); [|reflexivity].
    rewrite path_eqb_app, mem_path_relocate.
    destruct (path_eqb q p || mem_path q stack); [reflexivity|].
    destruct (f q) as [a|e] eqn:R; cbn [bind] in *.
    - rewrite Hfg by (rewrite R; discriminate). rewrite R. cbn [bind].
      rewrite IH; [reflexivity|].
      intros C. rewrite C in H. cbn [bind] in H. congruence.
    - rewrite Hfg by (rewrite R; intros C; apply H; injection C as ->; reflexivity).
      rewrite R. reflexivity.
  Qed.

  Theorem fs_flatten_relocate pre fs fuel stack p :
    (forall q, In q (fs_paths fs) -> q <> []) ->
    fs_flatten fuel fs stack p <> Err Unsupported ->
    fs_flatten fuel (relocate pre fs) (map (app pre) stack) (pre ++ p) = fs_flatten fuel fs stack p.
  Proof.
    intros Hne. revert stack p. induction fuel as [|k IH]; intros stack p; cbn [fs_flatten];
      [reflexivity|].
    rewrite fs_lookup_relocate.
    destruct (fs_lookup p fs) as [[incs opts macs stmts]|] eqn:L; [|reflexivity].
    intros H.
    rewrite (@fs_incs_relocate _ pre fs p stack (fs_flatten k fs (stack ++ [p]))).
    - reflexivity.
    - apply Hne. eapply fs_lookup_In, L.
    - intros q Hq.
      change (map (app pre) stack ++ [pre ++ p]) with (map (app pre) stack ++ map (app pre) [p]).
      rewrite <- map_app. apply IH. assumption.
    - intros C. rewrite C in H. apply H. reflexivity.
  Qed.

  Lemma relocate_length pre fs : length (relocate pre fs) = length fs.
  Proof. apply map_length. Qed.

  Theorem fs_parse_recipe_relocate pre fs main :
    (forall q, In q (fs_paths fs) -> q <> []) ->
    fs_parse_recipe fs main <> Err Unsupported ->
    fs_parse_recipe (relocate pre fs) (pre ++ main) = fs_parse_recipe fs main.
  Proof.
    intros Hne H. unfold fs_parse_recipe, fs_fuel in *. rewrite relocate_length.
    pose proof (@fs_flatten_relocate pre fs (S (length fs)) [] main Hne) as R.
    cbn [map] in R.
    assert (fs_flatten (S (length fs)) fs [] main <> Err Unsupported) as N.
    { intros C. rewrite C in H. apply H. reflexivity. }
    specialize (R N). unfold bind at 1. unfold bind at 2.
    destruct R. reflexivity.
  Qed.
End FsP.

(* ================================================================== the `include:` string *)
Section IncludeStringP.
  Local Open Scope string_scope.

  Lemma append_assoc_s (a b c : string) : (a ++ b) ++ c = a ++ b ++ c.
  Proof. induction a as [|x a IH]; cbn [append]; [reflexivity|]. rewrite IH. reflexivity. Qed.

  Lemma split_commas_nonnil s : split_commas s <> [].
  Proof.
    destruct s as [|c r]; cbn [split_commas]; [discriminate|].
    destruct (is_comma c); [discriminate|]. destruct (split_commas r); discriminate.
  Qed.

  Lemma split_commas_no_comma s : no_comma s = true -> split_commas s = [s].
  Proof.
    induction s as [|c r IH]; cbn [no_comma split_commas]; [reflexivity|].
    rewrite andb_true_iff, negb_true_iff. intros [-> H]. rewrite (IH H). reflexivity.
  Qed.

  Lemma split_commas_app a b :
    no_comma a = true -> split_commas (a ++ String "," b) = a :: split_commas b.
  Proof.
    induction a as [|c r IH]; cbn [no_comma append split_commas].
    - intros _. reflexivity.
    - rewrite andb_true_iff, negb_true_iff. intros [-> H]. rewrite (IH H). reflexivity.
  Qed.

  Lemma no_comma_app a b : no_comma (a ++ b) = no_comma a && no_comma b.
  Proof.
    induction a as [|c r IH]; cbn [append no_comma]; [reflexivity|].
    rewrite IH, andb_assoc. reflexivity.
  Qed.

  Lemma all_ws_no_comma s : all_ws s = true -> no_comma s = true.
  Proof.
    induction s as [|c r IH]; cbn [all_ws no_comma]; [reflexivity|].
    rewrite andb_true_iff. intros [Hc H]. rewrite (IH H), andb_true_r.
    unfold is_comma. destruct (Ascii.eqb c ",") eqn:E; [|reflexivity].
    apply Ascii.eqb_eq in E. subst c. discriminate Hc.
  Qed.

  Lemma lstrip_ws_app l x : all_ws l = true -> lstrip (l ++ x) = lstrip x.
  Proof.
    induction l as [|c r IH]; cbn [all_ws append lstrip]; [reflexivity|].
    rewrite andb_true_iff. intros [-> H]. apply IH, H.
  Qed.

  Lemma rstrip_ws r : all_ws r = true -> rstrip r = "".
  Proof.
    induction r as [|c r IH]; cbn [all_ws rstrip]; [reflexivity|].
    rewrite andb_true_iff. intros [-> H]. rewrite (IH H). reflexivity.
  Qed.

  Lemma rstrip_app_ws x r : all_ws r = true -> rstrip (x ++ r) = rstrip x.
  Proof.
    intros H. induction x as [|c x IH]; cbn [append rstrip]; [apply rstrip_ws, H|].
    rewrite IH. reflexivity.
  Qed.

  (* white space around a name is removed, the name itself is kept *)
  Lemma strip_padded l n r :
    all_ws l = true -> all_ws r = true -> clean_name n -> strip (l ++ n ++ r) = n.
  Proof.
    intros Hl Hr [c [n' [-> [Hc [Hn _]]]]]. unfold strip. rewrite lstrip_ws_app by assumption.
    cbn [append lstrip]. rewrite Hc.
    change (String c (n' ++ r)) with (String c n' ++ r). rewrite rstrip_app_ws by assumption.
    exact Hn.
  Qed.

  Lemma strip_blank l r : all_ws l = true -> all_ws r = true -> strip (l ++ "" ++ r) = "".
  Proof.
    intros Hl Hr. unfold strip. rewrite lstrip_ws_app by assumption. cbn [append].
    assert (forall s, all_ws s = true -> lstrip s = "") as L.
    { induction s as [|c s IH]; cbn [all_ws lstrip]; [reflexivity|].
      rewrite andb_true_iff. intros [-> H]. apply IH, H. }
    rewrite (L r Hr). reflexivity.
  Qed.

  Definition item_ok (it : string * string * string) : Prop :=
    let '(l, n, r) := it in all_ws l = true /\ all_ws r = true /\ (n = "" \/ clean_name n).

  Lemma item_no_comma l n r : item_ok (l, n, r) -> no_comma (l ++ n ++ r) = true.
  Proof.
    intros [Hl [Hr Hn]]. rewrite !no_comma_app, (all_ws_no_comma _ Hl), (all_ws_no_comma _ Hr).
    destruct Hn as [->|[c [n' [-> [_ [_ H]]]]]]; [reflexivity|]. rewrite H. reflexivity.
  Qed.

  Lemma item_strip l n r : item_ok (l, n, r) -> strip (l ++ n ++ r) = n.
  Proof.
    intros [Hl [Hr [->|Hn]]]; [apply strip_blank; assumption|apply strip_padded; assumption].
  Qed.

  Lemma clean_nonempty n : clean_name n -> nonempty n = true.
  Proof. intros [c [r [-> _]]]. reflexivity. Qed.

  (* the written include string gives back exactly the names written in it, in order;
     empty items (", ,", a trailing comma, the empty string) give nothing *)
  Theorem split_includes_join items :
    Forall item_ok items ->
    split_includes (join_includes items) = filter nonempty (map (fun it => snd (fst it)) items).
  Proof.
    unfold split_includes. induction items as [|[[l n] r] rest IH]; intros H.
    - reflexivity.
    - inversion H as [|x y Hit Hrest]; subst.
      destruct rest as [|it2 rest'].
      + cbn [join_includes map fst snd]. rewrite split_commas_no_comma by (apply item_no_comma, Hit).
        cbn [map]. rewrite (item_strip Hit). reflexivity.
      + change (join_includes ((l, n, r) :: it2 :: rest'))
          with (l ++ n ++ r ++ String "," (join_includes (it2 :: rest'))).
        replace (l ++ n ++ r ++ String "," (join_includes (it2 :: rest')))
          with ((l ++ n ++ r) ++ String "," (join_includes (it2 :: rest'))).
        2:{ rewrite !append_assoc_s. reflexivity. }
        rewrite split_commas_app by (apply item_no_comma, Hit).
        cbn [map filter fst snd]. rewrite (item_strip Hit), (IH Hrest). reflexivity.
  Qed.

  (* no include key / an empty string: nothing is included *)
  Lemma split_includes_empty : split_includes "" = [].
  Proof. reflexivity. Qed.
End IncludeStringP.

(* ================================================================== histories of runs *)
Section ChainP.
  Variable V : Type.
  Notation link := (link V).

  Lemma run_link_options prev (l : link) :
    (do '(o, _) <- run_link prev l; Ok o) = own_options l.
  Proof.
    unfold run_link, own_options.
    destruct (merge_options (l_decls l) (l_user l) []) as [[o x]|e]; reflexivity.
  Qed.

  (* the options of every run of a chain are those of the run's own recipe and own user_options:
     whatever the chain did before, continued or not *)
  Theorem chain_options_own (ls : list link) : forall prev,
    chain_options prev ls = map (@own_options V) ls.
  Proof.
    unfold chain_options.
    induction ls as [|l r IH]; intros prev; cbn [run_chain map]; [reflexivity|].
    pose proof (run_link_options prev l) as H.
    destruct (run_link prev l) as [[o c]|e] eqn:E; cbn [map]; rewrite IH; f_equal; exact H.
  Qed.

  Theorem chain_options_history_free (before before' ls : list link) prev prev' :
    skipn (List.length before) (chain_options prev (before ++ ls)) =
    skipn (List.length before') (chain_options prev' (before' ++ ls)).
  Proof.
    rewrite !chain_options_own, !map_app.
    rewrite <- (map_length (@own_options V) before), <- (map_length (@own_options V) before').
    rewrite !skipn_app, !skipn_all, !Nat.sub_diag. reflexivity.
  Qed.

  (* the property's option rule at every link of every chain *)
  Theorem chain_option_rule (ls : list link) prev k (l : link) :
    nth_error ls k = Some l ->
    (forall o n d, nth_error (chain_options prev ls) k = Some (Ok o) ->
                   last_decl n (l_decls l) = Some d ->
                   lookup n o = match lookup n (l_user l) with Some v => Some v | None => o_default d end) /\
    ((exists e, nth_error (chain_options prev ls) k = Some (Err e)) <->
     (exists d, In d (l_decls l) /\ lookup (o_name d) (l_user l) = None /\ o_default d = None)) /\
    (forall e, nth_error (chain_options prev ls) k = Some (Err e) -> exists m, e = DGE m).
  Proof.
    intros Hk. rewrite chain_options_own, (map_nth_error (@own_options V) k ls Hk). unfold own_options.
    splits.
    - intros o n d H Hd.
      destruct (merge_options (l_decls l) (l_user l) []) as [[o' x]|e] eqn:E; cbn [bind] in H;
        [|discriminate].
      injection H as <-. exact (option_value _ _ _ n E Hd).
    - rewrite <- (option_error_iff (l_decls l) (l_user l) []).
      destruct (merge_options (l_decls l) (l_user l) []) as [[o' x]|e] eqn:E; cbn [bind]; split.
      + intros [e H]. discriminate.
      + intros [e H]. discriminate.
      + intros _. eauto.
      + intros _. eauto.
    - intros e H.
      destruct (merge_options (l_decls l) (l_user l) []) as [[o' x]|e'] eqn:E; cbn [bind] in H;
        [discriminate|].
      injection H as <-. exact (option_error_kind _ _ _ E).
  Qed.
End ChainP.
