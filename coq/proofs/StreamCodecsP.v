(* StreamCodecsP.v — the readers of StreamCodecs.v invert the writers (property C08). *)
From Coq Require Import ZArith List Bool String Lia.
From SFV Require Import Base Streams StreamCodecs.
Import ListNotations. Open Scope Z_scope.

Ltac splits := repeat match goal with |- _ /\ _ => split end.

(* ================================================================== CSV *)

Definition crun (s : cst) (t : text) : cst := fold_left csv_step t s.

Lemma crun_app s a b : crun s (a ++ b) = crun (crun s a) b.
Proof. unfold crun. apply fold_left_app. Qed.

Lemma crun_cons s c t : crun s (c :: t) = crun (csv_step s c) t.
Proof. reflexivity. Qed.

Lemma dq_run f : forall fld row rows,
  crun (mkC MQ fld row rows) (csv_dq f) = mkC MQ (rev f ++ fld) row rows.
Proof.
  induction f as [|c f IH]; intros fld row rows; cbn [csv_dq].
  - reflexivity.
  - destruct (c =? 34) eqn:E.
    + apply Z.eqb_eq in E. subst c.
      rewrite !crun_cons. unfold csv_step at 2. cbn [c_mode c_fld c_row c_rows].
      replace (34 =? 34) with true by reflexivity.
      unfold csv_step at 1. cbn [c_mode c_fld c_row c_rows].
      replace (34 =? 34) with true by reflexivity.
      rewrite IH. cbn [rev]. rewrite <- app_assoc. reflexivity.
    + rewrite crun_cons. unfold csv_step. cbn [c_mode c_fld c_row c_rows]. rewrite E.
      rewrite IH. cbn [rev]. rewrite <- app_assoc. reflexivity.
Qed.

Lemma special_parts c : csv_special c = false ->
  (c =? 44) = false /\ (c =? 34) = false /\ is_nl c = false.
Proof.
  unfold csv_special, is_nl. intro H.
  destruct (c =? 44), (c =? 34), (c =? 13), (c =? 10); cbn in *; try discriminate; auto.
Qed.

Lemma plain_run f : existsb csv_special f = false -> forall fld row rows,
  crun (mkC MIn fld row rows) f = mkC MIn (rev f ++ fld) row rows.
Proof.
  induction f as [|c f IH]; intros H fld row rows.
  - reflexivity.
  - cbn [existsb] in H. apply orb_false_iff in H. destruct H as [Hc Hf].
    destruct (special_parts c Hc) as (H44 & H34 & Hnl).
    rewrite crun_cons. unfold csv_step. cbn [c_mode c_fld c_row c_rows]. rewrite Hnl, H44.
    rewrite (IH Hf). cbn [rev]. rewrite <- app_assoc. reflexivity.
Qed.

Definition field_start (m : cmode) : Prop := m = MRec \/ m = MFld.

(* the state after the characters of a field, seen from a field start: whatever comes next
   (a comma or a line end) stores exactly [f] *)
Definition holds (s : cst) (f : text) (row : list text) (rows : list (list text)) : Prop :=
  c_row s = row /\ c_rows s = rows /\
  ((c_mode s = MIn \/ c_mode s = MQQ) /\ c_fld s = rev f).

Lemma field_read f m row rows : field_start m -> f <> [] \/ existsb csv_special f = true ->
  holds (crun (mkC m [] row rows) (csv_field f)) f row rows.
Proof.
  intros Hm Hne. unfold csv_field.
  destruct (existsb csv_special f) eqn:E.
  - (* quoted *)
    rewrite crun_cons.
    assert (csv_step (mkC m [] row rows) 34 = mkC MQ [] row rows) as ->.
    { destruct Hm; subst m; reflexivity. }
    rewrite crun_app, dq_run, app_nil_r. cbn.
    unfold holds. cbn. auto.
  - destruct f as [|c f]; [destruct Hne; [congruence|discriminate]|].
    cbn [existsb] in E. apply orb_false_iff in E. destruct E as [Hc Hf].
    destruct (special_parts c Hc) as (H44 & H34 & Hnl).
    rewrite crun_cons.
    assert (csv_step (mkC m [] row rows) c = mkC MIn [c] row rows) as ->.
    { destruct Hm; subst m; unfold csv_step, start_record, start_field; cbn [c_mode c_fld c_row c_rows];
        rewrite ?Hnl, H34, H44; reflexivity. }
    rewrite (plain_run f Hf). unfold holds. cbn. auto.
Qed.

Lemma holds_comma s f row rows : holds s f row rows ->
  csv_step s 44 = mkC MFld [] (f :: row) rows.
Proof.
  intros (Hr & Hrs & Hm & Hf). destruct s as [m fld r rs]. cbn in *. subst.
  destruct Hm as [-> | ->]; unfold csv_step, save_field; cbn; rewrite rev_involutive; reflexivity.
Qed.

Lemma holds_cr s f row rows : holds s f row rows ->
  csv_step s 13 = mkC MEat [] [] (rev (f :: row) :: rows).
Proof.
  intros (Hr & Hrs & Hm & Hf). destruct s as [m fld r rs]. cbn in *. subst.
  destruct Hm as [-> | ->]; unfold csv_step, end_record, save_field; cbn; rewrite rev_involutive; reflexivity.
Qed.

Lemma eat_lf rows : csv_step (mkC MEat [] [] rows) 10 = mkC MRec [] [] rows.
Proof. reflexivity. Qed.

Lemma field_then_comma f m row rows : field_start m ->
  crun (mkC m [] row rows) (csv_field f ++ [44]) = mkC MFld [] (f :: row) rows.
Proof.
  intro Hm. rewrite crun_app.
  destruct f as [|c f'] eqn:Ef.
  - unfold csv_field. cbn [existsb]. cbn [crun fold_left].
    destruct Hm; subst m; reflexivity.
  - rewrite <- Ef. cbn [crun fold_left].
    apply holds_comma, field_read; auto. left. congruence.
Qed.

Lemma field_then_crlf f m row rows : m = MFld \/ (m = MRec /\ f <> []) ->
  crun (mkC m [] row rows) (csv_field f ++ [13; 10]) = mkC MRec [] [] (rev (f :: row) :: rows).
Proof.
  intro Hm. rewrite crun_app.
  destruct f as [|c f'] eqn:Ef.
  - destruct Hm as [-> | [_ H]]; [|congruence]. reflexivity.
  - rewrite <- Ef.
    assert (field_start m) by (destruct Hm as [-> | [-> _]]; [right|left]; reflexivity).
    change (crun ?s [13; 10]) with (csv_step (csv_step s 13) 10).
    erewrite holds_cr by (apply field_read; auto; left; congruence).
    apply eat_lf.
Qed.

Lemma fields_run r : r <> [] -> forall m row rows,
  m = MFld \/ (m = MRec /\ r <> [[]]) ->
  crun (mkC m [] row rows) (join_with [44] (map csv_field r) ++ [13; 10])
  = mkC MRec [] [] ((rev row ++ r) :: rows).
Proof.
  induction r as [|f r IH]; intros Hne m row rows Hm; [congruence|].
  destruct r as [|f2 r'].
  - cbn [map join_with]. rewrite field_then_crlf.
    + reflexivity.
    + destruct Hm as [-> | [-> H]]; [left; reflexivity|]. right. split; [reflexivity|]. congruence.
  - change (join_with [44] (map csv_field (f :: f2 :: r')))
      with (csv_field f ++ [44] ++ join_with [44] (map csv_field (f2 :: r'))).
    rewrite <- !app_assoc. rewrite app_assoc. rewrite crun_app.
    rewrite field_then_comma by (destruct Hm as [-> | [-> _]]; [right|left]; reflexivity).
    rewrite IH by (try discriminate; left; reflexivity).
    cbn [rev]. rewrite <- app_assoc. reflexivity.
Qed.

Lemma row_run r rows :
  crun (mkC MRec [] [] rows) (csv_row r) = mkC MRec [] [] (r :: rows).
Proof.
  destruct r as [|f r'].
  - reflexivity.
  - destruct f as [|c f']; [destruct r' as [|f2 r'']|].
    + reflexivity.
    + unfold csv_row. rewrite fields_run; try discriminate; [reflexivity|].
      right. split; [reflexivity|discriminate].
    + assert ((c :: f') :: r' <> [[]]) by discriminate.
      unfold csv_row.
      destruct r'; rewrite fields_run; try discriminate; try reflexivity; right; split; auto; discriminate.
Qed.

Lemma file_run rows : forall acc,
  crun (mkC MRec [] [] acc) (csv_file rows) = mkC MRec [] [] (rev rows ++ acc).
Proof.
  induction rows as [|r rows IH]; intro acc.
  - reflexivity.
  - unfold csv_file. cbn [map concat]. rewrite crun_app, row_run.
    fold (csv_file rows). rewrite IH. cbn [rev]. rewrite <- app_assoc. reflexivity.
Qed.

(* for every list of rows of any fields (any code points): reading back what the writer wrote
   gives the rows *)
Theorem csv_roundtrip rows : csv_read (csv_file rows) = Ok rows.
Proof.
  unfold csv_read, csv_init. fold (crun (mkC MRec [] [] []) (csv_file rows)).
  rewrite file_run. cbn. rewrite app_nil_r, rev_involutive. reflexivity.
Qed.

Corollary csv_injective a b : csv_file a = csv_file b -> a = b.
Proof.
  intro H. pose proof (csv_roundtrip a) as Ha. rewrite H, csv_roundtrip in Ha. congruence.
Qed.

(* ================================================================== decimal integers *)
From Coq Require Import DecimalPos.

Definition dstep (acc c : Z) : Z := acc * 10 + (c - 48).

Lemma digits_value_eq t : digits_value t = fold_left dstep t 0.
Proof. reflexivity. Qed.

Lemma of_uint_acc_fold u : forall acc,
  Z.pos (Pos.of_uint_acc u acc) = fold_left dstep (uint_text u) (Z.pos acc).
Proof.
  induction u; intro acc; cbn [Pos.of_uint_acc uint_text fold_left]; try reflexivity;
    rewrite IHu; f_equal; unfold dstep; lia.
Qed.

Lemma of_uint_fold u : Z.of_N (Pos.of_uint u) = fold_left dstep (uint_text u) 0.
Proof.
  induction u; cbn [Pos.of_uint uint_text fold_left]; try reflexivity;
    try (rewrite IHu; reflexivity);
    cbn [Z.of_N]; rewrite of_uint_acc_fold; reflexivity.
Qed.

Lemma uint_text_digits u : forallb is_digit (uint_text u) = true.
Proof. induction u; cbn [uint_text forallb]; try reflexivity; rewrite IHu; reflexivity. Qed.

Lemma uint_text_nonnil u : u <> Decimal.Nil -> uint_text u <> [].
Proof. destruct u; cbn; congruence. Qed.

Lemma pos_text_value p : digits_value (uint_text (Pos.to_uint p)) = Z.pos p.
Proof. rewrite digits_value_eq, <- of_uint_fold, Unsigned.of_to. reflexivity. Qed.

Lemma digit_not_minus c r : forallb is_digit (c :: r) = true -> (c =? 45) = false.
Proof.
  cbn [forallb]. intro H. apply andb_true_iff in H. destruct H as [H _].
  unfold is_digit in H. apply andb_true_iff in H. destruct H as [H1 H2].
  apply Z.leb_le in H1. apply Z.eqb_neq. lia.
Qed.

(* str(int) is read back as the same integer, for every integer *)
Theorem int_roundtrip z : parse_int (dec_text z) = Some z.
Proof.
  unfold dec_text. destruct z as [|p|p]; cbn [Z.to_int].
  - reflexivity.
  - pose proof (uint_text_digits (Pos.to_uint p)) as Hd.
    pose proof (uint_text_nonnil _ (Unsigned.to_uint_nonnil p)) as Hn.
    pose proof (pos_text_value p) as Hv.
    destruct (uint_text (Pos.to_uint p)) as [|c r] eqn:E; [congruence|].
    unfold parse_int. rewrite (digit_not_minus c r Hd), Hd, Hv. reflexivity.
  - pose proof (uint_text_digits (Pos.to_uint p)) as Hd.
    pose proof (uint_text_nonnil _ (Unsigned.to_uint_nonnil p)) as Hn.
    pose proof (pos_text_value p) as Hv.
    unfold parse_int. replace (45 =? 45) with true by reflexivity.
    destruct (uint_text (Pos.to_uint p)) as [|c r] eqn:E; [congruence|].
    rewrite Hd, Hv. reflexivity.
Qed.


(* ================================================================== JSON strings *)

Definition jrun (s : jst) (t : text) : jst := fold_left j_step t s.

Lemma jrun_app s a b : jrun s (a ++ b) = jrun (jrun s a) b.
Proof. unfold jrun. apply fold_left_app. Qed.

Lemma jrun_cons s c t : jrun s (c :: t) = jrun (j_step s c) t.
Proof. reflexivity. Qed.

(* a Python str: code points 0 .. 0x10FFFF *)
Definition valid_cp (c : Z) : Prop := 0 <= c <= 1114111.

(* no high surrogate immediately followed by a low surrogate (json.loads would join the two
   escapes into one code point) *)
Fixpoint pair_free (s : text) : bool :=
  match s with
  | [] => true
  | a :: r => match r with c :: _ => negb (is_high a && is_low c) | [] => true end && pair_free r
  end.

Lemma hex_val_digit d : 0 <= d < 16 -> hex_val (hex_digit d) = Some d.
Proof.
  intro H.
  assert (d = 0 \/ d = 1 \/ d = 2 \/ d = 3 \/ d = 4 \/ d = 5 \/ d = 6 \/ d = 7 \/ d = 8 \/ d = 9 \/
          d = 10 \/ d = 11 \/ d = 12 \/ d = 13 \/ d = 14 \/ d = 15) as Hd by lia.
  repeat (destruct Hd as [-> | Hd]; [reflexivity|]). subst. reflexivity.
Qed.

Lemma uni_run acc pend toks v : 0 <= v < 65536 ->
  jrun (JInStr acc pend, toks) (json_u v) = (finish_u acc pend v, toks).
Proof.
  intro Hv. unfold json_u, hex4.
  assert (0 <= v / 4096 < 16) as H3 by (Z.div_mod_to_equations; lia).
  assert (0 <= v / 256 mod 16 < 16) as H2 by (Z.div_mod_to_equations; lia).
  assert (0 <= v / 16 mod 16 < 16) as H1 by (Z.div_mod_to_equations; lia).
  assert (0 <= v mod 16 < 16) as H0 by (Z.div_mod_to_equations; lia).
  rewrite !jrun_cons.
  change (j_step (JInStr acc pend, toks) 92) with (JEsc acc pend, toks).
  change (j_step (JEsc acc pend, toks) 117) with (JUni acc pend 0 0, toks).
  unfold j_step at 4. rewrite (hex_val_digit _ H3).
  unfold j_step at 3. rewrite (hex_val_digit _ H2).
  unfold j_step at 2. rewrite (hex_val_digit _ H1).
  unfold j_step at 1. rewrite (hex_val_digit _ H0).
  cbn [jrun fold_left]. f_equal. f_equal.
  Z.div_mod_to_equations. lia.
Qed.

Lemma escape_run acc pend toks x code : (x =? 117) = false -> simple_escape x = Some code ->
  jrun (JInStr acc pend, toks) [92; x] = (JInStr (code :: jflush acc pend) None, toks).
Proof.
  intros Hu He. rewrite !jrun_cons.
  change (j_step (JInStr acc pend, toks) 92) with (JEsc acc pend, toks).
  unfold j_step. rewrite Hu, He. reflexivity.
Qed.

Lemma surrogate_split c : 65536 <= c <= 1114111 ->
  let h := 55296 + (c - 65536) / 1024 in
  let l := 56320 + (c - 65536) mod 1024 in
  0 <= h < 65536 /\ 0 <= l < 65536 /\ is_high h = true /\ is_low h = false /\ is_low l = true /\
  join_pair h l = c.
Proof.
  intros Hc h l. subst h l. unfold is_high, is_low, join_pair.
  splits; try (apply andb_true_iff; split; apply Z.leb_le); try (apply andb_false_iff; left; apply Z.leb_gt);
    Z.div_mod_to_equations; lia.
Qed.

Lemma char_run c acc pend toks :
  valid_cp c -> (forall h, pend = Some h -> is_low c = false) ->
  exists acc' pend',
    jrun (JInStr acc pend, toks) (json_char c) = (JInStr acc' pend', toks) /\
    jflush acc' pend' = c :: jflush acc pend /\
    (forall h, pend' = Some h -> h = c /\ is_high c = true).
Proof.
  intros Hv Hp. unfold json_char.
  destruct (c =? 34) eqn:E34.
  { apply Z.eqb_eq in E34. subst. eexists _, None. splits; [apply escape_run; reflexivity|reflexivity|discriminate]. }
  destruct (c =? 92) eqn:E92.
  { apply Z.eqb_eq in E92. subst. eexists _, None. splits; [apply escape_run; reflexivity|reflexivity|discriminate]. }
  destruct (c =? 10) eqn:E10.
  { apply Z.eqb_eq in E10. subst. eexists _, None. splits; [apply escape_run; reflexivity|reflexivity|discriminate]. }
  destruct (c =? 13) eqn:E13.
  { apply Z.eqb_eq in E13. subst. eexists _, None. splits; [apply escape_run; reflexivity|reflexivity|discriminate]. }
  destruct (c =? 9) eqn:E9.
  { apply Z.eqb_eq in E9. subst. eexists _, None. splits; [apply escape_run; reflexivity|reflexivity|discriminate]. }
  destruct (c =? 8) eqn:E8.
  { apply Z.eqb_eq in E8. subst. eexists _, None. splits; [apply escape_run; reflexivity|reflexivity|discriminate]. }
  destruct (c =? 12) eqn:E12.
  { apply Z.eqb_eq in E12. subst. eexists _, None. splits; [apply escape_run; reflexivity|reflexivity|discriminate]. }
  destruct ((32 <=? c) && (c <=? 126)) eqn:Epr.
  { eexists _, None. splits; [|reflexivity|discriminate].
    rewrite jrun_cons. unfold j_step. rewrite E34, E92. reflexivity. }
  destruct (c <? 65536) eqn:Elt.
  { apply Z.ltb_lt in Elt. rewrite uni_run by (unfold valid_cp in Hv; lia).
    unfold finish_u. destruct pend as [h|].
    - rewrite (Hp h eq_refl). destruct (is_high c) eqn:Eh.
      + eexists _, (Some c). splits; [reflexivity|reflexivity|]. intros ? [= <-]. auto.
      + eexists _, None. splits; [reflexivity|reflexivity|discriminate].
    - destruct (is_high c) eqn:Eh.
      + eexists _, (Some c). splits; [reflexivity|reflexivity|]. intros ? [= <-]. auto.
      + eexists _, None. splits; [reflexivity|reflexivity|discriminate]. }
  apply Z.ltb_ge in Elt.
  destruct (surrogate_split c) as (Hh & Hl & Hhh & Hhl & Hll & Hj); [unfold valid_cp in Hv; lia|].
  cbv zeta in *. rewrite jrun_app, uni_run by assumption.
  set (h := 55296 + (c - 65536) / 1024) in *. set (l := 56320 + (c - 65536) mod 1024) in *.
  assert (finish_u acc pend h = JInStr (jflush acc pend) (Some h)) as ->.
  { unfold finish_u. destruct pend; rewrite ?Hhl, Hhh; reflexivity. }
  rewrite uni_run by assumption. unfold finish_u. rewrite Hll, Hj.
  eexists _, None. splits; [reflexivity|reflexivity|discriminate].
Qed.

Lemma chars_run s : forall acc pend toks,
  Forall valid_cp s -> pair_free s = true ->
  (forall h, pend = Some h -> is_high h = true /\ match s with c :: _ => is_low c = false | [] => True end) ->
  exists acc' pend',
    jrun (JInStr acc pend, toks) (flat_map json_char s) = (JInStr acc' pend', toks) /\
    jflush acc' pend' = rev s ++ jflush acc pend.
Proof.
  induction s as [|c s IH]; intros acc pend toks Hv Hpf Hp.
  - exists acc, pend. split; reflexivity.
  - inversion Hv as [|? ? Hc Hs]; subst.
    cbn [flat_map]. rewrite jrun_app.
    destruct (char_run c acc pend toks Hc) as (acc1 & pend1 & Hrun & Hfl & Hp1).
    { intros h Hh. apply (Hp h Hh). }
    rewrite Hrun.
    cbn [pair_free] in Hpf. apply andb_true_iff in Hpf. destruct Hpf as [Hpair Hpf].
    destruct (IH acc1 pend1 toks Hs Hpf) as (acc2 & pend2 & Hrun2 & Hfl2).
    { intros h Hh. destruct (Hp1 h Hh) as [-> Hhigh]. split; [assumption|].
      destruct s as [|c2 s']; [exact I|].
      rewrite Hhigh in Hpair. cbn in Hpair. destruct (is_low c2); [discriminate|reflexivity]. }
    exists acc2, pend2. split; [assumption|].
    rewrite Hfl2, Hfl. cbn [rev]. rewrite <- app_assoc. reflexivity.
Qed.

(* the tokenizer reads a written string back as the same code points *)
Lemma string_run s toks : Forall valid_cp s -> pair_free s = true ->
  jrun (JIdle, toks) (json_string s) = (JIdle, JStr s :: toks).
Proof.
  intros Hv Hpf. unfold json_string. rewrite jrun_cons.
  change (j_step (JIdle, toks) 34) with (JInStr [] None, toks).
  rewrite jrun_app.
  destruct (chars_run s [] None toks Hv Hpf) as (acc & pend & Hrun & Hfl); [discriminate|].
  rewrite Hrun. cbn [jrun fold_left j_step]. replace (34 =? 34) with true by reflexivity.
  rewrite Hfl. cbn [jflush]. rewrite app_nil_r, rev_involutive. reflexivity.
Qed.

(* ================================================================== JSON documents: tokens *)
From Coq Require Import ZifyBool.

Definition val_tok (v : cell) : jtok :=
  match v with
  | CNull => JNull | CBool true => JTrue | CBool false => JFalse | CNum z => JNum z | CText s => JStr s
  end.

Lemma tok_value_val v : tok_value (val_tok v) = Some v.
Proof. destruct v as [|[]| |]; reflexivity. Qed.

Definition member_tokens (o : jobject) : list jtok :=
  join_with [JComma] (map (fun kv => [JStr (fst kv); JColon; val_tok (snd kv)]) o).
Definition obj_tokens (o : jobject) : list jtok := JLbrace :: member_tokens o ++ [JRbrace].
Definition doc_tokens (objs : list jobject) : list jtok :=
  JLbr :: join_with [JComma] (map obj_tokens objs) ++ [JRbr].

Definition text_ok (s : text) : Prop := Forall valid_cp s /\ pair_free s = true.
Definition cell_ok (v : cell) : Prop := match v with CText s => text_ok s | _ => True end.
Definition obj_ok (o : jobject) : Prop := Forall (fun kv => text_ok (fst kv) /\ cell_ok (snd kv)) o.

Lemma wordc_not_special c : is_wordc c = true ->
  is_ws c = false /\ (c =? 91) = false /\ (c =? 93) = false /\ (c =? 123) = false /\
  (c =? 125) = false /\ (c =? 44) = false /\ (c =? 58) = false /\ (c =? 34) = false.
Proof. unfold is_wordc, is_digit, is_ws. intro H. splits; lia. Qed.

Lemma word_run w : forall acc toks, forallb is_wordc w = true ->
  jrun (JWord acc, toks) w = (JWord (rev w ++ acc), toks).
Proof.
  induction w as [|c w IH]; intros acc toks H.
  - reflexivity.
  - cbn [forallb] in H. apply andb_true_iff in H. destruct H as [Hc Hw].
    rewrite jrun_cons. unfold j_step. rewrite Hc. rewrite IH by assumption.
    cbn [rev]. rewrite <- app_assoc. reflexivity.
Qed.

Lemma word_then w d t toks : w <> [] -> forallb is_wordc w = true -> is_wordc d = false ->
  word_tok w = Some t ->
  jrun (JIdle, toks) (w ++ [d]) = j_idle (t :: toks) d.
Proof.
  intros Hne Hw Hd Ht. destruct w as [|c w]; [congruence|].
  cbn [forallb] in Hw. apply andb_true_iff in Hw. destruct Hw as [Hc Hw].
  destruct (wordc_not_special c Hc) as (H1 & H2 & H3 & H4 & H5 & H6 & H7 & H8).
  cbn [app]. rewrite jrun_cons.
  assert (j_step (JIdle, toks) c = (JWord [c], toks)) as ->.
  { unfold j_step, j_idle. rewrite H1, H2, H3, H4, H5, H6, H7, H8, Hc. reflexivity. }
  rewrite jrun_app, word_run by assumption.
  cbn [jrun fold_left]. unfold j_step. rewrite Hd.
  replace (rev (rev w ++ [c])) with (c :: w) by (rewrite rev_app_distr, rev_involutive; reflexivity).
  rewrite Ht. reflexivity.
Qed.

Lemma dec_text_head z : exists c r, dec_text z = c :: r /\ (is_digit c = true \/ c = 45).
Proof.
  unfold dec_text. destruct z as [|p|p]; cbn [Z.to_int].
  - exists 48, []. split; [reflexivity|left; reflexivity].
  - pose proof (uint_text_digits (Pos.to_uint p)) as Hd.
    pose proof (uint_text_nonnil _ (Unsigned.to_uint_nonnil p)) as Hn.
    destruct (uint_text (Pos.to_uint p)) as [|c r]; [congruence|].
    exists c, r. split; [reflexivity|]. left. cbn [forallb] in Hd. apply andb_true_iff in Hd. tauto.
  - eexists 45, _. split; [reflexivity|right; reflexivity].
Qed.

Lemma dec_text_wordc z : forallb is_wordc (dec_text z) = true.
Proof.
  assert (forall u, forallb is_wordc (uint_text u) = true) as Hu.
  { induction u; cbn [uint_text forallb]; try reflexivity; rewrite IHu; reflexivity. }
  unfold dec_text. destruct (Z.to_int z); cbn [forallb]; rewrite ?Hu; reflexivity.
Qed.

Lemma word_tok_num z : word_tok (dec_text z) = Some (JNum z).
Proof.
  unfold word_tok. rewrite int_roundtrip.
  destruct (dec_text_head z) as (c & r & -> & Hc).
  assert ((c =? 116) = false /\ (c =? 102) = false /\ (c =? 110) = false) as (H1 & H2 & H3).
  { unfold is_digit in Hc. splits; lia. }
  unfold text_eqb. cbn [list_eqb]. rewrite H1, H2, H3. reflexivity.
Qed.

Definition delim_tok (d : Z) : jtok := if d =? 44 then JComma else JRbrace.

Lemma value_delim v d toks : cell_ok v -> d = 44 \/ d = 125 ->
  jrun (JIdle, toks) (json_value v ++ [d]) = (JIdle, delim_tok d :: val_tok v :: toks).
Proof.
  intros Hv Hd.
  assert (j_idle (val_tok v :: toks) d = (JIdle, delim_tok d :: val_tok v :: toks)) as Hidle.
  { destruct Hd; subst d; reflexivity. }
  assert (is_wordc d = false) as Hdw by (destruct Hd; subst d; reflexivity).
  destruct v as [|[]|z|s]; cbn [json_value val_tok] in *.
  - rewrite (word_then _ d JNull); auto; discriminate.
  - rewrite (word_then _ d JTrue); auto; discriminate.
  - rewrite (word_then _ d JFalse); auto; discriminate.
  - rewrite (word_then _ d (JNum z)); auto.
    + destruct (dec_text_head z) as (c & r & -> & _). discriminate.
    + apply dec_text_wordc.
    + apply word_tok_num.
  - destruct Hv as [Hv Hpf]. rewrite jrun_app, string_run by assumption.
    cbn [jrun fold_left]. exact Hidle.
Qed.

Lemma pair_delim kv d toks : text_ok (fst kv) -> cell_ok (snd kv) -> d = 44 \/ d = 125 ->
  jrun (JIdle, toks) (json_pair kv ++ [d])
  = (JIdle, delim_tok d :: val_tok (snd kv) :: JColon :: JStr (fst kv) :: toks).
Proof.
  intros [Hk Hkp] Hv Hd. unfold json_pair. rewrite <- !app_assoc.
  rewrite jrun_app, string_run by assumption.
  change ([58; 32] ++ json_value (snd kv) ++ [d]) with (58 :: 32 :: (json_value (snd kv) ++ [d])).
  rewrite !jrun_cons.
  change (j_step (JIdle, JStr (fst kv) :: toks) 58) with (JIdle, JColon :: JStr (fst kv) :: toks).
  change (j_step (JIdle, JColon :: JStr (fst kv) :: toks) 32) with (JIdle, JColon :: JStr (fst kv) :: toks).
  apply value_delim; assumption.
Qed.

Lemma members_run o : o <> [] -> forall toks, obj_ok o ->
  jrun (JIdle, toks) (join_with [44; 32] (map json_pair o) ++ [125])
  = (JIdle, JRbrace :: rev (member_tokens o) ++ toks).
Proof.
  induction o as [|kv o IH]; intros Hne toks Hok; [congruence|].
  inversion Hok as [|? ? [Hk Hv] Ho]; subst.
  destruct o as [|kv2 o'].
  - cbn [map join_with]. rewrite pair_delim; [reflexivity|assumption|assumption|right; reflexivity].
  - change (join_with [44; 32] (map json_pair (kv :: kv2 :: o')))
      with (json_pair kv ++ [44; 32] ++ join_with [44; 32] (map json_pair (kv2 :: o'))).
    change (member_tokens (kv :: kv2 :: o'))
      with ([JStr (fst kv); JColon; val_tok (snd kv)] ++ [JComma] ++ member_tokens (kv2 :: o')).
    rewrite <- !app_assoc.
    change ([44; 32] ++ ?x) with ([44] ++ 32 :: x).
    rewrite app_assoc, jrun_app, pair_delim; [|assumption|assumption|left; reflexivity].
    rewrite jrun_cons.
    change (j_step (JIdle, ?t) 32) with (JIdle, t).
    rewrite IH; [|discriminate|assumption].
    rewrite !rev_app_distr. cbn [rev app]. rewrite <- !app_assoc. reflexivity.
Qed.

Lemma obj_run o toks : obj_ok o ->
  jrun (JIdle, toks) (json_obj o) = (JIdle, rev (obj_tokens o) ++ toks).
Proof.
  intro Hok. unfold json_obj, obj_tokens. rewrite jrun_cons.
  change (j_step (JIdle, toks) 123) with (JIdle, JLbrace :: toks).
  destruct o as [|kv o'].
  - reflexivity.
  - rewrite members_run; [|discriminate|assumption].
    cbn [rev]. rewrite rev_app_distr. cbn [rev app]. rewrite <- !app_assoc. reflexivity.
Qed.

Lemma objs_run objs : objs <> [] -> forall toks, Forall obj_ok objs ->
  jrun (JIdle, toks) (join_with [44; 10] (map json_obj objs))
  = (JIdle, rev (join_with [JComma] (map obj_tokens objs)) ++ toks).
Proof.
  induction objs as [|o objs IH]; intros Hne toks Hok; [congruence|].
  inversion Hok as [|? ? Ho Hos]; subst.
  destruct objs as [|o2 objs'].
  - cbn [map join_with]. apply obj_run. assumption.
  - change (join_with [44; 10] (map json_obj (o :: o2 :: objs')))
      with (json_obj o ++ 44 :: 10 :: join_with [44; 10] (map json_obj (o2 :: objs'))).
    change (join_with [JComma] (map obj_tokens (o :: o2 :: objs')))
      with (obj_tokens o ++ [JComma] ++ join_with [JComma] (map obj_tokens (o2 :: objs'))).
    rewrite jrun_app, obj_run by assumption. rewrite !jrun_cons.
    change (j_step (JIdle, ?t) 44) with (JIdle, JComma :: t).
    change (j_step (JIdle, ?t) 10) with (JIdle, t).
    rewrite IH; [|discriminate|assumption].
    rewrite !rev_app_distr. cbn [rev app]. rewrite <- !app_assoc. reflexivity.
Qed.

Lemma doc_tokens_ok objs : objs <> [] -> Forall obj_ok objs ->
  json_tokens (json_doc objs) = Ok (doc_tokens objs).
Proof.
  intros Hne Hok. unfold json_tokens. fold (jrun (JIdle, []) (json_doc objs)).
  destruct objs as [|o objs']; [congruence|].
  unfold json_doc. rewrite jrun_cons.
  change (j_step (JIdle, []) 91) with (JIdle, [JLbr]).
  rewrite jrun_app, objs_run; [|discriminate|assumption].
  cbn [jrun fold_left]. change (j_step (JIdle, ?t) 93) with (JIdle, JRbr :: t).
  change (j_step (JIdle, ?t) 10) with (JIdle, t).
  cbn [j_finish]. unfold doc_tokens. cbn [rev]. rewrite !rev_app_distr, rev_involutive.
  reflexivity.
Qed.

(* ================================================================== JSON documents: parser *)

Definition prun (s : pst) (ts : list jtok) : pst := fold_left p_step ts s.

Lemma prun_app s a b : prun s (a ++ b) = prun (prun s a) b.
Proof. unfold prun. apply fold_left_app. Qed.

Lemma members_parse o : o <> [] -> forall b cur done,
  prun (mkP (PKey b) cur done) (member_tokens o ++ [JRbrace])
  = mkP PAfterObj [] (rev (rev o ++ cur) :: done).
Proof.
  induction o as [|kv o IH]; intros Hne b cur done; [congruence|].
  destruct o as [|kv2 o'].
  - destruct kv as [k v]. cbn [member_tokens map join_with app fst snd prun fold_left].
    unfold p_step at 3. cbn [p_mode p_cur p_done].
    unfold p_step at 2. cbn [p_mode p_cur p_done].
    unfold p_step at 1. cbn [p_mode p_cur p_done]. rewrite tok_value_val.
    reflexivity.
  - change (member_tokens (kv :: kv2 :: o'))
      with ([JStr (fst kv); JColon; val_tok (snd kv); JComma] ++ member_tokens (kv2 :: o')).
    rewrite <- app_assoc, prun_app.
    assert (prun (mkP (PKey b) cur done) [JStr (fst kv); JColon; val_tok (snd kv); JComma]
            = mkP (PKey false) ((fst kv, snd kv) :: cur) done) as ->.
    { cbn [prun fold_left].
      unfold p_step at 4. cbn [p_mode p_cur p_done].
      unfold p_step at 3. cbn [p_mode p_cur p_done].
      unfold p_step at 2. cbn [p_mode p_cur p_done]. rewrite tok_value_val.
      reflexivity. }
    rewrite IH by discriminate. destruct kv. cbn [fst snd rev]. rewrite <- !app_assoc. reflexivity.
Qed.

Lemma obj_parse o b done :
  prun (mkP (PElem b) [] done) (obj_tokens o) = mkP PAfterObj [] (o :: done).
Proof.
  unfold obj_tokens. change (JLbrace :: ?x) with ([JLbrace] ++ x). rewrite prun_app.
  change (prun (mkP (PElem b) [] done) [JLbrace]) with (mkP (PKey true) [] done).
  destruct o as [|kv o'].
  - reflexivity.
  - rewrite members_parse by discriminate. rewrite app_nil_r, rev_involutive. reflexivity.
Qed.

Lemma objs_parse objs : objs <> [] -> forall b done,
  prun (mkP (PElem b) [] done) (join_with [JComma] (map obj_tokens objs) ++ [JRbr])
  = mkP PEnd [] (rev objs ++ done).
Proof.
  induction objs as [|o objs IH]; intros Hne b done; [congruence|].
  destruct objs as [|o2 objs'].
  - cbn [map join_with]. rewrite prun_app, obj_parse. reflexivity.
  - change (join_with [JComma] (map obj_tokens (o :: o2 :: objs')))
      with (obj_tokens o ++ [JComma] ++ join_with [JComma] (map obj_tokens (o2 :: objs'))).
    rewrite <- !app_assoc. rewrite prun_app, obj_parse, prun_app.
    change (prun (mkP PAfterObj [] (o :: done)) [JComma]) with (mkP (PElem false) [] (o :: done)).
    rewrite IH by discriminate. cbn [rev]. rewrite <- !app_assoc. reflexivity.
Qed.

Lemma doc_parse objs : objs <> [] -> json_parse (doc_tokens objs) = Ok objs.
Proof.
  intro Hne. unfold json_parse, doc_tokens. fold (prun (mkP PDoc [] []) (JLbr :: join_with [JComma] (map obj_tokens objs) ++ [JRbr])).
  change (JLbr :: ?x) with ([JLbr] ++ x). rewrite prun_app.
  change (prun (mkP PDoc [] []) [JLbr]) with (mkP (PElem true) [] []).
  rewrite objs_parse by assumption. cbn. rewrite app_nil_r, rev_involutive. reflexivity.
Qed.

(* for every list of flat objects whose strings are Python strs without an adjacent
   high/low surrogate pair: reading back the document JSONOutputStream wrote gives the objects *)
Theorem json_roundtrip objs : Forall obj_ok objs -> json_read (json_doc objs) = Ok objs.
Proof.
  intro Hok. unfold json_read. destruct objs as [|o objs'] eqn:E.
  - reflexivity.
  - rewrite <- E in *. assert (objs <> []) by (subst; discriminate).
    rewrite doc_tokens_ok by assumption. cbn [bind]. apply doc_parse. assumption.
Qed.

(* without the hypothesis the format is not injective: the str holding the two surrogates
   U+D83D U+DE00 and the str holding U+1F600 are written as the same bytes *)
Lemma json_string_not_injective : json_string [55357; 56832] = json_string [128512].
Proof. vm_compute. reflexivity. Qed.

(* ================================================================== SQL script *)

Definition srun (s : sst) (t : text) : sst := fold_left sql_step t s.

Lemma srun_app s a b : srun s (a ++ b) = srun (srun s a) b.
Proof. unfold srun. apply fold_left_app. Qed.

(* the quoting mode after a text, None if a statement ends inside it *)
Fixpoint sql_scan (m : smode) (x : text) : option smode :=
  match x with
  | [] => Some m
  | c :: r =>
    match m with
    | SPlain => if c =? 59 then None
                else if c =? 39 then sql_scan SInS r
                else if c =? 34 then sql_scan SInD r
                else sql_scan SPlain r
    | SInS => sql_scan (if c =? 39 then SPlain else SInS) r
    | SInD => sql_scan (if c =? 34 then SPlain else SInD) r
    end
  end.

Lemma sql_scan_app a : forall m b,
  sql_scan m (a ++ b) = match sql_scan m a with Some m1 => sql_scan m1 b | None => None end.
Proof.
  induction a as [|c a IH]; intros m b; [reflexivity|].
  cbn [app sql_scan]. destruct m.
  - destruct (c =? 59); [reflexivity|]. destruct (c =? 39); [apply IH|]. destruct (c =? 34); apply IH.
  - apply IH.
  - apply IH.
Qed.

Lemma scan_run x : forall m m' cur done, sql_scan m x = Some m' -> cur <> [] ->
  srun (mkS m cur done) x = mkS m' (rev x ++ cur) done.
Proof.
  induction x as [|c x IH]; intros m m' cur done Hs Hc.
  - cbn in *. congruence.
  - cbn [sql_scan] in Hs. cbn [srun fold_left]. fold (srun (sql_step (mkS m cur done) c) x).
    cbn [rev]. rewrite <- app_assoc. cbn [app].
    destruct m; unfold sql_step; cbn [s_mode s_cur s_done].
    + destruct (c =? 59); [discriminate|]. destruct (c =? 39).
      * apply IH; [assumption|discriminate].
      * destruct (c =? 34).
        -- apply IH; [assumption|discriminate].
        -- destruct cur as [|c0 cur']; [congruence|].
           rewrite andb_false_r. apply IH; [assumption|discriminate].
    + apply IH; [assumption|discriminate].
    + apply IH; [assumption|discriminate].
Qed.

Definition sql_plainc (c : Z) : bool := negb ((c =? 59) || (c =? 39) || (c =? 34)).

Lemma scan_plain w : forallb sql_plainc w = true -> sql_scan SPlain w = Some SPlain.
Proof.
  induction w as [|c w IH]; intro H; [reflexivity|].
  cbn [forallb] in H. apply andb_true_iff in H. destruct H as [Hc Hw].
  unfold sql_plainc in Hc. apply negb_true_iff in Hc. apply orb_false_iff in Hc.
  destruct Hc as [Hc H34]. apply orb_false_iff in Hc. destruct Hc as [H59 H39].
  cbn [sql_scan]. rewrite H59, H39, H34. auto.
Qed.

Lemma scan_dq s : sql_scan SInS (sql_dq s) = Some SInS.
Proof.
  induction s as [|c s IH]; [reflexivity|].
  cbn [sql_dq]. destruct (c =? 39) eqn:E.
  - cbn [sql_scan]. replace (39 =? 39) with true by reflexivity.
    replace (39 =? 59) with false by reflexivity. exact IH.
  - cbn [sql_scan]. rewrite E. exact IH.
Qed.

Lemma scan_ident t : forallb (fun c => negb (c =? 34)) t = true ->
  sql_scan SInD (t ++ [34]) = Some SPlain.
Proof.
  induction t as [|c t IH]; intro H; [reflexivity|].
  cbn [forallb] in H. apply andb_true_iff in H. destruct H as [Hc Ht].
  apply negb_true_iff in Hc. cbn [app sql_scan]. rewrite Hc. auto.
Qed.

Definition sql_cell_ok (c : cell) : Prop :=
  match c with
  | CNull | CNum _ => True
  | CText s => forallb (fun c => negb (c =? 0)) s = true
  | CBool _ => False
  end.

Definition sql_row_ok (r : text * list cell) : Prop :=
  forallb (fun c => negb (c =? 34)) (fst r) = true /\ snd r <> [] /\ Forall sql_cell_ok (snd r).

Lemma sql_cut_id s : forallb (fun c => negb (c =? 0)) s = true -> sql_cut s = s.
Proof.
  induction s as [|c s IH]; intro H; [reflexivity|].
  cbn [forallb] in H. apply andb_true_iff in H. destruct H as [Hc Hs].
  apply negb_true_iff in Hc. cbn [sql_cut]. rewrite Hc, IH; auto.
Qed.

Lemma dec_text_chars z : forallb (fun c => is_digit c || (c =? 45)) (dec_text z) = true.
Proof.
  assert (forall u, forallb (fun c => is_digit c || (c =? 45)) (uint_text u) = true) as Hu.
  { induction u; cbn [uint_text forallb]; try reflexivity; rewrite IHu; reflexivity. }
  unfold dec_text. destruct (Z.to_int z); cbn [forallb]; rewrite ?Hu; reflexivity.
Qed.

Lemma forallb_imp {A} (p q : A -> bool) l :
  (forall x, p x = true -> q x = true) -> forallb p l = true -> forallb q l = true.
Proof.
  intros H. induction l as [|x l IH]; [reflexivity|]. cbn [forallb]. intro Hl.
  apply andb_true_iff in Hl. destruct Hl. apply andb_true_iff. split; auto.
Qed.

Lemma scan_lit c : sql_cell_ok c -> sql_scan SPlain (sql_lit c) = Some SPlain.
Proof.
  destruct c as [|b|z|s]; cbn [sql_cell_ok sql_lit]; intro H.
  - reflexivity.
  - destruct H.
  - apply scan_plain. eapply forallb_imp; [|apply dec_text_chars].
    intros x Hx. unfold sql_plainc, is_digit in *. lia.
  - cbn [sql_scan]. replace (39 =? 59) with false by reflexivity.
    replace (39 =? 39) with true by reflexivity.
    rewrite sql_scan_app, scan_dq. reflexivity.
Qed.

Lemma scan_lits cells : Forall sql_cell_ok cells ->
  sql_scan SPlain (join_with [44] (map sql_lit cells)) = Some SPlain.
Proof.
  induction cells as [|c cells IH]; intro H; [reflexivity|].
  inversion H as [|? ? Hc Hcs]; subst.
  destruct cells as [|c2 cells'].
  - cbn [map join_with]. apply scan_lit. assumption.
  - change (join_with [44] (map sql_lit (c :: c2 :: cells')))
      with (sql_lit c ++ [44] ++ join_with [44] (map sql_lit (c2 :: cells'))).
    rewrite sql_scan_app, scan_lit by assumption.
    rewrite sql_scan_app. cbn [sql_scan]. replace (44 =? 59) with false by reflexivity.
    replace (44 =? 39) with false by reflexivity. replace (44 =? 34) with false by reflexivity.
    apply IH. assumption.
Qed.

Definition insert_tail (table : text) (cells : list cell) : text :=
  table ++ [34; 32; 86; 65; 76; 85; 69; 83; 40] ++ join_with [44] (map sql_lit cells) ++ [41].

Lemma sql_insert_eq table cells : sql_insert table cells = insert_prefix ++ insert_tail table cells.
Proof. unfold sql_insert, insert_prefix, insert_tail. rewrite <- ?app_assoc. reflexivity. Qed.

Lemma scan_insert r : sql_row_ok r ->
  sql_scan SPlain (sql_insert (fst r) (snd r)) = Some SPlain.
Proof.
  intros (Ht & _ & Hc). rewrite sql_insert_eq. unfold insert_prefix.
  rewrite sql_scan_app.
  change (sql_scan SPlain [73; 78; 83; 69; 82; 84; 32; 73; 78; 84; 79; 32; 34]) with (Some SInD). cbv iota beta.
  unfold insert_tail.
  change ([34; 32; 86; 65; 76; 85; 69; 83; 40] ++ ?x) with ([34] ++ [32; 86; 65; 76; 85; 69; 83; 40] ++ x).
  rewrite app_assoc, sql_scan_app, scan_ident by assumption.
  rewrite sql_scan_app.
  change (sql_scan SPlain [32; 86; 65; 76; 85; 69; 83; 40]) with (Some SPlain). cbv iota beta.
  rewrite sql_scan_app, scan_lits by assumption. reflexivity.
Qed.

Lemma stmt_run r done : sql_row_ok r ->
  srun (mkS SPlain [] done) (sql_insert (fst r) (snd r) ++ [59; 10])
  = mkS SPlain [] (sql_insert (fst r) (snd r) :: done).
Proof.
  intro Hok. pose proof (scan_insert r Hok) as Hscan.
  remember (sql_insert (fst r) (snd r)) as st eqn:Est.
  assert (exists rest, st = 73 :: rest) as [rest ->].
  { subst st. rewrite sql_insert_eq. unfold insert_prefix. eexists. reflexivity. }
  change (sql_scan SPlain (73 :: rest)) with (sql_scan SPlain rest) in Hscan.
  change ((73 :: rest) ++ [59; 10]) with (73 :: (rest ++ [59; 10])).
  change (srun (mkS SPlain [] done) (73 :: rest ++ [59; 10]))
    with (srun (mkS SPlain [73] done) (rest ++ [59; 10])).
  rewrite srun_app, (scan_run rest SPlain SPlain [73] done Hscan) by discriminate.
  change (srun ?s [59; 10]) with (sql_step (sql_step s 59) 10).
  unfold sql_step at 2. cbn [s_mode s_cur s_done].
  replace (59 =? 59) with true by reflexivity.
  unfold sql_step. cbn [s_mode s_cur s_done].
  rewrite rev_app_distr, rev_involutive. reflexivity.
Qed.

Lemma inserts_run rows : forall done, Forall sql_row_ok rows ->
  srun (mkS SPlain [] done) (sql_inserts rows)
  = mkS SPlain [] (rev (map (fun r => sql_insert (fst r) (snd r)) rows) ++ done).
Proof.
  induction rows as [|r rows IH]; intros done H; [reflexivity|].
  inversion H as [|? ? Hr Hrs]; subst.
  unfold sql_inserts. cbn [flat_map]. fold (sql_inserts rows).
  rewrite srun_app, stmt_run by assumption. rewrite IH by assumption.
  cbn [map rev]. rewrite <- app_assoc. reflexivity.
Qed.

Lemma split_inserts rows : Forall sql_row_ok rows ->
  sql_split (sql_inserts rows) = Ok (map (fun r => sql_insert (fst r) (snd r)) rows).
Proof.
  intro H. unfold sql_split. fold (srun (mkS SPlain [] []) (sql_inserts rows)).
  rewrite inserts_run by assumption. cbn. rewrite app_nil_r, rev_involutive. reflexivity.
Qed.

(* ---- the INSERT parser *)
Lemma strip_prefix_app p s : strip_prefix p (p ++ s) = Some s.
Proof. induction p as [|c p IH]; [reflexivity|]. cbn. rewrite Z.eqb_refl. exact IH. Qed.

Lemma read_ident_ok t rest : forallb (fun c => negb (c =? 34)) t = true ->
  read_ident (t ++ 34 :: rest) = Some (t, rest).
Proof.
  induction t as [|c t IH]; intro H; [reflexivity|].
  cbn [forallb] in H. apply andb_true_iff in H. destruct H as [Hc Ht].
  apply negb_true_iff in Hc. cbn [app read_ident]. rewrite Hc, IH by assumption. reflexivity.
Qed.

Definition lrun (s : lst) (t : text) : lst := fold_left l_step t s.

Lemma lrun_app s a b : lrun s (a ++ b) = lrun (lrun s a) b.
Proof. unfold lrun. apply fold_left_app. Qed.

Lemma lword_run w : forall acc cells, forallb (fun c => is_digit c || (c =? 45)) w = true ->
  lrun (LWord acc, cells) w = (LWord (rev w ++ acc), cells).
Proof.
  induction w as [|c w IH]; intros acc cells H; [reflexivity|].
  cbn [forallb] in H. apply andb_true_iff in H. destruct H as [Hc Hw].
  cbn [lrun fold_left]. fold (lrun (l_step (LWord acc, cells) c) w).
  assert (((c =? 44) || (c =? 41)) = false) as Hd by (unfold is_digit in Hc; lia).
  unfold l_step. rewrite Hd. rewrite IH by assumption. cbn [rev]. rewrite <- app_assoc. reflexivity.
Qed.

Lemma lstr_run s : forall acc cells,
  lrun (LStr acc, cells) (sql_dq s) = (LStr (rev s ++ acc), cells).
Proof.
  induction s as [|c s IH]; intros acc cells; [reflexivity|].
  cbn [sql_dq]. destruct (c =? 39) eqn:E.
  - apply Z.eqb_eq in E. subst c. cbn [lrun fold_left].
    change (l_step (l_step (LStr acc, cells) 39) 39) with (LStr (39 :: acc), cells).
    fold (lrun (LStr (39 :: acc), cells) (sql_dq s)). rewrite IH. cbn [rev]. rewrite <- app_assoc. reflexivity.
  - cbn [lrun fold_left]. fold (lrun (l_step (LStr acc, cells) c) (sql_dq s)).
    unfold l_step. rewrite E. rewrite IH. cbn [rev]. rewrite <- app_assoc. reflexivity.
Qed.

Lemma lit_word_num z : lit_word (dec_text z) = Some (CNum z).
Proof.
  unfold lit_word. rewrite int_roundtrip.
  destruct (dec_text_head z) as (c & r & -> & Hc).
  assert ((c =? 78) = false) as H1 by (unfold is_digit in Hc; lia).
  unfold text_eqb. cbn [list_eqb]. rewrite H1. reflexivity.
Qed.

Lemma lit_delim c d cells : sql_cell_ok c -> d = 44 \/ d = 41 ->
  lrun (LStart, cells) (sql_lit c ++ [d]) = l_after (c :: cells) d.
Proof.
  intros Hc Hd.
  assert (((d =? 44) || (d =? 41)) = true) as Hdd by (destruct Hd; subst; reflexivity).
  assert ((d =? 39) = false) as Hd39 by (destruct Hd; subst; reflexivity).
  destruct c as [|b|z|s]; cbn [sql_cell_ok sql_lit] in *.
  - cbn [app lrun fold_left].
    change (l_step (l_step (l_step (l_step (LStart, cells) 78) 85) 76) 76) with (LWord [76; 76; 85; 78], cells).
    unfold l_step. rewrite Hdd. reflexivity.
  - destruct Hc.
  - destruct (dec_text_head z) as (c & r & E & Hc0).
    pose proof (dec_text_chars z) as Hch. pose proof (lit_word_num z) as Hw.
    rewrite E in *. cbn [forallb] in Hch. apply andb_true_iff in Hch. destruct Hch as [_ Hr].
    cbn [app lrun fold_left]. fold (lrun (l_step (LStart, cells) c) (r ++ [d])).
    assert (l_step (LStart, cells) c = (LWord [c], cells)) as ->.
    { unfold l_step. assert ((c =? 39) = false) as -> by (unfold is_digit in Hc0; lia).
      assert ((is_digit c || (c =? 45) || (c =? 78)) = true) as -> by (unfold is_digit in *; lia).
      reflexivity. }
    rewrite lrun_app, lword_run by assumption. cbn [lrun fold_left]. unfold l_step. rewrite Hdd.
    replace (rev (rev r ++ [c])) with (c :: r) by (rewrite rev_app_distr, rev_involutive; reflexivity).
    rewrite Hw. reflexivity.
  - rewrite sql_cut_id by assumption.
    cbn [app lrun fold_left]. change (l_step (LStart, cells) 39) with (LStr [], cells).
    fold (lrun (LStr [], cells) ((sql_dq s ++ [39]) ++ [d])).
    rewrite <- app_assoc, lrun_app, lstr_run. rewrite app_nil_r.
    cbn [app lrun fold_left].
    change (l_step (LStr (rev s), cells) 39) with (LStrQ (rev s), cells).
    unfold l_step. rewrite Hd39, rev_involutive. reflexivity.
Qed.

Lemma lits_run cs : cs <> [] -> forall cells, Forall sql_cell_ok cs ->
  lrun (LStart, cells) (join_with [44] (map sql_lit cs) ++ [41]) = (LDone, rev cs ++ cells).
Proof.
  induction cs as [|c cs IH]; intros Hne cells H; [congruence|].
  inversion H as [|? ? Hc Hcs]; subst.
  destruct cs as [|c2 cs'].
  - cbn [map join_with]. rewrite lit_delim; auto.
  - change (join_with [44] (map sql_lit (c :: c2 :: cs')))
      with (sql_lit c ++ [44] ++ join_with [44] (map sql_lit (c2 :: cs'))).
    rewrite <- !app_assoc. rewrite app_assoc, lrun_app, lit_delim; auto.
    change (l_after (c :: cells) 44) with (LStart, c :: cells).
    rewrite IH; [|discriminate|assumption]. cbn [rev]. rewrite <- !app_assoc. reflexivity.
Qed.

Lemma parse_insert r : sql_row_ok r ->
  sql_parse_stmt (sql_insert (fst r) (snd r)) = Ok (Some r).
Proof.
  intros (Ht & Hne & Hc). unfold sql_parse_stmt. rewrite sql_insert_eq, strip_prefix_app.
  unfold insert_tail. change ([34; 32; 86; 65; 76; 85; 69; 83; 40] ++ ?x) with (34 :: values_prefix ++ x).
  rewrite read_ident_ok by assumption. rewrite strip_prefix_app.
  unfold sql_values. fold (lrun (LStart, []) (join_with [44] (map sql_lit (snd r)) ++ [41])).
  rewrite lits_run by assumption. rewrite app_nil_r, rev_involutive. destruct r. reflexivity.
Qed.

Lemma parse_all rows : Forall sql_row_ok rows ->
  map_result sql_parse_stmt (map (fun r => sql_insert (fst r) (snd r)) rows) = Ok (map Some rows).
Proof.
  induction rows as [|r rows IH]; intro H; [reflexivity|].
  inversion H as [|? ? Hr Hrs]; subst. cbn [map map_result].
  rewrite parse_insert by assumption. cbn [bind]. rewrite IH by assumption. reflexivity.
Qed.

Lemma keep_some_map {A} (l : list A) : keep_some (map Some l) = l.
Proof. induction l; cbn; congruence. Qed.

(* for every list of rows (table name without a double quote; NULL, integers of any size, texts of
   any code points except NUL): the INSERT statements of the dump are read back as the rows *)
Theorem sql_roundtrip rows : Forall sql_row_ok rows -> sql_read (sql_inserts rows) = Ok rows.
Proof.
  intro H. unfold sql_read. rewrite split_inserts by assumption. cbn [bind].
  rewrite parse_all by assumption. cbn [bind]. rewrite keep_some_map. reflexivity.
Qed.

(* finding C08-sql-script-nul: SQLite's quote() ends the text at a NUL character: different values, same script *)
Lemma sql_lit_not_injective : sql_lit (CText [97; 0; 98]) = sql_lit (CText [97]).
Proof. vm_compute. reflexivity. Qed.

(* ================================================================== from rows to files *)
From SFV Require Import StreamCases.

(* the CSV file of a table, as the model writes it for any rows, is read back as the header and,
   per row, the cells of [obs_row FCsv] (cleanup + str) in header order *)
Theorem csv_file_faithful ti raws t : csv_table_text ti raws = Ok t ->
  exists rows, csv_table_rows ti raws = Ok rows /\ csv_read t = Ok rows.
Proof.
  unfold csv_table_text. destruct (csv_table_rows ti raws) as [rows|]; cbn [bind]; [|discriminate].
  intros [= <-]. exists rows. split; [reflexivity|apply csv_roundtrip].
Qed.

Theorem json_file_faithful rows t : json_text rows = Ok t ->
  exists objs, json_objects rows = Ok objs /\ (Forall obj_ok objs -> json_read t = Ok objs).
Proof.
  unfold json_text. destruct (json_objects rows) as [objs|]; cbn [bind]; [|discriminate].
  intros [= <-]. exists objs. split; [reflexivity|apply json_roundtrip].
Qed.

(* ================================================================== a value-level cache in front of an encoder *)
Lemma memo_find_sound keq enc c v x :
  (forall a b, keq a b = true -> enc a = enc b) ->
  cache_sound enc c -> memo_find keq v c = Some x -> x = enc v.
Proof.
  intros Hk. induction c as [|[k y] r IH]; intros Hs H; cbn [memo_find] in H; [discriminate|].
  destruct (keq k v) eqn:E.
  - inversion H; subst. rewrite <- (Hk _ _ E). apply Hs. left; reflexivity.
  - apply IH; [|exact H]. intros k' x' Hin. apply Hs. right; exact Hin.
Qed.

Lemma memo_run_faithful keq enc evict :
  (forall a b, keq a b = true -> enc a = enc b) ->
  (forall c, incl (evict c) c) ->
  forall vs c, cache_sound enc c ->
    fst (memo_run keq enc evict c vs) = map enc vs /\ cache_sound enc (snd (memo_run keq enc evict c vs)).
Proof.
  intros Hk He. induction vs as [|v r IH]; intros c Hs; cbn [memo_run map].
  - split; [reflexivity|exact Hs].
  - unfold memo_cell. destruct (memo_find keq v c) eqn:F.
    + destruct (memo_run keq enc evict c r) as [xs c2] eqn:R.
      specialize (IH c Hs). rewrite R in IH. cbn [fst snd] in *. destruct IH as [I1 I2].
      split; [|exact I2]. rewrite (memo_find_sound _ _ _ _ _ Hk Hs F), I1. reflexivity.
    + assert (Hs1 : cache_sound enc (evict ((v, enc v) :: c))).
      { intros k x Hin. apply He in Hin. destruct Hin as [Hin|Hin]; [inversion Hin; reflexivity|apply Hs; exact Hin]. }
      destruct (memo_run keq enc evict (evict ((v, enc v) :: c)) r) as [xs c2] eqn:R.
      specialize (IH _ Hs1). rewrite R in IH. cbn [fst snd] in *. destruct IH as [I1 I2].
      split; [|exact I2]. rewrite I1. reflexivity.
Qed.

(* the condition is necessary: a cache that keeps the entry it has just made and is faithful on every
   two-value run only ever identifies values that are written alike *)
Lemma memo_faithful_needs_keys_respect_encoding keq enc :
  (forall a b, fst (memo_run keq enc (fun c => c) [] [a; b]) = [enc a; enc b]) ->
  forall a b, keq a b = true -> enc a = enc b.
Proof.
  intros H a b E. specialize (H a b). unfold memo_run, memo_cell in H. cbn [memo_find] in H.
  rewrite E in H. cbn [fst] in H. inversion H. reflexivity.
Qed.
