(* InterpP.v — basic metatheory of the SF-core interpreter (theories/Interp.v):
   which components of the state each primitive can change, output monotonicity,
   hidden names never emitted, field order, dialect coercion rules.                     *)
From Coq Require Import ZArith List Lia Bool Permutation ZifyBool.
From SFV Require Import Base Interp.
From SFV.P Require Import BaseP.
Import ListNotations. Open Scope Z_scope.

Ltac splits := repeat match goal with |- _ /\ _ => split end.

(* destruct the scrutinee of a monadic bind / match in hypothesis H *)
Tactic Notation "dbind" hyp(H) "as" simple_intropattern(pat) :=
  match type of H with
  | bind ?X _ = _ => let E := fresh "E" in destruct X as [pat|] eqn:E; cbn [bind] in H; [|discriminate H]
  end.

(* ------------------------------------------------------------------ frame conditions *)

(* [same_out s s'] : the output list is untouched *)
Definition same_out (s s' : st) : Prop := out s' = out s.

Lemma touch_slot_out s n s' i : touch_slot s n = Ok (s', i) -> same_out s s'.
Proof.
  unfold touch_slot, same_out. destruct (lookup n (slots s)) as [sl|]; [|discriminate].
  destruct (s_alloc sl); intros H; injection H as <- _; reflexivity.
Qed.

Lemma eval_expr_out e x : forall s s' v, eval_expr e x s = Ok (s', v) -> same_out s s'.
Proof.
  unfold same_out.
  induction x as [z|n|a IHa f|a IHa b IHb|a IHa b IHb|a IHa b IHb]; intros s s' v H; cbn [eval_expr] in H.
  - injection H as <- _. reflexivity.
  - dbind H as o. destruct o; injection H as <- _; reflexivity.
  - dbind H as [s1 v1]. apply IHa in E.
    destruct v1; try discriminate;
      try (destruct (py_own_attr f); [discriminate|]);
      try (injection H as <- _; exact E);
      try (dbind H as w0; injection H as <- _; exact E).
    + destruct (nth_error (heap s1) h); [|discriminate].
      destruct (row_attr c f); injection H as <- _; exact E.
    + destruct (String.eqb f "id"); [|discriminate]. dbind H as [s2 i].
      injection H as <- _. apply touch_slot_out in E0. unfold same_out in E0. congruence.
  - dbind H as [s1 v1]. dbind H as [s2 v2].
    apply IHa in E. apply IHb in E0.
    destruct v1, v2; try discriminate; injection H as <- _; congruence.
  - dbind H as [s1 v1]. dbind H as [s2 v2].
    apply IHa in E. apply IHb in E0.
    destruct v1, v2; try discriminate; injection H as <- _; congruence.
  - dbind H as [s1 v1]. dbind H as [s2 v2].
    apply IHa in E. apply IHb in E0.
    destruct v1, v2; try discriminate; injection H as <- _; congruence.
Qed.

Lemma render_pieces_out e ps : forall s s' t, render_pieces e ps s = Ok (s', t) -> same_out s s'.
Proof.
  unfold same_out. induction ps as [|p ps IH]; intros s s' t H; cbn [render_pieces] in H.
  - injection H as <- _. reflexivity.
  - destruct p as [tx|x].
    + dbind H as [s1 rest]. injection H as <- _. eauto.
    + dbind H as [s1 v]. dbind H as w0. dbind H as [s2 rest].
      injection H as <- _. apply eval_expr_out in E. apply IH in E1. unfold same_out in E. congruence.
Qed.

Lemma render_formula_out e ps s s' v : render_formula e ps s = Ok (s', v) -> same_out s s'.
Proof.
  unfold render_formula, same_out. intros H.
  destruct (version e =? 3).
  - destruct ps as [|[tx|x] [|p2 r]];
      try (dbind H as [s1 t]; dbind H as w0; injection H as <- _;
           apply render_pieces_out in E; exact E).
    dbind H as [s1 w]. apply eval_expr_out in E.
    destruct w; try discriminate; try (injection H as <- _; exact E).
    dbind H as w0. injection H as <- _. exact E.
  - dbind H as [s1 t]. dbind H as w0. injection H as <- _.
    apply render_pieces_out in E. exact E.
Qed.

Lemma follow_path_out parts : forall s v s' w, follow_path s v parts = Ok (s', w) -> same_out s s'.
Proof.
  unfold same_out. induction parts as [|p r IH]; intros s v s' w H; cbn [follow_path] in H.
  - injection H as <- _. reflexivity.
  - dbind H as [s1 w1]. apply IH in H. rewrite H.
    unfold getattr_path in E. destruct v; try discriminate.
    + destruct (nth_error (heap s) h); [|discriminate].
      destruct (row_attr c p); [|discriminate]. injection E as <- _. reflexivity.
    + destruct (String.eqb p "id"); [|discriminate]. dbind E as [s2 i].
      injection E as <- _. apply touch_slot_out in E0. exact E0.
    + dbind E as w0. injection E as <- _. reflexivity.
Qed.

Lemma reference_out e path s s' v : reference e path s = Ok (s', v) -> same_out s s'.
Proof.
  unfold reference, same_out. intros H.
  destruct (split_dot path) as [|first parts]; [discriminate|].
  dbind H as o. destruct o as [v0|]; [|destruct parts; discriminate].
  dbind H as [s1 target]. apply follow_path_out in E0.
  destruct target; try discriminate.
  - injection H as <- _. exact E0.
  - dbind H as [s2 i]. injection H as <- _.
    apply touch_slot_out in E1. unfold same_out in *. congruence.
  - injection H as <- _. exact E0.
Qed.

(* ------------------------------------------------------------------ what gets written *)

Definition clean_row (r : orow) : Prop :=
  hidden (fst r) = false /\ Forall (fun nv => hidden (fst nv) = false) (snd r).

Lemma flatten_fields_spec fs : forall s s' l,
  flatten_fields s fs = Ok (s', l) ->
  same_out s s' /\ map fst l = filter (fun n => negb (hidden n)) (map fst fs).
Proof.
  unfold same_out. induction fs as [|[n v] r IH]; intros s s' l H; cbn [flatten_fields] in H.
  - injection H as <- <-. split; reflexivity.
  - cbn [map filter fst]. destruct (hidden n) eqn:Hn; cbn [negb].
    + apply IH in H. exact H.
    + dbind H as [s1 o]. dbind H as [s2 rest]. injection H as <- <-.
      apply IH in E0. destruct E0 as [Ho Hm]. cbn [map fst]. split; [|f_equal; exact Hm].
      rewrite Ho. destruct v; try discriminate; try (injection E as <- _; reflexivity).
      * destruct (nth_error (heap s) h); [|discriminate]. injection E as <- _. reflexivity.
      * destruct (lookup name (slots s)); [|discriminate]. dbind E as [s3 i].
        injection E as <- _. apply touch_slot_out in E0. exact E0.
Qed.

Lemma filter_not_hidden l :
  Forall (fun n => hidden n = false) (filter (fun n => negb (hidden n)) l).
Proof.
  apply Forall_forall. intros x Hx. apply filter_In in Hx. destruct Hx as [_ Hx].
  destruct (hidden x); [discriminate|reflexivity].
Qed.

(* write_row appends at most one row, and that row is clean *)
Lemma write_row_spec s h s' :
  write_row s h = Ok s' ->
  out s' = out s \/ exists r, out s' = r :: out s /\ clean_row r /\
    exists c, nth_error (heap s) h = Some c /\ fst r = c_table c /\
              map fst (snd r) = "id"%string :: filter (fun n => negb (hidden n)) (map fst (c_fields c)).
Proof.
  unfold write_row. destruct (nth_error (heap s) h) as [c|] eqn:Hc; [|discriminate].
  destruct (hidden (c_table c)) eqn:Ht.
  - intros H. injection H as <-. left. reflexivity.
  - intros H. dbind H as [s1 fs]. injection H as <-.
    apply flatten_fields_spec in E. destruct E as [Ho Hm]. right.
    eexists. cbn [out upd_out]. split; [rewrite Ho; reflexivity|]. split.
    + split; cbn [fst snd]; [exact Ht|]. constructor; [reflexivity|].
      apply Forall_forall. intros [n v] Hin. cbn [fst].
      assert (Hn : In n (map fst fs)) by (apply in_map_iff; exists (n, v); auto).
      rewrite Hm in Hn. apply filter_In in Hn. destruct Hn as [_ Hn].
      destruct (hidden n); [discriminate|reflexivity].
    + exists c. splits; try reflexivity. cbn [snd map fst]. f_equal. exact Hm.
Qed.

(* ------------------------------------------------------------------ simple state updates *)

Lemma set_var_out s n v : out (set_var s n v) = out s.
Proof. unfold set_var. destruct (frames s); reflexivity. Qed.
Lemma set_obj_out s h : out (set_obj s h) = out s.
Proof. unfold set_obj. destruct (frames s); reflexivity. Qed.
Lemma push_frame_out s : out (push_frame s) = out s.
Proof. reflexivity. Qed.
Lemma pop_frame_out s : out (pop_frame s) = out s.
Proof. unfold pop_frame. destruct (frames s); reflexivity. Qed.
Lemma set_field_out s h n v : out (set_field s h n v) = out s.
Proof. unfold set_field. destruct (nth_error (heap s) h); reflexivity. Qed.
Lemma register_object_out s h t nick once : out (register_object s h t nick once) = out s.
Proof. unfold register_object. destruct nick, once; reflexivity. Qed.
Lemma new_row_id_out s t nick : out (fst (new_row_id s t nick)) = out s.
Proof.
  unfold new_row_id, consume_for, generate_id.
  destruct nick as [n|].
  - destruct (lookup n (slots s)) as [sl|]; [destruct (s_alloc sl); [destruct (_ && _)|]|];
      try reflexivity;
      destruct (lookup t (slots s)) as [sl2|]; try reflexivity;
      destruct (s_alloc sl2); try reflexivity; destruct (_ && _); reflexivity.
  - destruct (lookup t (slots s)) as [sl2|]; try reflexivity;
      destruct (s_alloc sl2); try reflexivity; destruct (_ && _); reflexivity.
Qed.
Lemma remember_deps_out fs : forall s t, out (remember_deps s t fs) = out s.
Proof.
  unfold remember_deps. induction fs as [|[n v] r IH]; intros s t; cbn [fold_left]; [reflexivity|].
  rewrite IH. destruct (target_table s v); [|reflexivity].
  destruct (existsb _ _); reflexivity.
Qed.

(* ------------------------------------------------------------------ steps that only touch the
   random-reference state (row history, remaining draws) *)

Definition rnd_only (s s' : st) : Prop := exists x, s' = upd_rnd s x.

Lemma upd_rnd_same s : upd_rnd s (rnd s) = s.
Proof. destruct s; reflexivity. Qed.

Lemma rnd_only_refl s : rnd_only s s.
Proof. exists (rnd s). symmetry. apply upd_rnd_same. Qed.

Lemma remember_history_rnd e s t nick id s' :
  remember_history e s t nick id = Ok s' -> rnd_only s s'.
Proof.
  unfold remember_history. intros H.
  destruct (existsb (String.eqb t) (hist_tables e)); injection H as <-; [eexists; reflexivity|apply rnd_only_refl].
Qed.

Lemma random_reference_rnd e to s s' v :
  random_reference e to s = Ok (s', v) -> rnd_only s s'.
Proof.
  unfold random_reference. intros H.
  destruct (negb (rr_ok e)); [discriminate|].
  dbind H as [[[nick table] lo] hi].
  destruct (draws (rnd s)) as [|r rest]; [discriminate|].
  destruct ((0 <=? r) && (r <? hi - lo + 1)); [|discriminate].
  dbind H as [t i]. injection H as <- _. eexists. reflexivity.
Qed.

Lemma rnd_only_out s s' : rnd_only s s' -> out s' = out s.
Proof. intros [x ->]. reflexivity. Qed.

(* writing a row commutes with any change of the random-reference state *)
Definition liftRA {A} (x : rstate) (r : result (st * A)) : result (st * A) :=
  match r with Ok (s, a) => Ok (upd_rnd s x, a) | Err e => Err e end.
Definition liftRS (x : rstate) (r : result st) : result st :=
  match r with Ok s => Ok (upd_rnd s x) | Err e => Err e end.

Lemma touch_slot_rnd s n x : touch_slot (upd_rnd s x) n = liftRA x (touch_slot s n).
Proof.
  unfold touch_slot. cbn [slots upd_rnd].
  destruct (lookup n (slots s)) as [sl|]; [|reflexivity].
  destruct (s_alloc sl); reflexivity.
Qed.

Lemma flatten_fields_rnd fs : forall s x, flatten_fields (upd_rnd s x) fs = liftRA x (flatten_fields s fs).
Proof.
  induction fs as [|[n v] r IH]; intros s x; cbn [flatten_fields]; [reflexivity|].
  destruct (hidden n); [apply IH|].
  destruct v; cbn [bind]; try reflexivity;
    try (rewrite IH; destruct (flatten_fields s r) as [[s2 rest]|]; reflexivity).
  - change (heap (upd_rnd s x)) with (heap s). destruct (nth_error (heap s) h); [|reflexivity]. cbn [bind].
    rewrite IH. destruct (flatten_fields s r) as [[s2 rest]|]; reflexivity.
  - change (slots (upd_rnd s x)) with (slots s). destruct (lookup name (slots s)); [|reflexivity].
    rewrite touch_slot_rnd. destruct (touch_slot s name) as [[s1 i]|]; [|reflexivity]. cbn [liftRA bind].
    rewrite IH. destruct (flatten_fields s1 r) as [[s2 rest]|]; reflexivity.
Qed.

Lemma write_row_rnd s h x : write_row (upd_rnd s x) h = liftRS x (write_row s h).
Proof.
  unfold write_row. change (heap (upd_rnd s x)) with (heap s).
  destruct (nth_error (heap s) h) as [c|]; [|reflexivity].
  destruct (hidden (c_table c)); [reflexivity|].
  rewrite flatten_fields_rnd. destruct (flatten_fields s (c_fields c)) as [[s1 fs]|]; reflexivity.
Qed.

(* ------------------------------------------------------------------ output only grows, and stays clean *)

(* [extends s s'] : out s' = new ++ out s with every new row clean *)
Definition extends (s s' : st) : Prop :=
  exists new, out s' = new ++ out s /\ Forall clean_row new.

Lemma extends_refl s : extends s s.
Proof. exists []. split; [reflexivity|constructor]. Qed.

Lemma extends_same s s' : out s' = out s -> extends s s'.
Proof. intros H. exists []. split; [exact H|constructor]. Qed.

Lemma extends_trans s1 s2 s3 : extends s1 s2 -> extends s2 s3 -> extends s1 s3.
Proof.
  intros (n1 & H1 & F1) (n2 & H2 & F2). exists (n2 ++ n1). split.
  - rewrite H2, H1, app_assoc. reflexivity.
  - apply Forall_app. split; assumption.
Qed.

Lemma extends_eq_l s1 s1' s2 : out s1' = out s1 -> extends s1' s2 -> extends s1 s2.
Proof. intros H (n & Hn & F). exists n. rewrite <- H. auto. Qed.

Theorem run_extends fuel : forall e tk s s' r,
  run fuel e tk s = Ok (s', r) -> extends s s'.
Proof.
  induction fuel as [|n IH]; intros e tk s s' r H; [discriminate|].
  cbn [run] in H. destruct tk as [l c|x c|t|t i cnt last|t i|h fs|d].
  - (* TStmts *)
    destruct l as [|x l]; [injection H as <- _; apply extends_refl|].
    dbind H as [s1 r1]. apply IH in E. apply IH in H. eapply extends_trans; eassumption.
  - (* TStmt *)
    destruct x as [t|name d].
    + destruct (t_once t && c); [injection H as <- _; apply extends_refl|].
      dbind H as [s1 r1]. injection H as <- _. apply IH in E. exact E.
    + destruct d; try discriminate;
        (dbind H as [s1 r1]; injection H as <- _; apply IH in E;
         (eapply extends_trans; [eapply extends_eq_l; [|exact E]; apply push_frame_out|]);
         apply extends_same; rewrite set_var_out, pop_frame_out; reflexivity).
  - (* TRows *)
    dbind H as [s1 cnt]. dbind H as [s2 r2]. injection H as <- _.
    assert (H1 : extends s s1).
    { destruct (t_count t) as [d|].
      - dbind E as [s1' r1]. dbind E as w0. injection E as <- _. apply IH in E1.
        eapply extends_eq_l; [|exact E1]. apply push_frame_out.
      - injection E as <- _. apply extends_same. apply push_frame_out. }
    apply IH in E0. eapply extends_trans; [exact H1|].
    eapply extends_trans; [exact E0|]. apply extends_same. apply pop_frame_out.
  - (* TLoop *)
    destruct (i <? cnt); [|injection H as <- _; apply extends_refl].
    dbind H as [s1 r1]. apply IH in E.
    destruct r1; try discriminate. apply IH in H.
    eapply extends_trans; [eapply extends_eq_l; [|exact E]; apply set_var_out|exact H].
  - (* TRow *)
    destruct (new_row_id s (t_table t) (t_nick t)) as [s1 id] eqn:Hid.
    dbind H as [s4 r4].
    destruct (nth_error (heap s4) (length (heap s1))) as [c|]; [|discriminate].
    dbind H as s5. dbind H as w0. dbind H as [s7 r7]. injection H as <- _.
    apply IH in E. apply IH in E2.
    apply remember_history_rnd in E0. apply rnd_only_out in E0.
    assert (H0 : out s1 = out s).
    { pose proof (new_row_id_out s (t_table t) (t_nick t)) as Hn. rewrite Hid in Hn. exact Hn. }
    eapply extends_trans; [eapply extends_eq_l; [|exact E]|].
    { rewrite register_object_out, set_obj_out. cbn [out upd_heap]. exact H0. }
    eapply extends_trans; [|exact E2].
    apply write_row_spec in E1. rewrite E0, remember_deps_out in E1.
    destruct E1 as [Hs|(row & Hr & Hc & _)].
    + apply extends_same. exact Hs.
    + exists [row]. split; [exact Hr|]. constructor; [exact Hc|constructor].
  - (* TFields *)
    destruct fs as [|[name d] fs]; [injection H as <- _; apply extends_refl|].
    destruct (String.eqb name "id"); [discriminate|].
    dbind H as [s1 v]. apply IH in E. apply IH in H.
    eapply extends_trans; [exact E|]. eapply extends_eq_l; [|exact H]. apply set_field_out.
  - (* TField *)
    destruct d as [z|x|ps|path|t|to].
    + injection H as <- _. apply extends_refl.
    + destruct (version e =? 3); [injection H as <- _; apply extends_refl|].
      dbind H as w0. injection H as <- _. apply extends_refl.
    + dbind H as [s1 v]. injection H as <- _.
      apply extends_same. apply render_formula_out in E. exact E.
    + dbind H as [s1 v]. injection H as <- _.
      apply extends_same. apply reference_out in E. exact E.
    + apply IH in H. exact H.
    + dbind H as [s1 v]. injection H as <- _.
      apply extends_same. apply rnd_only_out. eapply random_reference_rnd. exact E.
Qed.

(* keep the kernel from unfolding the evaluator when it compares terms at Qed *)
Strategy 1000 [iteration run].

(* reset_slots does not touch the output *)
Lemma iteration_extends e stmts c s s' : iteration e stmts c s = Ok s' -> extends s s'.
Proof.
  unfold iteration. intros H. dbind H as [s1 r].
  destruct (slots_filled s1); [|discriminate].
  destruct (stale_slot 4 s1 (survivors s1)); [discriminate|]. injection H as <-.
  apply run_extends in E. eapply extends_trans; [exact E|]. apply extends_same. reflexivity.
Qed.

Lemma iterations_extends k : forall e stmts c s s', iterations k e stmts c s = Ok s' -> extends s s'.
Proof.
  induction k as [|k IH]; intros e stmts c s s' H; cbn [iterations] in H.
  - injection H as <-. apply extends_refl.
  - dbind H as w0. apply iteration_extends in E. apply IH in H. eapply extends_trans; eassumption.
Qed.

(* Every row delivered to the output, over any number of iterations of any recipe, has a
   visible table name and only visible field names. *)
Theorem hidden_never_emitted r k rows :
  run_rows r k = Ok rows -> Forall clean_row rows.
Proof.
  unfold run_rows, run_fresh, rows_of. intros H. dbind H as w0. injection H as <-.
  apply iterations_extends in E. destruct E as (new & Hn & F).
  cbn [out init_st] in Hn. rewrite app_nil_r in Hn. rewrite Hn.
  apply Forall_rev. exact F.
Qed.

(* ------------------------------------------------------------------ dialect coercions *)

Lemma str_all_impl (p q : ascii -> bool) s :
  (forall c, p c = true -> q c = true) -> str_all p s = true -> str_all q s = true.
Proof.
  intros Hpq. induction s as [|c r IH]; cbn [str_all]; [reflexivity|].
  intros H. apply andb_true_iff in H. destruct H as [H1 H2].
  rewrite (Hpq c H1), (IH H2). reflexivity.
Qed.

Lemma digit_range c : is_digit c = true -> (48 <= nat_of_ascii c <= 57)%nat.
Proof.
  unfold is_digit. intros H. apply andb_true_iff in H. destruct H as [H1 H2].
  apply Nat.leb_le in H1. apply Nat.leb_le in H2. lia.
Qed.

Lemma lower_range c : is_lower c = true -> (97 <= nat_of_ascii c <= 122)%nat.
Proof.
  unfold is_lower. intros H. apply andb_true_iff in H. destruct H as [H1 H2].
  apply Nat.leb_le in H1. apply Nat.leb_le in H2. lia.
Qed.

Lemma wordchar_cases c : is_wordchar c = true ->
  (97 <= nat_of_ascii c <= 122)%nat \/ (48 <= nat_of_ascii c <= 57)%nat \/
  nat_of_ascii c = 95%nat \/ nat_of_ascii c = 32%nat.
Proof.
  unfold is_wordchar. intros H.
  apply orb_true_iff in H. destruct H as [H|H]; [|right; right; right; apply Nat.eqb_eq; exact H].
  apply orb_true_iff in H. destruct H as [H|H]; [|right; right; left; apply Nat.eqb_eq; exact H].
  apply orb_true_iff in H. destruct H as [H|H]; [left; apply lower_range; exact H|right; left; apply digit_range; exact H].
Qed.

Ltac by_code :=
  unfold is_sigma, is_alpha, is_lower, is_upper, is_digit, is_us, is_space, is_minus;
  repeat match goal with
  | |- context [(?a <=? ?b)%nat] => destruct (Nat.leb_spec a b)
  | |- context [(?a =? ?b)%nat] => destruct (Nat.eqb_spec a b)
  end; cbn; try reflexivity; try lia.

Lemma digits_no_dot s : str_all is_digit s = true -> has_dot s = false.
Proof.
  intros H. unfold has_dot. rewrite (str_all_impl is_digit _ s); [reflexivity| |exact H].
  intros c Hc. apply digit_range in Hc. destruct (Nat.eqb_spec (nat_of_ascii c) 46); [lia|reflexivity].
Qed.

Lemma wordchars_no_dot s : str_all is_wordchar s = true -> has_dot s = false.
Proof.
  intros H. unfold has_dot. rewrite (str_all_impl is_wordchar _ s); [reflexivity| |exact H].
  intros c Hc. apply wordchar_cases in Hc. destruct (Nat.eqb_spec (nat_of_ascii c) 46); [lia|reflexivity].
Qed.

Lemma look_for_number_digits s :
  all_digits s = true -> first_is_zero s = false -> look_for_number s = Ok (VInt (digits_val 0 s)).
Proof.
  intros Hd Hz. unfold look_for_number. destruct s; [discriminate|].
  rewrite (digits_no_dot _ Hd), Hz, Hd. reflexivity.
Qed.

Lemma look_for_number_leading_zero s :
  all_digits s = true -> first_is_zero s = true -> look_for_number s = Ok (VStr s).
Proof.
  intros Hd Hz. unfold look_for_number. destruct s; [discriminate|].
  rewrite (digits_no_dot _ Hd), Hz. reflexivity.
Qed.

(* strings without spaces / underscores are fixed points of the helpers *)
Lemma rstrip_no_space s : str_all (fun c => negb (is_space c)) s = true -> rstrip s = s.
Proof.
  induction s as [|c r IH]; cbn [str_all rstrip]; [reflexivity|].
  intros H. apply andb_true_iff in H. destruct H as [H1 H2]. rewrite (IH H2).
  apply negb_true_iff in H1. rewrite H1. destruct r; reflexivity.
Qed.

Lemma drop_us_no_us s : str_all (fun c => negb (is_us c)) s = true -> drop_us s = s.
Proof.
  induction s as [|c r IH]; cbn [str_all drop_us]; [reflexivity|].
  intros H. apply andb_true_iff in H. destruct H as [H1 H2]. rewrite (IH H2).
  apply negb_true_iff in H1. rewrite H1. reflexivity.
Qed.

Lemma us_ok_no_us s : str_all (fun c => negb (is_us c)) s = true ->
  forall p, us_ok p s = match s with EmptyString => negb p | _ => true end.
Proof.
  induction s as [|c r IH]; cbn [str_all us_ok]; [reflexivity|].
  intros H p. apply andb_true_iff in H. destruct H as [H1 H2].
  apply negb_true_iff in H1. rewrite H1. rewrite (IH H2 false). destruct r; reflexivity.
Qed.

Lemma native_str_digits s :
  all_digits s = true -> first_is_zero s = false -> native_str s = Ok (VInt (digits_val 0 s)).
Proof.
  intros Hd Hz. destruct s as [|c r]; [discriminate|]. cbn [all_digits] in Hd.
  assert (Hsig : str_all is_sigma (String c r) = true).
  { apply (str_all_impl is_digit); [|exact Hd]. intros x Hx. apply digit_range in Hx. by_code. }
  assert (Hsp : str_all (fun x => negb (is_space x)) (String c r) = true).
  { apply (str_all_impl is_digit); [|exact Hd]. intros x Hx. apply digit_range in Hx. by_code. }
  assert (Hus : str_all (fun x => negb (is_us x)) (String c r) = true).
  { apply (str_all_impl is_digit); [|exact Hd]. intros x Hx. apply digit_range in Hx. by_code. }
  assert (Hal : str_all (fun x => negb (is_alpha x)) (String c r) = true).
  { apply (str_all_impl is_digit); [|exact Hd]. intros x Hx. apply digit_range in Hx. by_code. }
  assert (Hdu : str_all (fun x => is_digit x || is_us x) (String c r) = true).
  { apply (str_all_impl is_digit); [|exact Hd]. intros x Hx. rewrite Hx. reflexivity. }
  assert (Hc : is_digit c = true).
  { cbn [str_all] in Hd. apply andb_true_iff in Hd. tauto. }
  unfold native_str. rewrite Hsig. cbn [negb].
  assert (Hfs : first_is is_space (String c r) = false).
  { cbn [first_is]. apply digit_range in Hc. by_code. }
  rewrite Hfs, (rstrip_no_space _ Hsp).
  assert (Hfm : first_is is_minus (String c r) = false).
  { cbn [first_is]. apply digit_range in Hc. by_code. }
  rewrite Hfm. cbn [first_is]. rewrite Hc, Hal. cbn [negb andb].
  unfold dec_literal. rewrite Hdu, (us_ok_no_us _ Hus true), (drop_us_no_us _ Hus), Hz.
  reflexivity.
Qed.

Lemma is_word_not_digits s : is_word s = true -> all_digits s = false.
Proof.
  destruct s as [|c r]; [discriminate|]. cbn [is_word all_digits str_all].
  intros H. apply andb_true_iff in H. destruct H as [Hl _].
  assert (Hd : is_digit c = false).
  { unfold is_lower, is_digit in *. apply andb_true_iff in Hl. destruct Hl as [H1 H2].
    apply Nat.leb_le in H1. apply andb_false_iff. right. apply Nat.leb_gt. lia. }
  rewrite Hd. reflexivity.
Qed.

Lemma rstrip_head c r : is_space c = false -> exists r', rstrip (String c r) = String c r'.
Proof.
  intros H. cbn [rstrip]. destruct (rstrip r); [rewrite H|]; eexists; reflexivity.
Qed.

Lemma eqb_head_neq c r (w : string) c0 w0 :
  w = String c0 w0 -> c <> c0 -> String.eqb (String c r) w = false.
Proof.
  intros -> Hne. cbn [String.eqb]. destruct (Ascii.eqb_spec c c0); [contradiction|reflexivity].
Qed.

Lemma words_stay_strings s :
  is_word s = true -> look_for_number s = Ok (VStr s) /\ native_str s = Ok (VStr s).
Proof.
  intros Hw. pose proof (is_word_not_digits s Hw) as Hd.
  destruct s as [|c r]; [discriminate|]. cbn [is_word] in Hw.
  apply andb_true_iff in Hw. destruct Hw as [Hl Hr].
  assert (Hcw : is_wordchar c = true) by (unfold is_wordchar; rewrite Hl; reflexivity).
  assert (Hall : str_all is_wordchar (String c r) = true) by (cbn [str_all]; rewrite Hcw, Hr; reflexivity).
  pose proof (lower_range _ Hl) as Hrg.
  split.
  - unfold look_for_number. rewrite (wordchars_no_dot _ Hall), Hd.
    assert (Hz : first_is_zero (String c r) = false).
    { cbn [first_is_zero]. destruct (Nat.eqb_spec (nat_of_ascii c) 48); [lia|reflexivity]. }
    rewrite Hz. reflexivity.
  - unfold native_str.
    assert (Hsig : str_all is_sigma (String c r) = true).
    { apply (str_all_impl is_wordchar); [|exact Hall]. intros x Hx. apply wordchar_cases in Hx.
      by_code. }
    rewrite Hsig. cbn [negb].
    assert (Hsp : is_space c = false) by by_code.
    cbn [first_is]. rewrite Hsp.
    destruct (rstrip_head c r Hsp) as [r' Hr']. rewrite Hr'. cbn [first_is].
    assert (Hm : is_minus c = false) by by_code.
    assert (Hdg : is_digit c = false) by by_code.
    assert (Hu : is_us c = false) by by_code.
    rewrite Hm. cbn [first_is]. rewrite Hdg. cbn [andb].
    unfold dec_literal. cbn [str_all]. rewrite Hdg, Hu. cbn [orb andb].
    assert (HN : forall (c0 : ascii) w0 w, w = String c0 w0 -> is_lower c0 = false ->
                 String.eqb (String c r') w = false).
    { intros c0 w0 w -> Hc0. apply (eqb_head_neq c r' _ c0 w0 eq_refl).
      intros ->. rewrite Hl in Hc0. discriminate. }
    rewrite (HN "N"%char "one"%string "None"%string eq_refl eq_refl).
    rewrite (HN "T"%char "rue"%string "True"%string eq_refl eq_refl).
    rewrite (HN "F"%char "alse"%string "False"%string eq_refl eq_refl).
    reflexivity.
Qed.

(* ------------------------------------------------------------------ counts *)

(* a template with a count <= 0 creates nothing and changes nothing *)
Lemma loop_zero fuel e t i cnt last s :
  cnt <= i -> run (S fuel) e (TLoop t i cnt last) s = Ok (s, RRow last).
Proof. intros H. cbn [run]. destruct (i <? cnt) eqn:E; [lia|reflexivity]. Qed.

(* name resolution: the documented precedence *)
Lemma object_name_precedence s n :
  object_name s n =
  match lookup n (last_by_table s), lookup n (nick_objs s), lookup n (p_tables s), lookup n (p_nicks s) with
  | Some h, _, _, _ => Some (VRow h)
  | None, Some h, _, _ => Some (VRow h)
  | None, None, Some h, _ => Some (VRow h)
  | None, None, None, Some h => Some (VRow h)
  | None, None, None, None => match lookup n (slots s) with Some _ => Some (VSlot n) | None => None end
  end.
Proof.
  unfold object_name.
  destruct (lookup n (last_by_table s)), (lookup n (nick_objs s)), (lookup n (p_tables s)),
    (lookup n (p_nicks s)); reflexivity.
Qed.

