(* FakeP.v — proofs about theories/Fake.v (property C18). *)
From Coq Require Import ZArith List Bool String Ascii Lia.
From SFV Require Import Base Fake.
From SFV.P Require Import BaseP.
Import ListNotations. Open Scope Z_scope.

Ltac splits := repeat match goal with |- _ /\ _ => split end.

(* ------------------------------------------------------------------ lists of code points *)

Lemma str_eqb_eq a b : str_eqb a b = true -> a = b.
Proof.
  unfold str_eqb. revert b; induction a as [|x a IH]; intros [|y b]; cbn [list_eqb]; try discriminate; auto.
  intros H. apply andb_true_iff in H as [H1 H2]. apply Z.eqb_eq in H1. subst. f_equal. auto.
Qed.

Lemma str_eqb_refl a : str_eqb a a = true.
Proof. unfold str_eqb. induction a; cbn [list_eqb]; auto. rewrite Z.eqb_refl. auto. Qed.

Lemma no_at_In s : no_at s = true <-> ~ In AT s.
Proof.
  unfold no_at. induction s as [|c s IH]; cbn [forallb In].
  - split; auto.
  - rewrite andb_true_iff, IH. rewrite negb_true_iff, Z.eqb_neq. intuition congruence.
Qed.

Lemma no_at_app a b : no_at (a ++ b) = no_at a && no_at b.
Proof. unfold no_at. apply forallb_app. Qed.

Lemma no_at_incl a b : (forall c, In c a -> In c b) -> no_at b = true -> no_at a = true.
Proof. rewrite !no_at_In. intros H Hb Ha. apply Hb, H, Ha. Qed.

Lemma no_at_firstn n s : no_at s = true -> no_at (firstn n s) = true.
Proof.
  apply no_at_incl. intros c Hc. rewrite <- (firstn_skipn n s). apply in_or_app. auto.
Qed.

Lemma count_at_app a b : count_at (a ++ b) = (count_at a + count_at b)%nat.
Proof. unfold count_at. rewrite filter_app, app_length. reflexivity. Qed.

Lemma count_at_no_at s : no_at s = true -> count_at s = 0%nat.
Proof.
  unfold count_at, no_at. induction s as [|c s IH]; cbn [forallb filter]; auto.
  intros H. apply andb_true_iff in H as [H1 H2]. apply negb_true_iff in H1.
  rewrite Z.eqb_sym in H1. rewrite H1. auto.
Qed.

Lemma isalnum_not_at c : isalnum c = true -> (c =? AT) = false.
Proof. unfold isalnum, AT. intros H. apply Z.eqb_neq. lia. Qed.

Lemma alnum_no_at s : forallb isalnum s = true -> no_at s = true.
Proof.
  unfold no_at. induction s as [|c s IH]; cbn [forallb]; auto.
  intros H. apply andb_true_iff in H as [H1 H2]. rewrite (isalnum_not_at _ H1). cbn. auto.
Qed.

Lemma filter_alnum s : forallb isalnum (filter isalnum s) = true.
Proof. apply forallb_forall. intros x Hx. apply filter_In in Hx. tauto. Qed.

(* ------------------------------------------------------------------ split_at / safe_addr *)

Lemma split_at_app l d : no_at l = true -> split_at (l ++ AT :: d) = Some (l, d).
Proof.
  unfold no_at. induction l as [|c l IH]; cbn [app split_at forallb].
  - rewrite Z.eqb_refl. reflexivity.
  - intros H. apply andb_true_iff in H as [H1 H2]. apply negb_true_iff in H1. rewrite H1, (IH H2). reflexivity.
Qed.

Lemma split_at_sound s a b : split_at s = Some (a, b) -> s = a ++ AT :: b /\ no_at a = true.
Proof.
  revert a. induction s as [|c s IH]; intros a; cbn [split_at]; [discriminate|].
  destruct (c =? AT) eqn:E.
  - intros H; inversion H; subst. apply Z.eqb_eq in E. subst. auto.
  - destruct (split_at s) as [[a' b']|]; [|discriminate].
    intros H; inversion H; subst. destruct (IH a' eq_refl) as [-> Hn]. split; [reflexivity|].
    unfold no_at in *. cbn [forallb]. rewrite E, Hn. reflexivity.
Qed.

Lemma reserved_cases d : reserved d = true ->
  d = of_string "example.com" \/ d = of_string "example.org" \/ d = of_string "example.net".
Proof.
  unfold reserved. rewrite !orb_true_iff. intros [[H|H]|H]; apply str_eqb_eq in H; auto.
Qed.

Lemma reserved_no_at d : reserved d = true -> no_at d = true.
Proof. intros H. destruct (reserved_cases d H) as [-> | [-> | ->]]; vm_compute; reflexivity. Qed.

(* the shape every safe address has *)
Definition safe_shape (e : str) : Prop :=
  exists local d, e = local ++ [AT] ++ d /\ no_at local = true /\ reserved d = true.

Lemma safe_addr_shape e : safe_addr e = true <-> safe_shape e.
Proof.
  unfold safe_addr, safe_shape. split.
  - destruct (split_at e) as [[a b]|] eqn:E; [|discriminate]. intros H.
    destruct (split_at_sound _ _ _ E) as [-> Hn]. exists a, b. auto.
  - intros (l & d & -> & Hl & Hd). cbn [app]. rewrite (split_at_app l d Hl). exact Hd.
Qed.

Lemma safe_shape_one_at e : safe_shape e -> count_at e = 1%nat.
Proof.
  intros (l & d & -> & Hl & Hd). rewrite !count_at_app, (count_at_no_at l Hl),
    (count_at_no_at d (reserved_no_at d Hd)). reflexivity.
Qed.

(* ------------------------------------------------------------------ decimal text *)

Lemma uint_str_no_at u : no_at (uint_str u) = true.
Proof. induction u; cbn [uint_str]; unfold no_at in *; cbn [forallb]; auto. Qed.

Lemma dec_no_at z : no_at (dec z) = true.
Proof.
  unfold dec. destruct (Z.to_int z); [apply uint_str_no_at|].
  unfold no_at. cbn [forallb]. apply uint_str_no_at.
Qed.

Lemma dec_len4_b : forallb (fun y => Nat.eqb (length (dec y)) 4) (Zseq 1000 (Z.to_nat 9000)) = true.
Proof. vm_compute. reflexivity. Qed.

Lemma dec_len4 y : 1000 <= y <= 9999 -> length (dec y) = 4%nat.
Proof.
  intros H. pose proof dec_len4_b as B. rewrite forallb_forall in B.
  apply Nat.eqb_eq. apply B. apply Zseq_In. lia.
Qed.

(* ------------------------------------------------------------------ cleaning *)

Lemma clean_str_some s r : clean_str s = Some r -> isascii s = true /\ r = filter isalnum s.
Proof. unfold clean_str. destruct (isascii s); [|discriminate]. intros H; inversion H; auto. Qed.

Lemma names_for_some m lv f l :
  names_for m lv = Some (f, l) ->
  m = true /\ f <> [] /\ l <> [] /\
  exists fr lr, assoc "firstname" lv = Some fr /\ assoc "lastname" lv = Some lr /\
                isascii fr = true /\ isascii lr = true /\
                f = filter isalnum fr /\ l = filter isalnum lr.
Proof.
  unfold names_for, clean.
  destruct (assoc "firstname" lv) as [fr|]; [|discriminate].
  destruct (clean_str fr) as [[|a f']|] eqn:E1; try discriminate.
  destruct (assoc "lastname" lv) as [lr|]; [|discriminate].
  destruct (clean_str lr) as [[|b l']|] eqn:E2; try discriminate.
  destruct m; [|discriminate]. intros H; inversion H; subst.
  apply clean_str_some in E1 as [A1 B1]. apply clean_str_some in E2 as [A2 B2].
  splits; auto; try discriminate. exists fr, lr. splits; auto.
Qed.

Lemma names_for_alnum m lv f l :
  names_for m lv = Some (f, l) -> forallb isalnum f = true /\ forallb isalnum l = true.
Proof.
  intros H. apply names_for_some in H as (_ & _ & _ & fr & lr & _ & _ & _ & _ & -> & ->).
  split; apply filter_alnum.
Qed.

Lemma names_for_intro lv fr lr :
  assoc "firstname" lv = Some fr -> assoc "lastname" lv = Some lr ->
  isascii fr = true -> isascii lr = true ->
  filter isalnum fr <> [] -> filter isalnum lr <> [] ->
  names_for true lv = Some (filter isalnum fr, filter isalnum lr).
Proof.
  intros H1 H2 A1 A2 N1 N2. unfold names_for, clean, clean_str. rewrite H1, H2, A1, A2.
  destruct (filter isalnum fr); [congruence|]. destruct (filter isalnum lr); [congruence|]. reflexivity.
Qed.

(* ------------------------------------------------------------------ e-mail *)

Lemma idx_In s i c : idx s i = Ok c -> In c s.
Proof.
  unfold idx. destruct (nth_error s i) eqn:E; [|discriminate]. intros H; inversion H; subst.
  eapply nth_error_In; eauto.
Qed.

Lemma fpat_apply_In p s r : fpat_apply p s = Ok r -> forall c, In c r -> In c s.
Proof.
  destruct p; cbn [fpat_apply].
  - intros H; inversion H; auto.
  - destruct (idx s 0) eqn:E; cbn [bind]; [|discriminate]. intros H; inversion H; subst.
    intros c [<-|[]]. eapply idx_In; eauto.
  - destruct (idx s 0) eqn:E; cbn [bind]; [|discriminate].
    destruct (idx s 1) eqn:E1; cbn [bind]; [|discriminate]. intros H; inversion H; subst.
    intros c [<-|[<-|[]]]; eapply idx_In; eauto.
Qed.

Lemma ypat_apply_In p s r : ypat_apply p s = Ok r -> forall c, In c r -> In c s.
Proof.
  destruct p; cbn [ypat_apply].
  - intros H; inversion H; auto.
  - destruct (idx s 2) eqn:E; cbn [bind]; [|discriminate].
    destruct (idx s 3) eqn:E1; cbn [bind]; [|discriminate]. intros H; inversion H; subst.
    intros c [<-|[<-|[]]]; eapply idx_In; eauto.
  - destruct (idx s 3) eqn:E; cbn [bind]; [|discriminate]. intros H; inversion H; subst.
    intros c [<-|[]]. eapply idx_In; eauto.
  - intros H; inversion H; subst. intros c [].
Qed.

Lemma ljust2_no_at s : no_at s = true -> no_at (ljust2 s) = true.
Proof.
  destruct s as [|a [|b s]]; cbn [ljust2]; auto.
Qed.

Lemma seps_no_at sep : In sep seps -> no_at sep = true.
Proof. unfold seps. intros [<-|[<-|[<-|[<-|[<-|[]]]]]]; reflexivity. Qed.

Lemma in_templates fp sep yp : In (fp, (sep, yp)) templates -> In sep seps.
Proof.
  unfold templates. intros H. apply in_prod_iff in H as [_ H]. apply in_prod_iff in H as [H _]. exact H.
Qed.

(* what a filled template looks like *)
Lemma email_matching_shape f l tpl year dom e :
  email_matching f l tpl year dom = Ok e ->
  exists fp sep yp fpart ypart,
    In sep seps /\
    fpat_apply fp (ljust2 f) = Ok fpart /\ ypat_apply yp (dec year) = Ok ypart /\
    e = fpart ++ sep ++ l ++ ypart ++ [AT] ++ dom.
Proof.
  unfold email_matching. destruct (tpl <? 0); [discriminate|].
  destruct (nth_error templates (Z.to_nat tpl)) as [[fp [sep yp]]|] eqn:E; [|discriminate].
  apply nth_error_In in E. apply in_templates in E.
  unfold fill. destruct (fpat_apply fp (ljust2 f)) as [fpart|] eqn:E1; cbn [bind]; [|discriminate].
  destruct (ypat_apply yp (dec year)) as [ypart|] eqn:E2; cbn [bind]; [|discriminate].
  intros H; inversion H; subst. exists fp, sep, yp, fpart, ypart. auto.
Qed.

Lemma email_matching_safe f l tpl year dom e :
  no_at f = true -> no_at l = true -> reserved dom = true ->
  email_matching f l tpl year dom = Ok e -> safe_shape e.
Proof.
  intros Hf Hl Hd H. apply email_matching_shape in H as (fp & sep & yp & fpart & ypart & Hs & H1 & H2 & ->).
  exists (fpart ++ sep ++ l ++ ypart), dom. splits; auto.
  - rewrite <- !app_assoc. reflexivity.
  - rewrite !no_at_app. rewrite (seps_no_at _ Hs), Hl.
    rewrite (no_at_incl _ _ (fpat_apply_In _ _ _ H1) (ljust2_no_at _ Hf)).
    rewrite (no_at_incl _ _ (ypat_apply_In _ _ _ H2) (dec_no_at year)). reflexivity.
Qed.

Lemma templates_length : length templates = 60%nat.
Proof. reflexivity. Qed.

Lemma ljust2_len s : (2 <= length (ljust2 s))%nat.
Proof. destruct s as [|a [|b s]]; cbn [ljust2 length]; lia. Qed.

Lemma idx_ok s i : (i < length s)%nat -> exists c, idx s i = Ok c.
Proof.
  intros H. unfold idx. destruct (nth_error s i) eqn:E; eauto.
  apply nth_error_None in E. lia.
Qed.

Lemma email_matching_total f l tpl year dom :
  0 <= tpl < 60 -> 1000 <= year <= 9999 -> exists e, email_matching f l tpl year dom = Ok e.
Proof.
  intros Ht Hy. unfold email_matching.
  destruct (tpl <? 0) eqn:E; [apply Z.ltb_lt in E; lia|].
  destruct (nth_error templates (Z.to_nat tpl)) as [[fp [sep yp]]|] eqn:E1.
  2:{ apply nth_error_None in E1. rewrite templates_length in E1. lia. }
  unfold fill. pose proof (ljust2_len f) as L. pose proof (dec_len4 year Hy) as D.
  assert (exists r, fpat_apply fp (ljust2 f) = Ok r) as [r1 R1].
  { destruct fp; cbn [fpat_apply]; eauto.
    - destruct (idx_ok (ljust2 f) 0) as [c ->]; [lia|]. cbn [bind]. eauto.
    - destruct (idx_ok (ljust2 f) 0) as [c ->]; [lia|]. destruct (idx_ok (ljust2 f) 1) as [c' ->]; [lia|].
      cbn [bind]. eauto. }
  assert (exists r, ypat_apply yp (dec year) = Ok r) as [r2 R2].
  { destruct yp; cbn [ypat_apply]; eauto.
    - destruct (idx_ok (dec year) 2) as [c ->]; [lia|]. destruct (idx_ok (dec year) 3) as [c' ->]; [lia|].
      cbn [bind]. eauto.
    - destruct (idx_ok (dec year) 3) as [c ->]; [lia|]. cbn [bind]. eauto. }
  rewrite R1, R2. cbn [bind]. eauto.
Qed.

Section FakerData.
  (* what Faker returned to this call of FakeNames.email *)
  Variables (dom ase : str).
  Hypothesis safe_domain_reserved : reserved dom = true.          (* f.safe_domain_name() *)
  Hypothesis ascii_safe_email_reserved : safe_addr ase = true.    (* f.ascii_safe_email() *)

  Theorem email_reserved_domain :
    forall matching lv tpl year e,
      email_of matching lv tpl year dom ase = Ok e ->
      (exists local d, e = local ++ [AT] ++ d /\ no_at local = true /\ reserved d = true)
      /\ safe_addr e = true /\ count_at e = 1%nat.
  Proof.
    intros m lv tpl year e H.
    assert (safe_shape e) as S.
    { unfold email_of in H. destruct (names_for m lv) as [[f l]|] eqn:N.
      - destruct (names_for_alnum _ _ _ _ N) as [Af Al].
        apply (email_matching_safe f l tpl year dom e); auto using alnum_no_at.
      - inversion H; subst. apply safe_addr_shape. exact ascii_safe_email_reserved. }
    splits; auto. - apply safe_addr_shape; auto. - apply safe_shape_one_at; auto.
  Qed.

  Theorem email_total :
    forall matching lv tpl year, 0 <= tpl < 60 -> 1000 <= year <= 9999 ->
      exists e, email_of matching lv tpl year dom ase = Ok e.
  Proof.
    intros m lv tpl year Ht Hy. unfold email_of. destruct (names_for m lv) as [[f l]|]; eauto.
    apply email_matching_total; auto.
  Qed.
End FakerData.

(* both names ASCII (and not empty once cleaned): the address is built from them *)
Theorem email_from_names :
  forall lv fr lr,
    assoc "firstname" lv = Some fr -> assoc "lastname" lv = Some lr ->
    isascii fr = true -> isascii lr = true ->
    filter isalnum fr <> [] -> filter isalnum lr <> [] ->
    forall tpl year dom ase, 0 <= tpl < 60 -> 1000 <= year <= 9999 ->
    exists fp sep yp fpart ypart,
      email_of true lv tpl year dom ase
        = Ok (fpart ++ sep ++ filter isalnum lr ++ ypart ++ [AT] ++ dom) /\
      fpat_apply fp (ljust2 (filter isalnum fr)) = Ok fpart /\
      In sep seps /\
      ypat_apply yp (dec year) = Ok ypart.
Proof.
  intros lv fr lr H1 H2 A1 A2 N1 N2 tpl year dom ase Ht Hy.
  unfold email_of. rewrite (names_for_intro lv fr lr H1 H2 A1 A2 N1 N2).
  destruct (email_matching_total (filter isalnum fr) (filter isalnum lr) tpl year dom Ht Hy) as [e He].
  rewrite He. apply email_matching_shape in He as (fp & sep & yp & fpart & ypart & Hs & P1 & P2 & ->).
  exists fp, sep, yp, fpart, ypart. auto.
Qed.

(* a non-ASCII (or missing, or punctuation-only) name: Faker's ascii_safe_email is returned *)
Theorem email_fallback :
  forall matching lv tpl year dom ase,
    names_for matching lv = None -> email_of matching lv tpl year dom ase = Ok ase.
Proof. intros. unfold email_of. rewrite H. reflexivity. Qed.

Lemma names_for_nonascii m lv fr :
  assoc "firstname" lv = Some fr -> isascii fr = false -> names_for m lv = None.
Proof. intros H A. unfold names_for, clean, clean_str. rewrite H, A. reflexivity. Qed.

Theorem email_non_ascii_falls_back :
  forall matching lv fr tpl year dom ase,
    assoc "firstname" lv = Some fr -> isascii fr = false ->
    email_of matching lv tpl year dom ase = Ok ase.
Proof. intros. apply email_fallback. eapply names_for_nonascii; eauto. Qed.

(* ------------------------------------------------------------------ username *)

Lemma names_of_no_at m lv ff fl :
  no_at ff = true -> no_at fl = true -> no_at (names_of m lv ff fl) = true.
Proof.
  intros Hf Hl. unfold names_of. destruct (names_for m lv) as [[f l]|] eqn:N.
  - destruct (names_for_alnum _ _ _ _ N) as [A B].
    rewrite !no_at_app, (alnum_no_at _ A), (alnum_no_at _ B). reflexivity.
  - rewrite !no_at_app, Hf, Hl. reflexivity.
Qed.

Lemma slice0_no_at s n : no_at s = true -> no_at (slice0 s n) = true.
Proof. intros H. unfold slice0. destruct (0 <=? n); apply no_at_firstn; auto. Qed.

Lemma slice0_nonneg s n : 0 <= n -> slice0 s n = firstn (Z.to_nat n) s.
Proof. intros H. unfold slice0. destruct (0 <=? n) eqn:E; [reflexivity|lia]. Qed.

Lemma slice0_nonneg_length s n : 0 <= n -> (length (slice0 s n) <= Z.to_nat n)%nat.
Proof. intros H. rewrite slice0_nonneg by auto. apply firstn_le_length. Qed.

Lemma slice0_all s n : Z.of_nat (length s) <= n -> slice0 s n = s.
Proof. intros H. rewrite slice0_nonneg by lia. apply firstn_all2. lia. Qed.

Lemma join_unique_no_at names uuid :
  no_at names = true -> no_at uuid = true -> no_at (join_unique names uuid) = true.
Proof.
  intros A B. unfold join_unique. destruct names as [|c r]; auto.
  rewrite !no_at_app, A, B. reflexivity.
Qed.

(* join_unique = a prefix that does not depend on the uuid, followed by the uuid *)
Definition join_prefix (names : str) : str :=
  match names with [] => [] | _ => names ++ [USCORE] end.
Lemma join_unique_prefix names uuid : join_unique names uuid = join_prefix names ++ uuid.
Proof.
  unfold join_unique, join_prefix. destruct names; [reflexivity|]. rewrite <- app_assoc. reflexivity.
Qed.

Lemma namepart_max_len_le host : (length host <= 79)%nat ->
  namepart_max_len host = 79 - Z.of_nat (length host).
Proof. intros H. unfold namepart_max_len. lia. Qed.

Lemma kept_names_length m lv host ff fl :
  Z.of_nat (length (kept_names m lv host ff fl))
  <= Z.max (namepart_max_len host - (unique_min_len + 1)) 0.
Proof.
  unfold kept_names.
  pose proof (slice0_nonneg_length (names_of m lv ff fl)
                (Z.max (namepart_max_len host - (unique_min_len + 1)) 0)) as L. lia.
Qed.

Section FakerHost.
  (* what Faker returned to this call of FakeNames.user_name *)
  Variables (host uuid ff fl : str).
  Hypothesis hostname_bounded : (length host <= 79)%nat.
  Hypothesis hostname_no_at : no_at host = true.
  Hypothesis uuid_no_at : no_at uuid = true.
  Hypothesis first_name_no_at : no_at ff = true.
  Hypothesis last_name_no_at : no_at fl = true.

  Theorem username_shape :
    forall matching lv,
      (length (user_name_of matching lv host ff fl uuid) <= 80)%nat /\
      count_at (user_name_of matching lv host ff fl uuid) = 1%nat /\
      exists np, user_name_of matching lv host ff fl uuid = np ++ [AT] ++ host /\ no_at np = true.
  Proof.
    intros m lv. unfold user_name_of.
    set (np := join_unique (kept_names m lv host ff fl) uuid).
    assert (no_at np = true) as Hnp.
    { apply join_unique_no_at; auto. unfold kept_names. apply slice0_no_at, names_of_no_at; auto. }
    pose proof (namepart_max_len_le host hostname_bounded) as M.
    assert (0 <= namepart_max_len host) as Hn by lia.
    pose proof (slice0_nonneg_length np _ Hn) as L.
    pose proof (slice0_no_at np (namepart_max_len host) Hnp) as A.
    splits.
    - rewrite !app_length. cbn [length]. lia.
    - rewrite !count_at_app, (count_at_no_at _ A), (count_at_no_at _ hostname_no_at). reflexivity.
    - eexists; split; [reflexivity|exact A].
  Qed.
End FakerHost.

Lemma app_eq_len_r {X} (a1 a2 b1 b2 : list X) :
  length b1 = length b2 -> a1 ++ b1 = a2 ++ b2 -> a1 = a2 /\ b1 = b2.
Proof.
  revert a2. induction a1 as [|x a1 IH]; intros [|y a2] L H; cbn [app] in *.
  - auto.
  - exfalso. apply (f_equal (@length X)) in H. cbn [length] in H. rewrite app_length in H. lia.
  - exfalso. apply (f_equal (@length X)) in H. cbn [length] in H. rewrite app_length in H. lia.
  - inversion H; subst. destruct (IH a2 L H2) as [-> ->]. auto.
Qed.

Lemma at_split_unique a1 b1 a2 b2 :
  no_at a1 = true -> no_at a2 = true -> a1 ++ AT :: b1 = a2 ++ AT :: b2 -> a1 = a2 /\ b1 = b2.
Proof.
  intros H1 H2 E. pose proof (split_at_app a1 b1 H1) as S1. rewrite E, (split_at_app a2 b2 H2) in S1.
  inversion S1; auto.
Qed.

(* when names and the whole uuid fit, nothing is cut *)
Lemma user_name_untruncated m lv host ff fl uuid :
  (length (names_of m lv ff fl) + 1 + length uuid <= 79 - length host)%nat ->
  (unique_min_len <= Z.of_nat (length uuid)) ->
  user_name_of m lv host ff fl uuid
  = join_unique (names_of m lv ff fl) uuid ++ [AT] ++ host.
Proof.
  intros H U. unfold user_name_of, kept_names. unfold unique_min_len in *.
  assert (namepart_max_len host = 79 - Z.of_nat (length host)) as M by (unfold namepart_max_len; lia).
  rewrite (slice0_all (names_of m lv ff fl)) by lia.
  rewrite slice0_all; [reflexivity|].
  rewrite join_unique_prefix, app_length. unfold join_prefix.
  destruct (names_of m lv ff fl); cbn [length] in *; [lia|]. rewrite app_length. cbn [length]. lia.
Qed.

(* Any two usernames (of any two rows: names, hosts, branches may differ) in which names and
   uuid fit completely are different as soon as the uuids are. *)
Theorem username_unique_partial :
  forall m1 lv1 host1 ff1 fl1 uuid1 m2 lv2 host2 ff2 fl2 uuid2,
    no_at ff1 = true -> no_at fl1 = true -> no_at uuid1 = true ->
    no_at ff2 = true -> no_at fl2 = true -> no_at uuid2 = true ->
    length uuid1 = 36%nat -> length uuid2 = 36%nat ->
    (length (names_of m1 lv1 ff1 fl1) + 37 <= 79 - length host1)%nat ->
    (length (names_of m2 lv2 ff2 fl2) + 37 <= 79 - length host2)%nat ->
    uuid1 <> uuid2 ->
    user_name_of m1 lv1 host1 ff1 fl1 uuid1 <> user_name_of m2 lv2 host2 ff2 fl2 uuid2.
Proof.
  intros m1 lv1 host1 ff1 fl1 uuid1 m2 lv2 host2 ff2 fl2 uuid2 A1 B1 C1 A2 B2 C2 L1 L2 K1 K2 Hne E.
  apply Hne.
  rewrite user_name_untruncated in E by (unfold unique_min_len; lia).
  rewrite (user_name_untruncated m2) in E by (unfold unique_min_len; lia).
  cbn [app] in E.
  apply at_split_unique in E as [E _];
    try (apply join_unique_no_at; auto; apply names_of_no_at; auto).
  rewrite !join_unique_prefix in E.
  apply app_eq_len_r in E; [tauto|congruence].
Qed.

(* One row (same names, same host), any truncation: at least unique_min_len = 16 characters of
   the uuid survive whenever the host name leaves 17 characters (|host| <= 62), so the usernames
   differ as soon as the first 16 characters of the uuids differ. *)
Theorem username_unique_prefix :
  forall m lv host ff fl uuid1 uuid2,
    (length host <= 62)%nat ->
    firstn 16 uuid1 <> firstn 16 uuid2 ->
    user_name_of m lv host ff fl uuid1 <> user_name_of m lv host ff fl uuid2.
Proof.
  intros m lv host ff fl uuid1 uuid2 Hh Hne E. apply Hne.
  unfold user_name_of in E. apply app_inv_tail in E.
  rewrite !join_unique_prefix in E.
  set (pre := join_prefix (kept_names m lv host ff fl)) in *.
  assert (namepart_max_len host = 79 - Z.of_nat (length host)) as M by (unfold namepart_max_len; lia).
  assert (Z.of_nat (length pre) + 16 <= namepart_max_len host) as Lp.
  { pose proof (kept_names_length m lv host ff fl) as K. unfold unique_min_len in K.
    unfold pre, join_prefix. destruct (kept_names m lv host ff fl) as [|c r] eqn:EK.
    - cbn [length]. lia.
    - rewrite app_length. cbn [length] in *. lia. }
  rewrite !slice0_nonneg in E by lia. rewrite !firstn_app in E. apply app_inv_head in E.
  set (j := (Z.to_nat (namepart_max_len host) - length pre)%nat) in *.
  assert (16 <= j)%nat as Hj by (unfold j; lia).
  apply (f_equal (firstn 16)) in E. rewrite !firstn_firstn in E.
  replace (Nat.min 16 j) with 16%nat in E by lia. exact E.
Qed.

(* ------------------------------------------------------------------ name table *)

Lemma assoc_app {V} k (l1 l2 : list (string * V)) :
  assoc k (l1 ++ l2) = match assoc k l1 with Some v => Some v | None => assoc k l2 end.
Proof.
  induction l1 as [|[k' v] l1 IH]; cbn [app assoc]; auto. destruct (String.eqb k k'); auto.
Qed.

Lemma assoc_In {V} k (l : list (string * V)) v : assoc k l = Some v -> In (k, v) l.
Proof.
  induction l as [|[k' v'] l IH]; cbn [assoc]; [discriminate|].
  destruct (String.eqb k k') eqn:E.
  - apply String.eqb_eq in E. subst. intros H; inversion H; subst. left; reflexivity.
  - intros H. right. auto.
Qed.

Lemma assoc_None {V} k (l : list (string * V)) : assoc k l = None -> ~ In k (map fst l).
Proof.
  induction l as [|[k' v'] l IH]; cbn [assoc map In fst]; [tauto|].
  destruct (String.eqb k k') eqn:E; [discriminate|]. apply String.eqb_neq in E.
  intros H [A|B]; [congruence|]. exact (IH H B).
Qed.

Lemma assoc_found {V} k (l : list (string * V)) : In k (map fst l) -> exists v, assoc k l = Some v.
Proof.
  intros H. destruct (assoc k l) eqn:E; eauto. exfalso. exact (assoc_None _ _ E H).
Qed.

Lemma in_rev_layer s cf attrs k p :
  In (k, p) (rev (layer s cf attrs)) <-> exists n, In n attrs /\ k = cf n /\ p = (s, n).
Proof.
  rewrite <- in_rev. unfold layer. rewrite in_map_iff. split.
  - intros (n & E & Hn). inversion E; subst. eauto.
  - intros (n & Hn & -> & ->). eauto.
Qed.

Lemma keys_rev_layer s cf attrs : forall k, In k (map fst (rev (layer s cf attrs))) <-> In k (map cf attrs).
Proof.
  intros k. rewrite map_rev, <- in_rev. unfold layer. rewrite map_map. cbn [fst]. reflexivity.
Qed.

Lemma no_us_idem s : no_us (no_us s) = no_us s.
Proof.
  induction s as [|a s IH]; cbn [no_us]; auto.
  destruct (Ascii.eqb a "_") eqn:E; auto. cbn [no_us]. rewrite E, IH. reflexivity.
Qed.

(* a query that hits a key made from attribute n has n's canonical form *)
Lemma key_canon q n : lower q = canon n \/ lower q = lower n -> canon q = canon n.
Proof.
  unfold canon. intros [H|H]; rewrite H; auto. apply no_us_idem.
Qed.

(* the fifth layer: Faker spellings of Snowfakery names *)
Lemma in_layer5 fa sa k p :
  In (k, p) (rev (layer5 fa sa)) ->
  exists nf ns, In nf fa /\ k = lower nf /\ p = (Sf, ns) /\ In ns sa /\ canon nf = canon ns.
Proof.
  rewrite <- in_rev. unfold layer5. rewrite in_flat_map. intros (nf & Hnf & H).
  destruct (assoc (canon nf) (rev (layer Sf canon sa))) as [p'|] eqn:E; [|destruct H].
  destruct H as [H|[]]. inversion H; subst.
  apply assoc_In, in_rev_layer in E as (ns & Hns & K & ->). eauto 8.
Qed.

Lemma keys_layer5 fa sa nf :
  In nf fa -> In (canon nf) (map canon sa) -> In (lower nf) (map fst (rev (layer5 fa sa))).
Proof.
  intros Hnf Hc. rewrite map_rev, <- in_rev. unfold layer5. apply in_map_iff.
  destruct (assoc_found (canon nf) (rev (layer Sf canon sa))) as [p E].
  { apply keys_rev_layer. exact Hc. }
  exists (lower nf, p). split; [reflexivity|]. apply in_flat_map. exists nf. split; auto.
  rewrite E. left. reflexivity.
Qed.

Lemma lookup_cases fa sa q p :
  lookup (build fa sa) q = Some p ->
  (exists n, p = (Sf, n) /\ In n sa /\ canon q = canon n) \/
  (exists n, p = (Fk, n) /\ In n fa /\ (lower q = canon n \/ lower q = lower n) /\
             ~ In (lower q) (map canon sa) /\
             ~ In (lower q) (map fst (rev (layer5 fa sa)))).
Proof.
  unfold lookup, build. rewrite !assoc_app.
  destruct (assoc (lower q) (rev (layer5 fa sa))) eqn:E0.
  { intros H; inversion H; subst. apply assoc_In, in_layer5 in E0 as (nf & ns & Hnf & K & -> & Hns & C).
    left. exists ns. splits; auto. rewrite <- C. apply key_canon. auto. }
  destruct (assoc (lower q) (rev (layer Sf canon sa))) eqn:E1.
  { intros H; inversion H; subst. apply assoc_In, in_rev_layer in E1 as (n & Hn & K & ->).
    left. exists n. splits; auto. apply key_canon. auto. }
  destruct (assoc (lower q) (rev (layer Sf lower sa))) eqn:E2.
  { intros H; inversion H; subst. apply assoc_In, in_rev_layer in E2 as (n & Hn & K & ->).
    left. exists n. splits; auto. apply key_canon. auto. }
  assert (~ In (lower q) (map canon sa)) as NK.
  { intros A. apply (assoc_None _ _ E1). apply keys_rev_layer. exact A. }
  pose proof (assoc_None _ _ E0) as N5.
  destruct (assoc (lower q) (rev (layer Fk canon fa))) eqn:E3.
  { intros H; inversion H; subst. apply assoc_In, in_rev_layer in E3 as (n & Hn & K & ->). right. eauto 9. }
  intros E4. apply assoc_In, in_rev_layer in E4 as (n & Hn & K & ->). right. eauto 9.
Qed.

(* a query with the canonical form of a Snowfakery name is never answered by Faker *)
Lemma faker_answer_excluded fa sa q nf ns :
  In nf fa -> In ns sa -> canon q = canon ns ->
  (lower q = canon nf \/ lower q = lower nf) ->
  ~ In (lower q) (map canon sa) -> ~ In (lower q) (map fst (rev (layer5 fa sa))) -> False.
Proof.
  intros Hnf Hns C K N4 N5. pose proof (key_canon _ _ K) as Cq.
  assert (In (canon nf) (map canon sa)) as M.
  { rewrite <- Cq, C. apply in_map. exact Hns. }
  destruct K as [K|K].
  - apply N4. rewrite K. exact M.
  - apply N5. rewrite K. apply keys_layer5; auto.
Qed.

Section Lookup.
  Variables (fa sa : list string).        (* attribute names of the Faker / of FakeNames *)
  Context {V : Type} (val : prov -> V).   (* the object an attribute is bound to *)
  Hypothesis faker_consistent :
    forall n1 n2, In n1 fa -> In n2 fa -> canon n1 = canon n2 -> val (Fk, n1) = val (Fk, n2).
  Hypothesis snowfakery_consistent :
    forall n1 n2, In n1 sa -> In n2 sa -> canon n1 = canon n2 -> val (Sf, n1) = val (Sf, n2).

  Theorem lookup_spelling_invariant :
    forall q1 q2 p1 p2,
      canon q1 = canon q2 ->
      lookup (build fa sa) q1 = Some p1 -> lookup (build fa sa) q2 = Some p2 ->
      val p1 = val p2.
  Proof.
    intros q1 q2 p1 p2 C H1 H2.
    apply lookup_cases in H1. apply lookup_cases in H2.
    destruct H1 as [(n1 & -> & I1 & C1)|(n1 & -> & I1 & K1 & N1 & M1)];
    destruct H2 as [(n2 & -> & I2 & C2)|(n2 & -> & I2 & K2 & N2 & M2)].
    - apply snowfakery_consistent; auto. congruence.
    - exfalso. apply (faker_answer_excluded fa sa q2 n2 n1); auto. congruence.
    - exfalso. apply (faker_answer_excluded fa sa q1 n1 n2); auto. congruence.
    - apply faker_consistent; auto. rewrite <- (key_canon _ _ K1), <- (key_canon _ _ K2). exact C.
  Qed.
End Lookup.

(* Snowfakery's own names win over Faker's in every spelling that is accepted (no hypothesis) *)
Theorem snowfakery_names_win :
  forall (fa sa : list string) q n p,
    In n sa -> canon q = canon n -> lookup (build fa sa) q = Some p ->
    exists n', p = (Sf, n') /\ In n' sa /\ canon n' = canon n.
Proof.
  intros fa sa q n p Hn C H. apply lookup_cases in H.
  destruct H as [(n' & -> & I & C')|(nf & -> & I & K & N4 & N5)].
  - exists n'. splits; auto. congruence.
  - exfalso. apply (faker_answer_excluded fa sa q nf n); auto.
Qed.

(* every case variant of a name, with all or none of its underscores, is found *)
Theorem lookup_found :
  forall (fa sa : list string) q n, In n fa \/ In n sa -> (lower q = lower n \/ lower q = canon n) ->
    lookup (build fa sa) q <> None.
Proof.
  intros fa sa q n Hn K E. apply assoc_None in E. apply E. unfold build. rewrite !map_app, !in_app_iff.
  rewrite !keys_rev_layer. destruct Hn as [Hn|Hn], K as [K|K]; rewrite K; auto 6 using in_map.
Qed.

(* the decidable hypotheses evaluated by the correspondence check imply the ones above *)
Lemma forallb2_sound {X} (f : X -> X -> bool) l :
  forallb (fun a => forallb (fun b => f a b) l) l = true -> forall a b, In a l -> In b l -> f a b = true.
Proof.
  intros H a b Ha Hb. rewrite forallb_forall in H. specialize (H a Ha). rewrite forallb_forall in H. auto.
Qed.

Lemma consistentb_sound (val : prov -> string) s attrs :
  consistentb String.eqb val s attrs = true ->
  forall n1 n2, In n1 attrs -> In n2 attrs -> canon n1 = canon n2 -> val (s, n1) = val (s, n2).
Proof.
  unfold consistentb. intros H n1 n2 H1 H2 C.
  pose proof (forallb2_sound _ _ H (canon n1, val (s, n1)) (canon n2, val (s, n2))) as X.
  cbn [fst snd] in X. rewrite C, String.eqb_refl in X. cbn [negb orb] in X.
  apply String.eqb_eq. apply X.
  - apply in_map_iff. exists n1. rewrite C. auto.
  - apply in_map_iff. exists n2. auto.
Qed.

Theorem hyps_hold_spelling_invariant :
  forall fa sa sigs, hyps_hold fa sa sigs = true ->
  forall q1 q2 p1 p2, canon q1 = canon q2 ->
    lookup (build fa sa) q1 = Some p1 -> lookup (build fa sa) q2 = Some p2 ->
    sig_of sigs (Some p1) = sig_of sigs (Some p2).
Proof.
  intros fa sa sigs H. unfold hyps_hold in H. apply andb_true_iff in H as [H1 H2].
  apply (lookup_spelling_invariant fa sa (fun p => sig_of sigs (Some p))).
  - exact (consistentb_sound (fun p => sig_of sigs (Some p)) Fk fa H1).
  - exact (consistentb_sound (fun p => sig_of sigs (Some p)) Sf sa H2).
Qed.

(* ------------------------------------------------------------------ the row interpreter *)

Lemma call_inv m s v s' :
  call m s = Ok (v, s') -> In (m, v) (s_flog s) /\ s_lv s' = s_lv s /\
                           (forall x, In x (s_flog s') -> In x (s_flog s)).
Proof.
  unfold call. destruct (s_flog s) as [|[m' v'] r] eqn:E; [discriminate|].
  destruct (String.eqb m m') eqn:E1; [|discriminate]. apply String.eqb_eq in E1. subst.
  intros H; inversion H; subst. cbn [s_lv s_flog]. splits; auto; cbn; auto.
Qed.

Lemma draw_inv n s v s' :
  draw n s = Ok (v, s') -> 0 <= v < n /\ s_lv s' = s_lv s /\ s_flog s' = s_flog s.
Proof.
  unfold draw. destruct (s_draws s) as [|[n' v'] r]; [discriminate|].
  destruct ((n =? n') && (0 <=? v') && (v' <? n)) eqn:E; [|discriminate].
  intros H; inversion H; subst. cbn [s_lv s_flog]. splits; auto; lia.
Qed.

(* the e-mail step of a row: safe whenever the Faker values it consumed are *)
Theorem fake_email_safe :
  forall this_year matching s e s',
    (forall v, In ("safe_domain_name"%string, v) (s_flog s) -> reserved v = true) ->
    (forall v, In ("ascii_safe_email"%string, v) (s_flog s) -> safe_addr v = true) ->
    fake_email this_year matching s = Ok (e, s') -> safe_addr e = true /\ count_at e = 1%nat.
Proof.
  intros y m s e s' HD HA. unfold fake_email.
  destruct (names_for m (s_lv s)) as [[f l]|] eqn:N.
  - destruct (draw n_templates s) as [[t s1]|] eqn:D1; cbn [bind]; [|discriminate].
    destruct (call "safe_domain_name" s1) as [[dom s2]|] eqn:C1; cbn [bind]; [|discriminate].
    destruct (draw n_years s2) as [[yy s3]|] eqn:D2; cbn [bind]; [|discriminate].
    destruct (email_matching f l t (y - 80 + yy) dom) as [e0|] eqn:EM; cbn [bind]; [|discriminate].
    intros H; inversion H; subst.
    apply draw_inv in D1 as (_ & _ & F1). apply call_inv in C1 as (I1 & _ & _). rewrite F1 in I1.
    destruct (names_for_alnum _ _ _ _ N) as [Af Al].
    assert (safe_shape e) as S.
    { apply (email_matching_safe f l t (y - 80 + yy) dom e); auto using alnum_no_at. }
    split; [apply safe_addr_shape|apply safe_shape_one_at]; auto.
  - intros C. apply call_inv in C as (I & _ & _). specialize (HA _ I).
    split; auto. apply safe_shape_one_at, safe_addr_shape. exact HA.
Qed.

(* the username step of a row *)
Theorem fake_user_name_shape :
  forall matching s u s',
    (forall m v, In (m, v) (s_flog s) -> no_at v = true) ->
    (forall v, In ("hostname"%string, v) (s_flog s) -> (length v <= 79)%nat) ->
    fake_user_name matching s = Ok (u, s') -> (length u <= 80)%nat /\ count_at u = 1%nat.
Proof.
  intros m s u s' HN HH. unfold fake_user_name.
  destruct (call "hostname" s) as [[host s1]|] eqn:C0; cbn [bind]; [|discriminate].
  apply call_inv in C0 as (I0 & _ & F0).
  destruct (names_for m (s_lv s)) as [[f l]|] eqn:N.
  - destruct (call "uuid4" s1) as [[uuid s2]|] eqn:C1; cbn [bind]; [|discriminate].
    apply call_inv in C1 as (I1 & _ & _).
    intros H; inversion H; subst.
    destruct (username_shape host uuid [] [] (HH _ I0) (HN _ _ I0) (HN _ _ (F0 _ I1)) eq_refl eq_refl m (s_lv s))
      as (A & B & _). auto.
  - destruct (call "first_name" s1) as [[ff s2]|] eqn:C1; cbn [bind]; [|discriminate].
    destruct (call "last_name" s2) as [[fl s3]|] eqn:C2; cbn [bind]; [|discriminate].
    destruct (call "uuid4" s3) as [[uuid s4]|] eqn:C3; cbn [bind]; [|discriminate].
    apply call_inv in C1 as (I1 & _ & F1). apply call_inv in C2 as (I2 & _ & F2).
    apply call_inv in C3 as (I3 & _ & _).
    intros H; inversion H; subst.
    destruct (username_shape host uuid ff fl (HH _ I0) (HN _ _ I0) (HN _ _ (F0 _ (F1 _ (F2 _ I3))))
                             (HN _ _ (F0 _ I1)) (HN _ _ (F0 _ (F1 _ I2))) m (s_lv s)) as (A & B & _). auto.
Qed.

(* _get_fake_data records its result under the underscore-free lower-case name, so that any
   accepted spelling of first_name / last_name feeds the later e-mail and username *)
Theorem fake_step_records :
  forall tbl ni this_year q matching s v s',
    fake_step tbl ni this_year q matching s = Ok (v, s') -> assoc (canon q) (s_lv s') = Some v.
Proof.
  intros tbl ni y q m s v s'. unfold fake_step. destruct (negb (ascii_only q)); [discriminate|].
  destruct (get_fake tbl ni q) as [[src n]|]; [|discriminate].
  match goal with |- bind ?X _ = _ -> _ => destruct X as [[v1 s1]|] end; cbn [bind]; [|discriminate].
  intros H; inversion H; subst. cbn [s_lv assoc]. rewrite String.eqb_refl. reflexivity.
Qed.

(* ------------------------------------------------------------------ scopes of local_vars *)

Definition fake_ops (fields : list (string * bool)) : list op :=
  map (fun f => OFake (fst f) (snd f)) fields.

Lemma run_ops_fakes tbl ni y fields rest stack s :
  run_ops tbl ni y (fake_ops fields ++ rest) stack s
  = (do '(vs, s1) <- run_fakes tbl ni y fields s;
     do ws <- run_ops tbl ni y rest stack s1;
     Ok (vs ++ ws)).
Proof.
  revert s. induction fields as [|[q m] fields IH]; intros s; cbn [fake_ops map app run_ops run_fakes fst snd].
  - cbn [bind]. destruct (run_ops tbl ni y rest stack s); reflexivity.
  - destruct (fake_step tbl ni y q m s) as [[v s1]|e]; cbn [bind]; [|reflexivity].
    fold (fake_ops fields). rewrite IH.
    destruct (run_fakes tbl ni y fields s1) as [[vs s2]|e]; cbn [bind]; [|reflexivity].
    destruct (run_ops tbl ni y rest stack s2); reflexivity.
Qed.

(* A nested object (or friend) runs with empty local_vars, and whatever it generates — first
   and last names included — what follows it in the enclosing template sees exactly the
   local_vars the enclosing template had before: the e-mail / username of a row is built from
   the names recorded for THAT row. *)
Theorem nested_context_isolated :
  forall tbl ni y inner rest stack s,
    run_ops tbl ni y (OPush :: fake_ops inner ++ OPop :: rest) stack s
    = (do '(vs, s1) <- run_fakes tbl ni y inner (mkSt [] (s_flog s) (s_draws s));
       do ws <- run_ops tbl ni y rest stack (mkSt (s_lv s) (s_flog s1) (s_draws s1));
       Ok (vs ++ ws)).
Proof.
  intros. cbn [run_ops]. rewrite run_ops_fakes. reflexivity.
Qed.

(* ------------------------------------------------------------------ names reach the e-mail, in any spelling *)

(* The Faker calls and random draws of a step leave local_vars alone; the step then pushes ONE
   binding, under the canonical (lower-case, underscore-free) form of the spelling that was used —
   whichever way the recipe asked for the value (block `fake: X`, dotted `fake.X:`, formula
   `${{fake.X}}`: all of them are this step). *)
Lemma fake_email_lv y m s e s' : fake_email y m s = Ok (e, s') -> s_lv s' = s_lv s.
Proof.
  unfold fake_email. destruct (names_for m (s_lv s)) as [[f l]|].
  - destruct (draw n_templates s) as [[t s1]|] eqn:D1; cbn [bind]; [|discriminate].
    destruct (call "safe_domain_name" s1) as [[dom s2]|] eqn:C1; cbn [bind]; [|discriminate].
    destruct (draw n_years s2) as [[yy s3]|] eqn:D2; cbn [bind]; [|discriminate].
    destruct (email_matching f l t (y - 80 + yy) dom) as [e0|]; cbn [bind]; [|discriminate].
    intros H; inversion H; subst.
    apply draw_inv in D1 as (_ & L1 & _). apply call_inv in C1 as (_ & L2 & _).
    apply draw_inv in D2 as (_ & L3 & _). congruence.
  - intros C. apply call_inv in C as (_ & L & _). exact L.
Qed.

Lemma fake_user_name_lv m s u s' : fake_user_name m s = Ok (u, s') -> s_lv s' = s_lv s.
Proof.
  unfold fake_user_name.
  destruct (call "hostname" s) as [[host s1]|] eqn:C0; cbn [bind]; [|discriminate].
  apply call_inv in C0 as (_ & L0 & _).
  destruct (names_for m (s_lv s)).
  - destruct (call "uuid4" s1) as [[uuid s2]|] eqn:C1; cbn [bind]; [|discriminate].
    apply call_inv in C1 as (_ & L1 & _). intros H; inversion H; subst. congruence.
  - destruct (call "first_name" s1) as [[ff s2]|] eqn:C1; cbn [bind]; [|discriminate].
    destruct (call "last_name" s2) as [[fl s3]|] eqn:C2; cbn [bind]; [|discriminate].
    destruct (call "uuid4" s3) as [[uuid s4]|] eqn:C3; cbn [bind]; [|discriminate].
    apply call_inv in C1 as (_ & L1 & _). apply call_inv in C2 as (_ & L2 & _).
    apply call_inv in C3 as (_ & L3 & _). intros H; inversion H; subst. congruence.
Qed.

Theorem fake_step_lv :
  forall tbl ni this_year q matching s v s',
    fake_step tbl ni this_year q matching s = Ok (v, s') -> s_lv s' = (canon q, v) :: s_lv s.
Proof.
  intros tbl ni y q m s v s'. unfold fake_step. destruct (negb (ascii_only q)); [discriminate|].
  destruct (get_fake tbl ni q) as [[src n]|]; [|discriminate].
  match goal with |- bind ?X _ = _ -> _ => destruct X as [[v1 s1]|] eqn:E end; cbn [bind]; [|discriminate].
  intros H; inversion H; subst. cbn [s_lv]. f_equal.
  destruct src.
  - apply call_inv in E as (_ & L & _). exact L.
  - destruct (String.eqb n "email"); [eapply fake_email_lv; eauto|].
    destruct (String.eqb n "user_name"); [eapply fake_user_name_lv; eauto|discriminate].
Qed.

(* further fakes of the same template that are not spellings of [k] keep the binding of [k] *)
Lemma run_fakes_keeps tbl ni y k fields :
  (forall q m, In (q, m) fields -> canon q <> k) ->
  forall s vs s', run_fakes tbl ni y fields s = Ok (vs, s') -> assoc k (s_lv s') = assoc k (s_lv s).
Proof.
  induction fields as [|[q m] fields IH]; intros HN s vs s'; cbn [run_fakes].
  - intros H; inversion H; subst. reflexivity.
  - destruct (fake_step tbl ni y q m s) as [[v s1]|] eqn:E; cbn [bind]; [|discriminate].
    destruct (run_fakes tbl ni y fields s1) as [[ws s2]|] eqn:R; cbn [bind]; [|discriminate].
    intros H; inversion H; subst.
    rewrite (IH (fun q' m' I => HN q' m' (or_intror I)) _ _ _ R).
    rewrite (fake_step_lv _ _ _ _ _ _ _ _ E). cbn [assoc].
    destruct (String.eqb k (canon q)) eqn:K; [|reflexivity].
    apply String.eqb_eq in K. exfalso. apply (HN q m); [left; reflexivity|]. auto.
Qed.

(* The clause "built from the names generated earlier in the row", for every spelling and every
   way of asking: a first and a last name asked for in ANY spellings [q1] [q2] (what they have in
   common is the canonical form), then any fakes that are not names, then the e-mail. *)
Theorem row_names_reach_contact :
  forall tbl ni y q1 m1 q2 m2 mid s v1 s1 v2 s2 vs s3,
    canon q1 = "firstname"%string -> canon q2 = "lastname"%string ->
    (forall q m, In (q, m) mid -> canon q <> "firstname"%string /\ canon q <> "lastname"%string) ->
    fake_step tbl ni y q1 m1 s = Ok (v1, s1) ->
    fake_step tbl ni y q2 m2 s1 = Ok (v2, s2) ->
    run_fakes tbl ni y mid s2 = Ok (vs, s3) ->
    assoc "firstname" (s_lv s3) = Some v1 /\ assoc "lastname" (s_lv s3) = Some v2.
Proof.
  intros tbl ni y q1 m1 q2 m2 mid s v1 s1 v2 s2 vs s3 C1 C2 HN E1 E2 R.
  rewrite (run_fakes_keeps tbl ni y "firstname" mid (fun q m I => proj1 (HN q m I)) _ _ _ R).
  rewrite (run_fakes_keeps tbl ni y "lastname" mid (fun q m I => proj2 (HN q m I)) _ _ _ R).
  rewrite (fake_step_lv _ _ _ _ _ _ _ _ E2), (fake_step_lv _ _ _ _ _ _ _ _ E1), C1, C2.
  cbn [assoc]. split; reflexivity.
Qed.

Theorem row_email_from_names_any_spelling :
  forall tbl ni y q1 m1 q2 m2 mid s v1 s1 v2 s2 vs s3 e s4,
    canon q1 = "firstname"%string -> canon q2 = "lastname"%string ->
    (forall q m, In (q, m) mid -> canon q <> "firstname"%string /\ canon q <> "lastname"%string) ->
    fake_step tbl ni y q1 m1 s = Ok (v1, s1) ->
    fake_step tbl ni y q2 m2 s1 = Ok (v2, s2) ->
    run_fakes tbl ni y mid s2 = Ok (vs, s3) ->
    isascii v1 = true -> isascii v2 = true ->
    filter isalnum v1 <> [] -> filter isalnum v2 <> [] ->
    fake_email y true s3 = Ok (e, s4) ->
    exists t yy dom, 0 <= t < n_templates /\ 0 <= yy < n_years /\
      In ("safe_domain_name"%string, dom) (s_flog s3) /\
      email_matching (filter isalnum v1) (filter isalnum v2) t (y - 80 + yy) dom = Ok e.
Proof.
  intros tbl ni y q1 m1 q2 m2 mid s v1 s1 v2 s2 vs s3 e s4 C1 C2 HN E1 E2 R A1 A2 N1 N2.
  destruct (row_names_reach_contact _ _ _ _ _ _ _ _ _ _ _ _ _ _ _ C1 C2 HN E1 E2 R) as [F L].
  unfold fake_email. rewrite (names_for_intro _ _ _ F L A1 A2 N1 N2).
  destruct (draw n_templates s3) as [[t s5]|] eqn:D1; cbn [bind]; [|discriminate].
  destruct (call "safe_domain_name" s5) as [[dom s6]|] eqn:K1; cbn [bind]; [|discriminate].
  destruct (draw n_years s6) as [[yy s7]|] eqn:D2; cbn [bind]; [|discriminate].
  destruct (email_matching (filter isalnum v1) (filter isalnum v2) t (y - 80 + yy) dom) as [e0|] eqn:EM;
    cbn [bind]; [|discriminate].
  intros H; inversion H; subst.
  apply draw_inv in D1 as (B1 & _ & F1). apply call_inv in K1 as (I1 & _ & _). rewrite F1 in I1.
  apply draw_inv in D2 as (B2 & _ & _).
  exists t, yy, dom. destruct B1, B2. splits; auto.
Qed.

(* ------------------------------------------------------------------ regression / residue *)

(* values Faker produced for locale en_TH (corpus/C18/k1_uuid_truncated_away.json): before the
   repair of C18-K1 both uuids gave the same username *)
Definition k1_lv : lvars :=
  [("lastname"%string, of_string "Lertsattayanusak"); ("firstname"%string, of_string "Pattatomporn")].
Definition k1_host : str := of_string "desktop-68.kongchayasukawut-lertsattayanusak.info".
Definition k1_uuid1 : str := of_string "ba2eaeb9-5c8e-474a-9d9b-d5ad0f343e7a".
Definition k1_uuid2 : str := of_string "04d14a19-0793-4130-8bbf-8f29cbf6c1f2".

Lemma username_k1_regression :
  user_name_of true k1_lv k1_host [] [] k1_uuid1 <> user_name_of true k1_lv k1_host [] [] k1_uuid2
  /\ user_name_of true k1_lv k1_host [] [] k1_uuid1
     = of_string "Pattatomporn._ba2eaeb9-5c8e-47@desktop-68.kongchayasukawut-lertsattayanusak.info".
Proof. split; [vm_compute; discriminate|vm_compute; reflexivity]. Qed.

(* what remains of the full statement "distinct uuids => distinct usernames": when names and
   host leave fewer than 36 characters, uuids that agree on the surviving prefix still collide *)
Lemma username_unique_residue :
  exists matching lv host ff fl uuid1 uuid2,
    (length host <= 62)%nat /\ length uuid1 = 36%nat /\ length uuid2 = 36%nat /\
    uuid1 <> uuid2 /\ firstn 16 uuid1 = firstn 16 uuid2 /\
    user_name_of matching lv host ff fl uuid1 = user_name_of matching lv host ff fl uuid2.
Proof.
  exists true, k1_lv, k1_host, [], [], k1_uuid1, (of_string "ba2eaeb9-5c8e-4700-0000-000000000000").
  splits; try (vm_compute; reflexivity); try (vm_compute; lia).
  vm_compute. discriminate.
Qed.

(* a host name of 80 or more characters cannot be repaired by cutting the name part *)
Theorem username_shape_needs_host_bound :
  exists matching lv host ff fl uuid,
    length host = 80%nat /\ no_at host = true /\
    (length (user_name_of matching lv host ff fl uuid) > 80)%nat.
Proof.
  exists true, k1_lv, (repeat 104 80), [], [], k1_uuid1.
  splits; vm_compute; reflexivity.
Qed.
