(* MappingP.v — proofs about the model of the CCI mapping generator (property C16). *)
From Coq Require Import String Ascii List Lia Bool Arith Permutation Sorted.
From SFV Require Import Base Mapping.
From SFV.P Require Import BaseP.
Import ListNotations.
Open Scope string_scope.
Open Scope list_scope.
Open Scope nat_scope.

Ltac splits := repeat match goal with |- _ /\ _ => split end.

(* ================================================================== basic lemmas *)
Lemma mem_In x l : mem x l = true <-> In x l.
Proof.
  unfold mem. rewrite existsb_exists. split.
  - intros [y [Hy He]]. apply String.eqb_eq in He. subst. assumption.
  - intros H. exists x. split; [assumption|apply String.eqb_refl].
Qed.

Lemma mem_false x l : mem x l = false <-> ~ In x l.
Proof.
  rewrite <- mem_In. destruct (mem x l); split; intros; congruence.
Qed.

Lemma mem_app x l1 l2 : mem x (l1 ++ l2) = mem x l1 || mem x l2.
Proof. unfold mem. apply existsb_app. Qed.

Lemma index_of_In x l : In x l -> exists i, index_of x l = Some i /\ i < length l.
Proof.
  induction l as [|y r IH]; cbn [In index_of length]; [tauto|].
  intros H. destruct (String.eqb x y) eqn:E.
  - exists 0. split; [reflexivity|lia].
  - destruct H as [H|H]; [subst; rewrite String.eqb_refl in E; discriminate|].
    destruct (IH H) as [i [Hi Hl]]. exists (S i). rewrite Hi. split; [reflexivity|lia].
Qed.

Lemma index_of_Some x l i : index_of x l = Some i -> In x l /\ i < length l.
Proof.
  revert i. induction l as [|y r IH]; cbn [In index_of length]; intros i H; [discriminate|].
  destruct (String.eqb x y) eqn:E.
  - apply String.eqb_eq in E. inversion H; subst. split; [auto|lia].
  - destruct (index_of x r) as [j|] eqn:Ej; cbn [option_map] in H; [|discriminate].
    inversion H; subst. destruct (IH j eq_refl). split; [auto|lia].
Qed.

Lemma index_of_None x l : index_of x l = None <-> ~ In x l.
Proof.
  split.
  - intros H Hin. destruct (index_of_In _ _ Hin) as [i [Hi _]]. congruence.
  - intros H. destruct (index_of x l) eqn:E; [|reflexivity].
    exfalso. apply H. apply (index_of_Some _ _ _ E).
Qed.

Lemma index_of_app_l x l1 l2 : In x l1 -> index_of x (l1 ++ l2) = index_of x l1.
Proof.
  induction l1 as [|y r IH]; cbn [In index_of app]; [tauto|].
  intros H. destruct (String.eqb x y) eqn:E; [reflexivity|].
  destruct H as [H|H]; [subst; rewrite String.eqb_refl in E; discriminate|].
  rewrite IH; auto.
Qed.

Lemma index_of_app_r x l1 l2 :
  ~ In x l1 -> index_of x (l1 ++ l2) = option_map (fun i => length l1 + i) (index_of x l2).
Proof.
  induction l1 as [|y r IH]; cbn [In index_of app length]; intros H.
  - destruct (index_of x l2); reflexivity.
  - destruct (String.eqb x y) eqn:E.
    + apply String.eqb_eq in E. subst. tauto.
    + rewrite IH by tauto. destruct (index_of x l2); reflexivity.
Qed.

Lemma filter_length_le {A} (p : A -> bool) l : length (filter p l) <= length l.
Proof. induction l as [|x r IH]; cbn [filter length]; [lia|]. destruct (p x); cbn [length]; lia. Qed.

Lemma filter_length_eq {A} (p : A -> bool) l :
  length (filter p l) = length l -> filter p l = l /\ forall x, In x l -> p x = true.
Proof.
  induction l as [|x r IH]; cbn [filter length In]; intros H; [split; [reflexivity|tauto]|].
  destruct (p x) eqn:E.
  - cbn [length] in H. destruct IH as [H1 H2]; [lia|]. split; [rewrite H1; reflexivity|].
    intros y [Hy|Hy]; [subst; assumption|auto].
  - pose proof (filter_length_le p r). lia.
Qed.

Lemma filter_length_lt {A} (p : A -> bool) l x :
  In x l -> p x = false -> length (filter p l) < length l.
Proof.
  intros Hin Hp. pose proof (filter_length_le p l).
  destruct (Nat.eq_dec (length (filter p l)) (length l)) as [E|E]; [|lia].
  destruct (filter_length_eq p l E) as [_ Hall]. rewrite (Hall x Hin) in Hp. discriminate.
Qed.

Lemma min_str_In l m : min_str l = Some m -> In m l.
Proof.
  revert m. induction l as [|x r IH]; cbn [min_str In]; intros m H; [discriminate|].
  destruct (min_str r) as [m'|] eqn:E.
  - destruct (String.leb x m'); inversion H; subst; auto.
  - inversion H; auto.
Qed.

Lemma min_str_nonempty l : l <> [] -> exists m, min_str l = Some m.
Proof.
  destruct l as [|x r]; [congruence|]. intros _. cbn [min_str].
  destruct (min_str r) as [m'|]; [destruct (String.leb x m')|]; eauto.
Qed.

Lemma existsb_false_iff {A} (p : A -> bool) l : existsb p l = false <-> forall x, In x l -> p x = false.
Proof.
  split.
  - intros H x Hx. destruct (p x) eqn:E; [|reflexivity].
    assert (existsb p l = true) by (apply existsb_exists; eauto). congruence.
  - intros H. destruct (existsb p l) eqn:E; [|reflexivity].
    apply existsb_exists in E. destruct E as [x [Hx Hp]]. rewrite (H x Hx) in Hp. discriminate.
Qed.

(* ================================================================== the sorter *)
Section SortLoop.
Variable tg : string -> list string.
Variable stuck : list string -> result (list string).

Definition mu (tables sorted : list string) : nat :=
  2 * length tables - (if existsb (fun t => mem t sorted) tables then 1 else 0).

(* what is appended by a pass that sorts nothing makes progress *)
Definition stuck_progress : Prop :=
  forall ts, ts <> [] -> exists sub, stuck ts = Ok sub /\ exists x, In x ts /\ In x sub.

Lemma sort_loop_terminates :
  stuck_progress ->
  forall fuel tables sorted, mu tables sorted < fuel ->
  exists l, sort_loop tg stuck fuel tables sorted = Ok l.
Proof.
  intros Hst. induction fuel as [|fuel IH]; intros tables sorted Hmu.
  - destruct tables as [|t r]; [eexists; reflexivity|]. exfalso.
    unfold mu in Hmu. cbn [length] in Hmu. destruct (existsb _ _); lia.
  - destruct tables as [|t0 r0] eqn:Et; [eexists; reflexivity|]. rewrite <- Et in *.
    assert (Hne : tables <> []) by (rewrite Et; discriminate).
    assert (Hlen : 1 <= length tables) by (rewrite Et; cbn [length]; lia).
    replace (sort_loop tg stuck (S fuel) tables sorted) with
      (let leaf := filter (is_free tg sorted) tables in
       let sorted1 := sorted ++ leaf in
       let tables1 := filter (fun t => negb (mem t sorted1)) tables in
       if Nat.eqb (length tables1) (length tables)
       then do sub <- stuck tables1; sort_loop tg stuck fuel tables1 (sorted1 ++ sub)
       else sort_loop tg stuck fuel tables1 sorted1)
      by (rewrite Et; reflexivity).
    cbv zeta.
    set (leaf := filter (is_free tg sorted) tables).
    set (sorted1 := sorted ++ leaf).
    set (tables1 := filter (fun t => negb (mem t sorted1)) tables).
    assert (Hnone1 : existsb (fun t => mem t sorted1) tables1 = false).
    { apply existsb_false_iff. intros x Hx. unfold tables1 in Hx. apply filter_In in Hx.
      destruct Hx as [_ Hx]. destruct (mem x sorted1); [discriminate|reflexivity]. }
    destruct (Nat.eqb (length tables1) (length tables)) eqn:E.
    + apply Nat.eqb_eq in E. destruct (filter_length_eq _ _ E) as [Heq Hall].
      fold tables1 in Heq.
      destruct (Hst tables1) as [sub [Hsub [x [Hx1 Hx2]]]]; [rewrite Heq; assumption|].
      rewrite Hsub. cbn [bind]. apply IH.
      unfold mu in *. rewrite Heq.
      assert (H1 : existsb (fun t => mem t (sorted1 ++ sub)) tables = true).
      { apply existsb_exists. exists x. split; [rewrite <- Heq; assumption|].
        rewrite mem_app. apply orb_true_iff. right. apply mem_In. assumption. }
      rewrite H1.
      assert (H0 : existsb (fun t => mem t sorted) tables = false).
      { apply existsb_false_iff. intros y Hy. specialize (Hall y Hy).
        unfold sorted1 in Hall. rewrite mem_app in Hall.
        destruct (mem y sorted); [discriminate|reflexivity]. }
      rewrite H0 in Hmu. lia.
    + apply Nat.eqb_neq in E. pose proof (filter_length_le (fun t => negb (mem t sorted1)) tables) as Hle.
      fold tables1 in Hle. apply IH. unfold mu in *. rewrite Hnone1.
      destruct (existsb (fun t => mem t sorted) tables); lia.
Qed.

Lemma sort_loop_covers :
  forall fuel tables sorted l, sort_loop tg stuck fuel tables sorted = Ok l ->
  forall x, In x tables \/ In x sorted -> In x l.
Proof.
  induction fuel as [|fuel IH]; intros tables sorted l H x Hx.
  - destruct tables; cbn [sort_loop] in H; [|discriminate]. inversion H; subst.
    destruct Hx as [[]|Hx]; assumption.
  - destruct tables as [|t0 r0] eqn:Et.
    { cbn [sort_loop] in H. inversion H; subst. destruct Hx as [[]|Hx]; assumption. }
    rewrite <- Et in *.
    replace (sort_loop tg stuck (S fuel) tables sorted) with
      (let leaf := filter (is_free tg sorted) tables in
       let sorted1 := sorted ++ leaf in
       let tables1 := filter (fun t => negb (mem t sorted1)) tables in
       if Nat.eqb (length tables1) (length tables)
       then do sub <- stuck tables1; sort_loop tg stuck fuel tables1 (sorted1 ++ sub)
       else sort_loop tg stuck fuel tables1 sorted1) in H
      by (rewrite Et; reflexivity).
    cbv zeta in H.
    set (leaf := filter (is_free tg sorted) tables) in *.
    set (sorted1 := sorted ++ leaf) in *.
    set (tables1 := filter (fun t => negb (mem t sorted1)) tables) in *.
    assert (Hx1 : In x tables1 \/ In x sorted1).
    { destruct Hx as [Hx|Hx].
      - destruct (mem x sorted1) eqn:Em.
        + right. apply mem_In. assumption.
        + left. unfold tables1. apply filter_In. split; [assumption|]. rewrite Em. reflexivity.
      - right. unfold sorted1. apply in_or_app. auto. }
    destruct (Nat.eqb (length tables1) (length tables)).
    + destruct (stuck tables1) as [sub|e]; cbn [bind] in H; [|discriminate].
      apply (IH _ _ _ H). destruct Hx1 as [Hx1|Hx1]; [auto|].
      right. apply in_or_app. auto.
    + apply (IH _ _ _ H). assumption.
Qed.

Lemma sort_loop_sub :
  (forall ts sub, stuck ts = Ok sub -> forall x, In x sub -> In x ts) ->
  forall fuel tables sorted l, sort_loop tg stuck fuel tables sorted = Ok l ->
  forall x, In x l -> In x tables \/ In x sorted.
Proof.
  intros Hst. induction fuel as [|fuel IH]; intros tables sorted l H x Hx.
  - destruct tables; cbn [sort_loop] in H; [|discriminate]. inversion H; subst. auto.
  - destruct tables as [|t0 r0] eqn:Et.
    { cbn [sort_loop] in H. inversion H; subst. auto. }
    rewrite <- Et in *.
    replace (sort_loop tg stuck (S fuel) tables sorted) with
      (let leaf := filter (is_free tg sorted) tables in
       let sorted1 := sorted ++ leaf in
       let tables1 := filter (fun t => negb (mem t sorted1)) tables in
       if Nat.eqb (length tables1) (length tables)
       then do sub <- stuck tables1; sort_loop tg stuck fuel tables1 (sorted1 ++ sub)
       else sort_loop tg stuck fuel tables1 sorted1) in H
      by (rewrite Et; reflexivity).
    cbv zeta in H.
    set (leaf := filter (is_free tg sorted) tables) in *.
    set (sorted1 := sorted ++ leaf) in *.
    set (tables1 := filter (fun t => negb (mem t sorted1)) tables) in *.
    assert (Hs1 : forall y, In y sorted1 -> In y tables \/ In y sorted).
    { intros y Hy. unfold sorted1 in Hy. apply in_app_or in Hy. destruct Hy as [Hy|Hy]; [auto|].
      left. unfold leaf in Hy. apply filter_In in Hy. tauto. }
    assert (Ht1 : forall y, In y tables1 -> In y tables).
    { intros y Hy. unfold tables1 in Hy. apply filter_In in Hy. tauto. }
    destruct (Nat.eqb (length tables1) (length tables)).
    + destruct (stuck tables1) as [sub|e] eqn:Es; cbn [bind] in H; [|discriminate].
      destruct (IH _ _ _ H x Hx) as [Hy|Hy]; [auto|].
      apply in_app_or in Hy. destruct Hy as [Hy|Hy]; [auto|].
      left. apply Ht1. apply (Hst _ _ Es). assumption.
    + destruct (IH _ _ _ H x Hx) as [Hy|Hy]; auto.
Qed.

(* ---- soundness on graphs that are acyclic when self loops are ignored ---- *)
Definition before (x t : string) (l : list string) : Prop :=
  exists i j, index_of x l = Some i /\ index_of t l = Some j /\ i < j.

Variable all : list string.
Variable rank : string -> nat.
Hypothesis Hgraph : forall t x, In t all -> In x (tg t) -> x <> t -> In x all /\ rank x < rank t.

Definition sinv (tables sorted : list string) : Prop :=
  NoDup tables /\ NoDup sorted /\
  (forall t, In t all <-> In t tables \/ In t sorted) /\
  (forall t, In t tables -> ~ In t sorted) /\
  (forall t x, In t sorted -> In x (tg t) -> x <> t -> before x t sorted).

Lemma exists_min_rank (l : list string) :
  l <> [] -> exists t, In t l /\ forall u, In u l -> rank t <= rank u.
Proof.
  induction l as [|x r IH]; [congruence|]. intros _.
  destruct r as [|y r'].
  - exists x. split; [left; reflexivity|]. intros u [Hu|[]]; subst; lia.
  - destruct IH as [t [Ht Hmin]]; [discriminate|].
    destruct (le_lt_dec (rank x) (rank t)).
    + exists x. split; [left; reflexivity|]. intros u [Hu|Hu]; [subst; lia|].
      specialize (Hmin u Hu). lia.
    + exists t. split; [right; assumption|]. intros u [Hu|Hu]; [subst; lia|auto].
Qed.

Lemma sort_loop_sound :
  forall fuel tables sorted l, sinv tables sorted ->
  sort_loop tg stuck fuel tables sorted = Ok l ->
  NoDup l /\ (forall t, In t l <-> In t all) /\
  (forall t x, In t all -> In x (tg t) -> x <> t -> before x t l).
Proof.
  induction fuel as [|fuel IH]; intros tables sorted l Hinv H.
  - destruct tables; cbn [sort_loop] in H; [|discriminate]. inversion H; subst.
    destruct Hinv as (_ & Hnd & Hall & _ & Hbef). splits.
    + assumption.
    + intros t. rewrite Hall. cbn [In]. tauto.
    + intros t x Ht. apply Hbef. apply Hall in Ht. destruct Ht as [[]|Ht]. assumption.
  - destruct tables as [|t0 r0] eqn:Et.
    { cbn [sort_loop] in H. inversion H; subst.
      destruct Hinv as (_ & Hnd & Hall & _ & Hbef). splits.
      + assumption.
      + intros t. rewrite Hall. cbn [In]. tauto.
      + intros t x Ht. apply Hbef. apply Hall in Ht. destruct Ht as [[]|Ht]. assumption. }
    rewrite <- Et in *.
    assert (Hne : tables <> []) by (rewrite Et; discriminate).
    replace (sort_loop tg stuck (S fuel) tables sorted) with
      (let leaf := filter (is_free tg sorted) tables in
       let sorted1 := sorted ++ leaf in
       let tables1 := filter (fun t => negb (mem t sorted1)) tables in
       if Nat.eqb (length tables1) (length tables)
       then do sub <- stuck tables1; sort_loop tg stuck fuel tables1 (sorted1 ++ sub)
       else sort_loop tg stuck fuel tables1 sorted1) in H
      by (rewrite Et; reflexivity).
    cbv zeta in H.
    set (leaf := filter (is_free tg sorted) tables) in *.
    set (sorted1 := sorted ++ leaf) in *.
    set (tables1 := filter (fun t => negb (mem t sorted1)) tables) in *.
    destruct Hinv as (Hndt & Hnds & Hall & Hdisj & Hbef).
    (* some table is free *)
    destruct (exists_min_rank tables Hne) as [tm [Htm Hmin]].
    assert (Hfree : is_free tg sorted tm = true).
    { unfold is_free. apply forallb_forall. intros x Hx.
      destruct (String.eqb x tm) eqn:E; [apply orb_true_r|]. rewrite orb_false_r.
      assert (Hxt : x <> tm) by (intros ->; rewrite String.eqb_refl in E; discriminate).
      assert (Htma : In tm all) by (apply Hall; auto).
      destruct (Hgraph tm x Htma Hx Hxt) as [Hxa Hr].
      apply mem_In. apply Hall in Hxa. destruct Hxa as [Hxa|Hxa]; [|assumption].
      specialize (Hmin x Hxa). lia. }
    assert (Htl : In tm leaf) by (unfold leaf; apply filter_In; auto).
    assert (Hlt : length tables1 < length tables).
    { unfold tables1. apply (filter_length_lt _ _ tm Htm).
      assert (mem tm sorted1 = true) by (apply mem_In; unfold sorted1; apply in_or_app; auto).
      rewrite H0. reflexivity. }
    assert (E : Nat.eqb (length tables1) (length tables) = false) by (apply Nat.eqb_neq; lia).
    rewrite E in H. apply (IH _ _ _) in H; [assumption|].
    assert (Hleaf_t : forall y, In y leaf -> In y tables /\ is_free tg sorted y = true).
    { intros y Hy. unfold leaf in Hy. apply filter_In in Hy. assumption. }
    unfold sinv. splits.
    + unfold tables1. apply filter_NoDup. assumption.
    + unfold sorted1. apply NoDup_app_intro; [assumption|unfold leaf; apply filter_NoDup; assumption|].
      intros y Hy Hy2. apply Hleaf_t in Hy2. apply (Hdisj y); tauto.
    + intros t. rewrite Hall. unfold tables1, sorted1. rewrite filter_In, in_app_iff. split.
      * intros [Ht|Ht]; [|auto]. destruct (mem t (sorted ++ leaf)) eqn:Em.
        -- right. apply mem_In in Em. apply in_app_or in Em. assumption.
        -- left. split; [assumption|reflexivity].
      * intros [[Ht _]|[Ht|Ht]]; [auto|auto|]. left. apply Hleaf_t in Ht. tauto.
    + intros t Ht Hs. unfold tables1 in Ht. apply filter_In in Ht. destruct Ht as [_ Ht].
      apply mem_In in Hs. rewrite Hs in Ht. discriminate.
    + intros t x Ht Hx Hxt. unfold sorted1 in Ht. apply in_app_or in Ht. destruct Ht as [Ht|Ht].
      * destruct (Hbef t x Ht Hx Hxt) as (i & j & Hi & Hj & Hij).
        exists i, j. unfold sorted1. splits; [| |assumption].
        -- rewrite index_of_app_l; [assumption|]. apply (index_of_Some _ _ _ Hi).
        -- rewrite index_of_app_l; [assumption|]. apply (index_of_Some _ _ _ Hj).
      * destruct (Hleaf_t t Ht) as [Htt Hf].
        unfold is_free in Hf. rewrite forallb_forall in Hf. specialize (Hf x Hx).
        assert (Hxs : In x sorted).
        { apply orb_true_iff in Hf. destruct Hf as [Hf|Hf]; [apply mem_In; assumption|].
          apply String.eqb_eq in Hf. contradiction. }
        destruct (index_of_In _ _ Hxs) as [i [Hi Hil]].
        destruct (index_of_In _ _ Ht) as [k [Hk _]].
        exists i, (length sorted + k). unfold sorted1. splits; [| |lia].
        -- rewrite index_of_app_l; assumption.
        -- rewrite index_of_app_r; [rewrite Hk; reflexivity|]. apply Hdisj. assumption.
Qed.

End SortLoop.

(* ---- the two kinds of stuck action ---- *)
Lemma stuck_min_progress : stuck_progress stuck_min.
Proof.
  intros ts Hne. destruct (min_str_nonempty ts Hne) as [m Hm].
  exists [m]. unfold stuck_min. rewrite Hm. split; [reflexivity|].
  exists m. split; [apply (min_str_In _ _ Hm)|left; reflexivity].
Qed.

Lemma stuck_min_sub ts sub : stuck_min ts = Ok sub -> forall x, In x sub -> In x ts.
Proof.
  unfold stuck_min. destruct (min_str ts) as [m|] eqn:E; intros H; inversion H; subst.
  intros x [Hx|[]]. subst. apply (min_str_In _ _ E).
Qed.

Lemma mu_fuel tables : mu tables [] < sort_fuel tables.
Proof. unfold mu, sort_fuel. destruct (existsb _ _); lia. Qed.

Lemma sort_declared_only_ok declared ts :
  exists sub, sort_declared_only declared ts = Ok sub /\ (forall x, In x ts <-> In x sub).
Proof.
  unfold sort_declared_only.
  destruct (sort_loop_terminates (tg_of declared) stuck_min stuck_min_progress
              (sort_fuel ts) ts [] (mu_fuel ts)) as [sub Hsub].
  exists sub. split; [assumption|]. intros x. split.
  - intros Hx. apply (sort_loop_covers _ _ _ _ _ _ Hsub). auto.
  - intros Hx. destruct (sort_loop_sub _ _ stuck_min_sub _ _ _ _ Hsub x Hx) as [H|[]]. assumption.
Qed.

Lemma sort_declared_only_progress declared : stuck_progress (sort_declared_only declared).
Proof.
  intros ts Hne. destruct (sort_declared_only_ok declared ts) as [sub [Hs Hiff]].
  exists sub. split; [assumption|]. destruct ts as [|x r]; [congruence|].
  exists x. split; [left; reflexivity|]. apply Hiff. left. reflexivity.
Qed.

Definition stuck_of (inferred declared : list (string * list string)) :=
  if (nonempty inferred && nonempty declared)%bool then sort_declared_only declared else stuck_min.

Lemma stuck_of_progress inferred declared : stuck_progress (stuck_of inferred declared).
Proof.
  unfold stuck_of. destruct (nonempty inferred && nonempty declared)%bool;
    [apply sort_declared_only_progress|apply stuck_min_progress].
Qed.

Lemma stuck_of_sub inferred declared ts sub :
  stuck_of inferred declared ts = Ok sub -> forall x, In x sub -> In x ts.
Proof.
  unfold stuck_of. destruct (nonempty inferred && nonempty declared)%bool.
  - intros H x Hx. destruct (sort_declared_only_ok declared ts) as [sub' [Hs Hiff]].
    rewrite Hs in H. inversion H; subst. apply Hiff. assumption.
  - apply stuck_min_sub.
Qed.

(* the fuel always suffices: sort_dependencies never runs out of fuel and never fails *)
Theorem sort_terminates inferred declared tables :
  exists l, sort_dependencies inferred declared tables = Ok l.
Proof.
  unfold sort_dependencies. fold (stuck_of inferred declared).
  apply sort_loop_terminates; [apply stuck_of_progress|apply mu_fuel].
Qed.

Theorem sort_covers inferred declared tables l :
  sort_dependencies inferred declared tables = Ok l -> forall t, In t l <-> In t tables.
Proof.
  unfold sort_dependencies. fold (stuck_of inferred declared). intros H t. split.
  - intros Ht. destruct (sort_loop_sub _ _ (stuck_of_sub inferred declared) _ _ _ _ H t Ht) as [Hx|[]].
    assumption.
  - intros Ht. apply (sort_loop_covers _ _ _ _ _ _ H). auto.
Qed.

Theorem sort_sound inferred declared tables (rank : string -> nat) l :
  NoDup tables ->
  (forall t x, In t tables -> In x (merged_tg inferred declared t) -> x <> t ->
               In x tables /\ rank x < rank t) ->
  sort_dependencies inferred declared tables = Ok l ->
  NoDup l /\
  forall t x, In t tables -> In x (merged_tg inferred declared t) -> x <> t -> before x t l.
Proof.
  intros Hnd Hg H. unfold sort_dependencies in H.
  assert (Hinv : sinv (merged_tg inferred declared) tables tables []).
  { unfold sinv; splits; [assumption|constructor|cbn [In]; tauto|auto|intros ? ? []]. }
  destruct (sort_loop_sound _ _ tables rank Hg _ _ _ _ Hinv H) as (H1 & _ & H3).
  split; assumption.
Qed.

(* ================================================================== dependency persistence *)
Lemma dep_eqb_eq a b : dep_eqb a b = true <-> a = b.
Proof.
  destruct a as [a1 a2 a3], b as [b1 b2 b3]. unfold dep_eqb. cbn [d_from d_to d_field].
  rewrite !andb_true_iff, !String.eqb_eq. split.
  - intros [[-> ->] ->]. reflexivity.
  - intros H. inversion H. auto.
Qed.

Lemma existsb_dep_In d l : existsb (dep_eqb d) l = true <-> In d l.
Proof.
  rewrite existsb_exists. split.
  - intros [y [Hy He]]. apply dep_eqb_eq in He. subst. assumption.
  - intros H. exists d. split; [assumption|]. apply dep_eqb_eq. reflexivity.
Qed.

Lemma oset_add_In d l x : In x (oset_add d l) <-> x = d \/ In x l.
Proof.
  unfold oset_add. destruct (existsb (dep_eqb d) l) eqn:E.
  - apply existsb_dep_In in E. split; [auto|]. intros [->|H]; assumption.
  - rewrite in_app_iff. cbn [In]. intuition congruence.
Qed.

Lemma oset_add_NoDup d l : NoDup l -> NoDup (oset_add d l).
Proof.
  intros H. unfold oset_add. destruct (existsb (dep_eqb d) l) eqn:E; [assumption|].
  apply NoDup_app_intro; [assumption|constructor; [intros []|constructor]|].
  intros x Hx [Hd|[]]. subst.
  assert (existsb (dep_eqb x) l = true) by (apply existsb_dep_In; assumption). congruence.
Qed.

Lemma fold_oset_add_app l : forall acc,
  NoDup (acc ++ l) -> fold_left (fun a d => oset_add d a) l acc = acc ++ l.
Proof.
  induction l as [|d r IH]; intros acc H; cbn [fold_left].
  - rewrite app_nil_r. reflexivity.
  - assert (Hd : existsb (dep_eqb d) acc = false).
    { destruct (existsb (dep_eqb d) acc) eqn:E; [|reflexivity].
      apply existsb_dep_In in E. apply NoDup_remove_2 in H. exfalso. apply H.
      apply in_or_app. auto. }
    unfold oset_add at 2. rewrite Hd. rewrite IH; rewrite <- app_assoc; cbn [app]; [reflexivity|assumption].
Qed.

(* writing the dependencies to a continuation file and reading them back is the identity *)
Lemma save_load_id l : NoDup l -> save_load l = l.
Proof. intros H. unfold save_load. rewrite fold_oset_add_app; [reflexivity|assumption]. Qed.

Lemma run_events_NoDup evs : forall st, NoDup st -> NoDup (run_events evs st).
Proof.
  induction evs as [|[d|] r IH]; intros st H; cbn [run_events]; [assumption| |].
  - apply IH. apply oset_add_NoDup. assumption.
  - apply IH. rewrite save_load_id; assumption.
Qed.

(* stop-and-continue is invisible to the recorded dependencies *)
Theorem deps_persist evs : forall st,
  NoDup st -> run_events evs st = run_events (filter is_obs evs) st.
Proof.
  induction evs as [|[d|] r IH]; intros st H; cbn [run_events filter is_obs]; [reflexivity| |].
  - apply IH. apply oset_add_NoDup. assumption.
  - rewrite save_load_id by assumption. apply IH. assumption.
Qed.

(* ================================================================== tables inferred from the templates *)
Fixpoint find_ti (t : string) (tis : list tinfo) : option tinfo :=
  match tis with
  | [] => None
  | ti :: r => if String.eqb (ti_name ti) t then Some ti else find_ti t r
  end.

Definition upd (o : option tinfo) (tp : ftpl) : option tinfo :=
  Some (match o with
        | Some ti => mkTi (ti_name ti) (add_new (ti_fields ti) (visible_fields (tp_fields tp)))
                          (ti_keys ti ++ [norm_key (tp_key tp)])
        | None => mkTi (tp_table tp) (add_new [] (visible_fields (tp_fields tp))) [norm_key (tp_key tp)]
        end).

Lemma register_find_same tp tis :
  find_ti (tp_table tp) (register tp tis) = upd (find_ti (tp_table tp) tis) tp.
Proof.
  induction tis as [|ti r IH]; cbn [register find_ti].
  - cbn [ti_name]. rewrite String.eqb_refl. reflexivity.
  - destruct (String.eqb (ti_name ti) (tp_table tp)) eqn:E; cbn [find_ti ti_name]; rewrite E;
      [reflexivity|assumption].
Qed.

Lemma register_find_other tp tis t :
  t <> tp_table tp -> find_ti t (register tp tis) = find_ti t tis.
Proof.
  intros Hne. induction tis as [|ti r IH]; cbn [register find_ti].
  - cbn [ti_name]. destruct (String.eqb (tp_table tp) t) eqn:E; [|reflexivity].
    apply String.eqb_eq in E. congruence.
  - destruct (String.eqb (ti_name ti) (tp_table tp)) eqn:E; cbn [find_ti ti_name].
    + apply String.eqb_eq in E. destruct (String.eqb (ti_name ti) t) eqn:E2; [|reflexivity].
      apply String.eqb_eq in E2. congruence.
    + rewrite IH. reflexivity.
Qed.

Lemma register_names tp tis :
  map ti_name (register tp tis) =
  if mem (tp_table tp) (map ti_name tis) then map ti_name tis else map ti_name tis ++ [tp_table tp].
Proof.
  induction tis as [|ti r IH]; cbn [register map]; [reflexivity|].
  unfold mem in *. cbn [existsb]. rewrite (String.eqb_sym (tp_table tp) (ti_name ti)).
  destruct (String.eqb (ti_name ti) (tp_table tp)) eqn:E; cbn [map ti_name orb]; [reflexivity|].
  rewrite IH. destruct (existsb (String.eqb (tp_table tp)) (map ti_name r)); reflexivity.
Qed.

Lemma register_names_NoDup tp tis : NoDup (map ti_name tis) -> NoDup (map ti_name (register tp tis)).
Proof.
  intros H. rewrite register_names. destruct (mem (tp_table tp) (map ti_name tis)) eqn:E; [assumption|].
  apply NoDup_app_intro; [assumption|constructor; [intros []|constructor]|].
  intros x Hx [Hd|[]]. subst. apply mem_false in E. contradiction.
Qed.

Lemma register_names_In tp tis x :
  In x (map ti_name (register tp tis)) <-> In x (map ti_name tis) \/ x = tp_table tp.
Proof.
  rewrite register_names. destruct (mem (tp_table tp) (map ti_name tis)) eqn:E.
  - apply mem_In in E. split; [auto|]. intros [H| ->]; assumption.
  - rewrite in_app_iff. cbn [In]. intuition congruence.
Qed.

Definition tstep (t : string) (o : option tinfo) (tp : ftpl) : option tinfo :=
  if String.eqb (tp_table tp) t then upd o tp else o.

Lemma fold_register_find t tpls : forall acc,
  find_ti t (fold_left (fun a tp => register tp a) tpls acc) = fold_left (tstep t) tpls (find_ti t acc).
Proof.
  induction tpls as [|tp r IH]; intros acc; cbn [fold_left]; [reflexivity|].
  rewrite IH. f_equal. unfold tstep. destruct (String.eqb (tp_table tp) t) eqn:E.
  - apply String.eqb_eq in E. subst. apply register_find_same.
  - apply register_find_other. intros ->. rewrite String.eqb_refl in E. discriminate.
Qed.

Lemma fold_register_names_NoDup tpls : forall acc,
  NoDup (map ti_name acc) -> NoDup (map ti_name (fold_left (fun a tp => register tp a) tpls acc)).
Proof.
  induction tpls as [|tp r IH]; intros acc H; cbn [fold_left]; [assumption|].
  apply IH. apply register_names_NoDup. assumption.
Qed.

Lemma fold_register_names_In tpls x : forall acc,
  In x (map ti_name (fold_left (fun a tp => register tp a) tpls acc)) <->
  In x (map ti_name acc) \/ exists tp, In tp tpls /\ tp_table tp = x.
Proof.
  induction tpls as [|tp r IH]; intros acc; cbn [fold_left].
  - split; [auto|]. intros [H|[tp [[] _]]]. assumption.
  - rewrite IH, register_names_In. cbn [In]. split.
    + intros [[H|H]|[tp' [H1 H2]]]; [auto|right; exists tp; auto|right; exists tp'; auto].
    + intros [H|[tp' [[H1|H1] H2]]]; [auto|subst; auto|right; exists tp'; auto].
Qed.

Definition fields_of (t : string) (tpls : list ftpl) (acc : list string) : list string :=
  fold_left (fun a tp => if String.eqb (tp_table tp) t
                         then add_new a (visible_fields (tp_fields tp)) else a) tpls acc.

Definition keys_of (t : string) (tpls : list ftpl) : list (option string) :=
  map (fun tp => norm_key (tp_key tp)) (filter (fun tp => String.eqb (tp_table tp) t) tpls).

Lemma fold_tstep_Some t tpls : forall ti,
  fold_left (tstep t) tpls (Some ti) =
  Some (mkTi (ti_name ti) (fields_of t tpls (ti_fields ti)) (ti_keys ti ++ keys_of t tpls)).
Proof.
  induction tpls as [|tp r IH]; intros ti; cbn [fold_left].
  - unfold fields_of, keys_of. cbn [fold_left filter map]. rewrite app_nil_r. destruct ti; reflexivity.
  - unfold tstep at 2. unfold fields_of, keys_of. cbn [fold_left filter].
    destruct (String.eqb (tp_table tp) t) eqn:E.
    + unfold upd. rewrite IH. cbn [ti_name ti_fields ti_keys map]. rewrite <- app_assoc. reflexivity.
    + apply IH.
Qed.

Lemma fold_tstep_None t tpls :
  fold_left (tstep t) tpls None =
  match filter (fun tp => String.eqb (tp_table tp) t) tpls with
  | [] => None
  | _ => Some (mkTi t (fields_of t tpls []) (keys_of t tpls))
  end.
Proof.
  induction tpls as [|tp r IH]; cbn [fold_left filter]; [reflexivity|].
  unfold tstep at 2. destruct (String.eqb (tp_table tp) t) eqn:E.
  - unfold upd. rewrite fold_tstep_Some. cbn [ti_name ti_fields ti_keys].
    apply String.eqb_eq in E. unfold fields_of, keys_of. cbn [fold_left filter map].
    rewrite E, String.eqb_refl. reflexivity.
  - rewrite IH. unfold fields_of, keys_of. cbn [fold_left filter]. rewrite E. reflexivity.
Qed.

Lemma all_tables_find t tpls :
  find_ti t (all_tables tpls) =
  match filter (fun tp => String.eqb (tp_table tp) t) tpls with
  | [] => None
  | _ => Some (mkTi t (fields_of t tpls []) (keys_of t tpls))
  end.
Proof. unfold all_tables. rewrite fold_register_find. cbn [find_ti]. apply fold_tstep_None. Qed.

Lemma find_ti_Some t tis ti : find_ti t tis = Some ti -> In ti tis /\ ti_name ti = t.
Proof.
  induction tis as [|x r IH]; cbn [find_ti In]; [discriminate|].
  destruct (String.eqb (ti_name x) t) eqn:E.
  - intros H. inversion H; subst. apply String.eqb_eq in E. auto.
  - intros H. destruct (IH H). auto.
Qed.

Lemma find_ti_In tis ti : NoDup (map ti_name tis) -> In ti tis -> find_ti (ti_name ti) tis = Some ti.
Proof.
  induction tis as [|x r IH]; cbn [map find_ti In]; [tauto|].
  intros Hnd [H|H].
  - subst. rewrite String.eqb_refl. reflexivity.
  - inversion Hnd as [|? ? Hx Hr]; subst. destruct (String.eqb (ti_name x) (ti_name ti)) eqn:E.
    + apply String.eqb_eq in E. exfalso. apply Hx. rewrite E. apply in_map. assumption.
    + apply IH; assumption.
Qed.

Lemma add_new_In old new f : In f (add_new old new) <-> In f old \/ In f new.
Proof.
  unfold add_new. revert old. induction new as [|x r IH]; intros old; cbn [fold_left In]; [tauto|].
  rewrite IH. destruct (mem x old) eqn:E.
  - apply mem_In in E. intuition (subst; auto).
  - rewrite in_app_iff. cbn [In]. intuition.
Qed.

Lemma add_new_NoDup old new : NoDup old -> NoDup (add_new old new).
Proof.
  unfold add_new. revert old. induction new as [|x r IH]; intros old H; cbn [fold_left]; [assumption|].
  apply IH. destruct (mem x old) eqn:E; [assumption|].
  apply NoDup_app_intro; [assumption|constructor; [intros []|constructor]|].
  intros y Hy [Hd|[]]. subst. apply mem_false in E. contradiction.
Qed.

Lemma fields_of_In t tpls f : forall acc,
  In f (fields_of t tpls acc) <->
  In f acc \/ exists tp, In tp tpls /\ tp_table tp = t /\ In f (tp_fields tp) /\ hidden f = false.
Proof.
  unfold fields_of. induction tpls as [|tp r IH]; intros acc; cbn [fold_left].
  - split; [auto|]. intros [H|[tp [[] _]]]. assumption.
  - rewrite IH. destruct (String.eqb (tp_table tp) t) eqn:E.
    + apply String.eqb_eq in E. rewrite add_new_In. unfold visible_fields. rewrite filter_In.
      rewrite negb_true_iff. cbn [In]. split.
      * intros [[H|[H1 H2]]|[tp' [H1 H2]]]; [auto| |right; exists tp'; tauto].
        right. exists tp. auto.
      * intros [H|[tp' [[H1|H1] H2]]]; [auto| |right; exists tp'; tauto].
        subst tp'. tauto.
    + cbn [In]. split.
      * intros [H|[tp' [H1 H2]]]; [auto|right; exists tp'; tauto].
      * intros [H|[tp' [[H1|H1] H2]]]; [auto| |right; exists tp'; tauto].
        subst tp'. destruct H2 as [H2 _]. rewrite H2, String.eqb_refl in E. discriminate.
Qed.

Lemma fields_of_NoDup t tpls : forall acc, NoDup acc -> NoDup (fields_of t tpls acc).
Proof.
  unfold fields_of. induction tpls as [|tp r IH]; intros acc H; cbn [fold_left]; [assumption|].
  apply IH. destruct (String.eqb (tp_table tp) t); [apply add_new_NoDup|]; assumption.
Qed.

Lemma keys_of_In t tpls k :
  In k (keys_of t tpls) <-> exists tp, In tp tpls /\ tp_table tp = t /\ norm_key (tp_key tp) = k.
Proof.
  unfold keys_of. rewrite in_map_iff. split.
  - intros [tp [H1 H2]]. apply filter_In in H2. destruct H2 as [H2 H3]. apply String.eqb_eq in H3.
    exists tp. auto.
  - intros [tp [H1 [H2 H3]]]. exists tp. split; [assumption|]. apply filter_In. split; [assumption|].
    apply String.eqb_eq. assumption.
Qed.

Lemma filter_nonempty_ex {A} (p : A -> bool) l : filter p l <> [] <-> exists x, In x l /\ p x = true.
Proof.
  split.
  - intros H. destruct (filter p l) as [|x r] eqn:E; [congruence|].
    assert (Hx : In x (filter p l)) by (rewrite E; left; reflexivity). apply filter_In in Hx. eauto.
  - intros [x [H1 H2]] E. assert (Hx : In x (filter p l)) by (apply filter_In; auto). rewrite E in Hx.
    destruct Hx.
Qed.

(* a visible field of table t that the mapping has to list *)
Definition vfield (tpls : list ftpl) (t f : string) : Prop :=
  (exists tp, In tp tpls /\ tp_table tp = t /\ In f (tp_fields tp) /\ hidden f = false) /\
  ~ (t = "Account" /\ f = "PersonContactId").

Definition tables_spec (tpls : list ftpl) (tis : list tinfo) : Prop :=
  NoDup (map ti_name tis) /\
  (forall ti, In ti tis ->
     hidden (ti_name ti) = false /\
     (exists tp, In tp tpls /\ tp_table tp = ti_name ti) /\
     NoDup (ti_fields ti) /\
     (forall f, In f (ti_fields ti) <-> vfield tpls (ti_name ti) f) /\
     (forall k, In k (ti_keys ti) <->
                exists tp, In tp tpls /\ tp_table tp = ti_name ti /\ norm_key (tp_key tp) = k)) /\
  (forall tp, In tp tpls -> hidden (tp_table tp) = false ->
              exists ti, In ti tis /\ ti_name ti = tp_table tp).

Lemma all_tables_names_NoDup tpls : NoDup (map ti_name (all_tables tpls)).
Proof. unfold all_tables. apply fold_register_names_NoDup. constructor. Qed.

Lemma all_tables_member tpls ti :
  In ti (all_tables tpls) ->
  (exists tp, In tp tpls /\ tp_table tp = ti_name ti) /\
  ti = mkTi (ti_name ti) (fields_of (ti_name ti) tpls []) (keys_of (ti_name ti) tpls).
Proof.
  intros Hin. pose proof (find_ti_In _ _ (all_tables_names_NoDup tpls) Hin) as Hf.
  rewrite all_tables_find in Hf.
  destruct (filter (fun tp => String.eqb (tp_table tp) (ti_name ti)) tpls) as [|tp0 r0] eqn:E;
    [discriminate|].
  split.
  - assert (Hne : filter (fun tp => String.eqb (tp_table tp) (ti_name ti)) tpls <> [])
      by (rewrite E; discriminate).
    apply filter_nonempty_ex in Hne. destruct Hne as [tp [H1 H2]]. apply String.eqb_eq in H2. eauto.
  - inversion Hf as [Hf']. rewrite <- Hf' at 1. cbn [ti_name]. reflexivity.
Qed.

Lemma infer_tables_spec tpls : tables_spec tpls (remove_pc_field (infer_tables tpls)).
Proof.
  unfold tables_spec.
  assert (Hnames : map ti_name (remove_pc_field (infer_tables tpls)) = map ti_name (infer_tables tpls)).
  { unfold remove_pc_field. rewrite map_map. apply map_ext. intros ti.
    destruct (String.eqb (ti_name ti) "Account"); reflexivity. }
  splits.
  - rewrite Hnames. unfold infer_tables.
    assert (forall (l : list tinfo) p, NoDup (map ti_name l) -> NoDup (map ti_name (filter p l))) as Hf.
    { induction l as [|x r IH]; intros p H; cbn [filter map]; [constructor|].
      inversion H as [|? ? Hx Hr]; subst. destruct (p x); cbn [map]; [|apply IH; assumption].
      constructor; [|apply IH; assumption]. intros Hin. apply Hx.
      apply in_map_iff in Hin. destruct Hin as [y [Hy1 Hy2]]. apply filter_In in Hy2.
      rewrite <- Hy1. apply in_map. tauto. }
    apply Hf. apply all_tables_names_NoDup.
  - intros ti' Hin. unfold remove_pc_field in Hin. apply in_map_iff in Hin.
    destruct Hin as [ti [Heq Hin]]. unfold infer_tables in Hin. apply filter_In in Hin.
    destruct Hin as [Hin Hvis]. apply negb_true_iff in Hvis.
    destruct (all_tables_member _ _ Hin) as [Hex Hshape].
    assert (Hn : ti_name ti' = ti_name ti).
    { rewrite <- Heq. destruct (String.eqb (ti_name ti) "Account"); reflexivity. }
    rewrite Hn.
    assert (Hk : ti_keys ti' = ti_keys ti).
    { rewrite <- Heq. destruct (String.eqb (ti_name ti) "Account"); reflexivity. }
    splits.
    + assumption.
    + assumption.
    + rewrite <- Heq. destruct (String.eqb (ti_name ti) "Account"); cbn [ti_fields].
      * apply filter_NoDup. rewrite Hshape. cbn [ti_fields]. apply fields_of_NoDup. constructor.
      * rewrite Hshape. cbn [ti_fields]. apply fields_of_NoDup. constructor.
    + intros f. unfold vfield. rewrite <- Heq.
      destruct (String.eqb (ti_name ti) "Account") eqn:Ea; cbn [ti_fields].
      * apply String.eqb_eq in Ea. rewrite filter_In. rewrite Hshape at 1. cbn [ti_fields].
        rewrite fields_of_In. cbn [In]. rewrite negb_true_iff. split.
        -- intros [[[]|H] Hf]. split; [assumption|]. intros [_ ->]. cbn in Hf. discriminate.
        -- intros [H Hn2]. split; [auto|]. destruct (String.eqb f "PersonContactId") eqn:Ef; [|reflexivity].
           apply String.eqb_eq in Ef. exfalso. apply Hn2. auto.
      * rewrite Hshape at 1. cbn [ti_fields]. rewrite fields_of_In. cbn [In]. split.
        -- intros [[]|H]. split; [assumption|]. intros [Ht _]. rewrite Ht in Ea. cbn in Ea. discriminate.
        -- intros [H _]. auto.
    + intros k. rewrite Hk. rewrite Hshape at 1. cbn [ti_keys]. apply keys_of_In.
  - intros tp Hin Hvis.
    assert (Hn : In (tp_table tp) (map ti_name (all_tables tpls))).
    { unfold all_tables. apply fold_register_names_In. right. eauto. }
    apply in_map_iff in Hn. destruct Hn as [ti [H1 H2]].
    exists (if String.eqb (ti_name ti) "Account"
            then mkTi (ti_name ti) (filter (fun f => negb (String.eqb f "PersonContactId")) (ti_fields ti))
                      (ti_keys ti) else ti).
    split.
    + unfold remove_pc_field. apply in_map_iff. exists ti. split; [reflexivity|].
      unfold infer_tables. apply filter_In. split; [assumption|]. rewrite H1, Hvis. reflexivity.
    + destruct (String.eqb (ti_name ti) "Account"); cbn [ti_name]; assumption.
Qed.

(* ================================================================== load steps *)
Lemma list_eqb_string_eq (a b : list string) : list_eqb String.eqb a b = true <-> a = b.
Proof.
  revert b. induction a as [|x r IH]; intros [|y s]; cbn [list_eqb]; split; intros H;
    try reflexivity; try discriminate.
  - apply andb_true_iff in H. destruct H as [H1 H2]. apply String.eqb_eq in H1. apply IH in H2.
    subst. reflexivity.
  - inversion H; subst. rewrite String.eqb_refl. cbn [andb]. apply IH. reflexivity.
Qed.

Lemma option_eqb_string_eq (a b : option string) : option_eqb String.eqb a b = true <-> a = b.
Proof.
  destruct a as [x|], b as [y|]; cbn [option_eqb]; split; intros H; try reflexivity; try discriminate.
  - apply String.eqb_eq in H. subst. reflexivity.
  - inversion H. apply String.eqb_refl.
Qed.

Lemma lstep_eqb_eq a b : lstep_eqb a b = true <-> a = b.
Proof.
  destruct a as [a1 a2 a3], b as [b1 b2 b3]. unfold lstep_eqb. cbn [ls_table ls_key ls_fields].
  rewrite !andb_true_iff, String.eqb_eq, option_eqb_string_eq, list_eqb_string_eq. split.
  - intros [[-> ->] ->]. reflexivity.
  - intros H. inversion H. auto.
Qed.

Lemma existsb_lstep_In s l : existsb (lstep_eqb s) l = true <-> In s l.
Proof.
  rewrite existsb_exists. split.
  - intros [y [Hy He]]. apply lstep_eqb_eq in He. subst. assumption.
  - intros H. exists s. split; [assumption|]. apply lstep_eqb_eq. reflexivity.
Qed.

Lemma dedupe_steps_spec l :
  NoDup (dedupe_steps l) /\ forall s, In s (dedupe_steps l) <-> In s l.
Proof.
  unfold dedupe_steps.
  assert (H : forall acc, NoDup acc ->
            NoDup (fold_left (fun a s => lset_add s a) l acc) /\
            forall s, In s (fold_left (fun a s => lset_add s a) l acc) <-> In s acc \/ In s l).
  { induction l as [|x r IH]; intros acc Hacc; cbn [fold_left].
    - split; [assumption|]. intros s. cbn [In]. tauto.
    - assert (Hadd : NoDup (lset_add x acc) /\ forall s, In s (lset_add x acc) <-> In s acc \/ s = x).
      { unfold lset_add. destruct (existsb (lstep_eqb x) acc) eqn:E.
        - apply existsb_lstep_In in E. split; [assumption|]. intros s. split; [auto|].
          intros [H| ->]; assumption.
        - split.
          + apply NoDup_app_intro; [assumption|constructor; [intros []|constructor]|].
            intros y Hy [Hd|[]]. subst.
            assert (existsb (lstep_eqb y) acc = true) by (apply existsb_lstep_In; assumption).
            congruence.
          + intros s. rewrite in_app_iff. cbn [In]. intuition congruence. }
      destruct Hadd as [Hnd Hin]. destruct (IH _ Hnd) as [H1 H2]. split; [assumption|].
      intros s. rewrite H2, Hin. cbn [In]. intuition congruence. }
  destruct (H [] (NoDup_nil _)) as [H1 H2]. split; [assumption|].
  intros s. rewrite H2. cbn [In]. tauto.
Qed.

Lemma raw_steps_In tis s :
  In s (raw_steps tis) <->
  exists ti k, In ti tis /\ In k (ti_keys ti) /\ s = mkLs (ti_name ti) k (ti_fields ti).
Proof.
  unfold raw_steps. rewrite in_flat_map. split.
  - intros [ti [H1 H2]]. apply in_map_iff in H2. destruct H2 as [k [H2 H3]]. exists ti, k. auto.
  - intros [ti [k [H1 [H2 H3]]]]. exists ti. split; [assumption|]. apply in_map_iff. exists k. auto.
Qed.

Lemma mapM_Forall2 {A B} (f : A -> result B) l : forall l',
  mapM f l = Ok l' -> Forall2 (fun x y => f x = Ok y) l l'.
Proof.
  induction l as [|x r IH]; intros l' H; cbn [mapM] in H.
  - inversion H. constructor.
  - destruct (f x) as [y|e] eqn:E; cbn [bind] in H; [|discriminate].
    destruct (mapM f r) as [ys|e]; cbn [bind] in H; [|discriminate].
    inversion H; subst. constructor; [assumption|apply IH; reflexivity].
Qed.

Lemma mapM_ok {A B} (f : A -> result B) l :
  (forall x, In x l -> exists y, f x = Ok y) -> exists l', mapM f l = Ok l'.
Proof.
  induction l as [|x r IH]; intros H; cbn [mapM]; [eexists; reflexivity|].
  destruct (H x (or_introl eq_refl)) as [y Hy]. rewrite Hy. cbn [bind].
  destruct IH as [ys Hys]; [intros z Hz; apply H; right; assumption|].
  rewrite Hys. cbn [bind]. eexists; reflexivity.
Qed.

Lemma insert_by_perm k s l : Permutation (insert_by k s l) ((k, s) :: l).
Proof.
  induction l as [|[k' s'] r IH]; cbn [insert_by]; [apply Permutation_refl|].
  destruct (Nat.leb k k'); [apply Permutation_refl|].
  eapply perm_trans; [apply perm_skip; apply IH|apply perm_swap].
Qed.

Lemma sort_keyed_perm l : Permutation (sort_keyed l) l.
Proof.
  unfold sort_keyed. induction l as [|[k s] r IH]; cbn [fold_right fst snd]; [constructor|].
  eapply perm_trans; [apply insert_by_perm|]. apply perm_skip. assumption.
Qed.

Lemma key_step_snd order l l' :
  Forall2 (fun x y => key_step order x = Ok y) l l' -> map snd l' = l.
Proof.
  intros H. induction H as [|x y r r' Hxy Hr IH]; cbn [map]; [reflexivity|].
  unfold key_step in Hxy. destruct (index_of (ls_table x) order); [|discriminate].
  injection Hxy as <-. cbn [snd]. rewrite IH. reflexivity.
Qed.

Lemma load_steps_perm tis order steps :
  load_steps tis order = Ok steps -> Permutation steps (dedupe_steps (raw_steps tis)).
Proof.
  unfold load_steps. intros H.
  destruct (mapM (key_step order) (dedupe_steps (raw_steps tis))) as [keyed|e] eqn:E;
    cbn [bind] in H; [|discriminate].
  inversion H; subst. apply mapM_Forall2 in E.
  rewrite <- (key_step_snd _ _ _ E). apply Permutation_map. apply sort_keyed_perm.
Qed.

Lemma load_steps_spec tis order steps :
  load_steps tis order = Ok steps ->
  NoDup steps /\
  forall s, In s steps <->
            exists ti k, In ti tis /\ In k (ti_keys ti) /\ s = mkLs (ti_name ti) k (ti_fields ti).
Proof.
  intros H. apply load_steps_perm in H. destruct (dedupe_steps_spec (raw_steps tis)) as [H1 H2]. split.
  - apply (Permutation_NoDup (Permutation_sym H)). assumption.
  - intros s. rewrite <- raw_steps_In, <- H2. split; apply Permutation_in; [assumption|].
    apply Permutation_sym. assumption.
Qed.

Lemma load_steps_ok tis order :
  (forall ti, In ti tis -> In (ti_name ti) order) -> exists steps, load_steps tis order = Ok steps.
Proof.
  intros H. unfold load_steps.
  destruct (mapM_ok (key_step order) (dedupe_steps (raw_steps tis))) as [keyed Hk].
  - intros s Hs. apply (proj1 (proj2 (dedupe_steps_spec _) s)) in Hs. apply raw_steps_In in Hs.
    destruct Hs as [ti [k [H1 [H2 H3]]]]. subst s. unfold key_step. cbn [ls_table].
    destruct (index_of_In _ _ (H ti H1)) as [i [Hi _]]. rewrite Hi. eexists; reflexivity.
  - rewrite Hk. cbn [bind]. eexists; reflexivity.
Qed.

(* ================================================================== step names *)
Lemma append_space_split t1 : forall t2 r1 r2,
  has_space t1 = false -> has_space t2 = false ->
  String.append t1 (String " " r1) = String.append t2 (String " " r2) -> t1 = t2 /\ r1 = r2.
Proof.
  induction t1 as [|c1 t1 IH]; intros [|c2 t2] r1 r2 H1 H2 H; cbn [String.append has_space] in *.
  - inversion H. auto.
  - inversion H; subst. rewrite Ascii.eqb_refl in H2. discriminate.
  - inversion H; subst. rewrite Ascii.eqb_refl in H1. discriminate.
  - inversion H; subst.
    destruct (Ascii.eqb c2 " "); [discriminate|].
    destruct (IH _ _ _ H1 H2 H4) as [-> ->]. auto.
Qed.

Lemma step_name_inj t1 k1 t2 k2 :
  has_space t1 = false -> has_space t2 = false ->
  step_name t1 k1 = step_name t2 k2 -> t1 = t2 /\ k1 = k2.
Proof.
  intros H1 H2 H. destruct k1 as [k1|], k2 as [k2|]; unfold step_name in H;
    cbn [String.append] in H.
  - inversion H as [H0]. change (String.append " on " k1) with (String " " (String.append "on " k1)) in H0.
    change (String.append " on " k2) with (String " " (String.append "on " k2)) in H0.
    destruct (append_space_split _ _ _ _ H1 H2 H0) as [-> Hk]. cbn [String.append] in Hk.
    inversion Hk. auto.
  - inversion H.
  - inversion H.
  - inversion H. auto.
Qed.

(* ================================================================== dicts *)
Lemma assoc_get_dict_set {A} k k' (v : A) l :
  assoc_get k (dict_set k' v l) = if String.eqb k k' then Some v else assoc_get k l.
Proof.
  induction l as [|[k0 v0] r IH]; cbn [dict_set assoc_get].
  - destruct (String.eqb k k'); reflexivity.
  - destruct (String.eqb k' k0) eqn:E; cbn [assoc_get].
    + apply String.eqb_eq in E. subst k0. destruct (String.eqb k k'); reflexivity.
    + rewrite IH. destruct (String.eqb k k0) eqn:E2; [|reflexivity].
      apply String.eqb_eq in E2. subst k0. destruct (String.eqb k k') eqn:E3; [|reflexivity].
      apply String.eqb_eq in E3. subst. rewrite String.eqb_refl in E. discriminate.
Qed.

Lemma dict_set_notin {A} k (v : A) l : ~ In k (map fst l) -> dict_set k v l = l ++ [(k, v)].
Proof.
  induction l as [|[k0 v0] r IH]; cbn [dict_set map fst In app]; intros H; [reflexivity|].
  destruct (String.eqb k k0) eqn:E.
  - apply String.eqb_eq in E. subst. tauto.
  - rewrite IH; [reflexivity|tauto].
Qed.

Lemma fold_dict_set_nodup {A} (kvs : list (string * A)) : forall acc,
  NoDup (map fst (acc ++ kvs)) ->
  fold_left (fun a nm => dict_set (fst nm) (snd nm) a) kvs acc = acc ++ kvs.
Proof.
  induction kvs as [|[k v] r IH]; intros acc H; cbn [fold_left fst snd].
  - rewrite app_nil_r. reflexivity.
  - rewrite dict_set_notin.
    + rewrite IH; rewrite <- app_assoc; cbn [app]; [reflexivity|assumption].
    + rewrite map_app in H. cbn [map fst] in H. apply NoDup_remove_2 in H.
      intros Hin. apply H. apply in_or_app. auto.
Qed.

(* ================================================================== reference_fields *)
Lemma ref_target_Some ds t f to : ref_target ds t f = Some to -> In (mkDep t to f) ds.
Proof.
  unfold ref_target.
  assert (H : forall acc, fold_left (fun acc d => if (String.eqb (d_from d) t && String.eqb (d_field d) f)%bool
                                             then Some (d_to d) else acc) ds acc = Some to ->
                          acc = Some to \/ In (mkDep t to f) ds).
  { induction ds as [|d r IH]; intros acc H; cbn [fold_left] in H; [auto|].
    destruct (IH _ H) as [H1|H1]; [|right; right; assumption].
    destruct (String.eqb (d_from d) t && String.eqb (d_field d) f)%bool eqn:E; [|auto].
    apply andb_true_iff in E. destruct E as [E1 E2]. apply String.eqb_eq in E1, E2.
    right. left. destruct d as [a b c]. cbn in *. inversion H1. subst. reflexivity. }
  intros H0. destruct (H None H0) as [H1|H1]; [discriminate|assumption].
Qed.

Lemma ref_target_None ds t f :
  ref_target ds t f = None <-> forall d, In d ds -> ~ (d_from d = t /\ d_field d = f).
Proof.
  unfold ref_target.
  assert (H : forall acc, fold_left (fun acc d => if (String.eqb (d_from d) t && String.eqb (d_field d) f)%bool
                                             then Some (d_to d) else acc) ds acc = None <->
                          acc = None /\ forall d, In d ds -> ~ (d_from d = t /\ d_field d = f)).
  { induction ds as [|d r IH]; intros acc; cbn [fold_left In]; [intuition|].
    rewrite IH. destruct (String.eqb (d_from d) t && String.eqb (d_field d) f)%bool eqn:E.
    - apply andb_true_iff in E. destruct E as [E1 E2]. apply String.eqb_eq in E1, E2. split.
      + intros [H _]. discriminate.
      + intros [_ H]. exfalso. apply (H d); auto.
    - split.
      + intros [H1 H2]. split; [assumption|]. intros d' [Hd|Hd]; [|auto]. subst d'.
        intros [E1 E2]. subst. rewrite !String.eqb_refl in E. discriminate.
      + intros [H1 H2]. split; [assumption|]. intros d' Hd. apply H2. auto. }
  rewrite H. tauto.
Qed.

(* ================================================================== one load step -> one mapping step *)
Definition lookups_of (loadable : list dep) (t : string) (fs : list string) : list lookup :=
  flat_map (fun f => match ref_target loadable t f with
                     | Some to => [mkLk f to None]
                     | None => []
                     end) fs.

Definition plain_of (loadable : list dep) (t : string) (rt : option string) (fs : list string) :=
  filter (fun f => negb (is_some (ref_target loadable t f))
                   && negb (option_eqb String.eqb (Some f) rt))%bool fs.

Definition fields_of_step (loadable : list dep) (t : string) (rt : option string) (fs : list string) :=
  match rt with
  | Some c => dict_set "RecordTypeId" c (map (fun f => (f, f)) (plain_of loadable t rt fs))
  | None => map (fun f => (f, f)) (plain_of loadable t rt fs)
  end.

Lemma step_body_spec steps loadable decls s name m :
  step_body steps loadable decls s = Ok (name, m) ->
  name = step_name (ls_table s) (ls_key s) /\
  m_table m = ls_table s /\ m_update_key m = ls_key s /\
  m_sf_object m = (if String.eqb (ls_table s) "PersonContact" then "Contact" else ls_table s) /\
  m_lookups m = lookups_of loadable (ls_table s) (ls_fields s) /\
  exists rt, find_rt (ls_fields s) = Ok rt /\
             m_fields m = fields_of_step loadable (ls_table s) rt (ls_fields s).
Proof.
  unfold step_body. destruct (find_rt (ls_fields s)) as [rt|e] eqn:E; cbn [bind]; [|discriminate].
  destruct (ls_key s) as [key|] eqn:Ek; intros H; inversion H; subst; cbn;
    splits; try reflexivity; exists rt; split; reflexivity.
Qed.

Lemma step_body_ok steps loadable decls s :
  (exists rt, find_rt (ls_fields s) = Ok rt) -> exists nm, step_body steps loadable decls s = Ok nm.
Proof.
  intros [rt Hrt]. unfold step_body. rewrite Hrt. cbn [bind].
  destruct (ls_key s); eexists; reflexivity.
Qed.

Lemma lookups_of_In ld t fs l :
  In l (lookups_of ld t fs) <->
  In (lk_field l) fs /\ ref_target ld t (lk_field l) = Some (lk_table l) /\ lk_after l = None.
Proof.
  unfold lookups_of. rewrite in_flat_map. split.
  - intros [f [H1 H2]]. destruct (ref_target ld t f) as [to|] eqn:E; [|destruct H2].
    destruct H2 as [H2|[]]. subst l. cbn. auto.
  - intros [H1 [H2 H3]]. exists (lk_field l). split; [assumption|]. rewrite H2.
    left. destruct l; cbn in *. subst. reflexivity.
Qed.

Lemma lookups_of_fields ld t fs :
  map lk_field (lookups_of ld t fs) = filter (fun f => is_some (ref_target ld t f)) fs.
Proof.
  unfold lookups_of. induction fs as [|f r IH]; cbn [flat_map filter map]; [reflexivity|].
  rewrite map_app, IH. destruct (ref_target ld t f); reflexivity.
Qed.

Lemma is_rt_RecordTypeId : is_rt "RecordTypeId" = true.
Proof. reflexivity. Qed.

Lemma find_rt_Some fs c : find_rt fs = Ok (Some c) -> filter is_rt fs = [c].
Proof.
  unfold find_rt. destruct (filter is_rt fs) as [|x [|y r]]; intros H; inversion H. reflexivity.
Qed.

Lemma find_rt_None fs : find_rt fs = Ok None -> filter is_rt fs = [].
Proof.
  unfold find_rt. destruct (filter is_rt fs) as [|x [|y r]]; intros H; inversion H. reflexivity.
Qed.

Lemma fields_of_step_cols ld t rt fs :
  find_rt fs = Ok rt ->
  map snd (fields_of_step ld t rt fs) =
  plain_of ld t rt fs ++ (match rt with Some c => [c] | None => [] end).
Proof.
  intros Hrt. unfold fields_of_step. destruct rt as [c|].
  - rewrite dict_set_notin.
    + rewrite map_app, map_map. cbn [map snd]. rewrite map_id. reflexivity.
    + rewrite map_map. cbn [fst]. rewrite map_id. unfold plain_of. intros Hin.
      apply filter_In in Hin. destruct Hin as [Hin Hp]. apply andb_true_iff in Hp. destruct Hp as [_ Hp].
      assert (Hf : In "RecordTypeId" (filter is_rt fs)) by (apply filter_In; split; [assumption|reflexivity]).
      rewrite (find_rt_Some _ _ Hrt) in Hf. destruct Hf as [Hf|[]]. subst c.
      cbn [option_eqb] in Hp. rewrite String.eqb_refl in Hp. discriminate.
  - rewrite map_map. cbn [snd]. rewrite map_id, app_nil_r. reflexivity.
Qed.

Lemma rt_in_fields fs c : find_rt fs = Ok (Some c) -> In c fs /\ is_rt c = true.
Proof.
  intros H. apply find_rt_Some in H.
  assert (Hc : In c (filter is_rt fs)) by (rewrite H; left; reflexivity). apply filter_In in Hc. assumption.
Qed.

Lemma fields_of_step_facts ld t rt fs :
  NoDup fs -> find_rt fs = Ok rt ->
  NoDup (map snd (fields_of_step ld t rt fs)) /\
  (forall f, In f (map snd (fields_of_step ld t rt fs)) ->
             In f fs /\ (ref_target ld t f = None \/ is_rt f = true)) /\
  (forall f, In f fs -> ref_target ld t f = None -> In f (map snd (fields_of_step ld t rt fs))).
Proof.
  intros Hnd Hrt. rewrite (fields_of_step_cols _ _ _ _ Hrt). splits.
  - destruct rt as [c|]; [|rewrite app_nil_r; apply filter_NoDup; assumption].
    apply NoDup_app_intro; [apply filter_NoDup; assumption|constructor; [intros []|constructor]|].
    intros x Hx [Hc|[]]. subst x. unfold plain_of in Hx. apply filter_In in Hx.
    destruct Hx as [_ Hp]. apply andb_true_iff in Hp. destruct Hp as [_ Hp].
    cbn [option_eqb] in Hp. rewrite String.eqb_refl in Hp. discriminate.
  - intros f Hf. apply in_app_or in Hf. destruct Hf as [Hf|Hf].
    + unfold plain_of in Hf. apply filter_In in Hf. destruct Hf as [Hf Hp].
      apply andb_true_iff in Hp. destruct Hp as [Hp _]. split; [assumption|]. left.
      destruct (ref_target ld t f); [discriminate|reflexivity].
    + destruct rt as [c|]; [|destruct Hf]. destruct Hf as [Hf|[]]. subst f.
      destruct (rt_in_fields _ _ Hrt). auto.
  - intros f Hf Hr. apply in_or_app.
    destruct (option_eqb String.eqb (Some f) rt) eqn:E.
    + right. destruct rt as [c|]; [|discriminate]. cbn [option_eqb] in E. apply String.eqb_eq in E.
      subst. left. reflexivity.
    + left. unfold plain_of. apply filter_In. split; [assumption|]. rewrite Hr, E. reflexivity.
Qed.

(* ================================================================== add_after_statements *)
Fixpoint first_pos (so : string) (ms : list (string * mstep)) : option nat :=
  match ms with
  | [] => None
  | (_, m) :: r => if String.eqb (m_table m) so then Some 0 else option_map S (first_pos so r)
  end.

Fixpoint last_name (so : string) (ms : list (string * mstep)) : option string :=
  match ms with
  | [] => None
  | (n, m) :: r => match last_name so r with
                   | Some x => Some x
                   | None => if String.eqb (m_table m) so then Some n else None
                   end
  end.

Lemma last_first_None so ms : last_name so ms = None <-> first_pos so ms = None.
Proof.
  induction ms as [|[n m] r IH]; cbn [last_name first_pos]; [tauto|].
  destruct (String.eqb (m_table m) so).
  - destruct (last_name so r); split; discriminate.
  - destruct (last_name so r), (first_pos so r); cbn [option_map]; split; intros H;
      try discriminate; try reflexivity.
    + apply IH in H. discriminate.
    + destruct IH as [IH1 _]. specialize (IH1 eq_refl). discriminate.
Qed.

Definition fi_of (o : option (nat * string)) (dflt : nat) : nat :=
  match o with Some (fi, _) => fi | None => dflt end.

Lemma index_by_sobject_spec so : forall ms idx acc,
  assoc_get so (index_by_sobject idx ms acc) =
  match last_name so ms with
  | None => assoc_get so acc
  | Some ln => Some (fi_of (assoc_get so acc)
                           (idx + match first_pos so ms with Some p => p | None => 0 end), ln)
  end.
Proof.
  induction ms as [|[n m] r IH]; intros idx acc; cbn [index_by_sobject last_name first_pos]; [reflexivity|].
  rewrite IH. clear IH.
  assert (Hacc : assoc_get so (match assoc_get (m_table m) acc with
                               | Some (fi, _) => dict_set (m_table m) (fi, n) acc
                               | None => dict_set (m_table m) (idx, n) acc
                               end) =
                 if String.eqb so (m_table m)
                 then Some (fi_of (assoc_get so acc) idx, n) else assoc_get so acc).
  { destruct (assoc_get (m_table m) acc) as [[fi ln0]|] eqn:Ea; rewrite assoc_get_dict_set;
      destruct (String.eqb so (m_table m)) eqn:E; try reflexivity;
      apply String.eqb_eq in E; subst so; rewrite Ea; reflexivity. }
  rewrite Hacc. rewrite (String.eqb_sym (m_table m) so).
  destruct (String.eqb so (m_table m)) eqn:E.
  - destruct (last_name so r) as [ln|]; cbn [fi_of]; rewrite Nat.add_0_r; reflexivity.
  - destruct (last_name so r) as [ln|] eqn:El; [|reflexivity].
    destruct (first_pos so r) as [p|] eqn:Ep.
    + cbn [option_map]. f_equal. f_equal. f_equal. lia.
    + apply last_first_None in Ep. congruence.
Qed.

Lemma after_lookup_same index idx l l' :
  after_lookup index idx l = Ok l' -> lk_field l' = lk_field l /\ lk_table l' = lk_table l.
Proof.
  unfold after_lookup. destruct (String.eqb (lk_table l) "PersonContact").
  - intros H. inversion H. auto.
  - destruct (assoc_get (lk_table l) index) as [[fi ln]|]; [|discriminate].
    destruct (Nat.leb idx fi); [destruct (lk_after l)|]; intros H; inversion H; auto.
Qed.

Definition same_lookups (a b : list lookup) : Prop :=
  Forall2 (fun l l' => lk_field l' = lk_field l /\ lk_table l' = lk_table l) a b.

Definition same_but_after (a b : string * mstep) : Prop :=
  fst b = fst a /\ m_sf_object (snd b) = m_sf_object (snd a) /\ m_table (snd b) = m_table (snd a) /\
  m_fields (snd b) = m_fields (snd a) /\ m_extras (snd b) = m_extras (snd a) /\
  m_action (snd b) = m_action (snd a) /\ m_update_key (snd b) = m_update_key (snd a) /\
  m_filters (snd b) = m_filters (snd a) /\ same_lookups (m_lookups (snd a)) (m_lookups (snd b)).

Lemma mapM_after_same index idx ls : forall ls',
  mapM (after_lookup index idx) ls = Ok ls' -> same_lookups ls ls'.
Proof.
  intros ls' H. apply mapM_Forall2 in H. unfold same_lookups.
  induction H as [|x y r r' Hxy Hr IH]; constructor; [|assumption].
  apply (after_lookup_same _ _ _ _ Hxy).
Qed.

Lemma add_after_from_same index : forall ms idx ms',
  add_after_from index idx ms = Ok ms' -> Forall2 same_but_after ms ms'.
Proof.
  induction ms as [|[n m] r IH]; intros idx ms' H; cbn [add_after_from] in H.
  - inversion H. constructor.
  - destruct (mapM (after_lookup index idx) (m_lookups m)) as [lks|e] eqn:E; cbn [bind] in H; [|discriminate].
    destruct (add_after_from index (S idx) r) as [rest|e] eqn:Er; cbn [bind] in H; [|discriminate].
    inversion H; subst. constructor; [|apply (IH _ _ Er)].
    unfold same_but_after. cbn. splits; try reflexivity. apply (mapM_after_same _ _ _ _ E).
Qed.

Lemma same_first_pos so ms ms' : Forall2 same_but_after ms ms' -> first_pos so ms' = first_pos so ms.
Proof.
  intros H. induction H as [|[n m] [n' m'] r r' Hxy Hr IH]; cbn [first_pos]; [reflexivity|].
  destruct Hxy as (_ & _ & Hso & _). cbn [snd] in Hso. rewrite Hso, IH. reflexivity.
Qed.

Lemma same_last_name so ms ms' : Forall2 same_but_after ms ms' -> last_name so ms' = last_name so ms.
Proof.
  intros H. induction H as [|[n m] [n' m'] r r' Hxy Hr IH]; cbn [last_name]; [reflexivity|].
  destruct Hxy as (Hn & _ & Hso & _). cbn [fst snd] in Hn, Hso. rewrite Hso, IH, Hn. reflexivity.
Qed.

(* the step at offset [length pre] was produced with index idx + length pre *)
Lemma add_after_from_at index : forall ms idx ms' pre' name m' post',
  add_after_from index idx ms = Ok ms' -> ms' = pre' ++ (name, m') :: post' ->
  exists m, In (name, m) ms /\
            mapM (after_lookup index (idx + length pre')) (m_lookups m) = Ok (m_lookups m').
Proof.
  induction ms as [|[n m] r IH]; intros idx ms' pre' name m' post' H Heq; cbn [add_after_from] in H.
  - inversion H; subst. destruct pre'; discriminate.
  - destruct (mapM (after_lookup index idx) (m_lookups m)) as [lks|e] eqn:E; cbn [bind] in H; [|discriminate].
    destruct (add_after_from index (S idx) r) as [rest|e] eqn:Er; cbn [bind] in H; [|discriminate].
    inversion H as [Hms]. clear H. rewrite <- Hms in Heq. clear Hms.
    destruct pre' as [|p pre'']; cbn [app] in Heq.
    + inversion Heq; subst. exists m. split; [left; reflexivity|]. cbn [length m_lookups].
      rewrite Nat.add_0_r. assumption.
    + inversion Heq; subst. destruct (IH _ _ _ _ _ _ Er eq_refl) as [m0 [H1 H2]].
      exists m0. split; [right; assumption|]. cbn [length]. rewrite Nat.add_succ_r. assumption.
Qed.

Lemma mapM_In {A B} (f : A -> result B) l l' y :
  mapM f l = Ok l' -> In y l' -> exists x, In x l /\ f x = Ok y.
Proof.
  intros H. apply mapM_Forall2 in H. induction H as [|a b r r' Hab Hr IH]; intros Hy; [destruct Hy|].
  destruct Hy as [Hy|Hy]; [subst; exists a; split; [left; reflexivity|assumption]|].
  destruct (IH Hy) as [x [H1 H2]]. exists x. split; [right; assumption|assumption].
Qed.

(* the rule that add_after_statements establishes, for every lookup of every step *)
Theorem after_rule_general ms ms' pre name m post l :
  (forall n0 m0 l0, In (n0, m0) ms -> In l0 (m_lookups m0) -> lk_after l0 = None) ->
  add_after_statements ms = Ok ms' -> ms' = pre ++ (name, m) :: post ->
  In l (m_lookups m) -> lk_table l <> "PersonContact" ->
  exists fi ln, first_pos (lk_table l) ms' = Some fi /\ last_name (lk_table l) ms' = Some ln /\
                (fi < length pre \/ lk_after l = Some ln).
Proof.
  unfold add_after_statements. intros Hnone H Heq Hl Hpc.
  pose proof (add_after_from_same _ _ _ _ H) as Hsame.
  destruct (add_after_from_at _ _ _ _ _ _ _ _ H Heq) as [m0 [Hm0 Hm]]. cbn [Nat.add] in Hm.
  destruct (mapM_In _ _ _ _ Hm Hl) as [l0 [Hl0in Hl0]].
  pose proof (Hnone _ _ _ Hm0 Hl0in) as Hno.
  rewrite (same_first_pos _ _ _ Hsame), (same_last_name _ _ _ Hsame).
  pose proof (after_lookup_same _ _ _ _ Hl0) as [_ Ht]. rewrite Ht.
  unfold after_lookup in Hl0.
  destruct (String.eqb (lk_table l0) "PersonContact") eqn:Epc.
  { apply String.eqb_eq in Epc. congruence. }
  rewrite index_by_sobject_spec in Hl0. cbn [assoc_get fi_of Nat.add] in Hl0.
  destruct (last_name (lk_table l0) ms) as [ln|] eqn:El; [|discriminate].
  destruct (first_pos (lk_table l0) ms) as [p|] eqn:Ep;
    [|apply last_first_None in Ep; congruence].
  exists p, ln. splits; [reflexivity|reflexivity|].
  destruct (Nat.leb (length pre) p) eqn:E.
  - right. rewrite Hno in Hl0. inversion Hl0; subst; cbn [lk_after]. reflexivity.
  - left. apply Nat.leb_gt in E. assumption.
Qed.

(* ================================================================== the whole pipeline *)
Lemma Forall2_compose {A B C} (R1 : A -> B -> Prop) (R2 : B -> C -> Prop) l1 : forall l2 l3,
  Forall2 R1 l1 l2 -> Forall2 R2 l2 l3 -> Forall2 (fun a c => exists b, R1 a b /\ R2 b c) l1 l3.
Proof.
  induction l1 as [|a r IH]; intros l2 l3 H1 H2; inversion H1; subst; inversion H2; subst; constructor.
  - eauto.
  - eapply IH; eassumption.
Qed.

Lemma Forall2_weaken {A B} (R1 R2 : A -> B -> Prop) l1 l2 :
  (forall a b, R1 a b -> R2 a b) -> Forall2 R1 l1 l2 -> Forall2 R2 l1 l2.
Proof. intros H F. induction F; constructor; auto. Qed.

Lemma Forall2_In_r {A B} (R : A -> B -> Prop) l1 l2 y :
  Forall2 R l1 l2 -> In y l2 -> exists x, In x l1 /\ R x y.
Proof.
  intros H. induction H as [|a b r r' Hab Hr IH]; intros Hy; [destruct Hy|].
  destruct Hy as [Hy|Hy]; [subst; exists a; split; [left; reflexivity|assumption]|].
  destruct (IH Hy) as [x [H1 H2]]. exists x. split; [right; assumption|assumption].
Qed.

Lemma Forall2_In_l {A B} (R : A -> B -> Prop) l1 l2 x :
  Forall2 R l1 l2 -> In x l1 -> exists y, In y l2 /\ R x y.
Proof.
  intros H. induction H as [|a b r r' Hab Hr IH]; intros Hx; [destruct Hx|].
  destruct Hx as [Hx|Hx]; [subst; exists b; split; [left; reflexivity|assumption]|].
  destruct (IH Hx) as [y [H1 H2]]. exists y. split; [right; assumption|assumption].
Qed.

Lemma Forall2_map_eq {A B C} (R : A -> B -> Prop) (f : A -> C) (g : B -> C) l1 l2 :
  Forall2 R l1 l2 -> (forall a b, R a b -> f a = g b) -> map f l1 = map g l2.
Proof.
  intros H Hfg. induction H as [|a b r r' Hab Hr IH]; cbn [map]; [reflexivity|].
  rewrite IH, (Hfg _ _ Hab). reflexivity.
Qed.

Lemma NoDup_map_inj_in {A B} (f : A -> B) l :
  NoDup l -> (forall x y, In x l -> In y l -> f x = f y -> x = y) -> NoDup (map f l).
Proof.
  induction 1 as [|a r Ha Hr IH]; intros Hinj; cbn [map]; constructor.
  - intros Hin. apply in_map_iff in Hin. destruct Hin as [y [Hy1 Hy2]].
    assert (y = a) by (apply Hinj; [right; assumption|left; reflexivity|assumption]). subst. contradiction.
  - apply IH. intros x y Hx Hy. apply Hinj; right; assumption.
Qed.

Lemma dict_set_In {A} k (v : A) l kv : In kv (dict_set k v l) -> kv = (k, v) \/ In kv l.
Proof.
  induction l as [|[k0 v0] r IH]; cbn [dict_set In].
  - intros [H|[]]; auto.
  - destruct (String.eqb k k0); cbn [In]; intros [H|H]; auto. destruct (IH H); auto.
Qed.

Lemma fold_dict_set_In {A} (kvs : list (string * A)) : forall acc kv,
  In kv (fold_left (fun a nm => dict_set (fst nm) (snd nm) a) kvs acc) -> In kv acc \/ In kv kvs.
Proof.
  induction kvs as [|[k v] r IH]; intros acc kv H; cbn [fold_left fst snd] in H; [auto|].
  destruct (IH _ _ H) as [H1|H1]; [|right; right; assumption].
  destruct (dict_set_In _ _ _ _ H1) as [H2|H2]; [right; left; auto|auto].
Qed.

Lemma last_name_In so ms n m : In (n, m) ms -> m_table m = so -> last_name so ms <> None.
Proof.
  induction ms as [|[n0 m0] r IH]; cbn [In last_name]; [tauto|].
  intros [H|H] Hso.
  - inversion H; subst. rewrite String.eqb_refl. destruct (last_name (m_table m) r); discriminate.
  - specialize (IH H Hso). destruct (last_name so r); [discriminate|congruence].
Qed.

Lemma add_after_from_ok index : forall ms idx,
  (forall n m l, In (n, m) ms -> In l (m_lookups m) ->
                 lk_table l = "PersonContact" \/ assoc_get (lk_table l) index <> None) ->
  exists ms', add_after_from index idx ms = Ok ms'.
Proof.
  induction ms as [|[n m] r IH]; intros idx H; cbn [add_after_from]; [eexists; reflexivity|].
  destruct (mapM_ok (after_lookup index idx) (m_lookups m)) as [lks Hl].
  - intros l Hl. unfold after_lookup. destruct (H n m l (or_introl eq_refl) Hl) as [Hp|Hp].
    + rewrite Hp, String.eqb_refl. eexists; reflexivity.
    + destruct (String.eqb (lk_table l) "PersonContact"); [eexists; reflexivity|].
      destruct (assoc_get (lk_table l) index) as [[fi ln]|]; [|congruence].
      destruct (Nat.leb idx fi); [destruct (lk_after l)|]; eexists; reflexivity.
  - rewrite Hl. cbn [bind]. destruct (IH (S idx)) as [rest Hr].
    + intros n0 m0 l0 H1 H2. apply (H n0 m0 l0); [right; assumption|assumption].
    + rewrite Hr. cbn [bind]. eexists; reflexivity.
Qed.

Definition visible_tables (tpls : list ftpl) : list string := map ti_name (infer_tables tpls).

(* a reference (t.f -> to) recorded at run time whose target table is loaded *)
Definition observed (tpls : list ftpl) (deps : list dep) (t f to : string) : Prop :=
  In (mkDep t to f) deps /\ (In to (visible_tables tpls) \/ to = "PersonContact").

Lemma visible_tables_In tpls t :
  In t (visible_tables tpls) <-> exists tp, In tp tpls /\ tp_table tp = t /\ hidden t = false.
Proof.
  unfold visible_tables, infer_tables. rewrite in_map_iff. split.
  - intros [ti [H1 H2]]. apply filter_In in H2. destruct H2 as [H2 H3]. apply negb_true_iff in H3.
    destruct (all_tables_member _ _ H2) as [[tp [Hp1 Hp2]] _]. exists tp. subst t. auto.
  - intros [tp [H1 [H2 H3]]].
    assert (Hn : In t (map ti_name (all_tables tpls))).
    { unfold all_tables. apply fold_register_names_In. right. eauto. }
    apply in_map_iff in Hn. destruct Hn as [ti [Ht1 Ht2]]. exists ti. split; [assumption|].
    apply filter_In. split; [assumption|]. rewrite Ht1, H3. reflexivity.
Qed.

Lemma remove_pc_names tis : map ti_name (remove_pc_field tis) = map ti_name tis.
Proof.
  unfold remove_pc_field. rewrite map_map. apply map_ext. intros ti.
  destruct (String.eqb (ti_name ti) "Account"); reflexivity.
Qed.

Section Pipeline.
Variable tpls : list ftpl.
Variable deps : list dep.
Variable decls : list decl.

Let names := visible_tables tpls.
Let loadable := loadable_deps names deps.
Let tis' := remove_pc_field (infer_tables tpls).
Let dmap := map (fun d => (dc_object d, d)) decls.

Lemma loadable_In d : In d loadable <-> In d deps /\ (In (d_to d) names \/ d_to d = "PersonContact").
Proof.
  unfold loadable, loadable_deps. rewrite filter_In, orb_true_iff, mem_In, String.eqb_eq. tauto.
Qed.

Lemma ref_target_observed t f to : ref_target loadable t f = Some to -> observed tpls deps t f to.
Proof.
  intros H. apply ref_target_Some in H. apply loadable_In in H. cbn [d_to] in H. exact H.
Qed.

Lemma ref_target_None_observed t f :
  ref_target loadable t f = None <-> forall to, ~ observed tpls deps t f to.
Proof.
  rewrite ref_target_None. split.
  - intros H to [H1 H2]. apply (H (mkDep t to f)); [apply loadable_In; cbn [d_to]; auto|cbn; auto].
  - intros H d Hd [H1 H2]. apply loadable_In in Hd. destruct d as [a b c]. cbn in *. subst.
    apply (H b). split; tauto.
Qed.

Lemma mapping_inv ms :
  mapping_from_recipe tpls deps decls = Ok ms ->
  exists order steps named,
    sort_dependencies (remove_pc_deps (inferred_of loadable)) (declared_of decls) names = Ok order /\
    load_steps tis' order = Ok steps /\
    mapM (step_body steps loadable dmap) steps = Ok named /\
    add_after_statements (fold_left (fun acc nm => dict_set (fst nm) (snd nm) acc) named []) = Ok ms.
Proof.
  unfold mapping_from_recipe. fold (visible_tables tpls). fold names. fold loadable. fold tis'. fold dmap.
  destruct (sort_dependencies _ _ names) as [order|e] eqn:E1; cbn [bind]; [|discriminate].
  destruct (load_steps tis' order) as [steps|e] eqn:E2; cbn [bind]; [|discriminate].
  unfold mappings_from_load_steps.
  destruct (mapM (step_body steps loadable dmap) steps) as [named|e] eqn:E3; cbn [bind]; [|discriminate].
  intros H. exists order, steps, named. auto.
Qed.

Hypothesis Hnospace : forall tp, In tp tpls -> has_space (tp_table tp) = false.

Lemma steps_same_table steps order x y :
  load_steps tis' order = Ok steps -> In x steps -> In y steps ->
  ls_table x = ls_table y -> ls_key x = ls_key y -> x = y.
Proof.
  intros Hs Hx Hy Ht Hk. destruct (load_steps_spec _ _ _ Hs) as [_ Hin].
  apply Hin in Hx. apply Hin in Hy.
  destruct Hx as [ti1 [k1 [A1 [A2 A3]]]]. destruct Hy as [ti2 [k2 [B1 [B2 B3]]]]. subst x y.
  cbn [ls_table ls_key] in *. destruct (infer_tables_spec tpls) as [Hnd _]. fold tis' in Hnd.
  pose proof (find_ti_In _ _ Hnd A1) as F1. pose proof (find_ti_In _ _ Hnd B1) as F2.
  rewrite Ht in F1. rewrite F1 in F2. inversion F2. subst. reflexivity.
Qed.

Lemma steps_no_space steps order x :
  load_steps tis' order = Ok steps -> In x steps -> has_space (ls_table x) = false.
Proof.
  intros Hs Hx. destruct (load_steps_spec _ _ _ Hs) as [_ Hin]. apply Hin in Hx.
  destruct Hx as [ti [k [A1 [A2 A3]]]]. subst x. cbn [ls_table].
  destruct (infer_tables_spec tpls) as [_ [Hti _]]. fold tis' in Hti.
  destruct (Hti ti A1) as (_ & [tp [Hp1 Hp2]] & _). rewrite <- Hp2. apply Hnospace. assumption.
Qed.

Definition step_rel (s : lstep) (nm : string * mstep) : Prop :=
  fst nm = step_name (ls_table s) (ls_key s) /\
  m_table (snd nm) = ls_table s /\ m_update_key (snd nm) = ls_key s /\
  m_sf_object (snd nm) = (if String.eqb (ls_table s) "PersonContact" then "Contact" else ls_table s) /\
  same_lookups (lookups_of loadable (ls_table s) (ls_fields s)) (m_lookups (snd nm)) /\
  exists rt, find_rt (ls_fields s) = Ok rt /\
             m_fields (snd nm) = fields_of_step loadable (ls_table s) rt (ls_fields s).

Lemma named_is_dict steps order named :
  load_steps tis' order = Ok steps ->
  mapM (step_body steps loadable dmap) steps = Ok named ->
  fold_left (fun acc nm => dict_set (fst nm) (snd nm) acc) named [] = named.
Proof.
  intros Hs Hn. apply fold_dict_set_nodup. cbn [app].
  apply mapM_Forall2 in Hn.
  rewrite <- (Forall2_map_eq _ (fun s => step_name (ls_table s) (ls_key s)) fst _ _ Hn).
  - apply NoDup_map_inj_in; [apply (load_steps_spec _ _ _ Hs)|].
    intros x y Hx Hy He.
    destruct (step_name_inj _ _ _ _ (steps_no_space _ _ _ Hs Hx) (steps_no_space _ _ _ Hs Hy) He).
    eapply steps_same_table; eassumption.
  - intros s [n m] H. apply step_body_spec in H. cbn [fst]. symmetry. tauto.
Qed.

Lemma pipeline_rel ms :
  mapping_from_recipe tpls deps decls = Ok ms ->
  exists order steps,
    sort_dependencies (remove_pc_deps (inferred_of loadable)) (declared_of decls) names = Ok order /\
    load_steps tis' order = Ok steps /\ Forall2 step_rel steps ms.
Proof.
  intros H. destruct (mapping_inv _ H) as (order & steps & named & H1 & H2 & H3 & H4).
  exists order, steps. split; [assumption|]. split; [assumption|].
  rewrite (named_is_dict _ _ _ H2 H3) in H4. unfold add_after_statements in H4.
  apply add_after_from_same in H4. apply mapM_Forall2 in H3.
  pose proof (Forall2_compose _ _ _ _ _ H3 H4) as Hc.
  eapply Forall2_weaken; [|exact Hc]. intros s [n m] [[n0 m0] [Hb Hsame]].
  apply step_body_spec in Hb. destruct Hb as (B1 & B2 & B3 & B4 & B5 & rt & B6 & B7).
  destruct Hsame as (S1 & S2 & S3 & S4 & _ & _ & S7 & _ & S9). cbn [fst snd] in *.
  unfold step_rel. cbn [fst snd]. splits; try congruence; try exact S9; try (rewrite B5 in S9; exact S9).
  exists rt. split; congruence.
Qed.

End Pipeline.

(* ================================================================== the theorems about the mapping *)
Definition step_key (nm : string * mstep) : string * option string :=
  (m_table (snd nm), m_update_key (snd nm)).

Lemma same_lookups_fields a b : same_lookups a b -> map lk_field b = map lk_field a.
Proof. intros H. induction H as [|x y r r' [H1 H2] Hr IH]; cbn [map]; congruence. Qed.

Lemma same_lookups_In a b l' : same_lookups a b -> In l' b ->
  exists l, In l a /\ lk_field l' = lk_field l /\ lk_table l' = lk_table l.
Proof. intros H Hl. destruct (Forall2_In_r _ _ _ _ H Hl) as [l [H1 H2]]. eauto. Qed.

Theorem steps_complete tpls deps decls ms :
  (forall tp, In tp tpls -> has_space (tp_table tp) = false) ->
  mapping_from_recipe tpls deps decls = Ok ms ->
  NoDup (map step_key ms) /\
  (forall t k, In (t, k) (map step_key ms) <->
               exists tp, In tp tpls /\ hidden (tp_table tp) = false /\
                          tp_table tp = t /\ norm_key (tp_key tp) = k) /\
  forall name m, In (name, m) ms ->
    name = step_name (m_table m) (m_update_key m) /\
    m_sf_object m = (if String.eqb (m_table m) "PersonContact" then "Contact" else m_table m) /\
    NoDup (map lk_field (m_lookups m)) /\ NoDup (map snd (m_fields m)) /\
    (forall l, In l (m_lookups m) ->
       vfield tpls (m_table m) (lk_field l) /\
       observed tpls deps (m_table m) (lk_field l) (lk_table l)) /\
    (forall f, In f (map snd (m_fields m)) ->
       vfield tpls (m_table m) f /\
       ((forall to, ~ observed tpls deps (m_table m) f to) \/ is_rt f = true)) /\
    (forall f, vfield tpls (m_table m) f -> (exists to, observed tpls deps (m_table m) f to) ->
               In f (map lk_field (m_lookups m))) /\
    (forall f, vfield tpls (m_table m) f -> (forall to, ~ observed tpls deps (m_table m) f to) ->
               In f (map snd (m_fields m))).
Proof.
  intros Hns H. destruct (pipeline_rel _ _ _ Hns _ H) as (order & steps & Hsort & Hs & Hrel).
  destruct (load_steps_spec _ _ _ Hs) as [Hnd Hin].
  destruct (infer_tables_spec tpls) as (Tnd & Tti & Tcov).
  assert (Hkeys : map step_key ms = map (fun s => (ls_table s, ls_key s)) steps).
  { symmetry. apply (Forall2_map_eq _ _ _ _ _ Hrel). intros s [n m] R. unfold step_key, step_rel in *.
    cbn [fst snd] in *. destruct R as (_ & R2 & R3 & _). congruence. }
  splits.
  - rewrite Hkeys. apply NoDup_map_inj_in; [assumption|]. intros x y Hx Hy He. inversion He.
    eapply steps_same_table; eassumption.
  - intros t k. rewrite Hkeys, in_map_iff. split.
    + intros [s [He Hsin]]. inversion He; subst. apply Hin in Hsin.
      destruct Hsin as [ti [k [A1 [A2 A3]]]]. subst s. cbn [ls_table ls_key].
      destruct (Tti ti A1) as (V1 & _ & _ & _ & V5). apply V5 in A2.
      destruct A2 as [tp [P1 [P2 P3]]]. exists tp. rewrite P2. auto.
    + intros [tp [P1 [P2 [P3 P4]]]]. destruct (Tcov tp P1 P2) as [ti [A1 A2]].
      exists (mkLs (ti_name ti) k (ti_fields ti)). cbn [ls_table ls_key]. split; [congruence|].
      apply Hin. exists ti, k. splits; [assumption| |reflexivity].
      destruct (Tti ti A1) as (_ & _ & _ & _ & V5). apply V5. exists tp. rewrite A2. auto.
  - intros name m Hm. destruct (Forall2_In_r _ _ _ _ Hrel Hm) as [s [Hsin R]].
    unfold step_rel in R. cbn [fst snd] in R. destruct R as (R1 & R2 & R3 & R4 & R5 & rt & R6 & R7).
    apply Hin in Hsin. destruct Hsin as [ti [k [A1 [A2 A3]]]]. subst s. cbn [ls_table ls_key ls_fields] in *.
    destruct (Tti ti A1) as (V1 & _ & V3 & V4 & _).
    destruct (fields_of_step_facts (loadable_deps (visible_tables tpls) deps) (ti_name ti) rt
                (ti_fields ti) V3 R6) as (F1 & F2 & F3).
    rewrite R2, R3. splits.
    + assumption.
    + assumption.
    + rewrite (same_lookups_fields _ _ R5), lookups_of_fields. apply filter_NoDup. assumption.
    + rewrite R7. assumption.
    + intros l Hl. destruct (same_lookups_In _ _ _ R5 Hl) as [l0 [L1 [L2 L3]]].
      apply lookups_of_In in L1. destruct L1 as [L1 [L4 _]]. rewrite L2, L3. split.
      * apply V4. assumption.
      * apply (ref_target_observed _ _ _ _ _ L4).
    + intros f Hf. rewrite R7 in Hf. destruct (F2 f Hf) as [G1 G2]. split; [apply V4; assumption|].
      destruct G2 as [G2|G2]; [left; apply (ref_target_None_observed tpls deps); assumption|auto].
    + intros f Hf [to Hobs]. rewrite (same_lookups_fields _ _ R5), lookups_of_fields.
      apply filter_In. split; [apply V4; assumption|].
      destruct (ref_target (loadable_deps (visible_tables tpls) deps) (ti_name ti) f) eqn:E; [reflexivity|].
      pose proof (proj1 (ref_target_None_observed tpls deps _ _) E) as E'. exfalso. apply (E' to). assumption.
    + intros f Hf Hno. rewrite R7. apply F3; [apply V4; assumption|].
      apply (ref_target_None_observed tpls deps). assumption.
Qed.

(* the target table named by a lookup is the one of the last reference recorded for the field *)
Theorem lookup_target_last tpls deps decls ms name m l :
  (forall tp, In tp tpls -> has_space (tp_table tp) = false) ->
  mapping_from_recipe tpls deps decls = Ok ms -> In (name, m) ms -> In l (m_lookups m) ->
  ref_target (loadable_deps (visible_tables tpls) deps) (m_table m) (lk_field l) = Some (lk_table l).
Proof.
  intros Hns H Hm Hl. destruct (pipeline_rel _ _ _ Hns _ H) as (order & steps & Hsort & Hs & Hrel).
  destruct (Forall2_In_r _ _ _ _ Hrel Hm) as [s [Hsin R]].
  unfold step_rel in R. cbn [fst snd] in R. destruct R as (_ & R2 & _ & _ & R5 & _).
  destruct (same_lookups_In _ _ _ R5 Hl) as [l0 [L1 [L2 L3]]].
  apply lookups_of_In in L1. destruct L1 as [_ [L4 _]]. rewrite R2, L2, L3. assumption.
Qed.

Theorem after_rule tpls deps decls ms pre name m post l :
  mapping_from_recipe tpls deps decls = Ok ms -> ms = pre ++ (name, m) :: post ->
  In l (m_lookups m) -> lk_table l <> "PersonContact" ->
  exists fi ln, first_pos (lk_table l) ms = Some fi /\ last_name (lk_table l) ms = Some ln /\
                (fi < length pre \/ lk_after l = Some ln).
Proof.
  intros H Heq Hl Hpc. destruct (mapping_inv _ _ _ _ H) as (order & steps & named & H1 & H2 & H3 & H4).
  eapply after_rule_general; try eassumption.
  intros n0 m0 l0 Hn0 Hl0. apply fold_dict_set_In in Hn0. destruct Hn0 as [[]|Hn0].
  destruct (mapM_In _ _ _ _ H3 Hn0) as [s [_ Hb]]. apply step_body_spec in Hb.
  destruct Hb as (_ & _ & _ & _ & B5 & _). rewrite B5 in Hl0. apply lookups_of_In in Hl0. tauto.
Qed.

Lemma unique_first_last so pre n m post :
  m_table m = so ->
  (forall nm, In nm pre \/ In nm post -> m_table (snd nm) <> so) ->
  first_pos so (pre ++ (n, m) :: post) = Some (length pre) /\
  last_name so (pre ++ (n, m) :: post) = Some n.
Proof.
  intros Hso Hothers.
  assert (Hpost : last_name so post = None).
  { assert (forall l, (forall nm, In nm l -> m_table (snd nm) <> so) -> last_name so l = None) as G.
    { induction l as [|[n0 m0] r IH]; intros Hl; cbn [last_name]; [reflexivity|].
      rewrite IH by (intros; apply Hl; right; assumption).
      destruct (String.eqb (m_table m0) so) eqn:E; [|reflexivity].
      apply String.eqb_eq in E. exfalso. apply (Hl (n0, m0)); [left; reflexivity|assumption]. }
    apply G. intros nm Hnm. apply Hothers. auto. }
  induction pre as [|[n0 m0] r IH]; cbn [app first_pos last_name length].
  - rewrite Hso, String.eqb_refl, Hpost. auto.
  - destruct IH as [IH1 IH2]; [intros nm [Hnm|Hnm]; apply Hothers; [left; right; assumption|auto]|].
    rewrite IH1, IH2. cbn [option_map].
    destruct (String.eqb (m_table m0) so) eqn:E; [|auto].
    apply String.eqb_eq in E. exfalso. apply (Hothers (n0, m0)); [left; left; reflexivity|assumption].
Qed.

(* the property's after-rule: the target table is loaded by a single step *)
Theorem after_rule_single tpls deps decls ms pre name m post l prej namej mj postj :
  mapping_from_recipe tpls deps decls = Ok ms -> ms = pre ++ (name, m) :: post ->
  In l (m_lookups m) -> lk_table l <> "PersonContact" ->
  ms = prej ++ (namej, mj) :: postj -> m_table mj = lk_table l ->
  (forall nm, In nm prej \/ In nm postj -> m_table (snd nm) <> lk_table l) ->
  length prej < length pre \/ lk_after l = Some namej.
Proof.
  intros H Heq Hl Hpc Heqj Hso Hothers.
  destruct (after_rule _ _ _ _ _ _ _ _ _ H Heq Hl Hpc) as (fi & ln & F1 & F2 & F3).
  destruct (unique_first_last _ prej namej mj postj Hso Hothers) as [U1 U2].
  rewrite Heqj in F1, F2. rewrite U1 in F1. rewrite U2 in F2. inversion F1; inversion F2; subst fi ln.
  assumption.
Qed.

Theorem mapping_history_independent tpls decls evs :
  mapping_from_recipe tpls (run_events evs []) decls =
  mapping_from_recipe tpls (run_events (filter is_obs evs) []) decls.
Proof. rewrite (deps_persist evs [] (NoDup_nil _)). reflexivity. Qed.

Lemma NoDup_all_equal_length {A} (l : list A) :
  NoDup l -> (forall x y, In x l -> In y l -> x = y) -> length l <= 1.
Proof.
  intros Hnd Heq. destruct l as [|a [|b r]]; cbn [length]; try lia.
  exfalso. inversion Hnd as [|? ? Ha _]; subst. apply Ha. left.
  apply Heq; [right; left; reflexivity|left; reflexivity].
Qed.

Theorem mapping_total tpls deps decls :
  (forall tp, In tp tpls -> has_space (tp_table tp) = false) ->
  (forall t f1 f2, vfield tpls t f1 -> vfield tpls t f2 -> is_rt f1 = true -> is_rt f2 = true -> f1 = f2) ->
  exists ms, mapping_from_recipe tpls deps decls = Ok ms.
Proof.
  intros Hns Hrt. unfold mapping_from_recipe. fold (visible_tables tpls).
  set (names := visible_tables tpls). set (loadable := loadable_deps names deps).
  set (tis' := remove_pc_field (infer_tables tpls)).
  set (dmap := map (fun d => (dc_object d, d)) decls).
  destruct (sort_terminates (remove_pc_deps (inferred_of loadable)) (declared_of decls) names) as [order Ho].
  rewrite Ho. cbn [bind].
  destruct (infer_tables_spec tpls) as (Tnd & Tti & Tcov). fold tis' in Tnd, Tti, Tcov.
  destruct (load_steps_ok tis' order) as [steps Hs].
  { intros ti Hti. apply (sort_covers _ _ _ _ Ho). unfold names, visible_tables.
    rewrite <- remove_pc_names. apply in_map. assumption. }
  rewrite Hs. cbn [bind]. unfold mappings_from_load_steps.
  destruct (load_steps_spec _ _ _ Hs) as [Hnd Hin].
  destruct (mapM_ok (step_body steps loadable dmap) steps) as [named Hn].
  { intros s Hsin. apply step_body_ok. apply Hin in Hsin. destruct Hsin as [ti [k [A1 [A2 A3]]]].
    subst s. cbn [ls_fields]. destruct (Tti ti A1) as (_ & _ & V3 & V4 & _).
    assert (Hlen : length (filter is_rt (ti_fields ti)) <= 1).
    { apply NoDup_all_equal_length; [apply filter_NoDup; assumption|].
      intros x y Hx Hy. apply filter_In in Hx, Hy. destruct Hx as [X1 X2], Hy as [Y1 Y2].
      apply (Hrt (ti_name ti)); [apply V4|apply V4| |]; assumption. }
    unfold find_rt. destruct (filter is_rt (ti_fields ti)) as [|a [|b r]]; cbn [length] in Hlen;
      [eexists; reflexivity|eexists; reflexivity|lia]. }
  rewrite Hn. cbn [bind]. rewrite (named_is_dict tpls deps decls Hns _ _ _ Hs Hn).
  unfold add_after_statements. apply add_after_from_ok.
  intros n m l Hnm Hl.
  destruct (mapM_In _ _ _ _ Hn Hnm) as [s [Hsin Hb]]. apply step_body_spec in Hb.
  destruct Hb as (_ & _ & _ & _ & B5 & _). rewrite B5 in Hl. apply lookups_of_In in Hl.
  destruct Hl as [_ [L2 _]]. apply ref_target_Some in L2. apply (loadable_In tpls deps) in L2.
  cbn [d_to] in L2. destruct L2 as [_ [L2|L2]]; [|auto].
  destruct (String.eqb (lk_table l) "PersonContact") eqn:Epc; [left; apply String.eqb_eq; assumption|].
  right. rewrite index_by_sobject_spec. cbn [assoc_get].
  (* some step loads the target table *)
  unfold visible_tables in L2. rewrite <- remove_pc_names in L2. apply in_map_iff in L2.
  destruct L2 as [ti [T1 T2]]. fold tis' in T2.
  destruct (Tti ti T2) as (_ & [tp [P1 P2]] & _ & _ & V5).
  assert (Hk : In (norm_key (tp_key tp)) (ti_keys ti)) by (apply V5; exists tp; auto).
  assert (Hst : In (mkLs (ti_name ti) (norm_key (tp_key tp)) (ti_fields ti)) steps)
    by (apply Hin; exists ti, (norm_key (tp_key tp)); auto).
  apply mapM_Forall2 in Hn. destruct (Forall2_In_l _ _ _ _ Hn Hst) as [[n2 m2] [Hin2 Hb2]].
  apply step_body_spec in Hb2. destruct Hb2 as (_ & B4 & _). cbn [ls_table] in B4.
  rewrite T1 in B4.
  pose proof (last_name_In _ _ _ _ Hin2 B4) as Hl.
  destruct (last_name (lk_table l) named); [discriminate|congruence].
Qed.

(* ================================================================== parents first *)
Lemma group_add_get t k v l :
  assoc_get t (group_add k v l) =
  if String.eqb t k then Some (match assoc_get k l with Some vs => vs ++ [v] | None => [v] end)
  else assoc_get t l.
Proof.
  induction l as [|[k0 vs] r IH]; cbn [group_add assoc_get].
  - destruct (String.eqb t k); reflexivity.
  - destruct (String.eqb k k0) eqn:E; cbn [assoc_get].
    + apply String.eqb_eq in E. subst k0. destruct (String.eqb t k); reflexivity.
    + rewrite IH. destruct (String.eqb t k0) eqn:E2.
      * apply String.eqb_eq in E2. subst k0. destruct (String.eqb t k) eqn:E3; [|reflexivity].
        apply String.eqb_eq in E3. subst. rewrite String.eqb_refl in E. discriminate.
      * reflexivity.
Qed.

Lemma inferred_of_tg ds t :
  tg_of (inferred_of ds) t = map d_to (filter (fun d => String.eqb (d_from d) t) ds).
Proof.
  unfold inferred_of.
  assert (H : forall acc, tg_of (fold_left (fun a d => group_add (d_from d) (d_to d) a) ds acc) t =
                          tg_of acc t ++ map d_to (filter (fun d => String.eqb (d_from d) t) ds)).
  { induction ds as [|d r IH]; intros acc; cbn [fold_left filter map]; [rewrite app_nil_r; reflexivity|].
    rewrite IH. unfold tg_of at 1. rewrite group_add_get. rewrite (String.eqb_sym t (d_from d)).
    destruct (String.eqb (d_from d) t) eqn:E.
    - apply String.eqb_eq in E. subst t. unfold tg_of. cbn [map].
      destruct (assoc_get (d_from d) acc); [rewrite <- app_assoc|]; reflexivity.
    - reflexivity. }
  rewrite H. reflexivity.
Qed.

Lemma remove_pc_deps_tg inf t x : In x (tg_of (remove_pc_deps inf) t) -> In x (tg_of inf t).
Proof.
  unfold tg_of, remove_pc_deps. induction inf as [|[k vs] r IH]; cbn [map assoc_get fst snd]; [auto|].
  destruct (String.eqb k "Account") eqn:Ea; cbn [assoc_get fst snd]; destruct (String.eqb t k); auto.
  intros H. apply filter_In in H. tauto.
Qed.

Lemma remove_pc_deps_tg_keep inf t x :
  In x (tg_of inf t) -> ~ (t = "Account" /\ lower x = "personcontact") ->
  In x (tg_of (remove_pc_deps inf) t).
Proof.
  unfold tg_of, remove_pc_deps. induction inf as [|[k vs] r IH]; cbn [map assoc_get fst snd]; [auto|].
  intros H Hn.
  destruct (String.eqb k "Account") eqn:Ea; cbn [assoc_get fst snd]; destruct (String.eqb t k) eqn:Et; auto.
  apply filter_In. split; [assumption|]. apply negb_true_iff.
  destruct (String.eqb (lower x) "personcontact") eqn:El; [|reflexivity].
  exfalso. apply Hn. apply String.eqb_eq in Ea, Et, El. subst. auto.
Qed.

Definition key_le (a b : nat * lstep) : Prop := fst a <= fst b.

Lemma insert_by_Forall (P : nat * lstep -> Prop) k s l :
  P (k, s) -> Forall P l -> Forall P (insert_by k s l).
Proof.
  intros Hp H. induction H as [|[k' s'] r Hx Hr IH]; cbn [insert_by]; [constructor; [assumption|constructor]|].
  destruct (Nat.leb k k'); constructor; auto.
Qed.

Lemma insert_by_sorted k s l : StronglySorted key_le l -> StronglySorted key_le (insert_by k s l).
Proof.
  intros H. induction H as [|[k' s'] r Hr IH Hall]; cbn [insert_by]; [constructor; constructor|].
  destruct (Nat.leb k k') eqn:E.
  - apply Nat.leb_le in E. constructor; [constructor; assumption|].
    constructor; [unfold key_le; cbn [fst]; assumption|].
    eapply Forall_impl; [|exact Hall]. intros [k2 s2]. unfold key_le. cbn [fst]. lia.
  - apply Nat.leb_gt in E. constructor; [assumption|].
    apply insert_by_Forall; [unfold key_le; cbn [fst]; lia|assumption].
Qed.

Lemma sort_keyed_sorted l : StronglySorted key_le (sort_keyed l).
Proof.
  unfold sort_keyed. induction l as [|[k s] r IH]; cbn [fold_right fst snd]; [constructor|].
  apply insert_by_sorted. assumption.
Qed.

Lemma sorted_app_le l1 : forall x l2 y,
  StronglySorted key_le (l1 ++ x :: l2) -> In y l2 -> key_le x y.
Proof.
  induction l1 as [|a r IH]; intros x l2 y H Hy; cbn [app] in H; inversion H as [|? ? Hs Hall]; subst.
  - rewrite Forall_forall in Hall. apply Hall. assumption.
  - eapply IH; eassumption.
Qed.

Lemma keyed_keys order l l' :
  Forall2 (fun x y => key_step order x = Ok y) l l' ->
  forall ks, In ks l' -> index_of (ls_table (snd ks)) order = Some (fst ks).
Proof.
  intros H. induction H as [|x y r r' Hxy Hr IH]; intros ks Hks; [destruct Hks|].
  destruct Hks as [Hks|Hks]; [|auto]. subst ks. unfold key_step in Hxy.
  destruct (index_of (ls_table x) order) eqn:E; [|discriminate]. injection Hxy as <-. cbn [fst snd]. assumption.
Qed.

(* steps are ordered by the first index of their table in the table order *)
Lemma load_steps_sorted tis order steps spre s spost sj :
  load_steps tis order = Ok steps -> steps = spre ++ s :: spost -> In sj spost ->
  exists i j, index_of (ls_table s) order = Some i /\ index_of (ls_table sj) order = Some j /\ i <= j.
Proof.
  unfold load_steps. intros H Heq Hj.
  destruct (mapM (key_step order) (dedupe_steps (raw_steps tis))) as [keyed|e] eqn:E;
    cbn [bind] in H; [|discriminate].
  injection H as Hs. rewrite Heq in Hs. apply mapM_Forall2 in E.
  apply map_eq_app in Hs. destruct Hs as (kpre & krest & Hk & Hp & Hr).
  apply map_eq_cons in Hr. destruct Hr as (ks & kpost & Hr1 & Hr2 & Hr3). subst krest.
  rewrite <- Hr3 in Hj. apply in_map_iff in Hj. destruct Hj as [ksj [Hj1 Hj2]].
  pose proof (sort_keyed_sorted keyed) as Hsorted. rewrite Hk in Hsorted.
  pose proof (sorted_app_le _ _ _ _ Hsorted Hj2) as Hle.
  assert (Hin : forall z, In z (sort_keyed keyed) -> In z keyed).
  { intros z. apply Permutation_in. apply sort_keyed_perm. }
  assert (H1 : In ks keyed) by (apply Hin; rewrite Hk; apply in_or_app; right; left; reflexivity).
  assert (H2 : In ksj keyed) by (apply Hin; rewrite Hk; apply in_or_app; right; right; assumption).
  pose proof (keyed_keys _ _ _ E _ H1) as K1. pose proof (keyed_keys _ _ _ E _ H2) as K2.
  rewrite Hr2 in K1. rewrite Hj1 in K2. exists (fst ks), (fst ksj). auto.
Qed.

Theorem parents_first tpls deps ms (rank : string -> nat) pre name m post l nj mj :
  (forall tp, In tp tpls -> has_space (tp_table tp) = false) ->
  (forall d, In d deps -> In (d_from d) (visible_tables tpls) -> d_to d <> d_from d ->
             In (d_to d) (visible_tables tpls) \/ d_to d = "PersonContact" ->
             In (d_to d) (visible_tables tpls) /\ rank (d_to d) < rank (d_from d)) ->
  mapping_from_recipe tpls deps [] = Ok ms -> ms = pre ++ (name, m) :: post ->
  In l (m_lookups m) -> lk_table l <> m_table m ->
  ~ (m_table m = "Account" /\ lower (lk_table l) = "personcontact") ->
  In (nj, mj) ms -> m_table mj = lk_table l ->
  In (nj, mj) pre.
Proof.
  intros Hns Hg H Heq Hl Hne Hnpc Hj Htj.
  destruct (pipeline_rel _ _ _ Hns _ H) as (order & steps & Hsort & Hs & Hrel).
  set (loadable := loadable_deps (visible_tables tpls) deps) in *.
  set (names := visible_tables tpls) in *.
  rewrite Heq in Hrel. apply Forall2_app_inv_r in Hrel.
  destruct Hrel as (spre & srest & Hpre & Hrest & Hsteps).
  inversion Hrest as [|s nm spost post' Rs Hpost]; subst.
  apply in_app_or in Hj. destruct Hj as [Hj|[Hj|Hj]]; [assumption| |].
  { inversion Hj; subst. congruence. }
  exfalso.
  destruct (Forall2_In_r _ _ _ _ Hpost Hj) as [sj [Hsj Rj]].
  destruct (load_steps_sorted _ _ _ _ _ _ _ Hs eq_refl Hsj) as (i & j & I1 & I2 & I3).
  unfold step_rel in Rs, Rj. cbn [fst snd] in Rs, Rj.
  destruct Rs as (_ & Rs2 & _ & _ & Rs5 & _). destruct Rj as (_ & Rj2 & _).
  (* the table of the step is visible *)
  destruct (load_steps_spec _ _ _ Hs) as [_ Hin].
  assert (Hsin : In s (spre ++ s :: spost)) by (apply in_or_app; right; left; reflexivity).
  apply Hin in Hsin. destruct Hsin as [ti [k [A1 [A2 A3]]]].
  assert (Htn : In (ls_table s) names).
  { subst s. cbn [ls_table]. unfold names, visible_tables. rewrite <- remove_pc_names.
    apply in_map. assumption. }
  (* the lookup is an edge of the sorted graph *)
  destruct (same_lookups_In _ _ _ Rs5 Hl) as [l0 [L1 [L2 L3]]].
  apply lookups_of_In in L1. destruct L1 as [_ [L4 _]]. apply ref_target_Some in L4.
  assert (Hedge : In (lk_table l) (merged_tg (remove_pc_deps (inferred_of loadable)) (declared_of [])
                                             (ls_table s))).
  { unfold merged_tg, declared_of. cbn [filter map assoc_get].
    apply remove_pc_deps_tg_keep; [|rewrite <- Rs2; assumption].
    rewrite inferred_of_tg. apply in_map_iff. exists (mkDep (ls_table s) (lk_table l0) (lk_field l0)).
    cbn [d_to]. split; [congruence|]. apply filter_In. split; [assumption|]. cbn [d_from].
    apply String.eqb_refl. }
  assert (Hnd : NoDup names).
  { unfold names, visible_tables. rewrite <- remove_pc_names. apply (infer_tables_spec tpls). }
  destruct (sort_sound (remove_pc_deps (inferred_of loadable)) (declared_of []) names rank order Hnd)
    as [_ Hbefore]; [|assumption|].
  { intros t x Ht Hx Hxt. unfold merged_tg, declared_of in Hx. cbn [filter map assoc_get] in Hx.
    apply remove_pc_deps_tg in Hx. rewrite inferred_of_tg in Hx. apply in_map_iff in Hx.
    destruct Hx as [d [D1 D2]]. apply filter_In in D2. destruct D2 as [D2 D3].
    apply String.eqb_eq in D3. apply (loadable_In tpls deps) in D2. destruct D2 as [D2 D4].
    subst x t. apply Hg; assumption. }
  destruct (Hbefore (ls_table s) (lk_table l) Htn Hedge) as (i' & j' & B1 & B2 & B3).
  { rewrite <- Rs2. assumption. }
  rewrite <- Rj2, Htj in I2. rewrite I2 in B1. rewrite I1 in B2. inversion B1; inversion B2; subst. lia.
Qed.

(* ================================================================== the mapping depends on the SET of dependencies *)
(* every (table, field) pair has references to one table only *)
Definition functional (ds : list dep) : Prop :=
  forall a b, In a ds -> In b ds -> d_from a = d_from b -> d_field a = d_field b -> d_to a = d_to b.

Lemma ref_target_functional ds t f to :
  functional ds -> (ref_target ds t f = Some to <-> In (mkDep t to f) ds).
Proof.
  intros Hf. split; [apply ref_target_Some|]. intros Hin.
  destruct (ref_target ds t f) as [to'|] eqn:E.
  - apply ref_target_Some in E. f_equal. apply (Hf _ _ E Hin); reflexivity.
  - exfalso. apply (proj1 (ref_target_None ds t f) E _ Hin). cbn. auto.
Qed.

Lemma ref_target_set_eq ds1 ds2 :
  functional ds1 -> (forall d, In d ds1 <-> In d ds2) ->
  forall t f, ref_target ds1 t f = ref_target ds2 t f.
Proof.
  intros Hf Hset t f.
  assert (Hf2 : functional ds2).
  { intros a b Ha Hb. apply Hf; apply Hset; assumption. }
  destruct (ref_target ds1 t f) as [to|] eqn:E1.
  - apply (ref_target_functional _ _ _ _ Hf) in E1. apply Hset in E1.
    apply (ref_target_functional _ _ _ _ Hf2) in E1. congruence.
  - destruct (ref_target ds2 t f) as [to|] eqn:E2; [|reflexivity].
    apply (ref_target_functional _ _ _ _ Hf2) in E2. apply Hset in E2.
    apply (ref_target_functional _ _ _ _ Hf) in E2. congruence.
Qed.

Lemma forallb_same_elements {A} (p : A -> bool) l1 l2 :
  (forall x, In x l1 <-> In x l2) -> forallb p l1 = forallb p l2.
Proof.
  intros H. apply eq_true_iff_eq. rewrite !forallb_forall. split; intros Hp x Hx; apply Hp; apply H; assumption.
Qed.

Lemma sort_loop_ext tg1 tg2 stuck :
  (forall t x, In x (tg1 t) <-> In x (tg2 t)) ->
  forall fuel tables sorted,
    sort_loop tg1 stuck fuel tables sorted = sort_loop tg2 stuck fuel tables sorted.
Proof.
  intros Htg. induction fuel as [|fuel IH]; intros tables sorted; destruct tables as [|t0 r0]; try reflexivity.
  cbn [sort_loop].
  assert (Hfree : forall s t, is_free tg1 s t = is_free tg2 s t).
  { intros s t. unfold is_free. apply forallb_same_elements. apply Htg. }
  rewrite (filter_ext _ _ (Hfree sorted)).
  destruct (Nat.eqb _ _); [|apply IH].
  destruct (stuck _); cbn [bind]; [apply IH|reflexivity].
Qed.

Lemma inferred_of_nonempty ds : nonempty (inferred_of ds) = nonempty ds.
Proof.
  unfold inferred_of. destruct ds as [|d r]; [reflexivity|]. cbn [fold_left nonempty group_add].
  assert (H : forall (l : list dep) acc, nonempty acc = true ->
            nonempty (fold_left (fun a d => group_add (d_from d) (d_to d) a) l acc) = true).
  { induction l as [|x l IH]; intros acc Ha; cbn [fold_left]; [assumption|]. apply IH.
    destruct acc as [|[k vs] acc]; [discriminate|]. cbn [group_add].
    destruct (String.eqb (d_from x) k); reflexivity. }
  apply H. reflexivity.
Qed.

Lemma remove_pc_deps_nonempty inf : nonempty (remove_pc_deps inf) = nonempty inf.
Proof. destruct inf; reflexivity. Qed.

Lemma remove_pc_deps_tg_eq inf t :
  tg_of (remove_pc_deps inf) t =
  if String.eqb t "Account"
  then filter (fun x => negb (String.eqb (lower x) "personcontact")) (tg_of inf t)
  else tg_of inf t.
Proof.
  unfold tg_of, remove_pc_deps. induction inf as [|[k vs] r IH]; cbn [map assoc_get fst snd].
  - destruct (String.eqb t "Account"); reflexivity.
  - destruct (String.eqb k "Account") eqn:Ea; cbn [assoc_get fst snd]; destruct (String.eqb t k) eqn:Et;
      try assumption.
    + apply String.eqb_eq in Ea, Et. subst. rewrite String.eqb_refl. reflexivity.
    + apply String.eqb_eq in Et. subst. rewrite Ea. reflexivity.
Qed.

Lemma sorted_tg_In ld t x :
  In x (tg_of (remove_pc_deps (inferred_of ld)) t) <->
  (exists d, In d ld /\ d_from d = t /\ d_to d = x) /\ ~ (t = "Account" /\ lower x = "personcontact").
Proof.
  assert (Hinf : In x (tg_of (inferred_of ld) t) <-> exists d, In d ld /\ d_from d = t /\ d_to d = x).
  { rewrite inferred_of_tg, in_map_iff. split.
    - intros [d [D1 D2]]. apply filter_In in D2. destruct D2 as [D2 D3]. apply String.eqb_eq in D3. eauto.
    - intros [d [D1 [D2 D3]]]. exists d. split; [assumption|]. apply filter_In. split; [assumption|].
      apply String.eqb_eq. assumption. }
  rewrite remove_pc_deps_tg_eq. destruct (String.eqb t "Account") eqn:Ea.
  - apply String.eqb_eq in Ea. rewrite filter_In, Hinf, negb_true_iff. split.
    + intros [H1 H2]. split; [assumption|]. intros [_ Hl]. rewrite Hl in H2. cbn in H2. discriminate.
    + intros [H1 H2]. split; [assumption|].
      destruct (String.eqb (lower x) "personcontact") eqn:El; [|reflexivity].
      apply String.eqb_eq in El. exfalso. apply H2. auto.
  - rewrite Hinf. split; [|tauto]. intros H. split; [assumption|]. intros [Ht _]. subst t. cbn in Ea. discriminate.
Qed.

Lemma sort_dependencies_set ld1 ld2 declared names :
  (forall d, In d ld1 <-> In d ld2) ->
  sort_dependencies (remove_pc_deps (inferred_of ld1)) declared names =
  sort_dependencies (remove_pc_deps (inferred_of ld2)) declared names.
Proof.
  intros Hset. unfold sort_dependencies.
  rewrite !remove_pc_deps_nonempty, !inferred_of_nonempty.
  assert (Hne : nonempty ld1 = nonempty ld2).
  { destruct ld1 as [|a r], ld2 as [|b s]; try reflexivity.
    - exfalso. apply (Hset b). left; reflexivity.
    - exfalso. apply (Hset a). left; reflexivity. }
  rewrite Hne. apply sort_loop_ext. intros t x. unfold merged_tg.
  destruct (assoc_get t declared); [tauto|]. rewrite !sorted_tg_In.
  split; intros [[d [D1 D2]] Hn]; (split; [exists d; split; [apply Hset; assumption|assumption]|assumption]).
Qed.

Lemma step_body_ext steps ld1 ld2 dmap s :
  (forall t f, ref_target ld1 t f = ref_target ld2 t f) ->
  step_body steps ld1 dmap s = step_body steps ld2 dmap s.
Proof.
  intros H. unfold step_body. destruct (find_rt (ls_fields s)) as [rt|e]; cbn [bind]; [|reflexivity].
  assert (E1 : filter (fun f => negb (is_some (ref_target ld1 (ls_table s) f))
                                && negb (option_eqb String.eqb (Some f) rt))%bool (ls_fields s) =
               filter (fun f => negb (is_some (ref_target ld2 (ls_table s) f))
                                && negb (option_eqb String.eqb (Some f) rt))%bool (ls_fields s)).
  { apply filter_ext. intros f. rewrite H. reflexivity. }
  assert (E2 : flat_map (fun f => match ref_target ld1 (ls_table s) f with
                                  | Some to => [mkLk f to None] | None => [] end) (ls_fields s) =
               flat_map (fun f => match ref_target ld2 (ls_table s) f with
                                  | Some to => [mkLk f to None] | None => [] end) (ls_fields s)).
  { apply flat_map_ext. intros f. rewrite H. reflexivity. }
  rewrite E1, E2. reflexivity.
Qed.

Lemma mapM_ext {A B} (f g : A -> result B) l : (forall x, f x = g x) -> mapM f l = mapM g l.
Proof. intros H. induction l as [|x r IH]; cbn [mapM]; [reflexivity|]. rewrite H, IH. reflexivity. Qed.

(* same templates, same declarations, same SET of recorded dependencies (each field referring to
   one table) => same mapping, whatever the order in which the references were observed *)
Theorem mapping_set_independent tpls deps1 deps2 decls :
  functional deps1 -> (forall d, In d deps1 <-> In d deps2) ->
  mapping_from_recipe tpls deps1 decls = mapping_from_recipe tpls deps2 decls.
Proof.
  intros Hf Hset. unfold mapping_from_recipe.
  set (names := map ti_name (infer_tables tpls)).
  assert (Hl : forall d, In d (loadable_deps names deps1) <-> In d (loadable_deps names deps2)).
  { intros d. unfold loadable_deps. rewrite !filter_In, Hset. tauto. }
  assert (Hfl : functional (loadable_deps names deps1)).
  { intros a b Ha Hb. unfold loadable_deps in Ha, Hb. apply filter_In in Ha, Hb. apply Hf; tauto. }
  rewrite (sort_dependencies_set _ _ _ _ Hl).
  destruct (sort_dependencies _ _ names) as [order|e]; cbn [bind]; [|reflexivity].
  destruct (load_steps _ order) as [steps|e]; cbn [bind]; [|reflexivity].
  unfold mappings_from_load_steps.
  rewrite (mapM_ext _ (step_body steps (loadable_deps names deps2) (map (fun d => (dc_object d, d)) decls))).
  - reflexivity.
  - intros s. apply step_body_ext. apply ref_target_set_eq; assumption.
Qed.
