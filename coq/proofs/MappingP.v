(* MappingP.v — proofs about the model of the CCI mapping generator (property C16). *)
From Coq Require Import String Ascii List Lia Bool Arith Permutation.
From SFV Require Import Base Mapping.
From SFV.P Require Import BaseP.
Import ListNotations.
Open Scope string_scope.
Open Scope list_scope.
Open Scope nat_scope.

Ltac splits := repeat match goal with |- _ /\ _ => split end.

(* ================================================================== basic lemmas *)
Lemma mem_In x l : mem x l = true <-> In x l.
Proof.
  unfold mem. rewrite existsb_exists. split.
  - intros [y [Hy He]]. apply String.eqb_eq in He. subst. assumption.
  - intros H. exists x. split; [assumption|apply String.eqb_refl].
Qed.

Lemma mem_false x l : mem x l = false <-> ~ In x l.
Proof.
  rewrite <- mem_In. destruct (mem x l); split; intros; congruence.
Qed.

Lemma mem_app x l1 l2 : mem x (l1 ++ l2) = mem x l1 || mem x l2.
Proof. unfold mem. apply existsb_app. Qed.

Lemma index_of_In x l : In x l -> exists i, index_of x l = Some i /\ i < length l.
Proof.
  induction l as [|y r IH]; cbn [In index_of length]; [tauto|].
  intros H. destruct (String.eqb x y) eqn:E.
  - exists 0. split; [reflexivity|lia].
  - destruct H as [H|H]; [subst; rewrite String.eqb_refl in E; discriminate|].
    destruct (IH H) as [i [Hi Hl]]. exists (S i). rewrite Hi. split; [reflexivity|lia].
Qed.

Lemma index_of_Some x l i : index_of x l = Some i -> In x l /\ i < length l.
Proof.
  revert i. induction l as [|y r IH]; cbn [In index_of length]; intros i H; [discriminate|].
  destruct (String.eqb x y) eqn:E.
  - apply String.eqb_eq in E. inversion H; subst. split; [auto|lia].
  - destruct (index_of x r) as [j|] eqn:Ej; cbn [option_map] in H; [|discriminate].
    inversion H; subst. destruct (IH j eq_refl). split; [auto|lia].
Qed.

Lemma index_of_None x l : index_of x l = None <-> ~ In x l.
Proof.
  split.
  - intros H Hin. destruct (index_of_In _ _ Hin) as [i [Hi _]]. congruence.
  - intros H. destruct (index_of x l) eqn:E; [|reflexivity].
    exfalso. apply H. apply (index_of_Some _ _ _ E).
Qed.

Lemma index_of_app_l x l1 l2 : In x l1 -> index_of x (l1 ++ l2) = index_of x l1.
Proof.
  induction l1 as [|y r IH]; cbn [In index_of app]; [tauto|].
  intros H. destruct (String.eqb x y) eqn:E; [reflexivity|].
  destruct H as [H|H]; [subst; rewrite String.eqb_refl in E; discriminate|].
  rewrite IH; auto.
Qed.

Lemma index_of_app_r x l1 l2 :
  ~ In x l1 -> index_of x (l1 ++ l2) = option_map (fun i => length l1 + i) (index_of x l2).
Proof.
  induction l1 as [|y r IH]; cbn [In index_of app length]; intros H.
  - destruct (index_of x l2); reflexivity.
  - destruct (String.eqb x y) eqn:E.
    + apply String.eqb_eq in E. subst. tauto.
    + rewrite IH by tauto. destruct (index_of x l2); reflexivity.
Qed.

Lemma filter_length_le {A} (p : A -> bool) l : length (filter p l) <= length l.
Proof. induction l as [|x r IH]; cbn [filter length]; [lia|]. destruct (p x); cbn [length]; lia. Qed.

Lemma filter_length_eq {A} (p : A -> bool) l :
  length (filter p l) = length l -> filter p l = l /\ forall x, In x l -> p x = true.
Proof.
  induction l as [|x r IH]; cbn [filter length In]; intros H; [split; [reflexivity|tauto]|].
  destruct (p x) eqn:E.
  - cbn [length] in H. destruct IH as [H1 H2]; [lia|]. split; [rewrite H1; reflexivity|].
    intros y [Hy|Hy]; [subst; assumption|auto].
  - pose proof (filter_length_le p r). lia.
Qed.

Lemma filter_length_lt {A} (p : A -> bool) l x :
  In x l -> p x = false -> length (filter p l) < length l.
Proof.
  intros Hin Hp. pose proof (filter_length_le p l).
  destruct (Nat.eq_dec (length (filter p l)) (length l)) as [E|E]; [|lia].
  destruct (filter_length_eq p l E) as [_ Hall]. rewrite (Hall x Hin) in Hp. discriminate.
Qed.

Lemma min_str_In l m : min_str l = Some m -> In m l.
Proof.
  revert m. induction l as [|x r IH]; cbn [min_str In]; intros m H; [discriminate|].
  destruct (min_str r) as [m'|] eqn:E.
  - destruct (String.leb x m'); inversion H; subst; auto.
  - inversion H; auto.
Qed.

Lemma min_str_nonempty l : l <> [] -> exists m, min_str l = Some m.
Proof.
  destruct l as [|x r]; [congruence|]. intros _. cbn [min_str].
  destruct (min_str r) as [m'|]; [destruct (String.leb x m')|]; eauto.
Qed.

Lemma existsb_false_iff {A} (p : A -> bool) l : existsb p l = false <-> forall x, In x l -> p x = false.
Proof.
  split.
  - intros H x Hx. destruct (p x) eqn:E; [|reflexivity].
    assert (existsb p l = true) by (apply existsb_exists; eauto). congruence.
  - intros H. destruct (existsb p l) eqn:E; [|reflexivity].
    apply existsb_exists in E. destruct E as [x [Hx Hp]]. rewrite (H x Hx) in Hp. discriminate.
Qed.

(* ================================================================== the sorter *)
Section SortLoop.
Variable tg : string -> list string.
Variable stuck : list string -> result (list string).

Definition mu (tables sorted : list string) : nat :=
  2 * length tables - (if existsb (fun t => mem t sorted) tables then 1 else 0).

(* what is appended by a pass that sorts nothing makes progress *)
Definition stuck_progress : Prop :=
  forall ts, ts <> [] -> exists sub, stuck ts = Ok sub /\ exists x, In x ts /\ In x sub.

Lemma sort_loop_terminates :
  stuck_progress ->
  forall fuel tables sorted, mu tables sorted < fuel ->
  exists l, sort_loop tg stuck fuel tables sorted = Ok l.
Proof.
  intros Hst. induction fuel as [|fuel IH]; intros tables sorted Hmu.
  - destruct tables as [|t r]; [eexists; reflexivity|]. exfalso.
    unfold mu in Hmu. cbn [length] in Hmu. destruct (existsb _ _); lia.
  - destruct tables as [|t0 r0] eqn:Et; [eexists; reflexivity|]. rewrite <- Et in *.
    assert (Hne : tables <> []) by (rewrite Et; discriminate).
    assert (Hlen : 1 <= length tables) by (rewrite Et; cbn [length]; lia).
    replace (sort_loop tg stuck (S fuel) tables sorted) with
      (let leaf := filter (is_free tg sorted) tables in
       let sorted1 := sorted ++ leaf in
       let tables1 := filter (fun t => negb (mem t sorted1)) tables in
       if Nat.eqb (length tables1) (length tables)
       then do sub <- stuck tables1; sort_loop tg stuck fuel tables1 (sorted1 ++ sub)
       else sort_loop tg stuck fuel tables1 sorted1)
      by (rewrite Et; reflexivity).
    cbv zeta.
    set (leaf := filter (is_free tg sorted) tables).
    set (sorted1 := sorted ++ leaf).
    set (tables1 := filter (fun t => negb (mem t sorted1)) tables).
    assert (Hnone1 : existsb (fun t => mem t sorted1) tables1 = false).
    { apply existsb_false_iff. intros x Hx. unfold tables1 in Hx. apply filter_In in Hx.
      destruct Hx as [_ Hx]. destruct (mem x sorted1); [discriminate|reflexivity]. }
    destruct (Nat.eqb (length tables1) (length tables)) eqn:E.
    + apply Nat.eqb_eq in E. destruct (filter_length_eq _ _ E) as [Heq Hall].
      fold tables1 in Heq.
      destruct (Hst tables1) as [sub [Hsub [x [Hx1 Hx2]]]]; [rewrite Heq; assumption|].
      rewrite Hsub. cbn [bind]. apply IH.
      unfold mu in *. rewrite Heq.
      assert (H1 : existsb (fun t => mem t (sorted1 ++ sub)) tables = true).
      { apply existsb_exists. exists x. split; [rewrite <- Heq; assumption|].
        rewrite mem_app. apply orb_true_iff. right. apply mem_In. assumption. }
      rewrite H1.
      assert (H0 : existsb (fun t => mem t sorted) tables = false).
      { apply existsb_false_iff. intros y Hy. specialize (Hall y Hy).
        unfold sorted1 in Hall. rewrite mem_app in Hall.
        destruct (mem y sorted); [discriminate|reflexivity]. }
      rewrite H0 in Hmu. lia.
    + apply Nat.eqb_neq in E. pose proof (filter_length_le (fun t => negb (mem t sorted1)) tables) as Hle.
      fold tables1 in Hle. apply IH. unfold mu in *. rewrite Hnone1.
      destruct (existsb (fun t => mem t sorted) tables); lia.
Qed.

Lemma sort_loop_covers :
  forall fuel tables sorted l, sort_loop tg stuck fuel tables sorted = Ok l ->
  forall x, In x tables \/ In x sorted -> In x l.
Proof.
  induction fuel as [|fuel IH]; intros tables sorted l H x Hx.
  - destruct tables; cbn [sort_loop] in H; [|discriminate]. inversion H; subst.
    destruct Hx as [[]|Hx]; assumption.
  - destruct tables as [|t0 r0] eqn:Et.
    { cbn [sort_loop] in H. inversion H; subst. destruct Hx as [[]|Hx]; assumption. }
    rewrite <- Et in *.
    replace (sort_loop tg stuck (S fuel) tables sorted) with
      (let leaf := filter (is_free tg sorted) tables in
       let sorted1 := sorted ++ leaf in
       let tables1 := filter (fun t => negb (mem t sorted1)) tables in
       if Nat.eqb (length tables1) (length tables)
       then do sub <- stuck tables1; sort_loop tg stuck fuel tables1 (sorted1 ++ sub)
       else sort_loop tg stuck fuel tables1 sorted1) in H
      by (rewrite Et; reflexivity).
    cbv zeta in H.
    set (leaf := filter (is_free tg sorted) tables) in *.
    set (sorted1 := sorted ++ leaf) in *.
    set (tables1 := filter (fun t => negb (mem t sorted1)) tables) in *.
    assert (Hx1 : In x tables1 \/ In x sorted1).
    { destruct Hx as [Hx|Hx].
      - destruct (mem x sorted1) eqn:Em.
        + right. apply mem_In. assumption.
        + left. unfold tables1. apply filter_In. split; [assumption|]. rewrite Em. reflexivity.
      - right. unfold sorted1. apply in_or_app. auto. }
    destruct (Nat.eqb (length tables1) (length tables)).
    + destruct (stuck tables1) as [sub|e]; cbn [bind] in H; [|discriminate].
      apply (IH _ _ _ H). destruct Hx1 as [Hx1|Hx1]; [auto|].
      right. apply in_or_app. auto.
    + apply (IH _ _ _ H). assumption.
Qed.

Lemma sort_loop_sub :
  (forall ts sub, stuck ts = Ok sub -> forall x, In x sub -> In x ts) ->
  forall fuel tables sorted l, sort_loop tg stuck fuel tables sorted = Ok l ->
  forall x, In x l -> In x tables \/ In x sorted.
Proof.
  intros Hst. induction fuel as [|fuel IH]; intros tables sorted l H x Hx.
  - destruct tables; cbn [sort_loop] in H; [|discriminate]. inversion H; subst. auto.
  - destruct tables as [|t0 r0] eqn:Et.
    { cbn [sort_loop] in H. inversion H; subst. auto. }
    rewrite <- Et in *.
    replace (sort_loop tg stuck (S fuel) tables sorted) with
      (let leaf := filter (is_free tg sorted) tables in
       let sorted1 := sorted ++ leaf in
       let tables1 := filter (fun t => negb (mem t sorted1)) tables in
       if Nat.eqb (length tables1) (length tables)
       then do sub <- stuck tables1; sort_loop tg stuck fuel tables1 (sorted1 ++ sub)
       else sort_loop tg stuck fuel tables1 sorted1) in H
      by (rewrite Et; reflexivity).
    cbv zeta in H.
    set (leaf := filter (is_free tg sorted) tables) in *.
    set (sorted1 := sorted ++ leaf) in *.
    set (tables1 := filter (fun t => negb (mem t sorted1)) tables) in *.
    assert (Hs1 : forall y, In y sorted1 -> In y tables \/ In y sorted).
    { intros y Hy. unfold sorted1 in Hy. apply in_app_or in Hy. destruct Hy as [Hy|Hy]; [auto|].
      left. unfold leaf in Hy. apply filter_In in Hy. tauto. }
    assert (Ht1 : forall y, In y tables1 -> In y tables).
    { intros y Hy. unfold tables1 in Hy. apply filter_In in Hy. tauto. }
    destruct (Nat.eqb (length tables1) (length tables)).
    + destruct (stuck tables1) as [sub|e] eqn:Es; cbn [bind] in H; [|discriminate].
      destruct (IH _ _ _ H x Hx) as [Hy|Hy]; [auto|].
      apply in_app_or in Hy. destruct Hy as [Hy|Hy]; [auto|].
      left. apply Ht1. apply (Hst _ _ Es). assumption.
    + destruct (IH _ _ _ H x Hx) as [Hy|Hy]; auto.
Qed.

(* ---- soundness on graphs that are acyclic when self loops are ignored ---- *)
Definition before (x t : string) (l : list string) : Prop :=
  exists i j, index_of x l = Some i /\ index_of t l = Some j /\ i < j.

Variable all : list string.
Variable rank : string -> nat.
Hypothesis Hgraph : forall t x, In t all -> In x (tg t) -> x <> t -> In x all /\ rank x < rank t.

Definition sinv (tables sorted : list string) : Prop :=
  NoDup tables /\ NoDup sorted /\
  (forall t, In t all <-> In t tables \/ In t sorted) /\
  (forall t, In t tables -> ~ In t sorted) /\
  (forall t x, In t sorted -> In x (tg t) -> x <> t -> before x t sorted).

Lemma exists_min_rank (l : list string) :
  l <> [] -> exists t, In t l /\ forall u, In u l -> rank t <= rank u.
Proof.
  induction l as [|x r IH]; [congruence|]. intros _.
  destruct r as [|y r'].
  - exists x. split; [left; reflexivity|]. intros u [Hu|[]]; subst; lia.
  - destruct IH as [t [Ht Hmin]]; [discriminate|].
    destruct (le_lt_dec (rank x) (rank t)).
    + exists x. split; [left; reflexivity|]. intros u [Hu|Hu]; [subst; lia|].
      specialize (Hmin u Hu). lia.
    + exists t. split; [right; assumption|]. intros u [Hu|Hu]; [subst; lia|auto].
Qed.

Lemma sort_loop_sound :
  forall fuel tables sorted l, sinv tables sorted ->
  sort_loop tg stuck fuel tables sorted = Ok l ->
  NoDup l /\ (forall t, In t l <-> In t all) /\
  (forall t x, In t all -> In x (tg t) -> x <> t -> before x t l).
Proof.
  induction fuel as [|fuel IH]; intros tables sorted l Hinv H.
  - destruct tables; cbn [sort_loop] in H; [|discriminate]. inversion H; subst.
    destruct Hinv as (_ & Hnd & Hall & _ & Hbef). splits.
    + assumption.
    + intros t. rewrite Hall. cbn [In]. tauto.
    + intros t x Ht. apply Hbef. apply Hall in Ht. destruct Ht as [[]|Ht]. assumption.
  - destruct tables as [|t0 r0] eqn:Et.
    { cbn [sort_loop] in H. inversion H; subst.
      destruct Hinv as (_ & Hnd & Hall & _ & Hbef). splits.
      + assumption.
      + intros t. rewrite Hall. cbn [In]. tauto.
      + intros t x Ht. apply Hbef. apply Hall in Ht. destruct Ht as [[]|Ht]. assumption. }
    rewrite <- Et in *.
    assert (Hne : tables <> []) by (rewrite Et; discriminate).
    replace (sort_loop tg stuck (S fuel) tables sorted) with
      (let leaf := filter (is_free tg sorted) tables in
       let sorted1 := sorted ++ leaf in
       let tables1 := filter (fun t => negb (mem t sorted1)) tables in
       if Nat.eqb (length tables1) (length tables)
       then do sub <- stuck tables1; sort_loop tg stuck fuel tables1 (sorted1 ++ sub)
       else sort_loop tg stuck fuel tables1 sorted1) in H
      by (rewrite Et; reflexivity).
    cbv zeta in H.
    set (leaf := filter (is_free tg sorted) tables) in *.
    set (sorted1 := sorted ++ leaf) in *.
    set (tables1 := filter (fun t => negb (mem t sorted1)) tables) in *.
    destruct Hinv as (Hndt & Hnds & Hall & Hdisj & Hbef).
    (* some table is free *)
    destruct (exists_min_rank tables Hne) as [tm [Htm Hmin]].
    assert (Hfree : is_free tg sorted tm = true).
    { unfold is_free. apply forallb_forall. intros x Hx.
      destruct (String.eqb x tm) eqn:E; [apply orb_true_r|]. rewrite orb_false_r.
      assert (Hxt : x <> tm) by (intros ->; rewrite String.eqb_refl in E; discriminate).
      assert (Htma : In tm all) by (apply Hall; auto).
      destruct (Hgraph tm x Htma Hx Hxt) as [Hxa Hr].
      apply mem_In. apply Hall in Hxa. destruct Hxa as [Hxa|Hxa]; [|assumption].
      specialize (Hmin x Hxa). lia. }
    assert (Htl : In tm leaf) by (unfold leaf; apply filter_In; auto).
    assert (Hlt : length tables1 < length tables).
    { unfold tables1. apply (filter_length_lt _ _ tm Htm).
      assert (mem tm sorted1 = true) by (apply mem_In; unfold sorted1; apply in_or_app; auto).
      rewrite H0. reflexivity. }
    assert (E : Nat.eqb (length tables1) (length tables) = false) by (apply Nat.eqb_neq; lia).
    rewrite E in H. apply (IH _ _ _) in H; [assumption|].
    assert (Hleaf_t : forall y, In y leaf -> In y tables /\ is_free tg sorted y = true).
    { intros y Hy. unfold leaf in Hy. apply filter_In in Hy. assumption. }
    unfold sinv. splits.
    + unfold tables1. apply filter_NoDup. assumption.
    + unfold sorted1. apply NoDup_app_intro; [assumption|unfold leaf; apply filter_NoDup; assumption|].
      intros y Hy Hy2. apply Hleaf_t in Hy2. apply (Hdisj y); tauto.
    + intros t. rewrite Hall. unfold tables1, sorted1. rewrite filter_In, in_app_iff. split.
      * intros [Ht|Ht]; [|auto]. destruct (mem t (sorted ++ leaf)) eqn:Em.
        -- right. apply mem_In in Em. apply in_app_or in Em. assumption.
        -- left. split; [assumption|reflexivity].
      * intros [[Ht _]|[Ht|Ht]]; [auto|auto|]. left. apply Hleaf_t in Ht. tauto.
    + intros t Ht Hs. unfold tables1 in Ht. apply filter_In in Ht. destruct Ht as [_ Ht].
      apply mem_In in Hs. rewrite Hs in Ht. discriminate.
    + intros t x Ht Hx Hxt. unfold sorted1 in Ht. apply in_app_or in Ht. destruct Ht as [Ht|Ht].
      * destruct (Hbef t x Ht Hx Hxt) as (i & j & Hi & Hj & Hij).
        exists i, j. unfold sorted1. splits; [| |assumption].
        -- rewrite index_of_app_l; [assumption|]. apply (index_of_Some _ _ _ Hi).
        -- rewrite index_of_app_l; [assumption|]. apply (index_of_Some _ _ _ Hj).
      * destruct (Hleaf_t t Ht) as [Htt Hf].
        unfold is_free in Hf. rewrite forallb_forall in Hf. specialize (Hf x Hx).
        assert (Hxs : In x sorted).
        { apply orb_true_iff in Hf. destruct Hf as [Hf|Hf]; [apply mem_In; assumption|].
          apply String.eqb_eq in Hf. contradiction. }
        destruct (index_of_In _ _ Hxs) as [i [Hi Hil]].
        destruct (index_of_In _ _ Ht) as [k [Hk _]].
        exists i, (length sorted + k). unfold sorted1. splits; [| |lia].
        -- rewrite index_of_app_l; assumption.
        -- rewrite index_of_app_r; [rewrite Hk; reflexivity|]. apply Hdisj. assumption.
Qed.

End SortLoop.

(* ---- the two kinds of stuck action ---- *)
Lemma stuck_min_progress : stuck_progress stuck_min.
Proof.
  intros ts Hne. destruct (min_str_nonempty ts Hne) as [m Hm].
  exists [m]. unfold stuck_min. rewrite Hm. split; [reflexivity|].
  exists m. split; [apply (min_str_In _ _ Hm)|left; reflexivity].
Qed.

Lemma stuck_min_sub ts sub : stuck_min ts = Ok sub -> forall x, In x sub -> In x ts.
Proof.
  unfold stuck_min. destruct (min_str ts) as [m|] eqn:E; intros H; inversion H; subst.
  intros x [Hx|[]]. subst. apply (min_str_In _ _ E).
Qed.

Lemma mu_fuel tables : mu tables [] < sort_fuel tables.
Proof. unfold mu, sort_fuel. destruct (existsb _ _); lia. Qed.

Lemma sort_declared_only_ok declared ts :
  exists sub, sort_declared_only declared ts = Ok sub /\ (forall x, In x ts <-> In x sub).
Proof.
  unfold sort_declared_only.
  destruct (sort_loop_terminates (tg_of declared) stuck_min stuck_min_progress
              (sort_fuel ts) ts [] (mu_fuel ts)) as [sub Hsub].
  exists sub. split; [assumption|]. intros x. split.
  - intros Hx. apply (sort_loop_covers _ _ _ _ _ _ Hsub). auto.
  - intros Hx. destruct (sort_loop_sub _ _ stuck_min_sub _ _ _ _ Hsub x Hx) as [H|[]]. assumption.
Qed.

Lemma sort_declared_only_progress declared : stuck_progress (sort_declared_only declared).
Proof.
  intros ts Hne. destruct (sort_declared_only_ok declared ts) as [sub [Hs Hiff]].
  exists sub. split; [assumption|]. destruct ts as [|x r]; [congruence|].
  exists x. split; [left; reflexivity|]. apply Hiff. left. reflexivity.
Qed.

Definition stuck_of (inferred declared : list (string * list string)) :=
  if (nonempty inferred && nonempty declared)%bool then sort_declared_only declared else stuck_min.

Lemma stuck_of_progress inferred declared : stuck_progress (stuck_of inferred declared).
Proof.
  unfold stuck_of. destruct (nonempty inferred && nonempty declared)%bool;
    [apply sort_declared_only_progress|apply stuck_min_progress].
Qed.

Lemma stuck_of_sub inferred declared ts sub :
  stuck_of inferred declared ts = Ok sub -> forall x, In x sub -> In x ts.
Proof.
  unfold stuck_of. destruct (nonempty inferred && nonempty declared)%bool.
  - intros H x Hx. destruct (sort_declared_only_ok declared ts) as [sub' [Hs Hiff]].
    rewrite Hs in H. inversion H; subst. apply Hiff. assumption.
  - apply stuck_min_sub.
Qed.

(* the fuel always suffices: sort_dependencies never runs out of fuel and never fails *)
Theorem sort_terminates inferred declared tables :
  exists l, sort_dependencies inferred declared tables = Ok l.
Proof.
  unfold sort_dependencies. fold (stuck_of inferred declared).
  apply sort_loop_terminates; [apply stuck_of_progress|apply mu_fuel].
Qed.

Theorem sort_covers inferred declared tables l :
  sort_dependencies inferred declared tables = Ok l -> forall t, In t l <-> In t tables.
Proof.
  unfold sort_dependencies. fold (stuck_of inferred declared). intros H t. split.
  - intros Ht. destruct (sort_loop_sub _ _ (stuck_of_sub inferred declared) _ _ _ _ H t Ht) as [Hx|[]].
    assumption.
  - intros Ht. apply (sort_loop_covers _ _ _ _ _ _ H). auto.
Qed.

Theorem sort_sound inferred declared tables (rank : string -> nat) l :
  NoDup tables ->
  (forall t x, In t tables -> In x (merged_tg inferred declared t) -> x <> t ->
               In x tables /\ rank x < rank t) ->
  sort_dependencies inferred declared tables = Ok l ->
  NoDup l /\
  forall t x, In t tables -> In x (merged_tg inferred declared t) -> x <> t -> before x t l.
Proof.
  intros Hnd Hg H. unfold sort_dependencies in H.
  assert (Hinv : sinv (merged_tg inferred declared) tables tables []).
  { unfold sinv; splits; [assumption|constructor|cbn [In]; tauto|auto|intros ? ? []]. }
  destruct (sort_loop_sound _ _ tables rank Hg _ _ _ _ Hinv H) as (H1 & _ & H3).
  split; assumption.
Qed.

(* ================================================================== dependency persistence *)
Lemma dep_eqb_eq a b : dep_eqb a b = true <-> a = b.
Proof.
  destruct a as [a1 a2 a3], b as [b1 b2 b3]. unfold dep_eqb. cbn [d_from d_to d_field].
  rewrite !andb_true_iff, !String.eqb_eq. split.
  - intros [[-> ->] ->]. reflexivity.
  - intros H. inversion H. auto.
Qed.

Lemma existsb_dep_In d l : existsb (dep_eqb d) l = true <-> In d l.
Proof.
  rewrite existsb_exists. split.
  - intros [y [Hy He]]. apply dep_eqb_eq in He. subst. assumption.
  - intros H. exists d. split; [assumption|]. apply dep_eqb_eq. reflexivity.
Qed.

Lemma oset_add_In d l x : In x (oset_add d l) <-> x = d \/ In x l.
Proof.
  unfold oset_add. destruct (existsb (dep_eqb d) l) eqn:E.
  - apply existsb_dep_In in E. split; [auto|]. intros [->|H]; assumption.
  - rewrite in_app_iff. cbn [In]. intuition congruence.
Qed.

Lemma oset_add_NoDup d l : NoDup l -> NoDup (oset_add d l).
Proof.
  intros H. unfold oset_add. destruct (existsb (dep_eqb d) l) eqn:E; [assumption|].
  apply NoDup_app_intro; [assumption|constructor; [intros []|constructor]|].
  intros x Hx [Hd|[]]. subst.
  assert (existsb (dep_eqb x) l = true) by (apply existsb_dep_In; assumption). congruence.
Qed.

Lemma fold_oset_add_app l : forall acc,
  NoDup (acc ++ l) -> fold_left (fun a d => oset_add d a) l acc = acc ++ l.
Proof.
  induction l as [|d r IH]; intros acc H; cbn [fold_left].
  - rewrite app_nil_r. reflexivity.
  - assert (Hd : existsb (dep_eqb d) acc = false).
    { destruct (existsb (dep_eqb d) acc) eqn:E; [|reflexivity].
      apply existsb_dep_In in E. apply NoDup_remove_2 in H. exfalso. apply H.
      apply in_or_app. auto. }
    unfold oset_add at 2. rewrite Hd. rewrite IH; rewrite <- app_assoc; cbn [app]; [reflexivity|assumption].
Qed.

(* writing the dependencies to a continuation file and reading them back is the identity *)
Lemma save_load_id l : NoDup l -> save_load l = l.
Proof. intros H. unfold save_load. rewrite fold_oset_add_app; [reflexivity|assumption]. Qed.

Lemma run_events_NoDup evs : forall st, NoDup st -> NoDup (run_events evs st).
Proof.
  induction evs as [|[d|] r IH]; intros st H; cbn [run_events]; [assumption| |].
  - apply IH. apply oset_add_NoDup. assumption.
  - apply IH. rewrite save_load_id; assumption.
Qed.

(* stop-and-continue is invisible to the recorded dependencies *)
Theorem deps_persist evs : forall st,
  NoDup st -> run_events evs st = run_events (filter is_obs evs) st.
Proof.
  induction evs as [|[d|] r IH]; intros st H; cbn [run_events filter is_obs]; [reflexivity| |].
  - apply IH. apply oset_add_NoDup. assumption.
  - rewrite save_load_id by assumption. apply IH. assumption.
Qed.

(* ================================================================== tables inferred from the templates *)
Fixpoint find_ti (t : string) (tis : list tinfo) : option tinfo :=
  match tis with
  | [] => None
  | ti :: r => if String.eqb (ti_name ti) t then Some ti else find_ti t r
  end.

Definition upd (o : option tinfo) (tp : ftpl) : option tinfo :=
  Some (match o with
        | Some ti => mkTi (ti_name ti) (add_new (ti_fields ti) (visible_fields (tp_fields tp)))
                          (ti_keys ti ++ [norm_key (tp_key tp)])
        | None => mkTi (tp_table tp) (add_new [] (visible_fields (tp_fields tp))) [norm_key (tp_key tp)]
        end).

Lemma register_find_same tp tis :
  find_ti (tp_table tp) (register tp tis) = upd (find_ti (tp_table tp) tis) tp.
Proof.
  induction tis as [|ti r IH]; cbn [register find_ti].
  - cbn [ti_name]. rewrite String.eqb_refl. reflexivity.
  - destruct (String.eqb (ti_name ti) (tp_table tp)) eqn:E; cbn [find_ti ti_name]; rewrite E;
      [reflexivity|assumption].
Qed.

Lemma register_find_other tp tis t :
  t <> tp_table tp -> find_ti t (register tp tis) = find_ti t tis.
Proof.
  intros Hne. induction tis as [|ti r IH]; cbn [register find_ti].
  - cbn [ti_name]. destruct (String.eqb (tp_table tp) t) eqn:E; [|reflexivity].
    apply String.eqb_eq in E. congruence.
  - destruct (String.eqb (ti_name ti) (tp_table tp)) eqn:E; cbn [find_ti ti_name].
    + apply String.eqb_eq in E. destruct (String.eqb (ti_name ti) t) eqn:E2; [|reflexivity].
      apply String.eqb_eq in E2. congruence.
    + rewrite IH. reflexivity.
Qed.

Lemma register_names tp tis :
  map ti_name (register tp tis) =
  if mem (tp_table tp) (map ti_name tis) then map ti_name tis else map ti_name tis ++ [tp_table tp].
Proof.
  induction tis as [|ti r IH]; cbn [register map]; [reflexivity|].
  unfold mem in *. cbn [existsb]. rewrite (String.eqb_sym (tp_table tp) (ti_name ti)).
  destruct (String.eqb (ti_name ti) (tp_table tp)) eqn:E; cbn [map ti_name orb]; [reflexivity|].
  rewrite IH. destruct (existsb (String.eqb (tp_table tp)) (map ti_name r)); reflexivity.
Qed.

Lemma register_names_NoDup tp tis : NoDup (map ti_name tis) -> NoDup (map ti_name (register tp tis)).
Proof.
  intros H. rewrite register_names. destruct (mem (tp_table tp) (map ti_name tis)) eqn:E; [assumption|].
  apply NoDup_app_intro; [assumption|constructor; [intros []|constructor]|].
  intros x Hx [Hd|[]]. subst. apply mem_false in E. contradiction.
Qed.

Lemma register_names_In tp tis x :
  In x (map ti_name (register tp tis)) <-> In x (map ti_name tis) \/ x = tp_table tp.
Proof.
  rewrite register_names. destruct (mem (tp_table tp) (map ti_name tis)) eqn:E.
  - apply mem_In in E. split; [auto|]. intros [H| ->]; assumption.
  - rewrite in_app_iff. cbn [In]. intuition congruence.
Qed.

Definition tstep (t : string) (o : option tinfo) (tp : ftpl) : option tinfo :=
  if String.eqb (tp_table tp) t then upd o tp else o.

Lemma fold_register_find t tpls : forall acc,
  find_ti t (fold_left (fun a tp => register tp a) tpls acc) = fold_left (tstep t) tpls (find_ti t acc).
Proof.
  induction tpls as [|tp r IH]; intros acc; cbn [fold_left]; [reflexivity|].
  rewrite IH. f_equal. unfold tstep. destruct (String.eqb (tp_table tp) t) eqn:E.
  - apply String.eqb_eq in E. subst. apply register_find_same.
  - apply register_find_other. intros ->. rewrite String.eqb_refl in E. discriminate.
Qed.

Lemma fold_register_names_NoDup tpls : forall acc,
  NoDup (map ti_name acc) -> NoDup (map ti_name (fold_left (fun a tp => register tp a) tpls acc)).
Proof.
  induction tpls as [|tp r IH]; intros acc H; cbn [fold_left]; [assumption|].
  apply IH. apply register_names_NoDup. assumption.
Qed.

Lemma fold_register_names_In tpls x : forall acc,
  In x (map ti_name (fold_left (fun a tp => register tp a) tpls acc)) <->
  In x (map ti_name acc) \/ exists tp, In tp tpls /\ tp_table tp = x.
Proof.
  induction tpls as [|tp r IH]; intros acc; cbn [fold_left].
  - split; [auto|]. intros [H|[tp [[] _]]]. assumption.
  - rewrite IH, register_names_In. cbn [In]. split.
    + intros [[H|H]|[tp' [H1 H2]]]; [auto|right; exists tp; auto|right; exists tp'; auto].
    + intros [H|[tp' [[H1|H1] H2]]]; [auto|subst; auto|right; exists tp'; auto].
Qed.

Definition fields_of (t : string) (tpls : list ftpl) (acc : list string) : list string :=
  fold_left (fun a tp => if String.eqb (tp_table tp) t
                         then add_new a (visible_fields (tp_fields tp)) else a) tpls acc.

Definition keys_of (t : string) (tpls : list ftpl) : list (option string) :=
  map (fun tp => norm_key (tp_key tp)) (filter (fun tp => String.eqb (tp_table tp) t) tpls).

Lemma fold_tstep_Some t tpls : forall ti,
  fold_left (tstep t) tpls (Some ti) =
  Some (mkTi (ti_name ti) (fields_of t tpls (ti_fields ti)) (ti_keys ti ++ keys_of t tpls)).
Proof.
  induction tpls as [|tp r IH]; intros ti; cbn [fold_left].
  - unfold fields_of, keys_of. cbn [fold_left filter map]. rewrite app_nil_r. destruct ti; reflexivity.
  - unfold tstep at 2. unfold fields_of, keys_of. cbn [fold_left filter].
    destruct (String.eqb (tp_table tp) t) eqn:E.
    + unfold upd. rewrite IH. cbn [ti_name ti_fields ti_keys map]. rewrite <- app_assoc. reflexivity.
    + apply IH.
Qed.

Lemma fold_tstep_None t tpls :
  fold_left (tstep t) tpls None =
  match filter (fun tp => String.eqb (tp_table tp) t) tpls with
  | [] => None
  | _ => Some (mkTi t (fields_of t tpls []) (keys_of t tpls))
  end.
Proof.
  induction tpls as [|tp r IH]; cbn [fold_left filter]; [reflexivity|].
  unfold tstep at 2. destruct (String.eqb (tp_table tp) t) eqn:E.
  - unfold upd. rewrite fold_tstep_Some. cbn [ti_name ti_fields ti_keys].
    apply String.eqb_eq in E. unfold fields_of, keys_of. cbn [fold_left filter map].
    rewrite E, String.eqb_refl. reflexivity.
  - rewrite IH. unfold fields_of, keys_of. cbn [fold_left filter]. rewrite E. reflexivity.
Qed.

Lemma all_tables_find t tpls :
  find_ti t (all_tables tpls) =
  match filter (fun tp => String.eqb (tp_table tp) t) tpls with
  | [] => None
  | _ => Some (mkTi t (fields_of t tpls []) (keys_of t tpls))
  end.
Proof. unfold all_tables. rewrite fold_register_find. cbn [find_ti]. apply fold_tstep_None. Qed.

Lemma find_ti_Some t tis ti : find_ti t tis = Some ti -> In ti tis /\ ti_name ti = t.
Proof.
  induction tis as [|x r IH]; cbn [find_ti In]; [discriminate|].
  destruct (String.eqb (ti_name x) t) eqn:E.
  - intros H. inversion H; subst. apply String.eqb_eq in E. auto.
  - intros H. destruct (IH H). auto.
Qed.

Lemma find_ti_In tis ti : NoDup (map ti_name tis) -> In ti tis -> find_ti (ti_name ti) tis = Some ti.
Proof.
  induction tis as [|x r IH]; cbn [map find_ti In]; [tauto|].
  intros Hnd [H|H].
  - subst. rewrite String.eqb_refl. reflexivity.
  - inversion Hnd as [|? ? Hx Hr]; subst. destruct (String.eqb (ti_name x) (ti_name ti)) eqn:E.
    + apply String.eqb_eq in E. exfalso. apply Hx. rewrite E. apply in_map. assumption.
    + apply IH; assumption.
Qed.

Lemma add_new_In old new f : In f (add_new old new) <-> In f old \/ In f new.
Proof.
  unfold add_new. revert old. induction new as [|x r IH]; intros old; cbn [fold_left In]; [tauto|].
  rewrite IH. destruct (mem x old) eqn:E.
  - apply mem_In in E. intuition (subst; auto).
  - rewrite in_app_iff. cbn [In]. intuition.
Qed.

Lemma add_new_NoDup old new : NoDup old -> NoDup (add_new old new).
Proof.
  unfold add_new. revert old. induction new as [|x r IH]; intros old H; cbn [fold_left]; [assumption|].
  apply IH. destruct (mem x old) eqn:E; [assumption|].
  apply NoDup_app_intro; [assumption|constructor; [intros []|constructor]|].
  intros y Hy [Hd|[]]. subst. apply mem_false in E. contradiction.
Qed.

Lemma fields_of_In t tpls f : forall acc,
  In f (fields_of t tpls acc) <->
  In f acc \/ exists tp, In tp tpls /\ tp_table tp = t /\ In f (tp_fields tp) /\ hidden f = false.
Proof.
  unfold fields_of. induction tpls as [|tp r IH]; intros acc; cbn [fold_left].
  - split; [auto|]. intros [H|[tp [[] _]]]. assumption.
  - rewrite IH. destruct (String.eqb (tp_table tp) t) eqn:E.
    + apply String.eqb_eq in E. rewrite add_new_In. unfold visible_fields. rewrite filter_In.
      rewrite negb_true_iff. cbn [In]. split.
      * intros [[H|[H1 H2]]|[tp' [H1 H2]]]; [auto| |right; exists tp'; tauto].
        right. exists tp. auto.
      * intros [H|[tp' [[H1|H1] H2]]]; [auto| |right; exists tp'; tauto].
        subst tp'. tauto.
    + cbn [In]. split.
      * intros [H|[tp' [H1 H2]]]; [auto|right; exists tp'; tauto].
      * intros [H|[tp' [[H1|H1] H2]]]; [auto| |right; exists tp'; tauto].
        subst tp'. destruct H2 as [H2 _]. rewrite H2, String.eqb_refl in E. discriminate.
Qed.

Lemma fields_of_NoDup t tpls : forall acc, NoDup acc -> NoDup (fields_of t tpls acc).
Proof.
  unfold fields_of. induction tpls as [|tp r IH]; intros acc H; cbn [fold_left]; [assumption|].
  apply IH. destruct (String.eqb (tp_table tp) t); [apply add_new_NoDup|]; assumption.
Qed.

Lemma keys_of_In t tpls k :
  In k (keys_of t tpls) <-> exists tp, In tp tpls /\ tp_table tp = t /\ norm_key (tp_key tp) = k.
Proof.
  unfold keys_of. rewrite in_map_iff. split.
  - intros [tp [H1 H2]]. apply filter_In in H2. destruct H2 as [H2 H3]. apply String.eqb_eq in H3.
    exists tp. auto.
  - intros [tp [H1 [H2 H3]]]. exists tp. split; [assumption|]. apply filter_In. split; [assumption|].
    apply String.eqb_eq. assumption.
Qed.

Lemma filter_nonempty_ex {A} (p : A -> bool) l : filter p l <> [] <-> exists x, In x l /\ p x = true.
Proof.
  split.
  - intros H. destruct (filter p l) as [|x r] eqn:E; [congruence|].
    assert (Hx : In x (filter p l)) by (rewrite E; left; reflexivity). apply filter_In in Hx. eauto.
  - intros [x [H1 H2]] E. assert (Hx : In x (filter p l)) by (apply filter_In; auto). rewrite E in Hx.
    destruct Hx.
Qed.

(* a visible field of table t that the mapping has to list *)
Definition vfield (tpls : list ftpl) (t f : string) : Prop :=
  (exists tp, In tp tpls /\ tp_table tp = t /\ In f (tp_fields tp) /\ hidden f = false) /\
  ~ (t = "Account" /\ f = "PersonContactId").

Definition tables_spec (tpls : list ftpl) (tis : list tinfo) : Prop :=
  NoDup (map ti_name tis) /\
  (forall ti, In ti tis ->
     hidden (ti_name ti) = false /\
     (exists tp, In tp tpls /\ tp_table tp = ti_name ti) /\
     NoDup (ti_fields ti) /\
     (forall f, In f (ti_fields ti) <-> vfield tpls (ti_name ti) f) /\
     (forall k, In k (ti_keys ti) <->
                exists tp, In tp tpls /\ tp_table tp = ti_name ti /\ norm_key (tp_key tp) = k)) /\
  (forall tp, In tp tpls -> hidden (tp_table tp) = false ->
              exists ti, In ti tis /\ ti_name ti = tp_table tp).

Lemma all_tables_names_NoDup tpls : NoDup (map ti_name (all_tables tpls)).
Proof. unfold all_tables. apply fold_register_names_NoDup. constructor. Qed.

Lemma all_tables_member tpls ti :
  In ti (all_tables tpls) ->
  (exists tp, In tp tpls /\ tp_table tp = ti_name ti) /\
  ti = mkTi (ti_name ti) (fields_of (ti_name ti) tpls []) (keys_of (ti_name ti) tpls).
Proof.
  intros Hin. pose proof (find_ti_In _ _ (all_tables_names_NoDup tpls) Hin) as Hf.
  rewrite all_tables_find in Hf.
  destruct (filter (fun tp => String.eqb (tp_table tp) (ti_name ti)) tpls) as [|tp0 r0] eqn:E;
    [discriminate|].
  split.
  - assert (Hne : filter (fun tp => String.eqb (tp_table tp) (ti_name ti)) tpls <> [])
      by (rewrite E; discriminate).
    apply filter_nonempty_ex in Hne. destruct Hne as [tp [H1 H2]]. apply String.eqb_eq in H2. eauto.
  - inversion Hf as [Hf']. rewrite <- Hf' at 1. cbn [ti_name]. reflexivity.
Qed.

Lemma infer_tables_spec tpls : tables_spec tpls (remove_pc_field (infer_tables tpls)).
Proof.
  unfold tables_spec.
  assert (Hnames : map ti_name (remove_pc_field (infer_tables tpls)) = map ti_name (infer_tables tpls)).
  { unfold remove_pc_field. rewrite map_map. apply map_ext. intros ti.
    destruct (String.eqb (ti_name ti) "Account"); reflexivity. }
  splits.
  - rewrite Hnames. unfold infer_tables.
    assert (forall (l : list tinfo) p, NoDup (map ti_name l) -> NoDup (map ti_name (filter p l))) as Hf.
    { induction l as [|x r IH]; intros p H; cbn [filter map]; [constructor|].
      inversion H as [|? ? Hx Hr]; subst. destruct (p x); cbn [map]; [|apply IH; assumption].
      constructor; [|apply IH; assumption]. intros Hin. apply Hx.
      apply in_map_iff in Hin. destruct Hin as [y [Hy1 Hy2]]. apply filter_In in Hy2.
      rewrite <- Hy1. apply in_map. tauto. }
    apply Hf. apply all_tables_names_NoDup.
  - intros ti' Hin. unfold remove_pc_field in Hin. apply in_map_iff in Hin.
    destruct Hin as [ti [Heq Hin]]. unfold infer_tables in Hin. apply filter_In in Hin.
    destruct Hin as [Hin Hvis]. apply negb_true_iff in Hvis.
    destruct (all_tables_member _ _ Hin) as [Hex Hshape].
    assert (Hn : ti_name ti' = ti_name ti).
    { rewrite <- Heq. destruct (String.eqb (ti_name ti) "Account"); reflexivity. }
    rewrite Hn.
    assert (Hk : ti_keys ti' = ti_keys ti).
    { rewrite <- Heq. destruct (String.eqb (ti_name ti) "Account"); reflexivity. }
    splits.
    + assumption.
    + assumption.
    + rewrite <- Heq. destruct (String.eqb (ti_name ti) "Account"); cbn [ti_fields].
      * apply filter_NoDup. rewrite Hshape. cbn [ti_fields]. apply fields_of_NoDup. constructor.
      * rewrite Hshape. cbn [ti_fields]. apply fields_of_NoDup. constructor.
    + intros f. unfold vfield. rewrite <- Heq.
      destruct (String.eqb (ti_name ti) "Account") eqn:Ea; cbn [ti_fields].
      * apply String.eqb_eq in Ea. rewrite filter_In. rewrite Hshape at 1. cbn [ti_fields].
        rewrite fields_of_In. cbn [In]. rewrite negb_true_iff. split.
        -- intros [[[]|H] Hf]. split; [assumption|]. intros [_ ->]. cbn in Hf. discriminate.
        -- intros [H Hn2]. split; [auto|]. destruct (String.eqb f "PersonContactId") eqn:Ef; [|reflexivity].
           apply String.eqb_eq in Ef. exfalso. apply Hn2. auto.
      * rewrite Hshape at 1. cbn [ti_fields]. rewrite fields_of_In. cbn [In]. split.
        -- intros [[]|H]. split; [assumption|]. intros [Ht _]. rewrite Ht in Ea. cbn in Ea. discriminate.
        -- intros [H _]. auto.
    + intros k. rewrite Hk. rewrite Hshape at 1. cbn [ti_keys]. apply keys_of_In.
  - intros tp Hin Hvis.
    assert (Hn : In (tp_table tp) (map ti_name (all_tables tpls))).
    { unfold all_tables. apply fold_register_names_In. right. eauto. }
    apply in_map_iff in Hn. destruct Hn as [ti [H1 H2]].
    exists (if String.eqb (ti_name ti) "Account"
            then mkTi (ti_name ti) (filter (fun f => negb (String.eqb f "PersonContactId")) (ti_fields ti))
                      (ti_keys ti) else ti).
    split.
    + unfold remove_pc_field. apply in_map_iff. exists ti. split; [reflexivity|].
      unfold infer_tables. apply filter_In. split; [assumption|]. rewrite H1, Hvis. reflexivity.
    + destruct (String.eqb (ti_name ti) "Account"); cbn [ti_name]; assumption.
Qed.

(* ================================================================== load steps *)
Lemma list_eqb_string_eq (a b : list string) : list_eqb String.eqb a b = true <-> a = b.
Proof.
  revert b. induction a as [|x r IH]; intros [|y s]; cbn [list_eqb]; split; intros H;
    try reflexivity; try discriminate.
  - apply andb_true_iff in H. destruct H as [H1 H2]. apply String.eqb_eq in H1. apply IH in H2.
    subst. reflexivity.
  - inversion H; subst. rewrite String.eqb_refl. cbn [andb]. apply IH. reflexivity.
Qed.

Lemma option_eqb_string_eq (a b : option string) : option_eqb String.eqb a b = true <-> a = b.
Proof.
  destruct a as [x|], b as [y|]; cbn [option_eqb]; split; intros H; try reflexivity; try discriminate.
  - apply String.eqb_eq in H. subst. reflexivity.
  - inversion H. apply String.eqb_refl.
Qed.

Lemma lstep_eqb_eq a b : lstep_eqb a b = true <-> a = b.
Proof.
  destruct a as [a1 a2 a3], b as [b1 b2 b3]. unfold lstep_eqb. cbn [ls_table ls_key ls_fields].
  rewrite !andb_true_iff, String.eqb_eq, option_eqb_string_eq, list_eqb_string_eq. split.
  - intros [[-> ->] ->]. reflexivity.
  - intros H. inversion H. auto.
Qed.

Lemma existsb_lstep_In s l : existsb (lstep_eqb s) l = true <-> In s l.
Proof.
  rewrite existsb_exists. split.
  - intros [y [Hy He]]. apply lstep_eqb_eq in He. subst. assumption.
  - intros H. exists s. split; [assumption|]. apply lstep_eqb_eq. reflexivity.
Qed.

Lemma dedupe_steps_spec l :
  NoDup (dedupe_steps l) /\ forall s, In s (dedupe_steps l) <-> In s l.
Proof.
  unfold dedupe_steps.
  assert (H : forall acc, NoDup acc ->
            NoDup (fold_left (fun a s => lset_add s a) l acc) /\
            forall s, In s (fold_left (fun a s => lset_add s a) l acc) <-> In s acc \/ In s l).
  { induction l as [|x r IH]; intros acc Hacc; cbn [fold_left].
    - split; [assumption|]. intros s. cbn [In]. tauto.
    - assert (Hadd : NoDup (lset_add x acc) /\ forall s, In s (lset_add x acc) <-> In s acc \/ s = x).
      { unfold lset_add. destruct (existsb (lstep_eqb x) acc) eqn:E.
        - apply existsb_lstep_In in E. split; [assumption|]. intros s. split; [auto|].
          intros [H| ->]; assumption.
        - split.
          + apply NoDup_app_intro; [assumption|constructor; [intros []|constructor]|].
            intros y Hy [Hd|[]]. subst.
            assert (existsb (lstep_eqb y) acc = true) by (apply existsb_lstep_In; assumption).
            congruence.
          + intros s. rewrite in_app_iff. cbn [In]. intuition congruence. }
      destruct Hadd as [Hnd Hin]. destruct (IH _ Hnd) as [H1 H2]. split; [assumption|].
      intros s. rewrite H2, Hin. cbn [In]. intuition congruence. }
  destruct (H [] (NoDup_nil _)) as [H1 H2]. split; [assumption|].
  intros s. rewrite H2. cbn [In]. tauto.
Qed.

Lemma raw_steps_In tis s :
  In s (raw_steps tis) <->
  exists ti k, In ti tis /\ In k (ti_keys ti) /\ s = mkLs (ti_name ti) k (ti_fields ti).
Proof.
  unfold raw_steps. rewrite in_flat_map. split.
  - intros [ti [H1 H2]]. apply in_map_iff in H2. destruct H2 as [k [H2 H3]]. exists ti, k. auto.
  - intros [ti [k [H1 [H2 H3]]]]. exists ti. split; [assumption|]. apply in_map_iff. exists k. auto.
Qed.

Lemma mapM_Forall2 {A B} (f : A -> result B) l : forall l',
  mapM f l = Ok l' -> Forall2 (fun x y => f x = Ok y) l l'.
Proof.
  induction l as [|x r IH]; intros l' H; cbn [mapM] in H.
  - inversion H. constructor.
  - destruct (f x) as [y|e] eqn:E; cbn [bind] in H; [|discriminate].
    destruct (mapM f r) as [ys|e]; cbn [bind] in H; [|discriminate].
    inversion H; subst. constructor; [assumption|apply IH; reflexivity].
Qed.

Lemma mapM_ok {A B} (f : A -> result B) l :
  (forall x, In x l -> exists y, f x = Ok y) -> exists l', mapM f l = Ok l'.
Proof.
  induction l as [|x r IH]; intros H; cbn [mapM]; [eexists; reflexivity|].
  destruct (H x (or_introl eq_refl)) as [y Hy]. rewrite Hy. cbn [bind].
  destruct IH as [ys Hys]; [intros z Hz; apply H; right; assumption|].
  rewrite Hys. cbn [bind]. eexists; reflexivity.
Qed.

Lemma insert_by_perm k s l : Permutation (insert_by k s l) ((k, s) :: l).
Proof.
  induction l as [|[k' s'] r IH]; cbn [insert_by]; [apply Permutation_refl|].
  destruct (Nat.leb k k'); [apply Permutation_refl|].
  eapply perm_trans; [apply perm_skip; apply IH|apply perm_swap].
Qed.

Lemma sort_keyed_perm l : Permutation (sort_keyed l) l.
Proof.
  unfold sort_keyed. induction l as [|[k s] r IH]; cbn [fold_right fst snd]; [constructor|].
  eapply perm_trans; [apply insert_by_perm|]. apply perm_skip. assumption.
Qed.

Lemma key_step_snd order l l' :
  Forall2 (fun x y => key_step order x = Ok y) l l' -> map snd l' = l.
Proof.
  intros H. induction H as [|x y r r' Hxy Hr IH]; cbn [map]; [reflexivity|].
  unfold key_step in Hxy. destruct (index_of (ls_table x) order); [|discriminate].
  injection Hxy as <-. cbn [snd]. rewrite IH. reflexivity.
Qed.

Lemma load_steps_perm tis order steps :
  load_steps tis order = Ok steps -> Permutation steps (dedupe_steps (raw_steps tis)).
Proof.
  unfold load_steps. intros H.
  destruct (mapM (key_step order) (dedupe_steps (raw_steps tis))) as [keyed|e] eqn:E;
    cbn [bind] in H; [|discriminate].
  inversion H; subst. apply mapM_Forall2 in E.
  rewrite <- (key_step_snd _ _ _ E). apply Permutation_map. apply sort_keyed_perm.
Qed.

Lemma load_steps_spec tis order steps :
  load_steps tis order = Ok steps ->
  NoDup steps /\
  forall s, In s steps <->
            exists ti k, In ti tis /\ In k (ti_keys ti) /\ s = mkLs (ti_name ti) k (ti_fields ti).
Proof.
  intros H. apply load_steps_perm in H. destruct (dedupe_steps_spec (raw_steps tis)) as [H1 H2]. split.
  - apply (Permutation_NoDup (Permutation_sym H)). assumption.
  - intros s. rewrite <- raw_steps_In, <- H2. split; apply Permutation_in; [assumption|].
    apply Permutation_sym. assumption.
Qed.

Lemma load_steps_ok tis order :
  (forall ti, In ti tis -> In (ti_name ti) order) -> exists steps, load_steps tis order = Ok steps.
Proof.
  intros H. unfold load_steps.
  destruct (mapM_ok (key_step order) (dedupe_steps (raw_steps tis))) as [keyed Hk].
  - intros s Hs. apply (proj1 (proj2 (dedupe_steps_spec _) s)) in Hs. apply raw_steps_In in Hs.
    destruct Hs as [ti [k [H1 [H2 H3]]]]. subst s. unfold key_step. cbn [ls_table].
    destruct (index_of_In _ _ (H ti H1)) as [i [Hi _]]. rewrite Hi. eexists; reflexivity.
  - rewrite Hk. cbn [bind]. eexists; reflexivity.
Qed.

(* ================================================================== step names *)
Lemma append_space_split t1 : forall t2 r1 r2,
  has_space t1 = false -> has_space t2 = false ->
  String.append t1 (String " " r1) = String.append t2 (String " " r2) -> t1 = t2 /\ r1 = r2.
Proof.
  induction t1 as [|c1 t1 IH]; intros [|c2 t2] r1 r2 H1 H2 H; cbn [String.append has_space] in *.
  - inversion H. auto.
  - inversion H; subst. rewrite Ascii.eqb_refl in H2. discriminate.
  - inversion H; subst. rewrite Ascii.eqb_refl in H1. discriminate.
  - inversion H; subst.
    destruct (Ascii.eqb c2 " "); [discriminate|].
    destruct (IH _ _ _ H1 H2 H4) as [-> ->]. auto.
Qed.

Lemma step_name_inj t1 k1 t2 k2 :
  has_space t1 = false -> has_space t2 = false ->
  step_name t1 k1 = step_name t2 k2 -> t1 = t2 /\ k1 = k2.
Proof.
  intros H1 H2 H. destruct k1 as [k1|], k2 as [k2|]; unfold step_name in H;
    cbn [String.append] in H.
  - inversion H as [H0]. change (String.append " on " k1) with (String " " (String.append "on " k1)) in H0.
    change (String.append " on " k2) with (String " " (String.append "on " k2)) in H0.
    destruct (append_space_split _ _ _ _ H1 H2 H0) as [-> Hk]. cbn [String.append] in Hk.
    inversion Hk. auto.
  - inversion H.
  - inversion H.
  - inversion H. auto.
Qed.

(* ================================================================== dicts *)
Lemma assoc_get_dict_set {A} k k' (v : A) l :
  assoc_get k (dict_set k' v l) = if String.eqb k k' then Some v else assoc_get k l.
Proof.
  induction l as [|[k0 v0] r IH]; cbn [dict_set assoc_get].
  - destruct (String.eqb k k'); reflexivity.
  - destruct (String.eqb k' k0) eqn:E; cbn [assoc_get].
    + apply String.eqb_eq in E. subst k0. destruct (String.eqb k k'); reflexivity.
    + rewrite IH. destruct (String.eqb k k0) eqn:E2; [|reflexivity].
      apply String.eqb_eq in E2. subst k0. destruct (String.eqb k k') eqn:E3; [|reflexivity].
      apply String.eqb_eq in E3. subst. rewrite String.eqb_refl in E. discriminate.
Qed.

Lemma dict_set_notin {A} k (v : A) l : ~ In k (map fst l) -> dict_set k v l = l ++ [(k, v)].
Proof.
  induction l as [|[k0 v0] r IH]; cbn [dict_set map fst In app]; intros H; [reflexivity|].
  destruct (String.eqb k k0) eqn:E.
  - apply String.eqb_eq in E. subst. tauto.
  - rewrite IH; [reflexivity|tauto].
Qed.

Lemma fold_dict_set_nodup {A} (kvs : list (string * A)) : forall acc,
  NoDup (map fst (acc ++ kvs)) ->
  fold_left (fun a nm => dict_set (fst nm) (snd nm) a) kvs acc = acc ++ kvs.
Proof.
  induction kvs as [|[k v] r IH]; intros acc H; cbn [fold_left fst snd].
  - rewrite app_nil_r. reflexivity.
  - rewrite dict_set_notin.
    + rewrite IH; rewrite <- app_assoc; cbn [app]; [reflexivity|assumption].
    + rewrite map_app in H. cbn [map fst] in H. apply NoDup_remove_2 in H.
      intros Hin. apply H. apply in_or_app. auto.
Qed.

(* ================================================================== reference_fields *)
Lemma ref_target_Some ds t f to : ref_target ds t f = Some to -> In (mkDep t to f) ds.
Proof.
  unfold ref_target.
  assert (H : forall acc, fold_left (fun acc d => if (String.eqb (d_from d) t && String.eqb (d_field d) f)%bool
                                             then Some (d_to d) else acc) ds acc = Some to ->
                          acc = Some to \/ In (mkDep t to f) ds).
  { induction ds as [|d r IH]; intros acc H; cbn [fold_left] in H; [auto|].
    destruct (IH _ H) as [H1|H1]; [|right; right; assumption].
    destruct (String.eqb (d_from d) t && String.eqb (d_field d) f)%bool eqn:E; [|auto].
    apply andb_true_iff in E. destruct E as [E1 E2]. apply String.eqb_eq in E1, E2.
    right. left. destruct d as [a b c]. cbn in *. inversion H1. subst. reflexivity. }
  intros H0. destruct (H None H0) as [H1|H1]; [discriminate|assumption].
Qed.

Lemma ref_target_None ds t f :
  ref_target ds t f = None <-> forall d, In d ds -> ~ (d_from d = t /\ d_field d = f).
Proof.
  unfold ref_target.
  assert (H : forall acc, fold_left (fun acc d => if (String.eqb (d_from d) t && String.eqb (d_field d) f)%bool
                                             then Some (d_to d) else acc) ds acc = None <->
                          acc = None /\ forall d, In d ds -> ~ (d_from d = t /\ d_field d = f)).
  { induction ds as [|d r IH]; intros acc; cbn [fold_left In]; [intuition|].
    rewrite IH. destruct (String.eqb (d_from d) t && String.eqb (d_field d) f)%bool eqn:E.
    - apply andb_true_iff in E. destruct E as [E1 E2]. apply String.eqb_eq in E1, E2. split.
      + intros [H _]. discriminate.
      + intros [_ H]. exfalso. apply (H d); auto.
    - split.
      + intros [H1 H2]. split; [assumption|]. intros d' [Hd|Hd]; [|auto]. subst d'.
        intros [E1 E2]. subst. rewrite !String.eqb_refl in E. discriminate.
      + intros [H1 H2]. split; [assumption|]. intros d' Hd. apply H2. auto. }
  rewrite H. tauto.
Qed.

(* ================================================================== one load step -> one mapping step *)
Definition lookups_of (loadable : list dep) (t : string) (fs : list string) : list lookup :=
  flat_map (fun f => match ref_target loadable t f with
                     | Some to => [mkLk f to None]
                     | None => []
                     end) fs.

Definition plain_of (loadable : list dep) (t : string) (rt : option string) (fs : list string) :=
  filter (fun f => negb (is_some (ref_target loadable t f))
                   && negb (option_eqb String.eqb (Some f) rt))%bool fs.

Definition fields_of_step (loadable : list dep) (t : string) (rt : option string) (fs : list string) :=
  match rt with
  | Some c => dict_set "RecordTypeId" c (map (fun f => (f, f)) (plain_of loadable t rt fs))
  | None => map (fun f => (f, f)) (plain_of loadable t rt fs)
  end.

Lemma step_body_spec steps loadable decls s name m :
  step_body steps loadable decls s = Ok (name, m) ->
  name = step_name (ls_table s) (ls_key s) /\
  m_table m = ls_table s /\ m_update_key m = ls_key s /\
  m_sf_object m = (if String.eqb (ls_table s) "PersonContact" then "Contact" else ls_table s) /\
  m_lookups m = lookups_of loadable (ls_table s) (ls_fields s) /\
  exists rt, find_rt (ls_fields s) = Ok rt /\
             m_fields m = fields_of_step loadable (ls_table s) rt (ls_fields s).
Proof.
  unfold step_body. destruct (find_rt (ls_fields s)) as [rt|e] eqn:E; cbn [bind]; [|discriminate].
  destruct (ls_key s) as [key|] eqn:Ek; intros H; inversion H; subst; cbn;
    splits; try reflexivity; exists rt; split; reflexivity.
Qed.

Lemma step_body_ok steps loadable decls s :
  (exists rt, find_rt (ls_fields s) = Ok rt) -> exists nm, step_body steps loadable decls s = Ok nm.
Proof.
  intros [rt Hrt]. unfold step_body. rewrite Hrt. cbn [bind].
  destruct (ls_key s); eexists; reflexivity.
Qed.

Lemma lookups_of_In ld t fs l :
  In l (lookups_of ld t fs) <->
  In (lk_field l) fs /\ ref_target ld t (lk_field l) = Some (lk_table l) /\ lk_after l = None.
Proof.
  unfold lookups_of. rewrite in_flat_map. split.
  - intros [f [H1 H2]]. destruct (ref_target ld t f) as [to|] eqn:E; [|destruct H2].
    destruct H2 as [H2|[]]. subst l. cbn. auto.
  - intros [H1 [H2 H3]]. exists (lk_field l). split; [assumption|]. rewrite H2.
    left. destruct l; cbn in *. subst. reflexivity.
Qed.

Lemma lookups_of_fields ld t fs :
  map lk_field (lookups_of ld t fs) = filter (fun f => is_some (ref_target ld t f)) fs.
Proof.
  unfold lookups_of. induction fs as [|f r IH]; cbn [flat_map filter map]; [reflexivity|].
  rewrite map_app, IH. destruct (ref_target ld t f); reflexivity.
Qed.

Lemma is_rt_RecordTypeId : is_rt "RecordTypeId" = true.
Proof. reflexivity. Qed.

Lemma find_rt_Some fs c : find_rt fs = Ok (Some c) -> filter is_rt fs = [c].
Proof.
  unfold find_rt. destruct (filter is_rt fs) as [|x [|y r]]; intros H; inversion H. reflexivity.
Qed.

Lemma find_rt_None fs : find_rt fs = Ok None -> filter is_rt fs = [].
Proof.
  unfold find_rt. destruct (filter is_rt fs) as [|x [|y r]]; intros H; inversion H. reflexivity.
Qed.

Lemma fields_of_step_cols ld t rt fs :
  find_rt fs = Ok rt ->
  map snd (fields_of_step ld t rt fs) =
  plain_of ld t rt fs ++ (match rt with Some c => [c] | None => [] end).
Proof.
  intros Hrt. unfold fields_of_step. destruct rt as [c|].
  - rewrite dict_set_notin.
    + rewrite map_app, map_map. cbn [map snd]. rewrite map_id. reflexivity.
    + rewrite map_map. cbn [fst]. rewrite map_id. unfold plain_of. intros Hin.
      apply filter_In in Hin. destruct Hin as [Hin Hp]. apply andb_true_iff in Hp. destruct Hp as [_ Hp].
      assert (Hf : In "RecordTypeId" (filter is_rt fs)) by (apply filter_In; split; [assumption|reflexivity]).
      rewrite (find_rt_Some _ _ Hrt) in Hf. destruct Hf as [Hf|[]]. subst c.
      cbn [option_eqb] in Hp. rewrite String.eqb_refl in Hp. discriminate.
  - rewrite map_map. cbn [snd]. rewrite map_id, app_nil_r. reflexivity.
Qed.

Lemma rt_in_fields fs c : find_rt fs = Ok (Some c) -> In c fs /\ is_rt c = true.
Proof.
  intros H. apply find_rt_Some in H.
  assert (Hc : In c (filter is_rt fs)) by (rewrite H; left; reflexivity). apply filter_In in Hc. assumption.
Qed.

Lemma fields_of_step_facts ld t rt fs :
  NoDup fs -> find_rt fs = Ok rt ->
  NoDup (map snd (fields_of_step ld t rt fs)) /\
  (forall f, In f (map snd (fields_of_step ld t rt fs)) ->
             In f fs /\ (ref_target ld t f = None \/ is_rt f = true)) /\
  (forall f, In f fs -> ref_target ld t f = None -> In f (map snd (fields_of_step ld t rt fs))).
Proof.
  intros Hnd Hrt. rewrite (fields_of_step_cols _ _ _ _ Hrt). splits.
  - destruct rt as [c|]; [|rewrite app_nil_r; apply filter_NoDup; assumption].
    apply NoDup_app_intro; [apply filter_NoDup; assumption|constructor; [intros []|constructor]|].
    intros x Hx [Hc|[]]. subst x. unfold plain_of in Hx. apply filter_In in Hx.
    destruct Hx as [_ Hp]. apply andb_true_iff in Hp. destruct Hp as [_ Hp].
    cbn [option_eqb] in Hp. rewrite String.eqb_refl in Hp. discriminate.
  - intros f Hf. apply in_app_or in Hf. destruct Hf as [Hf|Hf].
    + unfold plain_of in Hf. apply filter_In in Hf. destruct Hf as [Hf Hp].
      apply andb_true_iff in Hp. destruct Hp as [Hp _]. split; [assumption|]. left.
      destruct (ref_target ld t f); [discriminate|reflexivity].
    + destruct rt as [c|]; [|destruct Hf]. destruct Hf as [Hf|[]]. subst f.
      destruct (rt_in_fields _ _ Hrt). auto.
  - intros f Hf Hr. apply in_or_app.
    destruct (option_eqb String.eqb (Some f) rt) eqn:E.
    + right. destruct rt as [c|]; [|discriminate]. cbn [option_eqb] in E. apply String.eqb_eq in E.
      subst. left. reflexivity.
    + left. unfold plain_of. apply filter_In. split; [assumption|]. rewrite Hr, E. reflexivity.
Qed.
