(* LcgP.v — Hull–Dobell for power-of-two moduli, from first principles.
   f x = (a*x + c) mod 2^k with a = 1 (mod 4) and c odd has full period 2^k.        *)
From Coq Require Import ZArith List Lia Znumtheory Zpow_facts Bool Permutation.
From SFV Require Import Base.
From SFV.P Require Import BaseP.
Import ListNotations. Open Scope Z_scope.

(* geometric sum G a n = 1 + a + ... + a^(n-1) *)
Fixpoint G (a : Z) (n : nat) : Z :=
  match n with O => 0 | S m => 1 + a * G a m end.

Lemma G_add a m n : G a (m + n) = G a m + a ^ (Z.of_nat m) * G a n.
Proof.
  induction m as [|m IH]; cbn [G Nat.add].
  - change (Z.of_nat 0) with 0. rewrite Z.pow_0_r. lia.
  - rewrite IH. rewrite Nat2Z.inj_succ, Z.pow_succ_r by lia. ring.
Qed.

Lemma G_double a n : G a (n + n) = G a n * (1 + a ^ (Z.of_nat n)).
Proof. rewrite G_add. ring. Qed.

Lemma G_geom a n : a ^ (Z.of_nat n) - 1 = (a - 1) * G a n.
Proof.
  induction n as [|n IH]; cbn [G].
  - change (Z.of_nat 0) with 0. rewrite Z.pow_0_r. lia.
  - rewrite Nat2Z.inj_succ, Z.pow_succ_r by lia.
    replace (a * a ^ Z.of_nat n - 1) with (a * (a ^ Z.of_nat n - 1) + (a - 1)) by ring.
    rewrite IH. ring.
Qed.

(* unreduced iterate: a^n x + c G_n *)
Definition lin a c (n : nat) (x : Z) := a ^ (Z.of_nat n) * x + c * G a n.

Lemma lin_diff a c i d x :
  lin a c (i + d) x - lin a c i x = a ^ (Z.of_nat i) * (G a d * ((a - 1) * x + c)).
Proof.
  unfold lin. rewrite G_add, Nat2Z.inj_add, Z.pow_add_r by lia.
  pose proof (G_geom a d) as Hg.
  replace (a ^ Z.of_nat i * a ^ Z.of_nat d * x) with
      (a ^ Z.of_nat i * ((a ^ Z.of_nat d - 1) * x) + a ^ Z.of_nat i * x) by ring.
  rewrite Hg. ring.
Qed.

Section LCG.
  Variables (a c m : Z).
  Hypothesis Hm : 0 < m.
  Definition f (x : Z) := (x * a + c) mod m.
  Fixpoint iter (n : nat) (x : Z) : Z :=
    match n with O => x | S k => f (iter k x) end.

  Lemma iter_lin n x : 0 <= x < m -> iter n x = lin a c n x mod m.
  Proof.
    intros Hx. induction n as [|n IH]; cbn [iter].
    - unfold lin. cbn [G]. change (Z.of_nat 0) with 0.
      rewrite Z.pow_0_r, Z.mul_1_l, Z.mul_0_r, Z.add_0_r, Z.mod_small; lia.
    - rewrite IH. unfold f, lin. cbn [G]. rewrite Nat2Z.inj_succ, Z.pow_succ_r by lia.
      rewrite Zplus_mod, Zmult_mod_idemp_l, <- Zplus_mod. f_equal. ring.
  Qed.

  Lemma iter_range n x : 0 <= x < m -> 0 <= iter n x < m.
  Proof.
    intros Hx; destruct n; cbn [iter]; [lia|]. unfold f. apply Z.mod_pos_bound; lia.
  Qed.

  Lemma iter_succ_r n x : iter (S n) x = iter n (f x).
  Proof. induction n as [|n IH]; cbn [iter] in *; congruence. Qed.

  (* the orbit: [x; f x; ...; f^(n-1) x] *)
  Fixpoint orbit (n : nat) (x : Z) : list Z :=
    match n with O => [] | S k => x :: orbit k (f x) end.

  Lemma orbit_length n x : length (orbit n x) = n.
  Proof. revert x; induction n; intros; cbn [orbit length]; auto. Qed.

  Lemma orbit_nth n x i : (i < n)%nat -> nth_error (orbit n x) i = Some (iter i x).
  Proof.
    revert x i; induction n as [|n IH]; intros x i Hi; [lia|].
    destruct i as [|i]; cbn [orbit nth_error]; [reflexivity|].
    rewrite IH by lia. rewrite iter_succ_r. reflexivity.
  Qed.

  Lemma orbit_In n x y : In y (orbit n x) -> exists i, (i < n)%nat /\ y = iter i x.
  Proof.
    intros H. apply In_nth_error in H. destruct H as [i Hi].
    assert (i < n)%nat.
    { rewrite <- (orbit_length n x). apply nth_error_Some. congruence. }
    exists i. split; [assumption|]. rewrite orbit_nth in Hi by assumption. congruence.
  Qed.
End LCG.

(* ---------- 2-adic facts ---------- *)

Lemma pow_mod4 a n : a mod 4 = 1 -> (a ^ Z.of_nat n) mod 4 = 1.
Proof.
  intros Ha. induction n as [|n IH].
  - reflexivity.
  - rewrite Nat2Z.inj_succ, Z.pow_succ_r by lia. rewrite Zmult_mod, Ha, IH. reflexivity.
Qed.

Lemma odd_of_mod4 a : a mod 4 = 1 -> Z.odd a = true.
Proof.
  intros Ha. pose proof (Z.div_mod a 4 ltac:(lia)) as H.
  replace a with (1 + 2 * (2 * (a / 4))) by lia. apply Z.odd_add_mul_2.
Qed.

(* G a n has the parity of n when a is odd *)
Lemma G_parity a n : Z.odd a = true -> Z.odd (G a n) = Nat.odd n.
Proof.
  intros Ha. induction n as [|n IH]; cbn [G].
  - reflexivity.
  - rewrite Z.odd_add, Z.odd_mul, Ha, IH. cbn [andb Z.odd xorb].
    rewrite Nat.odd_succ. rewrite <- Nat.negb_odd. destruct (Nat.odd n); reflexivity.
Qed.

Lemma odd_not_div2 q k : Z.odd q = true -> 0 < k -> ~ (2 ^ k | q).
Proof.
  intros Hq Hk [t Ht].
  replace k with (Z.succ (k - 1)) in Ht by lia. rewrite Z.pow_succ_r in Ht by lia.
  assert (Z.odd q = false).
  { rewrite Ht. replace (t * (2 * 2 ^ (k - 1))) with (0 + 2 * (t * 2 ^ (k - 1))) by ring.
    rewrite Z.odd_add_mul_2. reflexivity. }
  congruence.
Qed.

Lemma rel_prime_odd_pow2 q k : Z.odd q = true -> 0 <= k -> rel_prime (2 ^ k) q.
Proof.
  intros Hq Hk. apply rel_prime_sym. apply rel_prime_Zpower_r; [assumption|].
  apply rel_prime_sym. apply prime_rel_prime; [apply prime_2|].
  intros [t Ht]. assert (Z.odd q = false).
  { rewrite Ht. replace (t * 2) with (0 + 2 * t) by ring. rewrite Z.odd_add_mul_2. reflexivity. }
  congruence.
Qed.

(* the key valuation fact: for 0 < d < 2^k, 2^k does not divide G a d *)
Lemma G_not_div a : a mod 4 = 1 ->
  forall (k : nat) (d : nat), (0 < d)%nat -> Z.of_nat d < 2 ^ Z.of_nat k ->
  ~ (2 ^ Z.of_nat k | G a d).
Proof.
  intros Ha. pose proof (odd_of_mod4 a Ha) as Hodd.
  induction k as [|k IH]; intros d Hd Hlt.
  - change (2 ^ Z.of_nat 0) with 1 in Hlt. lia.
  - destruct (Nat.odd d) eqn:Hpar.
    + apply odd_not_div2; [|lia]. rewrite G_parity by assumption. assumption.
    + (* d = d' + d' *)
      assert (Hev : Nat.even d = true) by (rewrite <- Nat.negb_odd, Hpar; reflexivity).
      apply Nat.even_spec in Hev. destruct Hev as [d' Hd'].
      assert (Hdd : d = (d' + d')%nat) by lia. clear Hd'. subst d.
      rewrite G_double. intros Hdiv.
      pose proof (pow_mod4 a d' Ha) as H4.
      set (A := a ^ Z.of_nat d') in *.
      pose proof (Z.div_mod A 4 ltac:(lia)) as HA.
      assert (E : 1 + A = 2 * (1 + 2 * (A / 4))) by lia.
      rewrite E in Hdiv.
      rewrite Nat2Z.inj_succ, Z.pow_succ_r in Hdiv by lia.
      replace (G a d' * (2 * (1 + 2 * (A / 4)))) with (2 * (G a d' * (1 + 2 * (A / 4)))) in Hdiv by ring.
      apply Z.mul_divide_cancel_l in Hdiv; [|lia].
      rewrite Z.mul_comm in Hdiv.
      apply Gauss in Hdiv.
      * apply (IH d'); [lia| |exact Hdiv].
        rewrite Nat2Z.inj_succ, Z.pow_succ_r in Hlt by lia. lia.
      * apply rel_prime_odd_pow2; [|lia]. apply Z.odd_add_mul_2.
Qed.

Lemma mod_eq_divide m x y : 0 < m -> x mod m = y mod m -> (m | y - x).
Proof.
  intros Hm H. pose proof (Z.div_mod x m ltac:(lia)). pose proof (Z.div_mod y m ltac:(lia)).
  exists (y / m - x / m). lia.
Qed.

Section FullPeriod.
  Variables (a c : Z) (k : nat).
  Hypothesis Ha : a mod 4 = 1.
  Hypothesis Hc : Z.odd c = true.
  Let m := 2 ^ Z.of_nat k.

  Lemma m_pos : 0 < m.
  Proof. unfold m. apply Z.pow_pos_nonneg; lia. Qed.

  Lemma iter_distinct x i d :
    0 <= x < m -> (0 < d)%nat -> Z.of_nat d < m ->
    iter a c m i x <> iter a c m (i + d) x.
  Proof.
    intros Hx Hd Hlt Heq. pose proof m_pos as Hm.
    rewrite !iter_lin in Heq by assumption.
    apply mod_eq_divide in Heq; [|assumption].
    rewrite lin_diff in Heq.
    assert (Hai : Z.odd (a ^ Z.of_nat i) = true) by (apply odd_of_mod4, pow_mod4, Ha).
    assert (Hz : Z.odd ((a - 1) * x + c) = true).
    { pose proof (Z.div_mod a 4 ltac:(lia)) as H.
      replace ((a - 1) * x + c) with (c + 2 * (2 * (a / 4) * x)) by lia.
      rewrite Z.odd_add_mul_2. exact Hc. }
    apply Gauss in Heq; [|apply rel_prime_odd_pow2; [assumption|lia]].
    rewrite Z.mul_comm in Heq.
    apply Gauss in Heq; [|apply rel_prime_odd_pow2; [assumption|lia]].
    exact (G_not_div a Ha k d Hd Hlt Heq).
  Qed.

  Theorem orbit_NoDup x : 0 <= x < m -> NoDup (orbit a c m (Z.to_nat m) x).
  Proof.
    intros Hx. pose proof m_pos as Hm. apply NoDup_nth_error. intros i j Hi Hij.
    rewrite orbit_length in Hi.
    assert (Hj : (j < Z.to_nat m)%nat).
    { rewrite <- (orbit_length a c m (Z.to_nat m) x). apply nth_error_Some.
      rewrite <- Hij. rewrite orbit_nth by assumption. discriminate. }
    rewrite !orbit_nth in Hij by assumption.
    injection Hij as Hij.
    destruct (Nat.lt_trichotomy i j) as [Hlt|[Heq|Hgt]]; [|assumption|]; exfalso.
    - replace j with (i + (j - i))%nat in Hij by lia.
      apply (iter_distinct x i (j - i)%nat) in Hij; [assumption|assumption|lia|lia].
    - replace i with (j + (i - j))%nat in Hij by lia. symmetry in Hij.
      apply (iter_distinct x j (i - j)%nat) in Hij; [assumption|assumption|lia|lia].
  Qed.

  Lemma orbit_in_range n x y : 0 <= x < m -> In y (orbit a c m n x) -> 0 <= y < m.
  Proof.
    intros Hx Hy. apply orbit_In in Hy. destruct Hy as [i [_ ->]].
    apply iter_range; [apply m_pos|assumption].
  Qed.

  (* full period: the first 2^k iterates hit every residue *)
  Theorem orbit_complete x y :
    0 <= x < m -> 0 <= y < m -> In y (orbit a c m (Z.to_nat m) x).
  Proof.
    intros Hx Hy.
    assert (Hincl : incl (Zseq 0 (Z.to_nat m)) (orbit a c m (Z.to_nat m) x)).
    { apply NoDup_length_incl.
      - apply orbit_NoDup; assumption.
      - rewrite Zseq_length, orbit_length. lia.
      - intros z Hz. apply Zseq_In. apply (orbit_in_range _ _ _ Hx) in Hz. lia. }
    apply Hincl. apply Zseq_In. lia.
  Qed.
End FullPeriod.
