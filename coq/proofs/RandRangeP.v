(* RandRangeP.v — proofs about the model of randomized_range.py (property C12). *)
From Coq Require Import ZArith List Lia Bool Permutation ZifyBool.
From SFV Require Import Base RandRange.
From SFV.P Require Import BaseP LcgP.
Import ListNotations. Open Scope Z_scope.

Ltac Zify.zify_post_hook ::= Z.to_euclidean_division_equations.

Ltac splits := repeat match goal with |- _ /\ _ => split end.

Definition inr (size v : Z) : bool := v <? size.

Definition params (g : lcg) := (g_start g, g_size g, g_mult g, g_off g, g_mod g).

Definition gorbit (g : lcg) (n : nat) (x : Z) : list Z :=
  orbit (g_mult g) (g_off g) (g_mod g) n x.

(* ---------- the while loop computes the filtered orbit ---------- *)

Lemma length_zero_nil {A} (l : list A) : length l = 0%nat -> l = [].
Proof. destruct l; cbn; [reflexivity|discriminate]. Qed.

Lemma drain_spec N : forall g fuel,
  g_found g <= g_size g ->
  Z.of_nat (length (filter (inr (g_size g)) (gorbit g N (g_value g)))) = g_size g - g_found g ->
  (N < fuel)%nat ->
  gen_drain fuel g =
  Ok (map (fun v => v + g_start g) (filter (inr (g_size g)) (gorbit g N (g_value g)))).
Proof.
  induction N as [|N IH]; intros g fuel Hle Hcnt Hf;
    (destruct fuel as [|fuel]; [lia|]); destruct g as [st sz mu off md v fd];
    unfold gorbit in *; cbn [gen_drain g_start g_size g_mult g_off g_mod g_value g_found] in *.
  - cbn [orbit filter length map] in *.
    destruct (fd <? sz) eqn:E; [exfalso; lia|reflexivity].
  - cbn [orbit filter] in *. unfold inr at 1 in Hcnt. unfold inr at 1.
    destruct (fd <? sz) eqn:E.
    + destruct (v <? sz) eqn:Ev.
      * cbn [length] in Hcnt.
        rewrite (IH (mkLcg st sz mu off md (lcg_f (mkLcg st sz mu off md v fd) v) (fd + 1)) fuel);
          cbn [g_start g_size g_mult g_off g_mod g_value g_found]; try lia.
        -- cbn [bind map]. reflexivity.
        -- unfold lcg_f, f in *; cbn [g_mult g_off g_mod] in *. lia.
      * rewrite (IH (mkLcg st sz mu off md (lcg_f (mkLcg st sz mu off md v fd) v) fd) fuel);
          cbn [g_start g_size g_mult g_off g_mod g_value g_found]; try lia.
        -- reflexivity.
        -- unfold lcg_f, f in *; cbn [g_mult g_off g_mod] in *. lia.
    + assert (Hn : length (if v <? sz
                           then v :: filter (inr sz) (orbit mu off md N (f mu off md v))
                           else filter (inr sz) (orbit mu off md N (f mu off md v))) = 0%nat) by lia.
      apply length_zero_nil in Hn. rewrite Hn. reflexivity.
Qed.

(* ---------- well-formed generators ---------- *)

Definition gen_ok (g : lcg) : Prop :=
  1 <= g_size g /\ g_mult g mod 4 = 1 /\ Z.odd (g_off g) = true /\
  exists k : nat, g_mod g = 2 ^ Z.of_nat k /\ g_size g <= g_mod g.

Lemma full_filter g x :
  gen_ok g -> 0 <= x < g_mod g ->
  let F := filter (inr (g_size g)) (gorbit g (Z.to_nat (g_mod g)) x) in
  NoDup F /\ (forall y, In y F <-> 0 <= y < g_size g).
Proof.
  intros (Hsz & Hmu & Hoff & k & Hmod & Hle) Hx F. unfold F, gorbit. rewrite Hmod in *.
  split.
  - apply filter_NoDup. apply orbit_NoDup; assumption.
  - intros y. rewrite filter_In. unfold inr. split.
    + intros [Hin Hlt]. apply orbit_in_range in Hin; [|assumption]. lia.
    + intros Hy. split; [|lia]. apply orbit_complete; try assumption. lia.
Qed.

Lemma full_filter_perm g x :
  gen_ok g -> 0 <= x < g_mod g ->
  Permutation (filter (inr (g_size g)) (gorbit g (Z.to_nat (g_mod g)) x))
              (Zseq 0 (Z.to_nat (g_size g))).
Proof.
  intros Hok Hx. destruct (full_filter g x Hok Hx) as [Hnd Hin].
  apply NoDup_same_elements_perm; [assumption|apply Zseq_NoDup|].
  intros y. rewrite Hin, Zseq_In. destruct Hok as [Hsz _]. lia.
Qed.

Lemma new_gen_ok start stop v0 o0 g :
  start < stop -> new_gen start stop v0 o0 = Ok g ->
  gen_ok g /\ g_found g = 0 /\ 0 <= g_value g <= g_size g /\
  g_start g = start /\ g_size g = stop - start.
Proof.
  intros Hlt H. unfold new_gen in H.
  destruct (stop - start <? 0) eqn:E1; [discriminate|].
  destruct (negb _) eqn:E2; [discriminate|].
  injection H as <-. cbn [g_start g_size g_mult g_off g_mod g_value g_found].
  apply negb_false_iff in E2. rewrite !andb_true_iff in E2.
  set (size := stop - start) in *. assert (Hs : 1 <= size) by (unfold size; lia).
  assert (Hoff : Z.odd (o0 * 2 + 1) = true).
  { replace (o0 * 2 + 1) with (1 + 2 * o0) by lia. apply Z.odd_add_mul_2. }
  assert (Hk : exists k : nat, 2 ^ bit_length_pred size = 2 ^ Z.of_nat k /\
                               size <= 2 ^ bit_length_pred size).
  { exists (Z.to_nat (Z.log2_up size)). unfold bit_length_pred.
    destruct (size <=? 0) eqn:E3; [lia|].
    pose proof (Z.log2_up_nonneg size) as Hnn.
    rewrite Z2Nat.id by assumption. split; [reflexivity|].
    destruct (Z.eq_dec size 1) as [->|Hne].
    + cbn. lia.
    + pose proof (Z.log2_up_spec size ltac:(lia)). lia. }
  assert (Hmu : (4 * (size / 4) + 1) mod 4 = 1).
  { rewrite Z.add_comm, Z.mul_comm, Z.mod_add by lia. reflexivity. }
  unfold gen_ok. cbn [g_start g_size g_mult g_off g_mod g_value g_found].
  split; [split; [lia|split; [exact Hmu|split; [exact Hoff|exact Hk]]]|].
  split; [reflexivity|]. split; [lia|]. split; reflexivity.
Qed.

(* one full period (plus the possibly out-of-system initial value) *)
Lemma new_gen_drain start stop v0 o0 g :
  start < stop -> new_gen start stop v0 o0 = Ok g ->
  exists l, gen_drain (gen_fuel g) g = Ok l /\
            Permutation l (Zseq (g_start g) (Z.to_nat (g_size g))).
Proof.
  intros Hlt Hg. destruct (new_gen_ok _ _ _ _ _ Hlt Hg) as (Hok & Hf & Hv & Hst & Hsz).
  pose proof Hok as (Hs1 & Hmu & Hoff & k & Hmod & Hle).
  assert (Hmpos : 0 < g_mod g) by lia.
  assert (Hfuel : gen_fuel g = S (S (Z.to_nat (g_mod g)))).
  { unfold gen_fuel. replace (g_mod g + 2) with (Z.succ (Z.succ (g_mod g))) by lia.
    rewrite !Z2Nat.inj_succ by lia. reflexivity. }
  assert (Hmap : forall F, Permutation F (Zseq 0 (Z.to_nat (g_size g))) ->
                 Permutation (map (fun v => v + g_start g) F)
                             (Zseq (g_start g) (Z.to_nat (g_size g)))).
  { intros F HF. apply (Permutation_map (fun v => v + g_start g)) in HF.
    rewrite Zseq_map_add in HF. exact HF. }
  destruct (Z_lt_dec (g_value g) (g_mod g)) as [Hin|Hout].
  - pose proof (full_filter_perm g (g_value g) Hok ltac:(lia)) as HP.
    eexists. split.
    + apply (drain_spec (Z.to_nat (g_mod g))); [lia| |lia].
      rewrite (Permutation_length HP), Zseq_length. lia.
    + apply Hmap. exact HP.
  - (* value = size = modulus: first examined value is skipped *)
    assert (Hv' : g_value g = g_mod g) by lia.
    set (x1 := f (g_mult g) (g_off g) (g_mod g) (g_value g)).
    assert (Hx1 : 0 <= x1 < g_mod g) by (unfold x1, f; apply Z.mod_pos_bound; lia).
    pose proof (full_filter_perm g x1 Hok Hx1) as HP.
    assert (Heq : filter (inr (g_size g)) (gorbit g (S (Z.to_nat (g_mod g))) (g_value g))
                  = filter (inr (g_size g)) (gorbit g (Z.to_nat (g_mod g)) x1)).
    { unfold gorbit. cbn [orbit filter]. unfold inr at 1.
      destruct (g_value g <? g_size g) eqn:E; [lia|reflexivity]. }
    eexists. split.
    + apply (drain_spec (S (Z.to_nat (g_mod g)))); [lia| |lia].
      rewrite Heq, (Permutation_length HP), Zseq_length. lia.
    + rewrite Heq. apply Hmap. exact HP.
Qed.

(* C12, first clause *)
Theorem range_is_permutation start stop v0 o0 :
  start < stop -> 0 <= v0 <= stop - start -> 0 <= o0 <= stop - start ->
  exists l, random_range_list start stop v0 o0 = Ok l /\
            Permutation l (Zseq start (Z.to_nat (stop - start))).
Proof.
  intros Hlt Hv Ho. unfold random_range_list.
  destruct (new_gen start stop v0 o0) as [g|e] eqn:Hg.
  - destruct (new_gen_drain _ _ _ _ _ Hlt Hg) as (l & Hd & HP).
    destruct (new_gen_ok _ _ _ _ _ Hlt Hg) as (_ & _ & _ & Hst & Hsz).
    exists l. cbn [bind]. rewrite Hst, Hsz in HP. auto.
  - exfalso. unfold new_gen in Hg.
    destruct (stop - start <? 0) eqn:E1; [lia|].
    destruct (negb _) eqn:E2; [|discriminate].
    apply negb_true_iff in E2. rewrite !andb_false_iff in E2. lia.
Qed.

(* ---------- next() against drain ---------- *)

Lemma drain_mono fuel : forall g rest fuel2,
  gen_drain fuel g = Ok rest -> (fuel <= fuel2)%nat -> gen_drain fuel2 g = Ok rest.
Proof.
  induction fuel as [|fuel IH]; intros g rest fuel2 H Hle; [discriminate|].
  destruct fuel2 as [|fuel2]; [lia|]. cbn [gen_drain] in *.
  destruct (g_found g <? g_size g); [|assumption].
  destruct (g_value g <? g_size g).
  - match type of H with bind ?X _ = _ => destruct X as [r|e] eqn:E end; [|discriminate].
    rewrite (IH _ _ fuel2 E) by lia. exact H.
  - apply IH; [assumption|lia].
Qed.

Lemma next_drain fuel : forall g rest,
  gen_drain fuel g = Ok rest ->
  match gen_next fuel g with
  | Ok None => rest = []
  | Ok (Some (v, g')) =>
    exists rest', rest = v :: rest' /\ gen_drain fuel g' = Ok rest' /\ params g' = params g
  | Err _ => False
  end.
Proof.
  induction fuel as [|fuel IH]; intros g rest H; [discriminate|].
  cbn [gen_drain] in H. cbn [gen_next].
  destruct (g_found g <? g_size g); [|congruence].
  destruct (g_value g <? g_size g).
  - match type of H with bind ?X _ = _ => destruct X as [r|e] eqn:E end; [|discriminate].
    cbn [bind] in H. injection H as <-. exists r. splits; try reflexivity.
    apply (drain_mono fuel); [assumption|lia].
  - specialize (IH _ _ H).
    match goal with |- match ?X with _ => _ end => destruct X as [[[v g']|]|e] end; try assumption.
    destruct IH as (rest' & -> & Hd & Hp). exists rest'. splits; try reflexivity; try assumption.
    apply (drain_mono fuel); [assumption|lia].
Qed.

Lemma params_fuel g g' : params g' = params g -> gen_fuel g' = gen_fuel g.
Proof. unfold params, gen_fuel. intros H. injection H as _ _ _ _ ->. reflexivity. Qed.

(* Generator invariant: what was emitted so far plus what remains is the range *)
Definition Ginv (g : lcg) (em : list Z) : Prop :=
  exists rest, gen_drain (gen_fuel g) g = Ok rest /\
               Permutation (em ++ rest) (Zseq (g_start g) (Z.to_nat (g_size g))).

Lemma new_gen_Ginv start stop v0 o0 g :
  start < stop -> new_gen start stop v0 o0 = Ok g -> Ginv g [].
Proof. intros Hlt Hg. destruct (new_gen_drain _ _ _ _ _ Hlt Hg) as (l & ? & ?). exists l. auto. Qed.

Lemma Ginv_next g em :
  Ginv g em ->
  match gen_next (gen_fuel g) g with
  | Ok None => Permutation em (Zseq (g_start g) (Z.to_nat (g_size g)))
  | Ok (Some (v, g')) => Ginv g' (em ++ [v]) /\ params g' = params g
  | Err _ => False
  end.
Proof.
  intros (rest & Hd & HP). pose proof (next_drain _ _ _ Hd) as H.
  destruct (gen_next (gen_fuel g) g) as [[[v g']|]|e]; [| |assumption].
  - destruct H as (rest' & -> & Hd' & Hp). split; [|assumption].
    exists rest'. rewrite (params_fuel _ _ Hp). split; [assumption|].
    unfold params in Hp. injection Hp as -> -> _ _ _.
    rewrite <- app_assoc. exact HP.
  - subst rest. rewrite app_nil_r in HP. exact HP.
Qed.

Lemma Ginv_emitted g em :
  Ginv g em -> NoDup em /\ forall v, In v em -> g_start g <= v < g_start g + g_size g.
Proof.
  intros (rest & _ & HP). split.
  - apply (NoDup_app_l em rest).
    apply (Permutation_NoDup (Permutation_sym HP)). apply Zseq_NoDup.
  - intros v Hv. assert (Hin : In v (Zseq (g_start g) (Z.to_nat (g_size g)))).
    { apply (Permutation_in _ HP). apply in_or_app. auto. }
    apply Zseq_In in Hin. lia.
Qed.

(* ---------- UpdatableRandomRange ---------- *)


Definition gs_start (gs : gstate) : Z := match gs with GNew a _ => a | GRun g => g_start g end.
Definition gs_size (gs : gstate) : Z := match gs with GNew a b => b - a | GRun g => g_size g end.
Definition GSinv (gs : gstate) (em : list Z) : Prop :=
  match gs with GNew _ _ => em = [] | GRun g => Ginv g em end.

Record Uinv (u : urr) (prev em : list Z) : Prop := {
  ui_g : GSinv (u_gen u) em;
  ui_min : gs_start (u_gen u) = u_min u;
  ui_omax : gs_start (u_gen u) + gs_size (u_gen u) = u_orig_max u;
  ui_pos : 1 <= gs_size (u_gen u);
  ui_cmax : u_orig_max u <= u_cur_max u;
  ui_lo : u_start u <= u_min u;
  ui_prev : forall v, In v prev -> u_start u <= v < u_min u;
  ui_nd : NoDup prev
}.

Lemma GSinv_emitted gs em :
  GSinv gs em -> NoDup em /\ forall v, In v em -> gs_start gs <= v < gs_start gs + gs_size gs.
Proof.
  destruct gs as [a b|g]; cbn [GSinv gs_start gs_size].
  - intros ->. split; [constructor|intros v []].
  - apply Ginv_emitted.
Qed.

(* starting the generator keeps the invariant *)
Lemma force_inv u prev em g orc :
  Uinv u prev em -> force u = Ok (g, orc) ->
  Ginv g em /\ g_start g = u_min u /\ g_start g + g_size g = u_orig_max u /\ 1 <= g_size g.
Proof.
  intros I H. unfold force in H.
  pose proof (ui_g _ _ _ I) as Hg. pose proof (ui_min _ _ _ I) as Hmin.
  pose proof (ui_omax _ _ _ I) as Homax. pose proof (ui_pos _ _ _ I) as Hpos.
  destruct (u_gen u) as [a b|g0]; cbn [GSinv gs_start gs_size] in *.
  - destruct (u_oracle u) as [|[v0 o0] rest]; [discriminate|].
    destruct (new_gen a b v0 o0) as [g1|e] eqn:Hn; [|discriminate]. cbn [bind] in H.
    injection H as <- <-. subst em.
    assert (Hab : a < b) by lia.
    destruct (new_gen_ok _ _ _ _ _ Hab Hn) as (_ & _ & _ & Hst & Hsz).
    split; [eapply new_gen_Ginv; eassumption|]. rewrite Hst, Hsz. splits; lia.
  - injection H as <- <-. splits; assumption.
Qed.

Lemma Uinv_all u prev em :
  Uinv u prev em ->
  NoDup (prev ++ em) /\ forall v, In v (prev ++ em) -> u_start u <= v < u_orig_max u.
Proof.
  intros I. destruct (GSinv_emitted _ _ (ui_g _ _ _ I)) as [Hnd Hrange].
  pose proof (ui_min _ _ _ I). pose proof (ui_omax _ _ _ I). pose proof (ui_pos _ _ _ I).
  pose proof (ui_lo _ _ _ I).
  split.
  - apply NoDup_app_intro; [apply (ui_nd _ _ _ I)|assumption|].
    intros x Hp He. apply (ui_prev _ _ _ I) in Hp. apply Hrange in He. lia.
  - intros v Hv. apply in_app_or in Hv. destruct Hv as [Hv|Hv].
    + apply (ui_prev _ _ _ I) in Hv. lia.
    + apply Hrange in Hv. lia.
Qed.

Lemma set_immediately_inv a b oracle u :
  set_immediately a b oracle = Ok u ->
  u_start u = a /\ u_min u = a /\ u_cur_max u = b /\ Uinv u [] [].
Proof.
  intros H. unfold set_immediately in H.
  destruct (negb (a <? b)) eqn:E; [discriminate|]. apply negb_false_iff in E.
  assert (Hab : a < b) by (apply Z.ltb_lt; exact E).
  injection H as <-. cbn [u_start u_min u_cur_max u_gen u_orig_max].
  split; [reflexivity|]. split; [reflexivity|]. split; [reflexivity|].
  constructor; cbn [u_start u_min u_cur_max u_gen u_orig_max GSinv gs_start gs_size]; try lia.
  - reflexivity.
  - intros v [].
  - constructor.
Qed.

(* what one operation does to the invariant, with explicit bookkeeping *)
Inductive step_kind := KYield | KStop | KSwitch | KExtend | KMove.

Definition all_of (prev em : list Z) := prev ++ em.

Lemma urr_next_inv u prev em r u' :
  Uinv u prev em -> urr_next u = Ok (r, u') ->
  (exists v, r = Some v /\ Uinv u' prev (em ++ [v]) /\
             u_start u' = u_start u /\ u_min u' = u_min u /\ u_cur_max u' = u_cur_max u /\
             u_orig_max u' = u_orig_max u) \/
  (r = None /\ Uinv u' prev em /\
   u_start u' = u_start u /\ u_min u' = u_min u /\ u_cur_max u' = u_cur_max u /\
   u_orig_max u' = u_orig_max u /\ u_cur_max u = u_orig_max u /\
   Permutation em (Zseq (u_min u) (Z.to_nat (u_orig_max u - u_min u)))) \/
  (exists v, r = Some v /\ Uinv u' (prev ++ em) [v] /\
             u_start u' = u_start u /\ u_min u' = u_orig_max u /\ u_cur_max u' = u_cur_max u /\
             Permutation em (Zseq (u_min u) (Z.to_nat (u_orig_max u - u_min u)))).
Proof.
  intros I H. unfold urr_next in H.
  destruct (force u) as [[g0 orc]|e] eqn:Hf; [|discriminate]. cbn [bind] in H.
  destruct (force_inv _ _ _ _ _ I Hf) as (HG0 & Hmin & Homax & Hpos).
  pose proof (Ginv_next _ _ HG0) as HN.
  pose proof (ui_cmax _ _ _ I) as Hcmax. pose proof (ui_lo _ _ _ I) as Hlo.
  destruct (gen_next (gen_fuel g0) g0) as [[[v g']|]|e]; [| |contradiction];
    cbn [bind] in H.
  - (* yield from the current generator *)
    left. injection H as <- <-. destruct HN as [HG Hp]. exists v.
    unfold params in Hp. injection Hp as Hp1 Hp2 _ _ _.
    split; [reflexivity|]. split; [|cbn [u_start u_min u_cur_max u_gen u_orig_max]; splits; reflexivity].
    constructor; cbn [u_start u_min u_cur_max u_gen u_orig_max GSinv gs_start gs_size];
      try assumption; try lia.
    + apply (ui_prev _ _ _ I).
    + apply (ui_nd _ _ _ I).
  - assert (HPem : Permutation em (Zseq (u_min u) (Z.to_nat (u_orig_max u - u_min u)))).
    { rewrite <- Hmin, <- Homax.
      replace (g_start g0 + g_size g0 - g_start g0) with (g_size g0) by lia. exact HN. }
    destruct (u_cur_max u <=? u_orig_max u) eqn:E.
    + right. left. injection H as <- <-.
      split; [reflexivity|].
      split; [|cbn [u_start u_min u_cur_max u_gen u_orig_max]; splits; try reflexivity; try assumption; lia].
      constructor; cbn [u_start u_min u_cur_max u_gen u_orig_max GSinv gs_start gs_size];
        try assumption; try lia.
      * apply (ui_prev _ _ _ I).
      * apply (ui_nd _ _ _ I).
    + right. right. apply Z.leb_gt in E.
      destruct orc as [|[v0 o0] rest]; [discriminate|].
      destruct (new_gen (u_orig_max u) (u_cur_max u) v0 o0) as [g|e] eqn:Hg; [|discriminate].
      cbn [bind] in H.
      pose proof (new_gen_Ginv _ _ _ _ _ E Hg) as HGn.
      destruct (new_gen_ok _ _ _ _ _ E Hg) as (Hok & _ & _ & Hst & Hsz).
      pose proof (Ginv_next _ _ HGn) as HN2.
      destruct (gen_next (gen_fuel g) g) as [[[v g']|]|e]; [| |contradiction]; cbn [bind] in H.
      * injection H as <- <-. destruct HN2 as [HG Hp]. exists v.
        unfold params in Hp. injection Hp as Hp1 Hp2 _ _ _.
        destruct (Uinv_all _ _ _ I) as [Hnd Hall].
        split; [reflexivity|].
        split; [|cbn [u_start u_min u_cur_max u_gen u_orig_max]; splits; try reflexivity; assumption].
        constructor; cbn [u_start u_min u_cur_max u_gen u_orig_max app GSinv gs_start gs_size] in *;
          try assumption; try lia.
      * (* impossible: the fresh generator has a non-empty range *)
        exfalso. apply Permutation_length in HN2. rewrite Zseq_length in HN2. cbn in HN2. lia.
Qed.

Lemma urr_set_inv u prev em a b u' :
  Uinv u prev em -> urr_set_new_range u a b = Ok u' ->
  (a = u_start u /\ Uinv u' prev em /\ u_start u' = u_start u /\ u_min u' = u_min u /\
   u_cur_max u' = b /\ u_cur_max u <= b /\ u_orig_max u' = u_orig_max u) \/
  (a <> u_start u /\ u_orig_max u <= a /\ Uinv u' [] [] /\ u_start u' = a /\ u_min u' = a /\
   u_cur_max u' = b).
Proof.
  intros I H. unfold urr_set_new_range in H.
  destruct (a =? u_start u) eqn:E.
  - apply Z.eqb_eq in E. left.
    destruct (negb (u_cur_max u <=? b)) eqn:E2; [discriminate|]. apply negb_false_iff in E2.
    injection H as <-. pose proof (ui_cmax _ _ _ I).
    split; [assumption|]. split; [|cbn [u_start u_min u_cur_max u_gen u_orig_max]; splits; try reflexivity; lia].
    constructor; cbn [u_start u_min u_cur_max u_gen u_orig_max]; try lia; try apply I.
  - apply Z.eqb_neq in E. right.
    destruct (negb (u_orig_max u <=? a)) eqn:E2; [discriminate|]. apply negb_false_iff in E2.
    destruct (set_immediately_inv a b (u_oracle u) u' H)
      as (? & ? & ? & ?).
    splits; try assumption; try lia.
Qed.

(* ---------- C12, second clause: no value is ever produced twice ---------- *)

(* The invariant for arbitrary scripts keeps, besides [Uinv] for the current chain of
   ranges, the list [old] of everything produced before the last move; all of it lies
   below the current chain's start. *)
Lemma urr_run_nodup ops : forall u old prev em tr u',
  Uinv u prev em -> NoDup old -> (forall v, In v old -> v < u_start u) ->
  urr_run u ops = Ok (tr, u') ->
  NoDup (old ++ prev ++ em ++ produced tr).
Proof.
  induction ops as [|op ops IH]; intros u old prev em tr u' I Hold Hlt H.
  - cbn [urr_run] in H. injection H as <- <-. cbn [produced]. rewrite app_nil_r.
    destruct (Uinv_all _ _ _ I) as [Hnd Hall].
    apply NoDup_app_intro; [assumption|assumption|].
    intros x Hx Hx'. apply Hlt in Hx. apply Hall in Hx'. lia.
  - destruct op as [|a b]; cbn [urr_run] in H.
    + destruct (urr_next u) as [[r u1]|e] eqn:Hn; [|discriminate]. cbn [bind] in H.
      destruct (urr_run u1 ops) as [[tr1 u2]|e] eqn:Hr; [|discriminate]. cbn [bind] in H.
      injection H as <- <-.
      destruct (urr_next_inv _ _ _ _ _ I Hn) as
          [(v & -> & I1 & Hs & _)|[(-> & I1 & Hs & _)|(v & -> & I1 & Hs & _)]]; cbn [produced].
      * specialize (IH u1 old prev (em ++ [v]) tr1 u2 I1 Hold).
        rewrite <- app_assoc in IH. cbn [app] in IH. apply IH; [|assumption].
        intros x Hx. rewrite Hs. auto.
      * apply (IH u1 old prev em tr1 u2); try assumption. intros x Hx. rewrite Hs. auto.
      * specialize (IH u1 old (prev ++ em) [v] tr1 u2 I1 Hold).
        rewrite <- app_assoc in IH. cbn [app] in IH. apply IH; [|assumption].
        intros x Hx. rewrite Hs. auto.
    + destruct (urr_set_new_range u a b) as [u1|e] eqn:Hs; [|discriminate]. cbn [bind] in H.
      destruct (urr_set_inv _ _ _ _ _ _ I Hs) as
          [(_ & I1 & Hst & _)|(_ & Hle & I1 & Hst & _)].
      * apply (IH u1 old prev em tr u'); try assumption. intros x Hx. rewrite Hst. auto.
      * (* move: everything so far becomes [old] *)
        destruct (Uinv_all _ _ _ I) as [Hnd Hall].
        specialize (IH u1 (old ++ prev ++ em) [] [] tr u' I1).
        cbn [app] in IH. rewrite <- !app_assoc in IH. apply IH; [| |assumption].
        -- apply NoDup_app_intro; [assumption|assumption|].
           intros x Hx Hx'. apply Hlt in Hx. apply Hall in Hx'. lia.
        -- intros x Hx. rewrite Hst. apply in_app_or in Hx. destruct Hx as [Hx|Hx].
           ++ apply Hlt in Hx. pose proof (ui_lo _ _ _ I). pose proof (ui_min _ _ _ I).
              pose proof (ui_omax _ _ _ I). pose proof (ui_pos _ _ _ I). lia.
           ++ apply Hall in Hx. lia.
Qed.

Lemma urr_init_inv start stop oracle u :
  urr_init start stop oracle = Ok u ->
  Uinv u [] [] /\ u_start u = start /\ u_min u = start /\ u_cur_max u = stop.
Proof.
  unfold urr_init. destruct (negb (start <? stop)); [discriminate|]. intros H.
  destruct (set_immediately_inv start stop oracle u H)
    as (? & ? & ? & ?). auto.
Qed.

Theorem updatable_no_repeat start stop oracle ops tr :
  urr_script start stop oracle ops = Ok tr -> NoDup (produced tr).
Proof.
  unfold urr_script. intros H.
  destruct (urr_init start stop oracle) as [u|e] eqn:Hi; [|discriminate]. cbn [bind] in H.
  destruct (urr_run u ops) as [[tr' u']|e] eqn:Hr; [|discriminate]. cbn [bind] in H.
  injection H as <-.
  destruct (urr_init_inv _ _ _ _ Hi) as (I & _).
  exact (urr_run_nodup ops u [] [] [] tr' u' I (NoDup_nil _) ltac:(intros ? []) Hr).
Qed.

(* ---------- C12, third clause: extension is complete, a move shows only new values ---------- *)

Definition extend_only (s : Z) (ops : list uop) : Prop :=
  Forall (fun o => match o with UNext => True | USet a _ => a = s end) ops.

(* For scripts that only consume and extend, [prev] is exactly [start, min). *)
Lemma urr_run_extend ops : forall u prev em tr u',
  Uinv u prev em -> extend_only (u_start u) ops ->
  Permutation prev (Zseq (u_start u) (Z.to_nat (u_min u - u_start u))) ->
  urr_run u ops = Ok (tr, u') ->
  exists prev' em',
    Uinv u' prev' em' /\ u_start u' = u_start u /\ u_cur_max u <= u_cur_max u' /\
    Permutation prev' (Zseq (u_start u') (Z.to_nat (u_min u' - u_start u'))) /\
    Permutation (prev' ++ em') (prev ++ em ++ produced tr).
Proof.
  induction ops as [|op ops IH]; intros u prev em tr u' I Hext HP H.
  - cbn [urr_run] in H. injection H as <- <-. exists prev, em. cbn [produced].
    rewrite app_nil_r. splits; try assumption; try lia. apply Permutation_refl.
  - inversion Hext as [|? ? Hop Hext']; subst.
    destruct op as [|a b]; cbn [urr_run] in H.
    + destruct (urr_next u) as [[r u1]|e] eqn:Hn; [|discriminate]. cbn [bind] in H.
      destruct (urr_run u1 ops) as [[tr1 u2]|e] eqn:Hr; [|discriminate]. cbn [bind] in H.
      injection H as <- <-.
      destruct (urr_next_inv _ _ _ _ _ I Hn) as
          [(v & -> & I1 & Hs & Hm & Hc & _)|[(-> & I1 & Hs & Hm & Hc & _)|(v & -> & I1 & Hs & Hm & Hc & HPem)]];
        cbn [produced].
      * destruct (IH u1 prev (em ++ [v]) tr1 u2 I1) as (p' & e' & I2 & Hs2 & Hc2 & HP2 & HA);
          try assumption; try (rewrite Hs; assumption); try (rewrite Hs, Hm; assumption).
        exists p', e'. splits; try assumption; try lia.
        rewrite <- app_assoc in HA. exact HA.
      * destruct (IH u1 prev em tr1 u2 I1) as (p' & e' & I2 & Hs2 & Hc2 & HP2 & HA);
          try assumption; try (rewrite Hs; assumption); try (rewrite Hs, Hm; assumption).
        exists p', e'. splits; try assumption; try lia.
      * destruct (IH u1 (prev ++ em) [v] tr1 u2 I1) as (p' & e' & I2 & Hs2 & Hc2 & HP2 & HA);
          try assumption; try (rewrite Hs; assumption).
        -- rewrite Hs, Hm.
           pose proof (ui_lo _ _ _ I). pose proof (ui_min _ _ _ I).
           pose proof (ui_omax _ _ _ I). pose proof (ui_pos _ _ _ I).
           replace (Z.to_nat (u_orig_max u - u_start u))
             with (Z.to_nat (u_min u - u_start u) + Z.to_nat (u_orig_max u - u_min u))%nat by lia.
           rewrite Zseq_app. apply Permutation_app; [assumption|].
           rewrite Z2Nat.id by lia. replace (u_start u + (u_min u - u_start u)) with (u_min u) by lia.
           exact HPem.
        -- exists p', e'. splits; try assumption; try lia.
           rewrite <- app_assoc in HA. exact HA.
    + destruct (urr_set_new_range u a b) as [u1|e] eqn:Hs; [|discriminate]. cbn [bind] in H.
      destruct (urr_set_inv _ _ _ _ _ _ I Hs) as
          [(_ & I1 & Hst & Hm & Hc & Hcle & _)|(Hne & _)]; [|contradiction].
      destruct (IH u1 prev em tr u' I1) as (p' & e' & I2 & Hs2 & Hc2 & HP2 & HA);
        try assumption; try (rewrite Hst; assumption); try (rewrite Hst, Hm; assumption).
      exists p', e'. splits; try assumption; try lia.
Qed.

(* When a consume-and-extend script ends with StopIteration, everything in
   [start, final bound) has been produced, exactly once. *)
Theorem extend_complete start stop oracle ops u tr u1 u2 :
  urr_init start stop oracle = Ok u -> extend_only start ops ->
  urr_run u ops = Ok (tr, u1) -> urr_next u1 = Ok (None, u2) ->
  Permutation (produced tr) (Zseq start (Z.to_nat (u_cur_max u1 - start))) /\
  stop <= u_cur_max u1.
Proof.
  intros Hi Hext Hr Hn.
  destruct (urr_init_inv _ _ _ _ Hi) as (I & Hs & Hm & Hc).
  destruct (urr_run_extend ops u [] [] tr u1 I) as (p' & e' & I1 & Hs1 & Hc1 & HP1 & HA);
    try assumption; try (rewrite Hs; assumption).
  { rewrite Hs, Hm. replace (start - start) with 0 by lia. apply Permutation_refl. }
  cbn [app] in HA.
  destruct (urr_next_inv _ _ _ _ _ I1 Hn) as
      [(v & Hv & _)|[(_ & _ & _ & _ & _ & _ & Hcm & HPem)|(v & Hv & _)]]; try discriminate.
  split; [|lia].
  apply (Permutation_trans (Permutation_sym HA)).
  pose proof (ui_lo _ _ _ I1). pose proof (ui_min _ _ _ I1).
  pose proof (ui_omax _ _ _ I1). pose proof (ui_pos _ _ _ I1).
  rewrite Hcm, <- Hs, <- Hs1.
  replace (Z.to_nat (u_orig_max u1 - u_start u1))
    with (Z.to_nat (u_min u1 - u_start u1) + Z.to_nat (u_orig_max u1 - u_min u1))%nat by lia.
  rewrite Zseq_app. apply Permutation_app; [assumption|].
  rewrite Z2Nat.id by lia. replace (u_start u1 + (u_min u1 - u_start u1)) with (u_min u1) by lia.
  exact HPem.
Qed.

(* After a move to [a, b) — followed by any consume-and-extend script — only values of
   the new range appear. *)
Theorem move_only_new u prev em a b u1 ops tr u2 :
  Uinv u prev em -> a <> u_start u -> urr_set_new_range u a b = Ok u1 ->
  extend_only a ops -> urr_run u1 ops = Ok (tr, u2) ->
  forall v, In v (produced tr) -> a <= v < u_cur_max u2.
Proof.
  intros I Hne Hs Hext Hr v Hv.
  destruct (urr_set_inv _ _ _ _ _ _ I Hs) as [(He & _)|(_ & _ & I1 & Hst & Hm & Hc)];
    [contradiction|].
  destruct (urr_run_extend ops u1 [] [] tr u2 I1) as (p' & e' & I2 & Hs2 & Hc2 & HP2 & HA);
    try assumption; try (rewrite Hst; assumption).
  { rewrite Hst, Hm. replace (a - a) with 0 by lia. apply Permutation_refl. }
  cbn [app] in HA.
  destruct (Uinv_all _ _ _ I2) as [_ Hall].
  assert (Hin : In v (p' ++ e')) by (apply (Permutation_in _ (Permutation_sym HA)); assumption).
  apply Hall in Hin. pose proof (ui_cmax _ _ _ I2). lia.
Qed.
