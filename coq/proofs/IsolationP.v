(* IsolationP.v — proofs about the process-state model of theories/Isolation.v (property C19). *)
From Coq Require Import Lia.
From SFV Require Import Base Isolation UniqueId.
From SFV.P Require Import UniqueIdP.

Ltac splits := repeat match goal with |- _ /\ _ => split end.

(* ---------------------------------------------------------------- association lists *)

Lemma assoc_find_In {V} k (l : list (key * V)) v : assoc_find k l = Some v -> In (k, v) l.
Proof.
  induction l as [|[k' v'] l IH]; cbn [assoc_find]; [discriminate|].
  destruct (String.eqb k k') eqn:E.
  - apply String.eqb_eq in E. subst. intros [= ->]. left. reflexivity.
  - intros H. right. auto.
Qed.

Lemma assoc_remove_In {V} k (l : list (key * V)) x : In x (assoc_remove k l) -> In x l.
Proof.
  induction l as [|[k' v'] l IH]; cbn [assoc_remove]; [tauto|].
  destruct (String.eqb k k'); cbn [In]; intuition.
Qed.

Lemma firstn_In {A} n (l : list A) x : In x (firstn n l) -> In x l.
Proof.
  revert l. induction n; intros [|a l]; cbn [firstn In]; try tauto. intuition.
Qed.

Lemma assoc_find_set_same k v l : assoc_find k (assoc_set k v l) = Some v.
Proof.
  induction l as [|[k' v'] l IH]; cbn [assoc_set assoc_find].
  - rewrite String.eqb_refl. reflexivity.
  - destruct (String.eqb k k') eqn:E; cbn [assoc_find]; rewrite ?String.eqb_refl, ?E; auto.
Qed.

Lemma assoc_find_set_other k k' v l :
  String.eqb k' k = false -> assoc_find k' (assoc_set k v l) = assoc_find k' l.
Proof.
  intros N. induction l as [|[k2 v2] l IH]; cbn [assoc_set assoc_find].
  - rewrite N. reflexivity.
  - destruct (String.eqb k k2) eqn:E; cbn [assoc_find].
    + apply String.eqb_eq in E. subst k2. rewrite N. reflexivity.
    + destruct (String.eqb k' k2); auto.
Qed.

Lemma gslot_eqb_eq a b : gslot_eqb a b = true <-> a = b.
Proof. destruct a, b; cbn; split; congruence. Qed.

Lemma gslot_eqb_refl a : gslot_eqb a a = true.
Proof. destruct a; reflexivity. Qed.

Lemma gen_find_set_same g x l : gen_find g (gen_set g x l) = Some x.
Proof.
  induction l as [|[g' y] l IH]; cbn [gen_set gen_find].
  - rewrite gslot_eqb_refl. reflexivity.
  - destruct (gslot_eqb g g') eqn:E; cbn [gen_find]; rewrite ?gslot_eqb_refl, ?E; auto.
Qed.

Lemma gen_find_set_other g g' x l : g' <> g -> gen_find g' (gen_set g x l) = gen_find g' l.
Proof.
  intros N. assert (N' : gslot_eqb g' g = false).
  { destruct (gslot_eqb g' g) eqn:E; auto. apply gslot_eqb_eq in E. contradiction. }
  induction l as [|[g2 y] l IH]; cbn [gen_set gen_find].
  - rewrite N'. reflexivity.
  - destruct (gslot_eqb g g2) eqn:E; cbn [gen_find].
    + apply gslot_eqb_eq in E. subst g2. rewrite N'. reflexivity.
    + destruct (gslot_eqb g' g2); auto.
Qed.

Lemma NoDup_app_intro {A} (a b : list A) :
  NoDup a -> NoDup b -> (forall x, In x a -> ~ In x b) -> NoDup (a ++ b).
Proof.
  induction a as [|x a IH]; cbn [app]; intros Ha Hb Hd; auto.
  inversion Ha; subst. constructor.
  - rewrite in_app_iff. intros [H|H]; [contradiction|]. apply (Hd x); cbn; auto.
  - apply IH; auto. intros y Hy. apply Hd. cbn. auto.
Qed.

Lemma NoDup_map_filter {A B} (f : A -> B) (q : A -> bool) l :
  NoDup (map f l) -> NoDup (map f (filter q l)).
Proof.
  induction l as [|a l IH]; cbn [map filter]; auto.
  intros H. inversion H; subst. destruct (q a); cbn [map]; auto.
  constructor; auto. intros Hin. apply H2.
  apply in_map_iff in Hin. destruct Hin as (y & Hy & Hf). apply filter_In in Hf.
  apply in_map_iff. exists y. tauto.
Qed.

(* ---------------------------------------------------------------- the cache *)

Section Cache.
  Variable P : key -> Z -> Prop.

  Definition items_sat (c : lru) : Prop := forall k v, In (k, v) (l_items c) -> P k v.

  (* whatever property the wrapped function's results have, the cached entries keep *)
  Lemma lru_call_items n f c k :
    items_sat c -> (forall v, f k = Some v -> P k v) -> items_sat (fst (lru_call n f c k)).
  Proof.
    intros Hc Hf. unfold lru_call.
    destruct (assoc_find k (l_items c)) as [v|] eqn:E.
    - cbn [fst l_items]. intros k' v' [H|H].
      + injection H as <- <-. apply Hc. apply assoc_find_In. exact E.
      + apply Hc. eapply assoc_remove_In. exact H.
    - destruct (f k) as [v|] eqn:F; cbn [fst l_items]; auto.
      intros k' v' H. apply firstn_In in H. destruct H as [H|H].
      + injection H as <- <-. auto.
      + auto.
  Qed.
End Cache.

(* a cached result equals a fresh call whenever every entry under that key agrees with the
   wrapped function *)
Lemma lru_call_value n f c k :
  (forall v, In (k, v) (l_items c) -> f k = Some v) -> snd (lru_call n f c k) = f k.
Proof.
  intros H. unfold lru_call. destruct (assoc_find k (l_items c)) as [v|] eqn:E.
  - cbn [snd]. symmetry. apply H. apply assoc_find_In. exact E.
  - destruct (f k); reflexivity.
Qed.

Lemma lru_call_misses n f c k : l_misses c <= l_misses (fst (lru_call n f c k)).
Proof.
  unfold lru_call. destruct (assoc_find k (l_items c)); [cbn; lia|].
  destruct (f k); cbn [fst l_misses]; lia.
Qed.

(* ---------------------------------------------------------------- coherence invariant *)

Section P.
  Variable parse_d parse_dt : key -> option Z.

  Notation step := (step parse_d parse_dt).
  Notation exec_ops := (exec_ops parse_d parse_dt).
  Notation run := (run parse_d parse_dt).
  Notation run_seq := (run_seq parse_d parse_dt).
  Notation after := (after parse_d parse_dt).

  Definition date_entry_ok (k : key) (v : Z) : Prop := parse_d k = Some v.
  Definition dt_entry_ok (k : key) (v : Z) : Prop := parse_dt k = Some v.

  (* every cached parse equals what the parser returns for that key *)
  Definition coherent (p : proc) : Prop :=
    items_sat date_entry_ok (p_dates p) /\ items_sat dt_entry_ok (p_dts p).

  Lemma coherent_proc0 : coherent proc0.
  Proof. split; intros k v H; destruct H. Qed.

  (* ODatetime: the three branches of parse_datetimespec *)
  Ltac dt_branches k :=
    destruct (String.eqb k "now"); [|destruct (String.eqb k "today"); [|destruct (is_relative_spec k)]].

  Lemma step_coherent e ver p s o : coherent p -> coherent (fst (step e ver p s o)).
  Proof.
    intros [Hd Ht]. destruct o; cbn [Isolation.step].
    - destruct (p_rowhist p); cbn [fst]; split; assumption.
    - cbn [fst]. split; assumption.
    - destruct (gen_find g (rs_gens s)) as [[c i]|]; cbn [fst]; split; assumption.
    - destruct (lru_call date_cache_size parse_d (p_dates p) k) as [c r] eqn:E. cbn [fst].
      split; cbn [set_dates p_dates p_dts]; auto.
      change c with (fst (c, r)). rewrite <- E. apply lru_call_items; auto.
    - dt_branches k; try (cbn [fst]; split; assumption).
      destruct (lru_call date_cache_size parse_dt (p_dts p) k) as [c r] eqn:E. cbn [fst].
      split; cbn [set_dts p_dates p_dts]; auto.
      change c with (fst (c, r)). rewrite <- E. apply lru_call_items; auto.
    - destruct (p_rowhist p); [|cbn; split; assumption].
      destruct (existsb _ _); cbn [fst]; split; assumption.
    - cbn [fst]. split; assumption.
    - cbn [fst]. split; assumption.
  Qed.

  Lemma exec_coherent e ver ops : forall p s, coherent p -> coherent (fst (exec_ops e ver p s ops)).
  Proof.
    induction ops as [|o ops IH]; intros p s H; cbn [Isolation.exec_ops]; auto.
    pose proof (step_coherent e ver p s o H) as H1.
    destruct (step e ver p s o) as [p' [[s' b]|er]]; cbn [fst] in *; auto.
    specialize (IH p' s' H1). destruct (exec_ops e ver p' s' ops) as [p'' out]. exact IH.
  Qed.

  Lemma run_coherent p e r : coherent p -> coherent (fst (run p e r)).
  Proof.
    intros H. unfold Isolation.run. destruct (r_stage r); cbn [fst]; auto.
    apply exec_coherent. destruct H as [A B]. split; assumption.
  Qed.

  Lemma run_seq_coherent l : forall p, coherent p -> coherent (fst (run_seq p l)).
  Proof.
    induction l as [|[e r] l IH]; intros p H; cbn [Isolation.run_seq fst]; auto.
    pose proof (run_coherent p e r H) as H1. destruct (run p e r) as [p1 o]. cbn [fst] in H1.
    specialize (IH p1 H1). destruct (run_seq p1 l) as [p2 os]. exact IH.
  Qed.

  Lemma after_coherent l : coherent (after l).
  Proof. apply run_seq_coherent. apply coherent_proc0. Qed.

  (* ---------------------------------------------------------------- cache_coherent *)

  (* In every process state reachable by running recipes, a call through either cache returns
     what a fresh call of the parser returns (exception included), for every key. *)
  Theorem cache_coherent l k :
    let p := after l in
    snd (lru_call date_cache_size parse_d (p_dates p) k) = parse_d k /\
    snd (lru_call date_cache_size parse_dt (p_dts p) k) = parse_dt k.
  Proof.
    cbn zeta. destruct (after_coherent l) as [Hd Ht]. split.
    - apply lru_call_value. intros v Hv. exact (Hd k v Hv).
    - apply lru_call_value. intros v Hv. exact (Ht k v Hv).
  Qed.

  (* the clock keys never enter the datetime cache *)
  Lemma step_clock_untouched e ver p s k :
    is_clock_key k = true -> fst (step e ver p s (ODatetime k)) = p.
  Proof.
    unfold is_clock_key. cbn [Isolation.step]. intros H.
    destruct (String.eqb k "now"); [reflexivity|]. cbn [orb] in H.
    destruct (String.eqb k "today"); [reflexivity|]. cbn [orb] in H. rewrite H. reflexivity.
  Qed.

  (* ---------------------------------------------------------------- noninterference *)

  (* what two process states must share for a list of operations to behave alike: nothing,
     unless a unique id is drawn - then the context counter *)
  Definition uid_ok (ops : list op) (p1 p2 : proc) : Prop :=
    existsb is_uid_op ops = false \/ p_uid p1 = p_uid p2.

  Lemma step_nonint e ver p1 p2 s o :
    coherent p1 -> coherent p2 -> p_rowhist p1 = p_rowhist p2 ->
    (is_uid_op o = false \/ p_uid p1 = p_uid p2) ->
    snd (step e ver p1 s o) = snd (step e ver p2 s o) /\
    p_rowhist (fst (step e ver p1 s o)) = p_rowhist (fst (step e ver p2 s o)) /\
    (p_uid p1 = p_uid p2 -> p_uid (fst (step e ver p1 s o)) = p_uid (fst (step e ver p2 s o))) /\
    (is_uid_op o = false -> p_uid (fst (step e ver p1 s o)) = p_uid p1 /\
                            p_uid (fst (step e ver p2 s o)) = p_uid p2).
  Proof.
    intros [Hd1 Ht1] [Hd2 Ht2] Hr Ho. destruct o; cbn [Isolation.step is_uid_op] in *.
    - rewrite <- Hr. destruct (p_rowhist p1) eqn:E; cbn [fst snd set_rowhist p_rowhist p_uid]; splits; auto;
        try (rewrite E; exact Hr).
    - cbn [fst snd]. splits; auto.
    - destruct Ho as [Ho|Ho]; [discriminate|].
      destruct (gen_find g (rs_gens s)) as [[c i]|]; cbn [fst snd touch_masks draw_context p_rowhist p_uid].
      + splits; auto; try (intros; discriminate).
      + rewrite Ho. splits; auto; try (intros; discriminate).
    - pose proof (lru_call_value date_cache_size parse_d (p_dates p1) k (fun v H => Hd1 k v H)) as V1.
      pose proof (lru_call_value date_cache_size parse_d (p_dates p2) k (fun v H => Hd2 k v H)) as V2.
      destruct (lru_call date_cache_size parse_d (p_dates p1) k) as [c1 r1].
      destruct (lru_call date_cache_size parse_d (p_dates p2) k) as [c2 r2].
      cbn [snd fst set_dates p_rowhist p_uid] in *. subst r1 r2. splits; auto.
    - destruct (String.eqb k "now"); [cbn [fst snd]; splits; auto|].
      destruct (String.eqb k "today"); [cbn [fst snd]; splits; auto|].
      destruct (is_relative_spec k); [cbn [fst snd]; splits; auto|].
      pose proof (lru_call_value date_cache_size parse_dt (p_dts p1) k (fun v H => Ht1 k v H)) as V1.
      pose proof (lru_call_value date_cache_size parse_dt (p_dts p2) k (fun v H => Ht2 k v H)) as V2.
      destruct (lru_call date_cache_size parse_dt (p_dts p1) k) as [c1 r1].
      destruct (lru_call date_cache_size parse_dt (p_dts p2) k) as [c2 r2].
      cbn [snd fst set_dts p_rowhist p_uid] in *. subst r1 r2. splits; auto.
    - rewrite <- Hr. destruct (p_rowhist p1) eqn:E.
      + destruct (existsb _ _); cbn [fst snd]; rewrite ?E; splits; auto.
      + cbn [fst snd]. rewrite E. splits; auto.
    - cbn [fst snd]. splits; auto.
    - cbn [fst snd]. splits; auto.
  Qed.

  Lemma exec_nonint e ver ops : forall p1 p2 s,
    coherent p1 -> coherent p2 -> p_rowhist p1 = p_rowhist p2 -> uid_ok ops p1 p2 ->
    snd (exec_ops e ver p1 s ops) = snd (exec_ops e ver p2 s ops).
  Proof.
    induction ops as [|o ops IH]; intros p1 p2 s H1 H2 Hr Hu; cbn [Isolation.exec_ops]; auto.
    assert (Ho : is_uid_op o = false \/ p_uid p1 = p_uid p2).
    { destruct Hu as [Hu|Hu]; [left|right; exact Hu]. cbn [existsb] in Hu.
      apply Bool.orb_false_iff in Hu. tauto. }
    destruct (step_nonint e ver p1 p2 s o H1 H2 Hr Ho) as (Hs & Hr' & Hsame & Hkeep).
    pose proof (step_coherent e ver p1 s o H1) as C1.
    pose proof (step_coherent e ver p2 s o H2) as C2.
    assert (Hu' : uid_ok ops (fst (step e ver p1 s o)) (fst (step e ver p2 s o))).
    { destruct Hu as [Hu|Hu]; [left|right; auto].
      cbn [existsb] in Hu. apply Bool.orb_false_iff in Hu. tauto. }
    destruct (step e ver p1 s o) as [q1 x1]. destruct (step e ver p2 s o) as [q2 x2].
    cbn [fst snd] in *. subst x2. destruct x1 as [[s' b]|er]; cbn [snd]; auto.
    specialize (IH q1 q2 s' C1 C2 Hr' Hu').
    destruct (exec_ops e ver q1 s' ops) as [r1 o1]. destruct (exec_ops e ver q2 s' ops) as [r2 o2].
    cbn [snd] in *. subst o2. reflexivity.
  Qed.

  (* Noninterference.  For the same inputs (recipe, clock, application options) the outcome of
     a run is the same in any two coherent process states - for EVERY recipe if the two states
     agree on the unique-id context counter, and without any condition on the states if the
     recipe draws no unique id.  (Clock keys make the outcome depend on the clock input [e],
     not on the process.) *)
  Theorem noninterference p1 p2 e r :
    coherent p1 -> coherent p2 -> (no_uid r = true \/ p_uid p1 = p_uid p2) ->
    snd (run p1 e r) = snd (run p2 e r).
  Proof.
    intros H1 H2 Hn. unfold Isolation.run. destruct (r_stage r); cbn [snd]; auto.
    apply exec_nonint.
    - destruct H1 as [A B]. split; assumption.
    - destruct H2 as [A B]. split; assumption.
    - reflexivity.
    - destruct Hn as [Hn|Hn]; [left|right; exact Hn].
      unfold no_uid in Hn. apply Bool.negb_true_iff in Hn. exact Hn.
  Qed.

  (* ... in particular after any two histories of runs, and compared with a fresh process *)
  Theorem sequence_independent h1 h2 e r :
    no_uid r = true -> snd (run (after h1) e r) = snd (run (after h2) e r).
  Proof. intros Hn. apply noninterference; auto using after_coherent. Qed.

  Corollary same_as_fresh_process h e r :
    no_uid r = true -> snd (run (after h) e r) = snd (run proc0 e r).
  Proof. intros Hn. exact (sequence_independent h [] e r Hn). Qed.

  (* ---------------------------------------------------------------- what a run leaves behind *)

  Lemma step_uid_mono e ver p s o : p_uid p <= p_uid (fst (step e ver p s o)).
  Proof.
    destruct o; cbn [Isolation.step].
    - destruct (p_rowhist p); cbn; lia.
    - cbn; lia.
    - destruct (gen_find g (rs_gens s)) as [[c i]|]; cbn; lia.
    - destruct (lru_call _ _ _ _); cbn; lia.
    - dt_branches k; try (cbn; lia). destruct (lru_call _ _ _ _); cbn; lia.
    - destruct (p_rowhist p); [destruct (existsb _ _)|]; cbn; lia.
    - cbn; lia.
    - cbn; lia.
  Qed.

  Lemma exec_uid_mono e ver ops : forall p s, p_uid p <= p_uid (fst (exec_ops e ver p s ops)).
  Proof.
    induction ops as [|o ops IH]; intros p s; cbn [Isolation.exec_ops]; [cbn; lia|].
    pose proof (step_uid_mono e ver p s o) as H.
    destruct (step e ver p s o) as [p' [[s' b]|er]]; cbn [fst] in *; auto.
    specialize (IH p' s'). destruct (exec_ops e ver p' s' ops) as [p'' out]. cbn [fst] in *. lia.
  Qed.

  (* Any run - failing or not - leaves the process coherent and never lowers the unique-id
     counter.  (The application's options dict is not part of the state any more.) *)
  Theorem run_effects p e r :
    let p' := fst (run p e r) in
    (coherent p -> coherent p') /\ p_uid p <= p_uid p'.
  Proof.
    cbn zeta. splits.
    - apply run_coherent.
    - unfold Isolation.run. destruct (r_stage r); cbn [fst]; try lia.
      eapply Z.le_trans; [|apply exec_uid_mono]. cbn [set_rowhist p_uid]. lia.
  Qed.

  (* A failed run does not poison the next one: after a failing run r1 the outcome of a
     recipe r2 that draws no unique id is what it would have been without r1.
     (The failure hypothesis is not used: the statement holds for every run r1.) *)
  Theorem failed_run_harmless p e1 r1 e2 r2 :
    coherent p -> o_err (snd (run p e1 r1)) <> None -> no_uid r2 = true ->
    snd (run (fst (run p e1 r1)) e2 r2) = snd (run p e2 r2).
  Proof. intros H _ Hn. apply noninterference; auto using run_coherent. Qed.

  (* ---------------------------------------------------------------- ids start at 1 *)

  Lemma Zseq_length a n : length (Zseq a n) = n.
  Proof. revert a. induction n; intros a; cbn [Zseq length]; auto. Qed.

  Lemma ids_of_app t a b : ids_of t (a ++ b) = ids_of t a ++ ids_of t b.
  Proof.
    induction a as [|x a IH]; cbn [app ids_of]; auto.
    destruct x; auto. destruct (String.eqb t table); cbn [app]; congruence.
  Qed.

  Lemma step_ids e ver p s o p' s' b t :
    step e ver p s o = (p', Ok (s', b)) ->
    (ids_of t b = [] /\ last_id t s' = last_id t s) \/
    (ids_of t b = [last_id t s + 1] /\ last_id t s' = last_id t s + 1).
  Proof.
    destruct o; cbn [Isolation.step]; intros H.
    - injection H as _ <- <-. cbn [ids_of].
      destruct (String.eqb t table) eqn:E.
      + apply String.eqb_eq in E. subst table. right. split; [reflexivity|].
        unfold last_id. cbn [rs_ids]. rewrite assoc_find_set_same. reflexivity.
      + left. split; [reflexivity|].
        unfold last_id. cbn [rs_ids]. rewrite assoc_find_set_other by exact E. reflexivity.
    - injection H as _ <- <-. left. auto.
    - destruct (gen_find g (rs_gens s)) as [[c i]|]; injection H as _ <- <-; left; auto.
    - destruct (lru_call _ _ _ _) as [c [v|]]; [|discriminate]. injection H as _ <- <-. left; auto.
    - dt_branches k; try (injection H as _ <- <-; left; auto).
      destruct (lru_call _ _ _ _) as [c [v|]]; [|discriminate]. injection H as _ <- <-. left; auto.
    - destruct (p_rowhist p); [|discriminate]. destruct (existsb _ _); [|discriminate].
      injection H as _ <- <-. left; auto.
    - injection H as _ <- <-. left; auto.
    - discriminate.
  Qed.

  Lemma exec_ids e ver t ops : forall p s,
    let out := snd (exec_ops e ver p s ops) in
    ids_of t (o_obs out) = Zseq (last_id t s + 1) (length (ids_of t (o_obs out))).
  Proof.
    induction ops as [|o ops IH]; intros p s; cbn zeta; cbn [Isolation.exec_ops]; [reflexivity|].
    destruct (step e ver p s o) as [p' [[s' b]|er]] eqn:E; [|reflexivity].
    specialize (IH p' s'). cbn zeta in IH.
    destruct (exec_ops e ver p' s' ops) as [p'' out]. cbn [snd o_obs] in *.
    rewrite ids_of_app.
    destruct (step_ids e ver p s o p' s' b t E) as [[Hb Hl]|[Hb Hl]]; rewrite Hb; cbn [app length].
    - rewrite Hl in IH. exact IH.
    - cbn [Zseq]. f_equal. rewrite Hl in IH. exact IH.
  Qed.

  (* Whatever ran before in the process, the ids a run gives to the rows of a table are
     1, 2, 3, ... (by construction: the IdManager is created by the run). *)
  Theorem ids_start_at_one p e r t :
    let ids := ids_of t (o_obs (snd (run p e r))) in ids = Zseq 1 (length ids).
  Proof.
    cbn zeta. unfold Isolation.run. destruct (r_stage r); cbn [snd o_obs ids_of length Zseq]; auto.
    apply (exec_ids e _ t (r_ops r) _ rs0).
  Qed.

  (* ---------------------------------------------------------------- unique ids across runs *)

  Definition gens_inv (p : proc) (s : rstate) : Prop :=
    (forall g c i, gen_find g (rs_gens s) = Some (c, i) -> c < p_uid p) /\
    (forall g g' c i i', gen_find g (rs_gens s) = Some (c, i) ->
                         gen_find g' (rs_gens s) = Some (c, i') -> g = g').

  Lemma uid_obs_app a b : uid_obs (a ++ b) = uid_obs a ++ uid_obs b.
  Proof. induction a as [|x a IH]; cbn [app uid_obs]; auto. destruct x; cbn [app]; congruence. Qed.

  Lemma uid_pairs_app a b : uid_pairs (a ++ b) = uid_pairs a ++ uid_pairs b.
  Proof. unfold uid_pairs. rewrite uid_obs_app, map_app. reflexivity. Qed.

  (* operations other than OUid: no unique id observed, counter and generators unchanged *)
  Lemma step_no_uid e ver p s o p' s' b :
    (forall g, o <> OUid g) -> step e ver p s o = (p', Ok (s', b)) ->
    uid_pairs b = [] /\ p_uid p' = p_uid p /\ rs_gens s' = rs_gens s.
  Proof.
    intros No. destruct o; cbn [Isolation.step]; intros H.
    - injection H as <- <- <-. destruct (p_rowhist p); auto.
    - injection H as <- <- <-. auto.
    - exfalso. apply (No g). reflexivity.
    - destruct (lru_call _ _ _ _) as [c [v|]]; [|discriminate]. injection H as <- <- <-. auto.
    - dt_branches k; try (injection H as <- <- <-; auto).
      destruct (lru_call _ _ _ _) as [c [v|]]; [|discriminate]. injection H as <- <- <-. auto.
    - destruct (p_rowhist p); [|discriminate]. destruct (existsb _ _); [|discriminate].
      injection H as <- <- <-. auto.
    - injection H as <- <- <-. auto.
    - discriminate.
  Qed.

  Lemma exec_uids e ver ops : forall p s,
    gens_inv p s ->
    let r := exec_ops e ver p s ops in
    p_uid p <= p_uid (fst r) /\
    NoDup (uid_pairs (o_obs (snd r))) /\
    (forall c i, In (c, i) (uid_pairs (o_obs (snd r))) ->
       c < p_uid (fst r) /\
       (p_uid p <= c \/ exists g i0, gen_find g (rs_gens s) = Some (c, i0) /\ i0 <= i)).
  Proof.
    induction ops as [|o ops IH]; intros p s Inv; cbn zeta; cbn [Isolation.exec_ops].
    - cbn. splits; [lia|constructor|tauto].
    - destruct (step e ver p s o) as [p' [[s' b]|er]] eqn:E;
        [|cbn [fst snd o_obs]; pose proof (step_uid_mono e ver p s o) as M; rewrite E in M;
          cbn [fst] in M; splits; [exact M|constructor|cbn; tauto]].
      assert (Hcase : (forall g, o <> OUid g) \/ exists g, o = OUid g).
      { destruct o; try (left; intros g0; discriminate). right. eexists. reflexivity. }
      destruct Hcase as [No|[g ->]].
      + destruct (step_no_uid e ver p s o p' s' b No E) as (Hb & Hu & Hg).
        assert (Inv' : gens_inv p' s').
        { destruct Inv as [I1 I2]. unfold gens_inv. rewrite Hg, Hu. split; assumption. }
        specialize (IH p' s' Inv'). cbn zeta in IH.
        destruct (exec_ops e ver p' s' ops) as [p'' out]. cbn [fst snd o_obs] in *.
        destruct IH as (M & N & B). rewrite uid_pairs_app, Hb. cbn [app].
        splits; [lia|exact N|].
        intros c i Hin. destruct (B c i Hin) as [Hlt Hor]. split; [exact Hlt|].
        rewrite Hu, Hg in Hor. exact Hor.
      + cbn [Isolation.step] in E. destruct Inv as [I1 I2].
        destruct (gen_find g (rs_gens s)) as [[c0 i0]|] eqn:G; injection E as <- <- <-.
        * (* existing generator *)
          assert (Inv' : gens_inv (touch_masks p)
                                  (mkRs (rs_ids s) (rs_states s) (gen_set g (c0, i0 + 1) (rs_gens s)))).
          { split; cbn [rs_gens touch_masks p_uid].
            - intros g1 c i Hf. destruct (gslot_eqb g1 g) eqn:Eg.
              + apply gslot_eqb_eq in Eg. subst g1. rewrite gen_find_set_same in Hf.
                injection Hf as <- _. eapply I1; eauto.
              + rewrite gen_find_set_other in Hf; [eapply I1; eauto|].
                intros ->. rewrite gslot_eqb_refl in Eg. discriminate.
            - intros g1 g2 c i i' H1 H2.
              destruct (gslot_eqb g1 g) eqn:E1; destruct (gslot_eqb g2 g) eqn:E2.
              + apply gslot_eqb_eq in E1, E2. congruence.
              + apply gslot_eqb_eq in E1. subst g1. rewrite gen_find_set_same in H1.
                injection H1 as <- _.
                rewrite gen_find_set_other in H2
                  by (intros ->; rewrite gslot_eqb_refl in E2; discriminate).
                symmetry. eapply I2; eauto.
              + apply gslot_eqb_eq in E2. subst g2. rewrite gen_find_set_same in H2.
                injection H2 as <- _.
                rewrite gen_find_set_other in H1
                  by (intros ->; rewrite gslot_eqb_refl in E1; discriminate).
                eapply I2; eauto.
              + rewrite gen_find_set_other in H1
                  by (intros ->; rewrite gslot_eqb_refl in E1; discriminate).
                rewrite gen_find_set_other in H2
                  by (intros ->; rewrite gslot_eqb_refl in E2; discriminate).
                eapply I2; eauto. }
          specialize (IH _ _ Inv'). cbn zeta in IH.
          destruct (exec_ops e ver (touch_masks p) _ ops) as [p'' out]. cbn [fst snd o_obs] in *.
          destruct IH as (M & N & B). cbn [touch_masks p_uid] in M, B.
          rewrite uid_pairs_app. unfold uid_pairs at 1 3. cbn [uid_obs map snd app].
          pose proof (I1 g c0 i0 G) as Hc0.
          splits; [lia| |].
          -- constructor; [|exact N]. intros Hin. destruct (B c0 i0 Hin) as [_ [Hge|(g1 & i1 & Hf & Hle)]]; [lia|].
             cbn [rs_gens] in Hf. destruct (gslot_eqb g1 g) eqn:Eg.
             ++ apply gslot_eqb_eq in Eg. subst g1. rewrite gen_find_set_same in Hf.
                injection Hf as <-. lia.
             ++ rewrite gen_find_set_other in Hf
                  by (intros ->; rewrite gslot_eqb_refl in Eg; discriminate).
                assert (g1 = g) by (eapply I2; eauto). subst g1.
                rewrite gslot_eqb_refl in Eg. discriminate.
          -- intros c i [Heq|Hin].
             ++ injection Heq as <- <-. split; [lia|]. right. exists g, i0. split; [exact G|lia].
             ++ destruct (B c i Hin) as [Hlt Hor]. split; [exact Hlt|].
                destruct Hor as [Hge|(g1 & i1 & Hf & Hle)]; [left; exact Hge|right].
                cbn [rs_gens] in Hf. destruct (gslot_eqb g1 g) eqn:Eg.
                ** apply gslot_eqb_eq in Eg. subst g1. rewrite gen_find_set_same in Hf.
                   injection Hf as <- <-. exists g, i0. split; [exact G|lia].
                ** rewrite gen_find_set_other in Hf
                     by (intros ->; rewrite gslot_eqb_refl in Eg; discriminate).
                   exists g1, i1. split; assumption.
        * (* a generator is created: it draws the process-wide context counter *)
          assert (Inv' : gens_inv (touch_masks (draw_context p))
                                  (mkRs (rs_ids s) (rs_states s)
                                        (gen_set g (p_uid p, first_index g + 1) (rs_gens s)))).
          { split; cbn [rs_gens touch_masks draw_context p_uid].
            - intros g1 c i Hf. destruct (gslot_eqb g1 g) eqn:Eg.
              + apply gslot_eqb_eq in Eg. subst g1. rewrite gen_find_set_same in Hf.
                injection Hf as <- _. lia.
              + rewrite gen_find_set_other in Hf
                  by (intros ->; rewrite gslot_eqb_refl in Eg; discriminate).
                pose proof (I1 _ _ _ Hf). lia.
            - intros g1 g2 c i i' H1 H2.
              destruct (gslot_eqb g1 g) eqn:E1; destruct (gslot_eqb g2 g) eqn:E2.
              + apply gslot_eqb_eq in E1, E2. congruence.
              + apply gslot_eqb_eq in E1. subst g1. rewrite gen_find_set_same in H1.
                injection H1 as <- _.
                rewrite gen_find_set_other in H2
                  by (intros ->; rewrite gslot_eqb_refl in E2; discriminate).
                pose proof (I1 _ _ _ H2). lia.
              + apply gslot_eqb_eq in E2. subst g2. rewrite gen_find_set_same in H2.
                injection H2 as <- _.
                rewrite gen_find_set_other in H1
                  by (intros ->; rewrite gslot_eqb_refl in E1; discriminate).
                pose proof (I1 _ _ _ H1). lia.
              + rewrite gen_find_set_other in H1
                  by (intros ->; rewrite gslot_eqb_refl in E1; discriminate).
                rewrite gen_find_set_other in H2
                  by (intros ->; rewrite gslot_eqb_refl in E2; discriminate).
                eapply I2; eauto. }
          specialize (IH _ _ Inv'). cbn zeta in IH.
          destruct (exec_ops e ver (touch_masks (draw_context p)) _ ops) as [p'' out].
          cbn [fst snd o_obs] in *.
          destruct IH as (M & N & B). cbn [touch_masks draw_context p_uid] in M, B.
          rewrite uid_pairs_app. unfold uid_pairs at 1 3. cbn [uid_obs map snd app].
          splits; [lia| |].
          -- constructor; [|exact N]. intros Hin.
             destruct (B _ _ Hin) as [_ [Hge|(g1 & i1 & Hf & Hle)]]; [lia|].
             cbn [rs_gens] in Hf. destruct (gslot_eqb g1 g) eqn:Eg.
             ++ apply gslot_eqb_eq in Eg. subst g1. rewrite gen_find_set_same in Hf.
                injection Hf as <-. lia.
             ++ rewrite gen_find_set_other in Hf
                  by (intros ->; rewrite gslot_eqb_refl in Eg; discriminate).
                pose proof (I1 _ _ _ Hf). lia.
          -- intros c i [Heq|Hin].
             ++ injection Heq as <- <-. split; [lia|]. left. lia.
             ++ destruct (B c i Hin) as [Hlt Hor]. split; [exact Hlt|].
                destruct Hor as [Hge|(g1 & i1 & Hf & Hle)]; [left; lia|].
                cbn [rs_gens] in Hf. destruct (gslot_eqb g1 g) eqn:Eg.
                ** apply gslot_eqb_eq in Eg. subst g1. rewrite gen_find_set_same in Hf.
                   injection Hf as <- <-. left. lia.
                ** rewrite gen_find_set_other in Hf
                     by (intros ->; rewrite gslot_eqb_refl in Eg; discriminate).
                   right. exists g1, i1. split; assumption.
  Qed.

  Lemma gens_inv_rs0 p : gens_inv p rs0.
  Proof. split; cbn; intros; discriminate. Qed.

  (* one run: its draws are pairwise distinct and their contexts lie between the counter before
     and the counter after the run *)
  Lemma run_uids p e r :
    let x := run p e r in
    p_uid p <= p_uid (fst x) /\
    NoDup (uid_pairs (o_obs (snd x))) /\
    (forall c i, In (c, i) (uid_pairs (o_obs (snd x))) -> p_uid p <= c < p_uid (fst x)).
  Proof.
    cbn zeta. unfold Isolation.run. destruct (r_stage r).
    - cbn. splits; [lia|constructor|tauto].
    - cbn. splits; [lia|constructor|tauto].
    - pose proof (exec_uids e (effective_version e r) (r_ops r)
                            (set_rowhist p (Some [])) rs0 (gens_inv_rs0 _)) as H.
      cbn zeta in H. destruct (exec_ops _ _ _ _ _) as [p' out]. cbn [fst snd] in *.
      cbn [set_rowhist p_uid] in H. destruct H as (M & N & B). splits; auto.
      intros c i Hin. destruct (B c i Hin) as [Hlt [Hge|(g & i0 & Hf & _)]]; [lia|].
      cbn in Hf. discriminate.
  Qed.

  Definition all_uid_pairs (os : list outcome) : list (Z * Z) :=
    flat_map (fun o => uid_pairs (o_obs o)) os.

  Lemma run_seq_uids l : forall p,
    let x := run_seq p l in
    p_uid p <= p_uid (fst x) /\
    NoDup (all_uid_pairs (snd x)) /\
    (forall c i, In (c, i) (all_uid_pairs (snd x)) -> p_uid p <= c < p_uid (fst x)).
  Proof.
    induction l as [|[e r] l IH]; intros p; cbn zeta; cbn [Isolation.run_seq].
    - cbn. splits; [lia|constructor|tauto].
    - pose proof (run_uids p e r) as H. cbn zeta in H. destruct (run p e r) as [p1 o].
      specialize (IH p1). cbn zeta in IH. destruct (run_seq p1 l) as [p2 os].
      cbn [fst snd] in *. destruct H as (M1 & N1 & B1). destruct IH as (M2 & N2 & B2).
      unfold all_uid_pairs in *. cbn [flat_map]. splits; [lia| |].
      + apply NoDup_app_intro; auto. intros [c i] H1 H2.
        pose proof (B1 c i H1). pose proof (B2 c i H2). lia.
      + intros c i Hin. apply in_app_iff in Hin. destruct Hin as [Hin|Hin].
        * pose proof (B1 c i Hin). lia.
        * pose proof (B2 c i Hin). lia.
  Qed.

  (* Unique ids stay distinct across runs in one process: over any sequence of runs started in
     any process state, no (context, index) pair is drawn twice, and every context drawn is at
     least the counter value the sequence started with (so it also differs from everything
     drawn before). *)
  Theorem uid_still_distinct p l :
    NoDup (all_uid_pairs (snd (run_seq p l))) /\
    forall c i, In (c, i) (all_uid_pairs (snd (run_seq p l))) -> p_uid p <= c.
  Proof.
    pose proof (run_seq_uids l p) as (M & N & B). cbn zeta in *. split; auto.
    intros c i H. pose proof (B c i H). lia.
  Qed.

  Definition all_num_uid_pairs (os : list outcome) : list (Z * Z) :=
    flat_map (fun o => num_uid_pairs (o_obs o)) os.

  Lemma all_num_incl os x : In x (all_num_uid_pairs os) -> In x (all_uid_pairs os).
  Proof.
    unfold all_num_uid_pairs, all_uid_pairs. rewrite !in_flat_map.
    intros (o & Ho & Hx). exists o. split; auto.
    unfold num_uid_pairs, uid_pairs in *. apply in_map_iff in Hx. destruct Hx as (y & <- & Hy).
    apply filter_In in Hy. apply in_map. tauto.
  Qed.

  Lemma all_num_NoDup p l : NoDup (all_num_uid_pairs (snd (run_seq p l))).
  Proof.
    revert p. induction l as [|[e r] l IH]; intros p; cbn [Isolation.run_seq].
    - constructor.
    - pose proof (run_uids p e r) as H. cbn zeta in H. destruct (run p e r) as [p1 o].
      pose proof (run_seq_uids l p1) as H2. cbn zeta in H2. specialize (IH p1).
      destruct (run_seq p1 l) as [p2 os]. cbn [fst snd] in *.
      destruct H as (M1 & N1 & B1). destruct H2 as (M2 & N2 & B2).
      unfold all_num_uid_pairs. cbn [flat_map]. apply NoDup_app_intro.
      + unfold num_uid_pairs. apply NoDup_map_filter. exact N1.
      + exact IH.
      + intros [c i] H1 H3.
        assert (In (c, i) (uid_pairs (o_obs o))).
        { unfold num_uid_pairs, uid_pairs in *. apply in_map_iff in H1.
          destruct H1 as (y & <- & Hy). apply filter_In in Hy. apply in_map. tauto. }
        pose proof (B1 c i H). pose proof (B2 c i (all_num_incl _ _ H3)). lia.
  Qed.
End P.

(* ... hence, with the value pipeline of C13 (UniqueId.v): the numbers produced by all default
   numeric generators (unique_id, UniqueId.unique_id; small-id or big-id mode, any pid) over a
   whole sequence of runs in one process are pairwise distinct. *)
Theorem uid_values_distinct (parse_d parse_dt : key -> option Z)
        (mask : Z -> Z -> Z) (nbits : Z -> Z) (big : bool) (pid : list Z) p l vs :
  map (fun ci => num_value mask nbits (default_numeric_tpl big) pid (fst ci) (snd ci) true)
      (all_num_uid_pairs (snd (run_seq parse_d parse_dt p l))) = map Ok vs ->
  NoDup vs.
Proof.
  intros H. eapply NoDup_of_injective_keys; [| |exact H].
  - apply all_num_NoDup.
  - intros [c i] [c' i'] v _ _ Hv Hv'. cbn [fst snd] in *.
    destruct (pipeline_numeric_pair mask nbits _ _ _ _ _ _ _ _ _ Hv Hv') as [-> ->]. reflexivity.
Qed.
