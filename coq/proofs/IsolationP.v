(* IsolationP.v — proofs about the process-state model of theories/Isolation.v (property C19). *)
From Coq Require Import Lia.
From SFV Require Import Base Isolation UniqueId.
From SFV.P Require Import BaseP UniqueIdP.

Ltac splits := repeat match goal with |- _ /\ _ => split end.

(* ---------------------------------------------------------------- association lists *)

Lemma assoc_find_In {V} k (l : list (key * V)) v : assoc_find k l = Some v -> In (k, v) l.
Proof.
  induction l as [|[k' v'] l IH]; cbn [assoc_find]; [discriminate|].
  destruct (String.eqb k k') eqn:E.
  - apply String.eqb_eq in E. subst. intros [= ->]. left. reflexivity.
  - intros H. right. auto.
Qed.

Lemma assoc_remove_In {V} k (l : list (key * V)) x : In x (assoc_remove k l) -> In x l.
Proof.
  induction l as [|[k' v'] l IH]; cbn [assoc_remove]; [tauto|].
  destruct (String.eqb k k'); cbn [In]; intuition.
Qed.

Lemma firstn_In {A} n (l : list A) x : In x (firstn n l) -> In x l.
Proof.
  revert l. induction n; intros [|a l]; cbn [firstn In]; try tauto. intuition.
Qed.

Lemma assoc_find_set_same k v l : assoc_find k (assoc_set k v l) = Some v.
Proof.
  induction l as [|[k' v'] l IH]; cbn [assoc_set assoc_find].
  - rewrite String.eqb_refl. reflexivity.
  - destruct (String.eqb k k') eqn:E; cbn [assoc_find]; rewrite ?String.eqb_refl, ?E; auto.
Qed.

Lemma assoc_find_set_other k k' v l :
  String.eqb k' k = false -> assoc_find k' (assoc_set k v l) = assoc_find k' l.
Proof.
  intros N. induction l as [|[k2 v2] l IH]; cbn [assoc_set assoc_find].
  - rewrite N. reflexivity.
  - destruct (String.eqb k k2) eqn:E; cbn [assoc_find].
    + apply String.eqb_eq in E. subst k2. rewrite N. reflexivity.
    + destruct (String.eqb k' k2); auto.
Qed.

Lemma gslot_eqb_eq a b : gslot_eqb a b = true <-> a = b.
Proof. destruct a, b; cbn; split; congruence. Qed.

Lemma gslot_eqb_refl a : gslot_eqb a a = true.
Proof. destruct a; reflexivity. Qed.

Lemma gen_find_set_same g x l : gen_find g (gen_set g x l) = Some x.
Proof.
  induction l as [|[g' y] l IH]; cbn [gen_set gen_find].
  - rewrite gslot_eqb_refl. reflexivity.
  - destruct (gslot_eqb g g') eqn:E; cbn [gen_find]; rewrite ?gslot_eqb_refl, ?E; auto.
Qed.

Lemma gen_find_set_other g g' x l : g' <> g -> gen_find g' (gen_set g x l) = gen_find g' l.
Proof.
  intros N. assert (N' : gslot_eqb g' g = false).
  { destruct (gslot_eqb g' g) eqn:E; auto. apply gslot_eqb_eq in E. contradiction. }
  induction l as [|[g2 y] l IH]; cbn [gen_set gen_find].
  - rewrite N'. reflexivity.
  - destruct (gslot_eqb g g2) eqn:E; cbn [gen_find].
    + apply gslot_eqb_eq in E. subst g2. rewrite N'. reflexivity.
    + destruct (gslot_eqb g' g2); auto.
Qed.

Lemma NoDup_app_intro {A} (a b : list A) :
  NoDup a -> NoDup b -> (forall x, In x a -> ~ In x b) -> NoDup (a ++ b).
Proof.
  induction a as [|x a IH]; cbn [app]; intros Ha Hb Hd; auto.
  inversion Ha; subst. constructor.
  - rewrite in_app_iff. intros [H|H]; [contradiction|]. apply (Hd x); cbn; auto.
  - apply IH; auto. intros y Hy. apply Hd. cbn. auto.
Qed.

Lemma NoDup_map_filter {A B} (f : A -> B) (q : A -> bool) l :
  NoDup (map f l) -> NoDup (map f (filter q l)).
Proof.
  induction l as [|a l IH]; cbn [map filter]; auto.
  intros H. inversion H; subst. destruct (q a); cbn [map]; auto.
  constructor; auto. intros Hin. apply H2.
  apply in_map_iff in Hin. destruct Hin as (y & Hy & Hf). apply filter_In in Hf.
  apply in_map_iff. exists y. tauto.
Qed.

(* ---------------------------------------------------------------- the cache *)

Section Cache.
  Variable P : key -> Z -> Prop.

  Definition items_sat (c : lru) : Prop := forall k v, In (k, v) (l_items c) -> P k v.

  (* whatever property the wrapped function's results have, the cached entries keep *)
  Lemma lru_call_items n f c k :
    items_sat c -> (forall v, f k = Some v -> P k v) -> items_sat (fst (lru_call n f c k)).
  Proof.
    intros Hc Hf. unfold lru_call.
    destruct (assoc_find k (l_items c)) as [v|] eqn:E.
    - cbn [fst l_items]. intros k' v' [H|H].
      + injection H as <- <-. apply Hc. apply assoc_find_In. exact E.
      + apply Hc. eapply assoc_remove_In. exact H.
    - destruct (f k) as [v|] eqn:F; cbn [fst l_items]; auto.
      intros k' v' H. apply firstn_In in H. destruct H as [H|H].
      + injection H as <- <-. auto.
      + auto.
  Qed.
End Cache.

(* a cached result equals a fresh call whenever every entry under that key agrees with the
   wrapped function *)
Lemma lru_call_value n f c k :
  (forall v, In (k, v) (l_items c) -> f k = Some v) -> snd (lru_call n f c k) = f k.
Proof.
  intros H. unfold lru_call. destruct (assoc_find k (l_items c)) as [v|] eqn:E.
  - cbn [snd]. symmetry. apply H. apply assoc_find_In. exact E.
  - destruct (f k); reflexivity.
Qed.

Lemma lru_call_misses n f c k : l_misses c <= l_misses (fst (lru_call n f c k)).
Proof.
  unfold lru_call. destruct (assoc_find k (l_items c)); [cbn; lia|].
  destruct (f k); cbn [fst l_misses]; lia.
Qed.

(* ---------------------------------------------------------------- coherence invariant *)

Lemma proc_eta p :
  mkProc (p_uid p) (p_dates p) (p_dts p) (p_masks p) (p_rowhist p) (p_cwd p) (p_path p) (p_home p)
         (p_modules p) (p_app p) = p.
Proof. destruct p; reflexivity. Qed.

(* ---------------------------------------------------------------- restoring runs are independent *)

(* The argument in the abstract, for ANY state space and ANY run function.  [R a b]: the states a
   and b cannot be told apart by a run of an admissible job ([reads_only_R]).  [restores]: a run -
   of any job, admissible or not, and whatever its exit path: the result component, which says
   whether it ended normally, with a recipe error or with another exception, is not consulted -
   leaves a state that cannot be told apart from the one it started in.  Then no history of runs
   can change the outcome of the next admissible job. *)
Section Restore.
  Variables St In Out : Type.
  Variable grun : St -> In -> St * Out.
  Variable R : St -> St -> Prop.
  Variable admissible : In -> Prop.
  Hypothesis R_sym : forall a b, R a b -> R b a.
  Hypothesis R_trans : forall a b c, R a b -> R b c -> R a c.
  Hypothesis reads_only_R : forall s1 s2 i, admissible i -> R s1 s2 -> snd (grun s1 i) = snd (grun s2 i).
  Hypothesis restores : forall s i, R s s -> R (fst (grun s i)) s.

  Fixpoint gafter (s : St) (h : list In) : St :=
    match h with [] => s | i :: r => gafter (fst (grun s i)) r end.

  Lemma gafter_R h : forall s, R s s -> R (gafter s h) s.
  Proof.
    induction h as [|i h IH]; intros s Hs; cbn [gafter]; auto.
    pose proof (restores s i Hs) as H1.
    assert (H2 : R (fst (grun s i)) (fst (grun s i))) by (eapply R_trans; [exact H1|apply R_sym; exact H1]).
    eapply R_trans; [apply IH; exact H2|exact H1].
  Qed.

  Theorem restoring_runs_independent s h i :
    R s s -> admissible i -> snd (grun (gafter s h) i) = snd (grun s i).
  Proof. intros Hs Hi. apply reads_only_R; auto. apply gafter_R. exact Hs. Qed.
End Restore.

Section P.
  Variable parse_d parse_dt : key -> option Z.
  Variable read_file : string -> string -> result Z.
  Variable load_plugin : string -> string -> result bool.

  Notation step := (step parse_d parse_dt read_file).
  Notation exec_ops := (exec_ops parse_d parse_dt read_file).
  Notation iterate := (iterate parse_d parse_dt read_file).
  Notation with_chdir := (with_chdir read_file).
  Notation resolve_all := (resolve_all load_plugin).
  Notation with_plugin_path := (with_plugin_path load_plugin).
  Notation pre_execute := (pre_execute load_plugin).
  Notation run := (run parse_d parse_dt read_file load_plugin).
  Notation run_seq := (run_seq parse_d parse_dt read_file load_plugin).
  Notation after_from := (after_from parse_d parse_dt read_file load_plugin).
  Notation after := (after parse_d parse_dt read_file load_plugin).

  Definition date_entry_ok (k : key) (v : Z) : Prop := parse_d k = Some v.
  Definition dt_entry_ok (k : key) (v : Z) : Prop := parse_dt k = Some v.

  (* every cached parse equals what the parser returns for that key *)
  Definition coherent (p : proc) : Prop :=
    items_sat date_entry_ok (p_dates p) /\ items_sat dt_entry_ok (p_dts p).

  Lemma coherent_init cwd home : coherent (proc_init cwd home).
  Proof. split; intros k v H; destruct H. Qed.

  Lemma coherent_proc0 : coherent proc0.
  Proof. apply coherent_init. Qed.

  (* coherence only looks at the two caches *)
  Lemma coherent_caches p q :
    p_dates q = p_dates p -> p_dts q = p_dts p -> coherent p -> coherent q.
  Proof. unfold coherent. intros -> ->. auto. Qed.

  (* ODatetime: the three branches of parse_datetimespec *)
  Ltac dt_branches k :=
    destruct (String.eqb k "now"); [|destruct (String.eqb k "today"); [|destruct (is_relative_spec k)]].

  (* ---------------------------------------------------------------- the with-blocks *)

  (* `with chdir(d)` as it is in the code (try/finally): however the block is left - normally, by a
     DataGenError or by any other exception - the process is exactly as before *)
  Lemma with_chdir_restores d p file : fst (with_chdir true d p file) = p.
  Proof.
    unfold Isolation.with_chdir. destruct (read_file _ file); cbn [fst]; unfold set_cwd; cbn; apply proc_eta.
  Qed.

  (* what one step leaves untouched: working directory, search path, environment, import cache
     and the application object *)
  Definition ambient (p : proc) : string * list string * string := (p_cwd p, p_path p, p_home p).

  Lemma step_frame e cx p s o :
    let p' := fst (step e cx p s o) in
    ambient p' = ambient p /\ p_modules p' = p_modules p /\ p_app p' = p_app p.
  Proof.
    cbn zeta. destruct o; cbn [Isolation.step].
    - destruct (p_rowhist p); cbn; auto.
    - cbn; auto.
    - destruct (gen_find g (rs_gens s)) as [[c i]|]; cbn; auto.
    - destruct (is_object_key k); [cbn; auto|]. destruct (lru_call _ _ _ _); cbn; auto.
    - dt_branches k; try (cbn; auto; fail). destruct (is_object_key k); [cbn; auto|]. destruct (lru_call _ _ _ _); cbn; auto.
    - destruct (p_rowhist p); [destruct (existsb _ _)|]; cbn; auto.
    - cbn; auto.
    - cbn; auto.
    - destruct (last_id table s =? n); cbn; auto.
    - destruct (assoc_find site (rs_states s)); [cbn; auto|].
      destruct (is_object_key k); [cbn; auto|]. destruct (lru_call _ _ _ _); cbn; auto.
    - destruct (assoc_find site (rs_states s)); [cbn; auto|].
      pose proof (with_chdir_restores (match c_dir cx with Some d => d | None => p_cwd p end) p file) as W.
      destruct (Isolation.with_chdir _ _ _ _ _) as [p' [v|er]]; cbn [fst] in *; subst p'; auto.
  Qed.

  Lemma step_coherent e cx p s o : coherent p -> coherent (fst (step e cx p s o)).
  Proof.
    intros [Hd Ht]. destruct o; cbn [Isolation.step].
    - destruct (p_rowhist p); cbn [fst]; split; assumption.
    - cbn [fst]. split; assumption.
    - destruct (gen_find g (rs_gens s)) as [[c i]|]; cbn [fst]; split; assumption.
    - destruct (is_object_key k); [cbn [fst]; split; assumption|].
      destruct (lru_call date_cache_size parse_d (p_dates p) k) as [c r] eqn:E. cbn [fst].
      split; cbn [set_dates p_dates p_dts]; auto.
      change c with (fst (c, r)). rewrite <- E. apply lru_call_items; auto.
    - dt_branches k; try (cbn [fst]; split; assumption).
      destruct (is_object_key k); [cbn [fst]; split; assumption|].
      destruct (lru_call date_cache_size parse_dt (p_dts p) k) as [c r] eqn:E. cbn [fst].
      split; cbn [set_dts p_dates p_dts]; auto.
      change c with (fst (c, r)). rewrite <- E. apply lru_call_items; auto.
    - destruct (p_rowhist p); [|cbn; split; assumption].
      destruct (existsb _ _); cbn [fst]; split; assumption.
    - cbn [fst]. split; assumption.
    - cbn [fst]. split; assumption.
    - destruct (last_id table s =? n); cbn [fst]; split; assumption.
    - destruct (assoc_find site (rs_states s)); [cbn [fst]; split; assumption|].
      destruct (is_object_key k); [cbn [fst]; split; assumption|].
      destruct (lru_call date_cache_size parse_d (p_dates p) k) as [c r] eqn:E. cbn [fst].
      split; cbn [set_dates p_dates p_dts]; auto.
      change c with (fst (c, r)). rewrite <- E. apply lru_call_items; auto.
    - destruct (assoc_find site (rs_states s)); [cbn [fst]; split; assumption|].
      pose proof (with_chdir_restores (match c_dir cx with Some d => d | None => p_cwd p end) p file) as W.
      destruct (Isolation.with_chdir _ _ _ _ _) as [p' [v|er]]; cbn [fst] in *; subst p'; split; assumption.
  Qed.

  Lemma exec_coherent e cx ops : forall p s, coherent p -> coherent (fst (fst (exec_ops e cx p s ops))).
  Proof.
    induction ops as [|o ops IH]; intros p s H; cbn [Isolation.exec_ops]; auto.
    pose proof (step_coherent e cx p s o H) as H1.
    destruct (step e cx p s o) as [p' [[s' b]|er]]; cbn [fst] in *; auto.
    specialize (IH p' s' H1). destruct (exec_ops e cx p' s' ops) as [[p'' s''] out]. exact IH.
  Qed.

  Lemma exec_frame e cx ops : forall p s,
    let p' := fst (fst (exec_ops e cx p s ops)) in
    ambient p' = ambient p /\ p_modules p' = p_modules p /\ p_app p' = p_app p.
  Proof.
    induction ops as [|o ops IH]; intros p s; cbn zeta; cbn [Isolation.exec_ops]; auto.
    pose proof (step_frame e cx p s o) as H1. cbn zeta in H1.
    destruct (step e cx p s o) as [p' [[s' b]|er]]; cbn [fst] in *; auto.
    specialize (IH p' s'). cbn zeta in IH. destruct (exec_ops e cx p' s' ops) as [[p'' s''] out].
    cbn [fst] in *. destruct H1 as (A & B & C). destruct IH as (A' & B' & C'). rewrite A', B', C'. auto.
  Qed.

  Lemma coherent_set_app p a : coherent p -> coherent (set_app p a).
  Proof. apply coherent_caches; reflexivity. Qed.

  Lemma iterate_coherent e cx c body fuel : forall p s,
    coherent p -> coherent (fst (iterate fuel e cx c body p s)).
  Proof.
    induction fuel as [|f IH]; intros p s H; cbn [Isolation.iterate fst]; auto.
    pose proof (exec_coherent e cx body p s H) as H1.
    destruct (exec_ops e cx p s body) as [[p1 s1] out]. cbn [fst] in H1.
    destruct (o_err out); cbn [fst]; auto.
    destruct (end_of_iteration c s1 (p_app p1)) as [a [[|]|er]]; cbn [fst]; auto using coherent_set_app.
    specialize (IH (set_app p1 a) s1 (coherent_set_app _ a H1)).
    destruct (iterate f e cx c body (set_app p1 a) s1) as [p2 out2]. exact IH.
  Qed.

  (* the application object is the only thing the loop itself writes *)
  Lemma iterate_frame e cx c body fuel : forall p s,
    let p' := fst (iterate fuel e cx c body p s) in
    ambient p' = ambient p /\ p_modules p' = p_modules p.
  Proof.
    induction fuel as [|f IH]; intros p s; cbn zeta; cbn [Isolation.iterate fst]; auto.
    pose proof (exec_frame e cx body p s) as H1. cbn zeta in H1.
    destruct (exec_ops e cx p s body) as [[p1 s1] out]. cbn [fst] in H1. destruct H1 as (A & B & _).
    destruct (o_err out); cbn [fst]; auto.
    destruct (end_of_iteration c s1 (p_app p1)) as [a [[|]|er]]; cbn [fst]; auto.
    specialize (IH (set_app p1 a) s1). cbn zeta in IH.
    destruct (iterate f e cx c body (set_app p1 a) s1) as [p2 out2]. cbn [fst] in *.
    destruct IH as (A' & B'). rewrite A', B'. auto.
  Qed.

  (* resolve_all only grows the import cache *)
  Lemma resolve_all_frame ms : forall p,
    let p' := fst (resolve_all p ms) in
    p_uid p' = p_uid p /\ p_dates p' = p_dates p /\ p_dts p' = p_dts p /\ p_masks p' = p_masks p /\
    p_rowhist p' = p_rowhist p /\ ambient p' = ambient p /\ p_app p' = p_app p /\
    (forall m, In m (p_modules p) -> In m (p_modules p')).
  Proof.
    induction ms as [|m ms IH]; intros p; cbn zeta; cbn [Isolation.resolve_all].
    - cbn [fst]. splits; auto.
    - destruct (existsb (String.eqb m) (p_modules p)) eqn:E; [apply IH|].
      destruct (find_on_path load_plugin (p_path p) m) as [[|]|er]; [|cbn [fst]; splits; auto..].
      specialize (IH (add_module p m)). cbn zeta in IH.
      destruct IH as (A & B & C & D & F & G & H & I).
      unfold add_module in *. cbn [p_uid p_dates p_dts p_masks p_rowhist p_app p_modules] in *.
      rewrite E in *. splits; auto.
      intros m' Hm. apply I. right. exact Hm.
  Qed.

  (* `with plugin_path(...)` as it is in the code: sys.path is put back however the block is left *)
  Lemma with_plugin_path_frame p r :
    let p' := fst (with_plugin_path true p r) in
    p_uid p' = p_uid p /\ p_dates p' = p_dates p /\ p_dts p' = p_dts p /\ p_masks p' = p_masks p /\
    p_rowhist p' = p_rowhist p /\ ambient p' = ambient p /\ p_app p' = p_app p /\
    (forall m, In m (p_modules p) -> In m (p_modules p')).
  Proof.
    cbn zeta. unfold Isolation.with_plugin_path.
    pose proof (resolve_all_frame (r_plugins r) (set_path p (search_path p (r_dir r)))) as H. cbn zeta in H.
    destruct (resolve_all _ _) as [p2 [u|er]]; cbn [fst] in *;
      destruct H as (A & B & C & D & F & G & H & I); unfold ambient in *;
      cbn [set_path p_uid p_dates p_dts p_masks p_rowhist p_cwd p_path p_home p_app p_modules] in *;
      injection G as G1 G2 G3; splits; auto; congruence.
  Qed.

  Lemma pre_execute_frame p e r :
    let p' := fst (pre_execute p e r) in
    p_uid p' = p_uid p /\ p_dates p' = p_dates p /\ p_dts p' = p_dts p /\ p_masks p' = p_masks p /\
    p_rowhist p' = p_rowhist p /\ ambient p' = ambient p /\
    p_app p' = (if e_new_app e then app0 else p_app p) /\
    (forall m, In m (p_modules p) -> In m (p_modules p')).
  Proof.
    cbn zeta. unfold Isolation.pre_execute.
    set (p0 := if e_new_app e then set_app p app0 else p).
    assert (H0 : p_uid p0 = p_uid p /\ p_dates p0 = p_dates p /\ p_dts p0 = p_dts p /\ p_masks p0 = p_masks p /\
                 p_rowhist p0 = p_rowhist p /\ ambient p0 = ambient p /\
                 p_app p0 = (if e_new_app e then app0 else p_app p) /\ p_modules p0 = p_modules p).
    { unfold p0. destruct (e_new_app e); cbn; splits; auto. }
    pose proof (with_plugin_path_frame p0 r) as H. cbn zeta in H.
    destruct H0 as (A0 & B0 & C0 & D0 & F0 & G0 & H0 & I0).
    destruct H as (A & B & C & D & F & G & H & I).
    assert (K : forall q, q = fst (with_plugin_path true p0 r) ->
                p_uid q = p_uid p /\ p_dates q = p_dates p /\ p_dts q = p_dts p /\ p_masks q = p_masks p /\
                p_rowhist q = p_rowhist p /\ ambient q = ambient p /\
                p_app q = (if e_new_app e then app0 else p_app p) /\
                (forall m, In m (p_modules p) -> In m (p_modules q))).
    { intros q ->. splits; try congruence. intros m Hm. apply I. rewrite I0. exact Hm. }
    destruct (with_plugin_path true p0 r) as [p1 [u|er]]; cbn [fst] in *; [|apply K; reflexivity].
    destruct (r_stage r); cbn [fst]; try (apply K; reflexivity).
    destruct (r_crit r) as [n|t n]; [cbn [fst]; apply K; reflexivity|].
    destruct (existsb _ _); cbn [fst]; apply K; reflexivity.
  Qed.

  Lemma run_coherent p e r : coherent p -> coherent (fst (run p e r)).
  Proof.
    intros H. unfold Isolation.run.
    pose proof (pre_execute_frame p e r) as F. cbn zeta in F.
    destruct (pre_execute p e r) as [p1 [u|er]]; cbn [fst] in *;
      destruct F as (_ & B & C & _).
    - apply iterate_coherent. eapply coherent_caches; [| |exact H]; cbn; auto.
    - eapply coherent_caches; [| |exact H]; auto.
  Qed.

  Lemma run_seq_coherent l : forall p, coherent p -> coherent (fst (run_seq p l)).
  Proof.
    induction l as [|[e r] l IH]; intros p H; cbn [Isolation.run_seq fst]; auto.
    pose proof (run_coherent p e r H) as H1. destruct (run p e r) as [p1 o]. cbn [fst] in H1.
    specialize (IH p1 H1). destruct (run_seq p1 l) as [p2 os]. exact IH.
  Qed.

  Lemma after_from_coherent p0 l : coherent p0 -> coherent (after_from p0 l).
  Proof. apply run_seq_coherent. Qed.

  Lemma after_coherent l : coherent (after l).
  Proof. apply run_seq_coherent. apply coherent_proc0. Qed.

  (* ---------------------------------------------------------------- cache_coherent *)

  (* In every process state reachable by running recipes, a call through either cache returns
     what a fresh call of the parser returns (exception included), for every key. *)
  Theorem cache_coherent l k :
    let p := after l in
    snd (lru_call date_cache_size parse_d (p_dates p) k) = parse_d k /\
    snd (lru_call date_cache_size parse_dt (p_dts p) k) = parse_dt k.
  Proof.
    cbn zeta. destruct (after_coherent l) as [Hd Ht]. split.
    - apply lru_call_value. intros v Hv. exact (Hd k v Hv).
    - apply lru_call_value. intros v Hv. exact (Ht k v Hv).
  Qed.

  (* the clock keys never enter the datetime cache *)
  Lemma step_clock_untouched e cx p s k :
    is_clock_key k = true -> fst (step e cx p s (ODatetime k)) = p.
  Proof.
    unfold is_clock_key. cbn [Isolation.step]. intros H.
    destruct (String.eqb k "now"); [reflexivity|]. cbn [orb] in H.
    destruct (String.eqb k "today"); [reflexivity|]. cbn [orb] in H. rewrite H. reflexivity.
  Qed.

  (* ---------------------------------------------------------------- every exit path restores *)

  (* Working directory, search path and environment after a run are those before it, for every
     recipe, every continuation, every criterion - and so on every exit path: the run may end
     normally, with a DataGenError or with any other exception, at any operation. *)
  Theorem run_restores_ambient p e r : ambient (fst (run p e r)) = ambient p.
  Proof.
    unfold Isolation.run. pose proof (pre_execute_frame p e r) as F. cbn zeta in F.
    destruct (pre_execute p e r) as [p1 [u|er]]; cbn [fst] in *; destruct F as (_ & _ & _ & _ & _ & G & _).
    - pose proof (iterate_frame e (mkCtx (effective_version e r) (r_dir r)) (r_crit r) (r_ops r)
                                (iter_fuel (r_crit r)) (set_rowhist p1 (Some [])) (init_rstate (r_cont r))) as H.
      cbn zeta in H. destruct H as (A & _). rewrite A. exact G.
    - exact G.
  Qed.

  Lemma run_seq_restores_ambient l : forall p, ambient (fst (run_seq p l)) = ambient p.
  Proof.
    induction l as [|[e r] l IH]; intros p; cbn [Isolation.run_seq fst]; auto.
    pose proof (run_restores_ambient p e r) as H. destruct (run p e r) as [p1 o]. cbn [fst] in H.
    specialize (IH p1). destruct (run_seq p1 l) as [p2 os]. cbn [fst] in *. congruence.
  Qed.

  (* ---------------------------------------------------------------- noninterference *)

  Lemma step_rowhist e cx p s o :
    p_rowhist (fst (step e cx p s o)) =
    match o with
    | ORow t => match p_rowhist p with Some h => Some ((t, last_id t s + 1) :: h) | None => None end
    | _ => p_rowhist p
    end.
  Proof.
    destruct o; cbn [Isolation.step].
    - destruct (p_rowhist p) eqn:E; cbn [fst set_rowhist p_rowhist]; auto.
    - reflexivity.
    - destruct (gen_find g (rs_gens s)) as [[c i]|]; reflexivity.
    - destruct (is_object_key k); [reflexivity|]. destruct (lru_call _ _ _ _); reflexivity.
    - dt_branches k; try reflexivity. destruct (is_object_key k); [reflexivity|]. destruct (lru_call _ _ _ _); reflexivity.
    - destruct (p_rowhist p) eqn:E; [destruct (existsb _ _)|]; cbn [fst]; auto.
    - reflexivity.
    - reflexivity.
    - destruct (last_id table s =? n); reflexivity.
    - destruct (assoc_find site (rs_states s)); [reflexivity|]. destruct (is_object_key k); [reflexivity|]. destruct (lru_call _ _ _ _); reflexivity.
    - destruct (assoc_find site (rs_states s)); [reflexivity|].
      pose proof (with_chdir_restores (match c_dir cx with Some d => d | None => p_cwd p end) p file) as W.
      destruct (Isolation.with_chdir _ _ _ _ _) as [p' [v|er]]; cbn [fst] in *; subst p'; reflexivity.
  Qed.

  Lemma step_uid e cx p s o :
    p_uid (fst (step e cx p s o)) =
    match o with
    | OUid g => match gen_find g (rs_gens s) with Some _ => p_uid p | None => p_uid p + 1 end
    | _ => p_uid p
    end.
  Proof.
    destruct o; cbn [Isolation.step].
    - destruct (p_rowhist p); reflexivity.
    - reflexivity.
    - destruct (gen_find g (rs_gens s)) as [[c i]|]; reflexivity.
    - destruct (is_object_key k); [reflexivity|]. destruct (lru_call _ _ _ _); reflexivity.
    - dt_branches k; try reflexivity. destruct (is_object_key k); [reflexivity|]. destruct (lru_call _ _ _ _); reflexivity.
    - destruct (p_rowhist p); [destruct (existsb _ _)|]; reflexivity.
    - reflexivity.
    - reflexivity.
    - destruct (last_id table s =? n); reflexivity.
    - destruct (assoc_find site (rs_states s)); [reflexivity|]. destruct (is_object_key k); [reflexivity|]. destruct (lru_call _ _ _ _); reflexivity.
    - destruct (assoc_find site (rs_states s)); [reflexivity|].
      pose proof (with_chdir_restores (match c_dir cx with Some d => d | None => p_cwd p end) p file) as W.
      destruct (Isolation.with_chdir _ _ _ _ _) as [p' [v|er]]; cbn [fst] in *; subst p'; reflexivity.
  Qed.

  (* what the block reads is the file as seen from the directory it changed to *)
  Lemma with_chdir_value fin d p file : snd (with_chdir fin d p file) = read_file d file.
  Proof.
    unfold Isolation.with_chdir. cbn [set_cwd p_cwd]. destruct (read_file d file); reflexivity.
  Qed.

  (* two process states in which every operation behaves alike (apart from the unique-id counter) *)
  Definition sim (p1 p2 : proc) : Prop :=
    coherent p1 /\ coherent p2 /\ p_rowhist p1 = p_rowhist p2 /\ ambient p1 = ambient p2 /\
    p_app p1 = p_app p2.

  (* what two process states must share for a list of operations to behave alike: nothing,
     unless a unique id is drawn - then the context counter *)
  Definition uid_ok (ops : list op) (p1 p2 : proc) : Prop :=
    existsb is_uid_op ops = false \/ p_uid p1 = p_uid p2.

  Lemma step_nonint e cx p1 p2 s o :
    sim p1 p2 -> (is_uid_op o = false \/ p_uid p1 = p_uid p2) ->
    snd (step e cx p1 s o) = snd (step e cx p2 s o) /\
    sim (fst (step e cx p1 s o)) (fst (step e cx p2 s o)).
  Proof.
    intros (C1 & C2 & Hr & Ha & Hp) Ho. split.
    - destruct C1 as [Hd1 Ht1]. destruct C2 as [Hd2 Ht2].
      assert (Hcwd : p_cwd p1 = p_cwd p2) by (unfold ambient in Ha; congruence).
      destruct o; cbn [Isolation.step is_uid_op] in *.
      + rewrite <- Hr. destruct (p_rowhist p1); reflexivity.
      + reflexivity.
      + destruct Ho as [Ho|Ho]; [discriminate|].
        destruct (gen_find g (rs_gens s)) as [[c i]|]; cbn [snd]; [reflexivity|]. rewrite Ho. reflexivity.
      + destruct (is_object_key k); [reflexivity|].
        pose proof (lru_call_value date_cache_size parse_d (p_dates p1) k (fun v H => Hd1 k v H)) as V1.
        pose proof (lru_call_value date_cache_size parse_d (p_dates p2) k (fun v H => Hd2 k v H)) as V2.
        destruct (lru_call date_cache_size parse_d (p_dates p1) k) as [c1 r1].
        destruct (lru_call date_cache_size parse_d (p_dates p2) k) as [c2 r2].
        cbn [snd] in *. subst r1 r2. reflexivity.
      + destruct (String.eqb k "now"); [reflexivity|].
        destruct (String.eqb k "today"); [reflexivity|].
        destruct (is_relative_spec k); [reflexivity|].
        destruct (is_object_key k); [reflexivity|].
        pose proof (lru_call_value date_cache_size parse_dt (p_dts p1) k (fun v H => Ht1 k v H)) as V1.
        pose proof (lru_call_value date_cache_size parse_dt (p_dts p2) k (fun v H => Ht2 k v H)) as V2.
        destruct (lru_call date_cache_size parse_dt (p_dts p1) k) as [c1 r1].
        destruct (lru_call date_cache_size parse_dt (p_dts p2) k) as [c2 r2].
        cbn [snd] in *. subst r1 r2. reflexivity.
      + rewrite <- Hr. destruct (p_rowhist p1); [destruct (existsb _ _)|]; reflexivity.
      + reflexivity.
      + reflexivity.
      + destruct (last_id table s =? n); reflexivity.
      + destruct (assoc_find site (rs_states s)); [reflexivity|].
        destruct (is_object_key k); [reflexivity|].
        pose proof (lru_call_value date_cache_size parse_d (p_dates p1) k (fun v H => Hd1 k v H)) as V1.
        pose proof (lru_call_value date_cache_size parse_d (p_dates p2) k (fun v H => Hd2 k v H)) as V2.
        destruct (lru_call date_cache_size parse_d (p_dates p1) k) as [c1 r1].
        destruct (lru_call date_cache_size parse_d (p_dates p2) k) as [c2 r2].
        cbn [snd] in *. subst r1 r2. reflexivity.
      + destruct (assoc_find site (rs_states s)); [reflexivity|]. rewrite <- Hcwd.
        set (d := match c_dir cx with Some d => d | None => p_cwd p1 end).
        pose proof (with_chdir_value true d p1 file) as V1.
        pose proof (with_chdir_value true d p2 file) as V2.
        destruct (Isolation.with_chdir read_file true d p1 file) as [q1 x1].
        destruct (Isolation.with_chdir read_file true d p2 file) as [q2 x2].
        cbn [snd] in *. subst x1 x2. destruct (read_file d file); reflexivity.
    - unfold sim. split; [apply step_coherent; exact C1|]. split; [apply step_coherent; exact C2|].
      rewrite !step_rowhist.
      pose proof (step_frame e cx p1 s o) as F1. pose proof (step_frame e cx p2 s o) as F2. cbn zeta in *.
      destruct F1 as (A1 & _ & B1). destruct F2 as (A2 & _ & B2).
      split; [destruct o; try exact Hr; rewrite Hr; reflexivity|].
      split; congruence.
  Qed.

  Lemma step_uid_same e cx p1 p2 s o :
    p_uid p1 = p_uid p2 -> p_uid (fst (step e cx p1 s o)) = p_uid (fst (step e cx p2 s o)).
  Proof. intros H. rewrite !step_uid. destruct o; auto. destruct (gen_find _ _); lia. Qed.

  Lemma exec_nonint e cx ops : forall p1 p2 s,
    sim p1 p2 -> uid_ok ops p1 p2 ->
    let r1 := exec_ops e cx p1 s ops in
    let r2 := exec_ops e cx p2 s ops in
    snd (fst r1) = snd (fst r2) /\ snd r1 = snd r2 /\ sim (fst (fst r1)) (fst (fst r2)) /\
    (p_uid p1 = p_uid p2 -> p_uid (fst (fst r1)) = p_uid (fst (fst r2))).
  Proof.
    induction ops as [|o ops IH]; intros p1 p2 s Hs Hu; cbn zeta; cbn [Isolation.exec_ops].
    - cbn [fst snd]. splits; auto.
    - assert (Ho : is_uid_op o = false \/ p_uid p1 = p_uid p2).
      { destruct Hu as [Hu|Hu]; [left|right; exact Hu]. cbn [existsb] in Hu.
        apply Bool.orb_false_iff in Hu. tauto. }
      destruct (step_nonint e cx p1 p2 s o Hs Ho) as (Hsnd & Hsim).
      pose proof (step_uid_same e cx p1 p2 s o) as Hsame.
      assert (Hu' : uid_ok ops (fst (step e cx p1 s o)) (fst (step e cx p2 s o))).
      { destruct Hu as [Hu|Hu]; [left|right; auto].
        cbn [existsb] in Hu. apply Bool.orb_false_iff in Hu. tauto. }
      destruct (step e cx p1 s o) as [q1 x1]. destruct (step e cx p2 s o) as [q2 x2].
      cbn [fst snd] in *. subst x2. destruct x1 as [[s' b]|er]; cbn [fst snd]; [|splits; auto].
      specialize (IH q1 q2 s' Hsim Hu'). cbn zeta in IH.
      destruct (exec_ops e cx q1 s' ops) as [[r1 t1] o1]. destruct (exec_ops e cx q2 s' ops) as [[r2 t2] o2].
      cbn [fst snd] in *. destruct IH as (A & B & C & D). subst t2 o2. splits; auto.
  Qed.

  Lemma sim_set_app p1 p2 a : sim p1 p2 -> sim (set_app p1 a) (set_app p2 a).
  Proof.
    intros (C1 & C2 & Hr & Ha & _). unfold sim. splits; auto using coherent_set_app.
  Qed.

  Lemma iterate_nonint e cx c body fuel : forall p1 p2 s,
    sim p1 p2 -> uid_ok body p1 p2 ->
    snd (iterate fuel e cx c body p1 s) = snd (iterate fuel e cx c body p2 s).
  Proof.
    induction fuel as [|f IH]; intros p1 p2 s Hs Hu; cbn [Isolation.iterate snd]; auto.
    pose proof (exec_nonint e cx body p1 p2 s Hs Hu) as H. cbn zeta in H.
    destruct (exec_ops e cx p1 s body) as [[q1 s1] o1]. destruct (exec_ops e cx p2 s body) as [[q2 s2] o2].
    cbn [fst snd] in H. destruct H as (A & B & C & D). subst s2 o2.
    destruct (o_err o1); cbn [snd]; auto.
    assert (Happ : p_app q1 = p_app q2) by (destruct C as (_ & _ & _ & _ & X); exact X).
    rewrite <- Happ.
    destruct (end_of_iteration c s1 (p_app q1)) as [a [[|]|er]]; cbn [snd]; auto.
    assert (Hu' : uid_ok body (set_app q1 a) (set_app q2 a)).
    { destruct Hu as [Hu|Hu]; [left; exact Hu|right]. cbn [set_app p_uid]. auto. }
    specialize (IH (set_app q1 a) (set_app q2 a) s1 (sim_set_app _ _ a C) Hu').
    destruct (iterate f e cx c body (set_app q1 a) s1) as [r1 x1].
    destruct (iterate f e cx c body (set_app q2 a) s1) as [r2 x2].
    cbn [snd] in *. subst x2. reflexivity.
  Qed.

  (* the parse stage reads the search path, the working directory, HOME - and, for a recipe that
     names local plugin modules, the import cache *)
  Lemma resolve_all_nonint ms : forall p1 p2,
    p_path p1 = p_path p2 -> p_modules p1 = p_modules p2 ->
    snd (resolve_all p1 ms) = snd (resolve_all p2 ms) /\
    p_modules (fst (resolve_all p1 ms)) = p_modules (fst (resolve_all p2 ms)).
  Proof.
    induction ms as [|m ms IH]; intros p1 p2 Hp Hm; cbn [Isolation.resolve_all]; [cbn; auto|].
    rewrite <- Hm, <- Hp.
    destruct (existsb (String.eqb m) (p_modules p1)) eqn:E; [apply IH; auto|].
    destruct (find_on_path load_plugin (p_path p1) m) as [[|]|er]; cbn [fst snd]; auto.
    apply IH; unfold add_module; cbn [p_path p_modules]; auto. rewrite <- Hm, E. reflexivity.
  Qed.

  Lemma pre_execute_nonint p1 p2 e r :
    ambient p1 = ambient p2 ->
    (no_plugins r = true \/ p_modules p1 = p_modules p2) ->
    snd (pre_execute p1 e r) = snd (pre_execute p2 e r).
  Proof.
    intros Ha Hm. unfold Isolation.pre_execute.
    set (q1 := if e_new_app e then set_app p1 app0 else p1).
    set (q2 := if e_new_app e then set_app p2 app0 else p2).
    assert (Ha' : ambient q1 = ambient q2) by (unfold q1, q2; destruct (e_new_app e); exact Ha).
    assert (Hm' : no_plugins r = true \/ p_modules q1 = p_modules q2)
      by (unfold q1, q2; destruct (e_new_app e); exact Hm).
    clearbody q1 q2.
    assert (Hw : snd (with_plugin_path true q1 r) = snd (with_plugin_path true q2 r)).
    { unfold Isolation.with_plugin_path.
      assert (Hsp : search_path q1 (r_dir r) = search_path q2 (r_dir r)).
      { unfold search_path. unfold ambient in Ha'. injection Ha' as -> -> ->. reflexivity. }
      destruct Hm' as [Hn|Hm'].
      - unfold no_plugins in Hn. destruct (r_plugins r); [|discriminate]. reflexivity.
      - pose proof (resolve_all_nonint (r_plugins r) (set_path q1 (search_path q1 (r_dir r)))
                                       (set_path q2 (search_path q2 (r_dir r)))) as H.
        cbn [set_path p_path p_modules] in H. specialize (H Hsp Hm'). destruct H as [H _].
        destruct (resolve_all (set_path q1 _) _) as [a1 [u1|e1]];
          destruct (resolve_all (set_path q2 _) _) as [a2 [u2|e2]]; cbn [snd] in *; congruence. }
    destruct (with_plugin_path true q1 r) as [a1 x1]. destruct (with_plugin_path true q2 r) as [a2 x2].
    cbn [snd] in Hw. subst x2. destruct x1 as [u|er]; [|reflexivity].
    destruct (r_stage r); try reflexivity.
    destruct (r_crit r) as [n|t n]; [reflexivity|]. destruct (existsb _ _); reflexivity.
  Qed.

  (* Noninterference.  For the same inputs (recipe, continuation file, stopping criterion, clock,
     application options) the outcome of a run is the same in any two coherent process states with
     the same working directory, search path and HOME
       - if the two states agree on the unique-id context counter, or the recipe draws no unique id;
       - if the application object is new for this run, or is in the same state in both;
       - if the recipe names no local plugin module, or both processes imported the same ones. *)
  Theorem noninterference p1 p2 e r :
    coherent p1 -> coherent p2 -> ambient p1 = ambient p2 ->
    (no_uid r = true \/ p_uid p1 = p_uid p2) ->
    (e_new_app e = true \/ p_app p1 = p_app p2) ->
    (no_plugins r = true \/ p_modules p1 = p_modules p2) ->
    snd (run p1 e r) = snd (run p2 e r).
  Proof.
    intros C1 C2 Ha Hn Happ Hm. unfold Isolation.run.
    pose proof (pre_execute_nonint p1 p2 e r Ha Hm) as Hpre.
    pose proof (pre_execute_frame p1 e r) as F1. pose proof (pre_execute_frame p2 e r) as F2.
    cbn zeta in F1, F2.
    destruct (pre_execute p1 e r) as [q1 x1]. destruct (pre_execute p2 e r) as [q2 x2].
    cbn [fst snd] in *. subst x2. destruct x1 as [u|er]; cbn [snd]; [|reflexivity].
    destruct F1 as (U1 & D1 & T1 & _ & _ & A1 & P1 & _). destruct F2 as (U2 & D2 & T2 & _ & _ & A2 & P2 & _).
    apply iterate_nonint.
    - unfold sim. cbn [set_rowhist p_rowhist p_app]. splits.
      + eapply coherent_caches; [| |exact C1]; cbn; auto.
      + eapply coherent_caches; [| |exact C2]; cbn; auto.
      + reflexivity.
      + unfold ambient in *. cbn [set_rowhist p_cwd p_path p_home]. congruence.
      + rewrite P1, P2. destruct Happ as [-> | ->]; reflexivity.
    - destruct Hn as [Hn|Hn]; [left|right].
      + unfold no_uid in Hn. apply Bool.negb_true_iff in Hn. exact Hn.
      + cbn [set_rowhist p_uid]. congruence.
  Qed.

  (* ---------------------------------------------------------------- histories *)

  Definition plain_job (e : env) (r : recipe) : Prop :=
    no_uid r = true /\ e_new_app e = true /\ no_plugins r = true.

  (* ... in particular after any two histories of runs, and compared with a fresh process *)
  Theorem sequence_independent p0 h1 h2 e r :
    coherent p0 -> plain_job e r ->
    snd (run (after_from p0 h1) e r) = snd (run (after_from p0 h2) e r).
  Proof.
    intros C0 (Hn & Ha & Hp). unfold Isolation.after_from.
    apply noninterference; auto using run_seq_coherent.
    rewrite !run_seq_restores_ambient. reflexivity.
  Qed.

  Corollary same_as_fresh_process p0 h e r :
    coherent p0 -> plain_job e r -> snd (run (after_from p0 h) e r) = snd (run p0 e r).
  Proof. intros C0 Hj. exact (sequence_independent p0 h [] e r C0 Hj). Qed.

  (* ---------------------------------------------------------------- what a run leaves behind *)

  Lemma step_uid_mono e cx p s o : p_uid p <= p_uid (fst (step e cx p s o)).
  Proof. rewrite step_uid. destruct o; try lia. destruct (gen_find _ _); lia. Qed.

  Lemma exec_uid_mono e cx ops : forall p s, p_uid p <= p_uid (fst (fst (exec_ops e cx p s ops))).
  Proof.
    induction ops as [|o ops IH]; intros p s; cbn [Isolation.exec_ops]; [cbn; lia|].
    pose proof (step_uid_mono e cx p s o) as H.
    destruct (step e cx p s o) as [p' [[s' b]|er]]; cbn [fst] in *; auto.
    specialize (IH p' s'). destruct (exec_ops e cx p' s' ops) as [[p'' s''] out]. cbn [fst] in *. lia.
  Qed.

  Lemma iterate_uid_mono e cx c body fuel : forall p s,
    p_uid p <= p_uid (fst (iterate fuel e cx c body p s)).
  Proof.
    induction fuel as [|f IH]; intros p s; cbn [Isolation.iterate fst]; [lia|].
    pose proof (exec_uid_mono e cx body p s) as H.
    destruct (exec_ops e cx p s body) as [[p1 s1] out]. cbn [fst] in H.
    destruct (o_err out); cbn [fst]; auto.
    destruct (end_of_iteration c s1 (p_app p1)) as [a [[|]|er]]; cbn [fst set_app p_uid]; auto.
    specialize (IH (set_app p1 a) s1). cbn [set_app p_uid] in IH.
    destruct (iterate f e cx c body _ s1) as [p2 out2]. cbn [fst] in *. lia.
  Qed.

  (* Any run - failing or not - leaves the process coherent, never lowers the unique-id counter,
     leaves working directory / search path / HOME as they were and only adds to the import cache. *)
  Theorem run_effects p e r :
    let p' := fst (run p e r) in
    (coherent p -> coherent p') /\ p_uid p <= p_uid p' /\ ambient p' = ambient p /\
    (forall m, In m (p_modules p) -> In m (p_modules p')).
  Proof.
    cbn zeta. splits.
    - apply run_coherent.
    - unfold Isolation.run. pose proof (pre_execute_frame p e r) as F. cbn zeta in F.
      destruct (pre_execute p e r) as [p1 [u|er]]; cbn [fst] in *; destruct F as (U & _); [|lia].
      eapply Z.le_trans; [|apply iterate_uid_mono]. cbn [set_rowhist p_uid]. lia.
    - apply run_restores_ambient.
    - unfold Isolation.run. pose proof (pre_execute_frame p e r) as F. cbn zeta in F.
      destruct (pre_execute p e r) as [p1 [u|er]]; cbn [fst] in *;
        destruct F as (_ & _ & _ & _ & _ & _ & _ & M); [|exact M].
      pose proof (iterate_frame e (mkCtx (effective_version e r) (r_dir r)) (r_crit r) (r_ops r)
                                (iter_fuel (r_crit r)) (set_rowhist p1 (Some [])) (init_rstate (r_cont r))) as H.
      cbn zeta in H. destruct H as (_ & B). rewrite B. exact M.
  Qed.

  (* A failed run does not poison the next one: after a failing run r1 the outcome of a plain job
     is what it would have been without r1 - whether r1 ended with a DataGenError or with any other
     exception.  (The failure hypothesis is not used: the statement holds for every run r1.) *)
  Theorem failed_run_harmless p e1 r1 e2 r2 :
    coherent p -> o_err (snd (run p e1 r1)) <> None -> plain_job e2 r2 ->
    snd (run (fst (run p e1 r1)) e2 r2) = snd (run p e2 r2).
  Proof.
    intros H _ (Hn & Ha & Hp). apply noninterference; auto using run_coherent.
    apply run_restores_ambient.
  Qed.

  (* The instance: states that cannot be told apart = coherent caches, same working directory /
     search path / HOME; admissible = a plain job.  [restores] is run_coherent + run_restores_ambient,
     [reads_only_R] is noninterference. *)
  Definition indist (p1 p2 : proc) : Prop := coherent p1 /\ coherent p2 /\ ambient p1 = ambient p2.

  Lemma run_restores_indist p (i : env * recipe) : indist p p -> indist (fst (run p (fst i) (snd i))) p.
  Proof.
    intros (C & _ & _). unfold indist. splits; auto using run_coherent. apply run_restores_ambient.
  Qed.

  Theorem history_irrelevant p0 h e r :
    coherent p0 -> plain_job e r ->
    snd (run (gafter proc (env * recipe) outcome (fun p i => run p (fst i) (snd i)) p0 h) e r) = snd (run p0 e r).
  Proof.
    intros C0 Hj.
    apply (restoring_runs_independent proc (env * recipe) outcome (fun p i => run p (fst i) (snd i)) indist
             (fun i => plain_job (fst i) (snd i))) with (i := (e, r)); auto.
    - intros a b (A & B & C). unfold indist. auto.
    - intros a b c (A & B & C) (D & E & F). unfold indist. splits; auto. congruence.
    - intros s1 s2 i (Hn & Ha & Hp) (A & B & C). apply noninterference; auto.
    - apply run_restores_indist.
    - unfold indist. auto.
  Qed.

  (* ---------------------------------------------------------------- ids start at 1 / continue *)

  Lemma ids_of_app t a b : ids_of t (a ++ b) = ids_of t a ++ ids_of t b.
  Proof.
    induction a as [|x a IH]; cbn [app ids_of]; auto.
    destruct x; auto. destruct (String.eqb t table); cbn [app]; congruence.
  Qed.

  Lemma step_ids e cx p s o p' s' b t :
    step e cx p s o = (p', Ok (s', b)) ->
    rs_start s' = rs_start s /\
    ((ids_of t b = [] /\ last_id t s' = last_id t s) \/
     (ids_of t b = [last_id t s + 1] /\ last_id t s' = last_id t s + 1)).
  Proof.
    destruct o; cbn [Isolation.step]; intros H.
    - injection H as _ <- <-. cbn [ids_of rs_start]. split; [reflexivity|].
      destruct (String.eqb t table) eqn:E.
      + apply String.eqb_eq in E. subst table. right. split; [reflexivity|].
        unfold last_id. cbn [rs_ids]. rewrite assoc_find_set_same. reflexivity.
      + left. split; [reflexivity|].
        unfold last_id. cbn [rs_ids]. rewrite assoc_find_set_other by exact E. reflexivity.
    - injection H as _ <- <-. split; [reflexivity|]. left. auto.
    - destruct (gen_find g (rs_gens s)) as [[c i]|]; injection H as _ <- <-; (split; [reflexivity|]); left; auto.
    - destruct (is_object_key k); [destruct (parse_d k) as [v|]; [|discriminate]; injection H as _ <- <-; split; [reflexivity|]; left; auto|]. destruct (lru_call _ _ _ _) as [c [v|]]; [|discriminate]. injection H as _ <- <-. split; [reflexivity|]. left; auto.
    - dt_branches k; try (injection H as _ <- <-; split; [reflexivity|]; left; auto).
      destruct (is_object_key k); [destruct (parse_dt k) as [v|]; [|discriminate]; injection H as _ <- <-; split; [reflexivity|]; left; auto|]. 
      destruct (lru_call _ _ _ _) as [c [v|]]; [|discriminate]. injection H as _ <- <-. split; [reflexivity|]. left; auto.
    - destruct (p_rowhist p); [|discriminate]. destruct (existsb _ _); [|discriminate].
      injection H as _ <- <-. split; [reflexivity|]. left; auto.
    - injection H as _ <- <-. split; [reflexivity|]. left; auto.
    - discriminate.
    - destruct (last_id table s =? n); [discriminate|]. injection H as _ <- <-. split; [reflexivity|]. left; auto.
    - destruct (assoc_find site (rs_states s)); [injection H as _ <- <-; split; [reflexivity|]; left; auto|].
      destruct (is_object_key k); [destruct (parse_d k) as [v|]; [|discriminate]; injection H as _ <- <-; split; [reflexivity|]; left; auto|]. 
      destruct (lru_call _ _ _ _) as [c [v|]]; [|discriminate]. injection H as _ <- <-. split; [reflexivity|]. left; auto.
    - destruct (assoc_find site (rs_states s)); [injection H as _ <- <-; split; [reflexivity|]; left; auto|].
      destruct (Isolation.with_chdir _ _ _ _ _) as [q [v|er]]; [|discriminate].
      injection H as _ <- <-. split; [reflexivity|]. left; auto.
  Qed.

  Lemma start_id_same t s s' : rs_start s' = rs_start s -> start_id t s' = start_id t s.
  Proof. unfold start_id. intros ->. reflexivity. Qed.

  Lemma exec_ids e cx t ops : forall p s,
    let r := exec_ops e cx p s ops in
    let ids := ids_of t (o_obs (snd r)) in
    ids = Zseq (last_id t s + 1) (length ids) /\
    (o_err (snd r) = None ->
     last_id t (snd (fst r)) = last_id t s + Z.of_nat (length ids) /\ rs_start (snd (fst r)) = rs_start s).
  Proof.
    induction ops as [|o ops IH]; intros p s; cbn zeta; cbn [Isolation.exec_ops].
    - cbn [fst snd o_obs ids_of length Zseq]. split; [reflexivity|]. intros _. split; [lia|reflexivity].
    - destruct (step e cx p s o) as [p' [[s' b]|er]] eqn:E; [|cbn; split; [reflexivity|discriminate]].
      specialize (IH p' s'). cbn zeta in IH.
      destruct (exec_ops e cx p' s' ops) as [[p'' s''] out]. cbn [fst snd o_obs o_err] in *.
      rewrite ids_of_app. destruct IH as (I1 & I2).
      destruct (step_ids e cx p s o p' s' b t E) as (Hst & [[Hb Hl]|[Hb Hl]]); rewrite Hb; cbn [app length].
      + rewrite Hl in I1, I2. split; [exact I1|]. intros Hn. destruct (I2 Hn) as (A & B). split; congruence.
      + cbn [Zseq]. rewrite Hl in I1, I2. split; [f_equal; exact I1|].
        intros Hn. destruct (I2 Hn) as (A & B). split; [lia|congruence].
  Qed.

  Lemma iterate_ids e cx c body t fuel : forall p s,
    let out := snd (iterate fuel e cx c body p s) in
    let ids := ids_of t (o_obs out) in
    ids = Zseq (last_id t s + 1) (length ids) /\
    (o_err out = None -> forall n, c = CTable t n ->
       start_id t s + n - 1 <= last_id t s + Z.of_nat (length ids)).
  Proof.
    induction fuel as [|f IH]; intros p s; cbn zeta; cbn [Isolation.iterate snd].
    - cbn. split; [reflexivity|discriminate].
    - pose proof (exec_ids e cx t body p s) as H. cbn zeta in H.
      destruct (exec_ops e cx p s body) as [[p1 s1] out]. cbn [fst snd] in H. destruct H as (H1 & H2).
      destruct (o_err out) as [er|] eqn:Eo; cbn [snd].
      + split; [exact H1|]. rewrite Eo. discriminate.
      + destruct (H2 eq_refl) as (Hl & Hst).
        destruct (end_of_iteration c s1 (p_app p1)) as [a [[|]|er]] eqn:Ee; cbn [snd o_obs o_err].
        * split; [exact H1|]. intros _ n ->. cbn [Isolation.end_of_iteration] in Ee.
          destruct (last_id t s1 =? _); [discriminate|]. injection Ee as _ Ee.
          apply Z.leb_le in Ee. rewrite (start_id_same t s s1 Hst) in Ee. lia.
        * specialize (IH (set_app p1 a) s1). cbn zeta in IH.
          destruct (iterate f e cx c body (set_app p1 a) s1) as [p2 out2]. cbn [snd o_obs o_err] in *.
          destruct IH as (J1 & J2). rewrite ids_of_app, app_length.
          split.
          -- rewrite Zseq_app. rewrite <- H1. f_equal.
             replace (last_id t s + 1 + Z.of_nat (length (ids_of t (o_obs out)))) with (last_id t s1 + 1) by lia.
             exact J1.
          -- intros Hn n Hc. specialize (J2 Hn n Hc). rewrite (start_id_same t s s1 Hst) in J2. lia.
        * split; [exact H1|]. discriminate.
  Qed.

  (* last id of a table according to the continuation file of a job (0: fresh run, or no such table) *)
  Definition cont_last (t : string) (r : recipe) : Z := last_id t (init_rstate (r_cont r)).

  Lemma init_start t cont : start_id t (init_rstate cont) = last_id t (init_rstate cont) + 1.
  Proof.
    destruct cont as [ids|]; [|reflexivity].
    unfold start_id, last_id, init_rstate. cbn [rs_start rs_ids].
    induction ids as [|[k v] ids IH]; cbn [map assoc_find fst snd]; [reflexivity|].
    destruct (String.eqb t k); auto.
  Qed.

  (* Whatever ran before in the process and whatever the application object went through, the ids
     a run gives to the rows of a table are last+1, last+2, ... where last is the table's entry in
     the run's OWN continuation file (0 without one: ids start at 1). *)
  Theorem ids_continue p e r t :
    let ids := ids_of t (o_obs (snd (run p e r))) in ids = Zseq (cont_last t r + 1) (length ids).
  Proof.
    cbn zeta. unfold Isolation.run. destruct (pre_execute p e r) as [p1 [u|er]]; [|reflexivity].
    apply (iterate_ids e _ (r_crit r) (r_ops r) t).
  Qed.

  Corollary ids_start_at_one p e r t :
    r_cont r = None ->
    let ids := ids_of t (o_obs (snd (run p e r))) in ids = Zseq 1 (length ids).
  Proof.
    intros Hc. pose proof (ids_continue p e r t) as H. cbn zeta in *.
    unfold cont_last in H. rewrite Hc in H. exact H.
  Qed.

  (* `target_number (n, t)`: a run that ends normally has made at least n rows of t, counted from
     the run's own continuation file - in every process state and for every application object. *)
  Theorem target_reached p e r t n :
    r_crit r = CTable t n -> o_err (snd (run p e r)) = None ->
    n <= Z.of_nat (length (ids_of t (o_obs (snd (run p e r))))).
  Proof.
    intros Hc. unfold Isolation.run. destruct (pre_execute p e r) as [p1 [u|er]]; [|discriminate].
    intros Hn.
    pose proof (iterate_ids e (mkCtx (effective_version e r) (r_dir r)) (r_crit r) (r_ops r) t
                            (iter_fuel (r_crit r)) (set_rowhist p1 (Some [])) (init_rstate (r_cont r))) as H.
    cbn zeta in H. destruct H as (_ & H). specialize (H Hn n Hc). rewrite init_start in H. lia.
  Qed.

  (* ---------------------------------------------------------------- the loop ends within its fuel *)

  Lemma iterate_stable_reps e cx n body : forall f1 f2 p s,
    (Z.to_nat (n - a_reps (p_app p)) <= f1)%nat -> (1 <= f1)%nat ->
    (Z.to_nat (n - a_reps (p_app p)) <= f2)%nat -> (1 <= f2)%nat ->
    iterate f1 e cx (CReps n) body p s = iterate f2 e cx (CReps n) body p s.
  Proof.
    induction f1 as [|g1 IH]; intros f2 p s A1 B1 A2 B2; [lia|].
    destruct f2 as [|g2]; [lia|]. cbn [Isolation.iterate].
    pose proof (exec_frame e cx body p s) as F. cbn zeta in F.
    destruct (exec_ops e cx p s body) as [[p1 s1] out]. cbn [fst] in F. destruct F as (_ & _ & Fa).
    destruct (o_err out); [reflexivity|].
    cbn [Isolation.end_of_iteration]. destruct (n <=? a_reps (p_app p1) + 1) eqn:E; [reflexivity|].
    apply Z.leb_gt in E. rewrite Fa in *.
    rewrite (IH g2); [reflexivity| | | |]; cbn [set_app p_app a_reps]; lia.
  Qed.

  Lemma iterate_stable_table e cx t n body : forall f1 f2 p s,
    0 < a_reps (p_app p) -> a_start (p_app p) = last_id t s ->
    (Z.to_nat (start_id t s + n - 1 - last_id t s) <= f1)%nat -> (1 <= f1)%nat ->
    (Z.to_nat (start_id t s + n - 1 - last_id t s) <= f2)%nat -> (1 <= f2)%nat ->
    iterate f1 e cx (CTable t n) body p s = iterate f2 e cx (CTable t n) body p s.
  Proof.
    induction f1 as [|g1 IH]; intros f2 p s I1 I2 A1 B1 A2 B2; [lia|].
    destruct f2 as [|g2]; [lia|]. cbn [Isolation.iterate].
    pose proof (exec_frame e cx body p s) as F. cbn zeta in F.
    pose proof (exec_ids e cx t body p s) as Hi. cbn zeta in Hi.
    destruct (exec_ops e cx p s body) as [[p1 s1] out]. cbn [fst snd] in *. destruct F as (_ & _ & Fa).
    destruct Hi as (_ & Hi).
    destruct (o_err out); [reflexivity|]. destruct (Hi eq_refl) as (Hl & Hst).
    cbn [Isolation.end_of_iteration]. rewrite Fa.
    assert (E0 : (a_reps (p_app p) =? 0) = false) by (apply Z.eqb_neq; lia). rewrite E0.
    destruct (last_id t s1 =? a_start (p_app p)) eqn:E1; [reflexivity|]. apply Z.eqb_neq in E1.
    rewrite (start_id_same t s s1 Hst).
    destruct (start_id t s + n - 1 <=? last_id t s1) eqn:E2; [reflexivity|]. apply Z.leb_gt in E2.
    rewrite (IH g2); [reflexivity| | | | | |]; cbn [set_app p_app a_reps a_start];
      rewrite ?(start_id_same t s s1 Hst); lia.
  Qed.

  Lemma iterate_stable_table_first e cx t n body f1 f2 p s :
    0 <= a_reps (p_app p) -> start_id t s = last_id t s + 1 ->
    (Z.to_nat n + 2 <= f1)%nat -> (Z.to_nat n + 2 <= f2)%nat ->
    iterate f1 e cx (CTable t n) body p s = iterate f2 e cx (CTable t n) body p s.
  Proof.
    intros I1 I2 A1 A2. destruct f1 as [|g1]; [lia|]. destruct f2 as [|g2]; [lia|]. cbn [Isolation.iterate].
    pose proof (exec_frame e cx body p s) as F. cbn zeta in F.
    pose proof (exec_ids e cx t body p s) as Hi. cbn zeta in Hi.
    destruct (exec_ops e cx p s body) as [[p1 s1] out]. cbn [fst snd] in *. destruct F as (_ & _ & Fa).
    destruct Hi as (_ & Hi).
    destruct (o_err out); [reflexivity|]. destruct (Hi eq_refl) as (Hl & Hst).
    cbn [Isolation.end_of_iteration]. rewrite Fa. rewrite (start_id_same t s s1 Hst).
    destruct (last_id t s1 =? _) eqn:E1; [reflexivity|].
    destruct (start_id t s + n - 1 <=? last_id t s1) eqn:E2; [reflexivity|]. apply Z.leb_gt in E2.
    rewrite (iterate_stable_table e cx t n body g1 g2); [reflexivity| | | | | |];
      cbn [set_app p_app a_reps a_start]; rewrite ?(start_id_same t s s1 Hst); lia.
  Qed.

  (* The fuel of the loop is never what ends a run: with any larger number of iterations allowed
     the run is exactly the same - for every job, every process state, and every application object
     whose rep_count is not negative (it starts at 0 and only goes up). *)
  Theorem fuel_is_enough extra p e r :
    (e_new_app e = true \/ 0 <= a_reps (p_app p)) ->
    run_with parse_d parse_dt read_file load_plugin (iter_fuel (r_crit r) + extra) p e r = run p e r.
  Proof.
    intros Ha. unfold Isolation.run_with, Isolation.run.
    pose proof (pre_execute_frame p e r) as F. cbn zeta in F.
    destruct (pre_execute p e r) as [p1 [u|er]]; [|reflexivity]. cbn [fst] in F.
    destruct F as (_ & _ & _ & _ & _ & _ & Fa & _).
    assert (Hr : 0 <= a_reps (p_app (set_rowhist p1 (Some [])))).
    { cbn [set_rowhist p_app]. rewrite Fa. destruct Ha as [-> | Ha]; [cbn; lia|].
      destruct (e_new_app e); [cbn; lia|exact Ha]. }
    unfold iter_fuel. destruct (r_crit r) as [n|t n]; cbn [crit_n].
    - apply iterate_stable_reps; lia.
    - apply iterate_stable_table_first; [exact Hr|apply init_start|lia|lia].
  Qed.

  (* ---------------------------------------------------------------- the loop is an unrolling *)

  (* k iterations written out *)
  Fixpoint flat (k : nat) (body : list op) : list op :=
    match k with O => [] | S k' => body ++ flat k' body end.

  Lemma exec_ops_app e cx l1 l2 : forall p s,
    exec_ops e cx p s (l1 ++ l2) =
    let '(p1, s1, o1) := exec_ops e cx p s l1 in
    match o_err o1 with
    | Some _ => (p1, s1, o1)
    | None => let '(p2, s2, o2) := exec_ops e cx p1 s1 l2 in
              (p2, s2, mkOut (o_obs o1 ++ o_obs o2) (o_err o2))
    end.
  Proof.
    induction l1 as [|o l1 IH]; intros p s; cbn [app Isolation.exec_ops].
    - cbn [o_err o_obs app]. destruct (exec_ops e cx p s l2) as [[p2 s2] [ob er]]. reflexivity.
    - destruct (step e cx p s o) as [p' [[s' b]|er]]; [|reflexivity].
      rewrite IH. destruct (exec_ops e cx p' s' l1) as [[p1 s1] [ob1 er1]]. cbn [o_err o_obs].
      destruct er1; [reflexivity|].
      destruct (exec_ops e cx p1 s1 l2) as [[p2 s2] o2]. cbn [o_obs o_err]. rewrite app_assoc. reflexivity.
  Qed.

  (* no operation reads or writes the application object *)
  Lemma step_set_app e cx p a s o :
    step e cx (set_app p a) s o = (set_app (fst (step e cx p s o)) a, snd (step e cx p s o)).
  Proof.
    destruct o; cbn [Isolation.step set_app p_rowhist p_uid p_dates p_dts p_cwd].
    - destruct (p_rowhist p); reflexivity.
    - reflexivity.
    - destruct (gen_find g (rs_gens s)) as [[c i]|]; reflexivity.
    - destruct (is_object_key k); [reflexivity|]. destruct (lru_call _ _ _ _); reflexivity.
    - dt_branches k; try reflexivity. destruct (is_object_key k); [reflexivity|]. destruct (lru_call _ _ _ _); reflexivity.
    - destruct (p_rowhist p); [destruct (existsb _ _)|]; reflexivity.
    - reflexivity.
    - reflexivity.
    - destruct (last_id table s =? n); reflexivity.
    - destruct (assoc_find site (rs_states s)); [reflexivity|]. destruct (is_object_key k); [reflexivity|]. destruct (lru_call _ _ _ _); reflexivity.
    - destruct (assoc_find site (rs_states s)); [reflexivity|].
      unfold Isolation.with_chdir. cbn [set_cwd set_app p_cwd p_uid p_dates p_dts p_masks p_rowhist p_path p_home p_modules p_app].
      destruct (read_file _ file); reflexivity.
  Qed.

  Lemma exec_set_app e cx a ops : forall p s,
    exec_ops e cx (set_app p a) s ops =
    let '(q, s', out) := exec_ops e cx p s ops in (set_app q a, s', out).
  Proof.
    induction ops as [|o ops IH]; intros p s; cbn [Isolation.exec_ops]; [reflexivity|].
    rewrite step_set_app. destruct (step e cx p s o) as [p' [[s' b]|er]]; cbn [fst snd]; [|reflexivity].
    rewrite IH. destruct (exec_ops e cx p' s' ops) as [[q s''] out]. reflexivity.
  Qed.

  Lemma set_app_idem p a b : set_app (set_app p a) b = set_app p b.
  Proof. reflexivity. Qed.

  (* Whatever the criterion and the application object: what a run observes and what it does to
     the process (apart from the application object) is what SOME number of iterations written
     out one after the other observe and do. *)
  Lemma iterate_unroll e cx c body fuel : forall p s, exists k,
    let x := iterate fuel e cx c body p s in
    let y := exec_ops e cx p s (flat k body) in
    o_obs (snd x) = o_obs (snd y) /\ set_app (fst x) app0 = set_app (fst (fst y)) app0.
  Proof.
    induction fuel as [|f IH]; intros p s; cbn [Isolation.iterate].
    - exists O. cbn. auto.
    - destruct (exec_ops e cx p s body) as [[p1 s1] out] eqn:E.
      destruct (o_err out) as [er|] eqn:Eo.
      + exists 1%nat. cbn [flat]. rewrite app_nil_r, E. cbn. auto.
      + destruct (end_of_iteration c s1 (p_app p1)) as [a [[|]|er]].
        * exists 1%nat. cbn [flat]. rewrite app_nil_r, E. cbn [fst snd]. auto.
        * destruct (IH (set_app p1 a) s1) as [k Hk]. exists (S k). cbn [flat]. cbn zeta in *.
          rewrite exec_ops_app, E, Eo. rewrite exec_set_app in Hk.
          destruct (iterate f e cx c body (set_app p1 a) s1) as [p2 out2].
          destruct (exec_ops e cx p1 s1 (flat k body)) as [[q s'] o2]. cbn [fst snd o_obs] in *.
          destruct Hk as (A & B). rewrite A. split; [reflexivity|]. rewrite B. reflexivity.
        * exists 1%nat. cbn [flat]. rewrite app_nil_r, E. cbn [fst snd o_obs]. auto.
  Qed.

  (* ---------------------------------------------------------------- unique ids across runs *)

  Definition gens_inv (p : proc) (s : rstate) : Prop :=
    (forall g c i, gen_find g (rs_gens s) = Some (c, i) -> c < p_uid p) /\
    (forall g g' c i i', gen_find g (rs_gens s) = Some (c, i) ->
                         gen_find g' (rs_gens s) = Some (c, i') -> g = g').

  Lemma uid_obs_app a b : uid_obs (a ++ b) = uid_obs a ++ uid_obs b.
  Proof. induction a as [|x a IH]; cbn [app uid_obs]; auto. destruct x; cbn [app]; congruence. Qed.

  Lemma uid_pairs_app a b : uid_pairs (a ++ b) = uid_pairs a ++ uid_pairs b.
  Proof. unfold uid_pairs. rewrite uid_obs_app, map_app. reflexivity. Qed.

  (* operations other than OUid: no unique id observed, counter and generators unchanged *)
  Lemma step_no_uid e cx p s o p' s' b :
    (forall g, o <> OUid g) -> step e cx p s o = (p', Ok (s', b)) ->
    uid_pairs b = [] /\ p_uid p' = p_uid p /\ rs_gens s' = rs_gens s.
  Proof.
    intros No. destruct o; cbn [Isolation.step]; intros H.
    - injection H as <- <- <-. destruct (p_rowhist p); auto.
    - injection H as <- <- <-. auto.
    - exfalso. apply (No g). reflexivity.
    - destruct (is_object_key k); [destruct (parse_d k) as [v|]; [|discriminate]; injection H as <- <- <-; auto|]. destruct (lru_call _ _ _ _) as [c [v|]]; [|discriminate]. injection H as <- <- <-. auto.
    - dt_branches k; try (injection H as <- <- <-; auto).
      destruct (is_object_key k); [destruct (parse_dt k) as [v|]; [|discriminate]; injection H as <- <- <-; auto|]. 
      destruct (lru_call _ _ _ _) as [c [v|]]; [|discriminate]. injection H as <- <- <-. auto.
    - destruct (p_rowhist p); [|discriminate]. destruct (existsb _ _); [|discriminate].
      injection H as <- <- <-. auto.
    - injection H as <- <- <-. auto.
    - discriminate.
    - destruct (last_id table s =? n); [discriminate|]. injection H as <- <- <-. auto.
    - destruct (assoc_find site (rs_states s)); [injection H as <- <- <-; auto|].
      destruct (is_object_key k); [destruct (parse_d k) as [v|]; [|discriminate]; injection H as <- <- <-; auto|]. 
      destruct (lru_call _ _ _ _) as [c [v|]]; [|discriminate]. injection H as <- <- <-. auto.
    - destruct (assoc_find site (rs_states s)); [injection H as <- <- <-; auto|].
      pose proof (with_chdir_restores (match c_dir cx with Some d => d | None => p_cwd p end) p file) as W.
      destruct (Isolation.with_chdir _ _ _ _ _) as [q [v|er]]; [|discriminate]. cbn [fst] in W. subst q.
      injection H as <- <- <-. auto.
  Qed.

  Lemma exec_uids e cx ops : forall p s,
    gens_inv p s ->
    let r := exec_ops e cx p s ops in
    p_uid p <= p_uid (fst (fst r)) /\
    NoDup (uid_pairs (o_obs (snd r))) /\
    (forall c i, In (c, i) (uid_pairs (o_obs (snd r))) ->
       c < p_uid (fst (fst r)) /\
       (p_uid p <= c \/ exists g i0, gen_find g (rs_gens s) = Some (c, i0) /\ i0 <= i)).
  Proof.
    induction ops as [|o ops IH]; intros p s Inv; cbn zeta; cbn [Isolation.exec_ops].
    - cbn. splits; [lia|constructor|tauto].
    - destruct (step e cx p s o) as [p' [[s' b]|er]] eqn:E;
        [|cbn [fst snd o_obs]; pose proof (step_uid_mono e cx p s o) as M; rewrite E in M;
          cbn [fst] in M; splits; [exact M|constructor|cbn; tauto]].
      assert (Hcase : (forall g, o <> OUid g) \/ exists g, o = OUid g).
      { destruct o; try (left; intros g0; discriminate). right. eexists. reflexivity. }
      destruct Hcase as [No|[g ->]].
      + destruct (step_no_uid e cx p s o p' s' b No E) as (Hb & Hu & Hg).
        assert (Inv' : gens_inv p' s').
        { destruct Inv as [I1 I2]. unfold gens_inv. rewrite Hg, Hu. split; assumption. }
        specialize (IH p' s' Inv'). cbn zeta in IH.
        destruct (exec_ops e cx p' s' ops) as [[p'' s''] out]. cbn [fst snd o_obs] in *.
        destruct IH as (M & N & B). rewrite uid_pairs_app, Hb. cbn [app].
        splits; [lia|exact N|].
        intros c i Hin. destruct (B c i Hin) as [Hlt Hor]. split; [exact Hlt|].
        rewrite Hu, Hg in Hor. exact Hor.
      + cbn [Isolation.step] in E. destruct Inv as [I1 I2].
        destruct (gen_find g (rs_gens s)) as [[c0 i0]|] eqn:G; injection E as <- <- <-.
        * (* existing generator *)
          assert (Inv' : gens_inv (touch_masks p)
                                  (mkRs (rs_ids s) (rs_states s) (gen_set g (c0, i0 + 1) (rs_gens s)) (rs_start s))).
          { split; cbn [rs_gens touch_masks p_uid].
            - intros g1 c i Hf. destruct (gslot_eqb g1 g) eqn:Eg.
              + apply gslot_eqb_eq in Eg. subst g1. rewrite gen_find_set_same in Hf.
                injection Hf as <- _. eapply I1; eauto.
              + rewrite gen_find_set_other in Hf; [eapply I1; eauto|].
                intros ->. rewrite gslot_eqb_refl in Eg. discriminate.
            - intros g1 g2 c i i' H1 H2.
              destruct (gslot_eqb g1 g) eqn:E1; destruct (gslot_eqb g2 g) eqn:E2.
              + apply gslot_eqb_eq in E1, E2. congruence.
              + apply gslot_eqb_eq in E1. subst g1. rewrite gen_find_set_same in H1.
                injection H1 as <- _.
                rewrite gen_find_set_other in H2
                  by (intros ->; rewrite gslot_eqb_refl in E2; discriminate).
                symmetry. eapply I2; eauto.
              + apply gslot_eqb_eq in E2. subst g2. rewrite gen_find_set_same in H2.
                injection H2 as <- _.
                rewrite gen_find_set_other in H1
                  by (intros ->; rewrite gslot_eqb_refl in E1; discriminate).
                eapply I2; eauto.
              + rewrite gen_find_set_other in H1
                  by (intros ->; rewrite gslot_eqb_refl in E1; discriminate).
                rewrite gen_find_set_other in H2
                  by (intros ->; rewrite gslot_eqb_refl in E2; discriminate).
                eapply I2; eauto. }
          specialize (IH _ _ Inv'). cbn zeta in IH.
          destruct (exec_ops e cx (touch_masks p) _ ops) as [[p'' s''] out]. cbn [fst snd o_obs] in *.
          destruct IH as (M & N & B). cbn [touch_masks p_uid] in M, B.
          rewrite uid_pairs_app. unfold uid_pairs at 1 3. cbn [uid_obs map snd app].
          pose proof (I1 g c0 i0 G) as Hc0.
          splits; [lia| |].
          -- constructor; [|exact N]. intros Hin. destruct (B c0 i0 Hin) as [_ [Hge|(g1 & i1 & Hf & Hle)]]; [lia|].
             cbn [rs_gens] in Hf. destruct (gslot_eqb g1 g) eqn:Eg.
             ++ apply gslot_eqb_eq in Eg. subst g1. rewrite gen_find_set_same in Hf.
                injection Hf as <-. lia.
             ++ rewrite gen_find_set_other in Hf
                  by (intros ->; rewrite gslot_eqb_refl in Eg; discriminate).
                assert (g1 = g) by (eapply I2; eauto). subst g1.
                rewrite gslot_eqb_refl in Eg. discriminate.
          -- intros c i [Heq|Hin].
             ++ injection Heq as <- <-. split; [lia|]. right. exists g, i0. split; [exact G|lia].
             ++ destruct (B c i Hin) as [Hlt Hor]. split; [exact Hlt|].
                destruct Hor as [Hge|(g1 & i1 & Hf & Hle)]; [left; exact Hge|right].
                cbn [rs_gens] in Hf. destruct (gslot_eqb g1 g) eqn:Eg.
                ** apply gslot_eqb_eq in Eg. subst g1. rewrite gen_find_set_same in Hf.
                   injection Hf as <- <-. exists g, i0. split; [exact G|lia].
                ** rewrite gen_find_set_other in Hf
                     by (intros ->; rewrite gslot_eqb_refl in Eg; discriminate).
                   exists g1, i1. split; assumption.
        * (* a generator is created: it draws the process-wide context counter *)
          assert (Inv' : gens_inv (touch_masks (draw_context p))
                                  (mkRs (rs_ids s) (rs_states s)
                                        (gen_set g (p_uid p, first_index g + 1) (rs_gens s)) (rs_start s))).
          { split; cbn [rs_gens touch_masks draw_context p_uid].
            - intros g1 c i Hf. destruct (gslot_eqb g1 g) eqn:Eg.
              + apply gslot_eqb_eq in Eg. subst g1. rewrite gen_find_set_same in Hf.
                injection Hf as <- _. lia.
              + rewrite gen_find_set_other in Hf
                  by (intros ->; rewrite gslot_eqb_refl in Eg; discriminate).
                pose proof (I1 _ _ _ Hf). lia.
            - intros g1 g2 c i i' H1 H2.
              destruct (gslot_eqb g1 g) eqn:E1; destruct (gslot_eqb g2 g) eqn:E2.
              + apply gslot_eqb_eq in E1, E2. congruence.
              + apply gslot_eqb_eq in E1. subst g1. rewrite gen_find_set_same in H1.
                injection H1 as <- _.
                rewrite gen_find_set_other in H2
                  by (intros ->; rewrite gslot_eqb_refl in E2; discriminate).
                pose proof (I1 _ _ _ H2). lia.
              + apply gslot_eqb_eq in E2. subst g2. rewrite gen_find_set_same in H2.
                injection H2 as <- _.
                rewrite gen_find_set_other in H1
                  by (intros ->; rewrite gslot_eqb_refl in E1; discriminate).
                pose proof (I1 _ _ _ H1). lia.
              + rewrite gen_find_set_other in H1
                  by (intros ->; rewrite gslot_eqb_refl in E1; discriminate).
                rewrite gen_find_set_other in H2
                  by (intros ->; rewrite gslot_eqb_refl in E2; discriminate).
                eapply I2; eauto. }
          specialize (IH _ _ Inv'). cbn zeta in IH.
          destruct (exec_ops e cx (touch_masks (draw_context p)) _ ops) as [[p'' s''] out].
          cbn [fst snd o_obs] in *.
          destruct IH as (M & N & B). cbn [touch_masks draw_context p_uid] in M, B.
          rewrite uid_pairs_app. unfold uid_pairs at 1 3. cbn [uid_obs map snd app].
          splits; [lia| |].
          -- constructor; [|exact N]. intros Hin.
             destruct (B _ _ Hin) as [_ [Hge|(g1 & i1 & Hf & Hle)]]; [lia|].
             cbn [rs_gens] in Hf. destruct (gslot_eqb g1 g) eqn:Eg.
             ++ apply gslot_eqb_eq in Eg. subst g1. rewrite gen_find_set_same in Hf.
                injection Hf as <-. lia.
             ++ rewrite gen_find_set_other in Hf
                  by (intros ->; rewrite gslot_eqb_refl in Eg; discriminate).
                pose proof (I1 _ _ _ Hf). lia.
          -- intros c i [Heq|Hin].
             ++ injection Heq as <- <-. split; [lia|]. left. lia.
             ++ destruct (B c i Hin) as [Hlt Hor]. split; [exact Hlt|].
                destruct Hor as [Hge|(g1 & i1 & Hf & Hle)]; [left; lia|].
                cbn [rs_gens] in Hf. destruct (gslot_eqb g1 g) eqn:Eg.
                ** apply gslot_eqb_eq in Eg. subst g1. rewrite gen_find_set_same in Hf.
                   injection Hf as <- <-. left. lia.
                ** rewrite gen_find_set_other in Hf
                     by (intros ->; rewrite gslot_eqb_refl in Eg; discriminate).
                   right. exists g1, i1. split; assumption.
  Qed.


  Lemma gens_inv_nogens p s : rs_gens s = [] -> gens_inv p s.
  Proof. intros H. split; rewrite H; cbn; intros; discriminate. Qed.

  (* one run: its draws are pairwise distinct and their contexts lie between the counter before
     and the counter after the run *)
  Lemma run_uids p e r :
    let x := run p e r in
    p_uid p <= p_uid (fst x) /\
    NoDup (uid_pairs (o_obs (snd x))) /\
    (forall c i, In (c, i) (uid_pairs (o_obs (snd x))) -> p_uid p <= c < p_uid (fst x)).
  Proof.
    cbn zeta. unfold Isolation.run. pose proof (pre_execute_frame p e r) as F. cbn zeta in F.
    destruct (pre_execute p e r) as [p1 [u|er]]; cbn [fst snd o_obs] in *; destruct F as (U & _);
      [|cbn; splits; [lia|constructor|tauto]].
    set (cx := mkCtx (effective_version e r) (r_dir r)).
    set (q := set_rowhist p1 (Some [])). set (s0 := init_rstate (r_cont r)).
    destruct (iterate_unroll e cx (r_crit r) (r_ops r) (iter_fuel (r_crit r)) q s0) as [k Hk]. cbn zeta in Hk.
    assert (Hg : rs_gens s0 = []) by (unfold s0, init_rstate; destruct (r_cont r); reflexivity).
    pose proof (exec_uids e cx (flat k (r_ops r)) q s0 (gens_inv_nogens q s0 Hg)) as H. cbn zeta in H.
    destruct (iterate (iter_fuel (r_crit r)) e cx (r_crit r) (r_ops r) q s0) as [p' out].
    destruct (exec_ops e cx q s0 (flat k (r_ops r))) as [[q' s'] out']. cbn [fst snd] in *.
    destruct Hk as (A & B). rewrite A.
    assert (Hu : p_uid p' = p_uid q') by (apply (f_equal p_uid) in B; exact B).
    assert (Hq : p_uid q = p_uid p) by (unfold q; cbn [set_rowhist p_uid]; exact U).
    rewrite Hu. rewrite Hq in H. destruct H as (M & N & Bd). splits; auto.
    intros c i Hin. destruct (Bd c i Hin) as [Hlt [Hge|(g & i0 & Hf & _)]]; [lia|].
    rewrite Hg in Hf. cbn in Hf. discriminate.
  Qed.

  Definition all_uid_pairs (os : list outcome) : list (Z * Z) :=
    flat_map (fun o => uid_pairs (o_obs o)) os.

  Lemma run_seq_uids l : forall p,
    let x := run_seq p l in
    p_uid p <= p_uid (fst x) /\
    NoDup (all_uid_pairs (snd x)) /\
    (forall c i, In (c, i) (all_uid_pairs (snd x)) -> p_uid p <= c < p_uid (fst x)).
  Proof.
    induction l as [|[e r] l IH]; intros p; cbn zeta; cbn [Isolation.run_seq].
    - cbn. splits; [lia|constructor|tauto].
    - pose proof (run_uids p e r) as H. cbn zeta in H. destruct (run p e r) as [p1 o].
      specialize (IH p1). cbn zeta in IH. destruct (run_seq p1 l) as [p2 os].
      cbn [fst snd] in *. destruct H as (M1 & N1 & B1). destruct IH as (M2 & N2 & B2).
      unfold all_uid_pairs in *. cbn [flat_map]. splits; [lia| |].
      + apply NoDup_app_intro; auto. intros [c i] H1 H2.
        pose proof (B1 c i H1). pose proof (B2 c i H2). lia.
      + intros c i Hin. apply in_app_iff in Hin. destruct Hin as [Hin|Hin].
        * pose proof (B1 c i Hin). lia.
        * pose proof (B2 c i Hin). lia.
  Qed.

  (* Unique ids stay distinct across runs in one process: over any sequence of runs started in
     any process state, no (context, index) pair is drawn twice, and every context drawn is at
     least the counter value the sequence started with (so it also differs from everything
     drawn before). *)
  Theorem uid_still_distinct p l :
    NoDup (all_uid_pairs (snd (run_seq p l))) /\
    forall c i, In (c, i) (all_uid_pairs (snd (run_seq p l))) -> p_uid p <= c.
  Proof.
    pose proof (run_seq_uids l p) as (M & N & B). cbn zeta in *. split; auto.
    intros c i H. pose proof (B c i H). lia.
  Qed.

  Definition all_num_uid_pairs (os : list outcome) : list (Z * Z) :=
    flat_map (fun o => num_uid_pairs (o_obs o)) os.

  Lemma all_num_incl os x : In x (all_num_uid_pairs os) -> In x (all_uid_pairs os).
  Proof.
    unfold all_num_uid_pairs, all_uid_pairs. rewrite !in_flat_map.
    intros (o & Ho & Hx). exists o. split; auto.
    unfold num_uid_pairs, uid_pairs in *. apply in_map_iff in Hx. destruct Hx as (y & <- & Hy).
    apply filter_In in Hy. apply in_map. tauto.
  Qed.

  Lemma all_num_NoDup p l : NoDup (all_num_uid_pairs (snd (run_seq p l))).
  Proof.
    revert p. induction l as [|[e r] l IH]; intros p; cbn [Isolation.run_seq].
    - constructor.
    - pose proof (run_uids p e r) as H. cbn zeta in H. destruct (run p e r) as [p1 o].
      pose proof (run_seq_uids l p1) as H2. cbn zeta in H2. specialize (IH p1).
      destruct (run_seq p1 l) as [p2 os]. cbn [fst snd] in *.
      destruct H as (M1 & N1 & B1). destruct H2 as (M2 & N2 & B2).
      unfold all_num_uid_pairs. cbn [flat_map]. apply NoDup_app_intro.
      + unfold num_uid_pairs. apply NoDup_map_filter. exact N1.
      + exact IH.
      + intros [c i] H1 H3.
        assert (In (c, i) (uid_pairs (o_obs o))).
        { unfold num_uid_pairs, uid_pairs in *. apply in_map_iff in H1.
          destruct H1 as (y & <- & Hy). apply filter_In in Hy. apply in_map. tauto. }
        pose proof (B1 c i H). pose proof (B2 c i (all_num_incl _ _ H3)). lia.
  Qed.
End P.

(* ... hence, with the value pipeline of C13 (UniqueId.v): the numbers produced by all default
   numeric generators (unique_id, UniqueId.unique_id; small-id or big-id mode, any pid) over a
   whole sequence of runs in one process are pairwise distinct. *)
Theorem uid_values_distinct (parse_d parse_dt : key -> option Z)
        (read_file : string -> string -> result Z) (load_plugin : string -> string -> result bool)
        (mask : Z -> Z -> Z) (nbits : Z -> Z) (big : bool) (pid : list Z) p l vs :
  map (fun ci => num_value mask nbits (default_numeric_tpl big) pid (fst ci) (snd ci) true)
      (all_num_uid_pairs (snd (run_seq parse_d parse_dt read_file load_plugin p l))) = map Ok vs ->
  NoDup vs.
Proof.
  intros H. eapply NoDup_of_injective_keys; [| |exact H].
  - apply all_num_NoDup.
  - intros [c i] [c' i'] v _ _ Hv Hv'. cbn [fst snd] in *.
    destruct (pipeline_numeric_pair mask nbits _ _ _ _ _ _ _ _ _ Hv Hv') as [-> ->]. reflexivity.
Qed.
