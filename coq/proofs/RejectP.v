(* RejectP.v — proofs about theories/Reject.v (property C20). *)
From Coq Require Import ZArith List Bool String Ascii Lia.
From SFV Require Import Base Reject.
Import ListNotations.
Open Scope string_scope.
Open Scope list_scope.

(* ================================================================== dynamic half *)
Lemma through_EDGE f : through f EDGE = EDGE.
Proof. destruct f; reflexivity. Qed.

Lemma fold_through_EDGE fs : fold_left (fun e f => through f e) fs EDGE = EDGE.
Proof. induction fs as [|f fs IH]; cbn [fold_left]; [reflexivity|]. rewrite through_EDGE. exact IH. Qed.

Lemma converts_through f e : converts f = true -> through f e = EDGE.
Proof. destruct f; cbn; intros H; try reflexivity; discriminate. Qed.

Lemma fold_through_protected fs e :
  existsb converts fs = true -> fold_left (fun e f => through f e) fs e = EDGE.
Proof.
  revert e; induction fs as [|f fs IH]; cbn [existsb fold_left]; intros e H; [discriminate|].
  destruct (converts f) eqn:Hc.
  - rewrite (converts_through f e Hc). apply fold_through_EDGE.
  - apply IH. exact H.
Qed.

(* an exception that passes at least one converting handler leaves generate as a DataGenError *)
Lemma escape_protected p l e : protected_path p l = true -> escape p l e = EDGE.
Proof. unfold protected_path, escape. apply fold_through_protected. Qed.

Lemma escape_raw_unprotected p l e n : escape p l e = EPy n -> protected_path p l = false.
Proof.
  intros H. destruct (protected_path p l) eqn:Hp; [|reflexivity].
  rewrite (escape_protected p l e Hp) in H. discriminate.
Qed.

Lemma frames_app p q l : frames (p ++ q) l = frames q l ++ fold_right (fun s acc => acc ++ step_frames s) [] p.
Proof.
  induction p as [|s p IH]; cbn [app frames fold_right].
  - rewrite app_nil_r. reflexivity.
  - rewrite IH. rewrite app_assoc. reflexivity.
Qed.

Lemma protected_below (s : step) pre post l :
  existsb converts (step_frames s) = true -> protected_path (pre ++ s :: post) l = true.
Proof.
  intros H. unfold protected_path. rewrite frames_app. cbn [frames].
  rewrite !existsb_app. rewrite H. rewrite orb_true_r. reflexivity.
Qed.

(* anything raised while a field is rendered, a for_each expression is evaluated, a friend is
   executed or an argument of a function call is rendered — at any depth below — is wrapped *)
Lemma wrapped_inside_field pre post l e : escape (pre ++ STmplField :: post) l e = EDGE.
Proof. apply escape_protected, protected_below. reflexivity. Qed.
Lemma wrapped_inside_for_each pre post l e : escape (pre ++ STmplForEach :: post) l e = EDGE.
Proof. apply escape_protected, protected_below. reflexivity. Qed.
Lemma wrapped_inside_friend pre post l e : escape (pre ++ STmplFriend :: post) l e = EDGE.
Proof. apply escape_protected, protected_below. reflexivity. Qed.
Lemma wrapped_inside_call_arg pre post l e : escape (pre ++ SCallArg :: post) l e = EDGE.
Proof. apply escape_protected, protected_below. reflexivity. Qed.

Lemma protected_leaf p l : existsb converts (leaf_frames l) = true -> protected_path p l = true.
Proof.
  intros H. unfold protected_path.
  replace p with (p ++ []) by apply app_nil_r. rewrite frames_app. cbn [frames].
  rewrite !existsb_app. rewrite H. reflexivity.
Qed.

(* writing a row, row bookkeeping, evaluating / compiling a formula, calling a function, the for_each
   type check: wrapped wherever they happen *)
Lemma wrapped_inside_count pre post l e : escape (pre ++ STmplCount :: post) l e = EDGE.
Proof. apply escape_protected, protected_below. reflexivity. Qed.
Lemma wrapped_inside_var pre post l e : escape (pre ++ SVarExpr :: post) l e = EDGE.
Proof. apply escape_protected, protected_below. reflexivity. Qed.

Lemma wrapped_leaf p l e :
  In l [LWrite; LRowSetup; LEval; LCompile; LFunc; LForEachType; LCtxTmpl; LCtxVar] -> escape p l e = EDGE.
Proof.
  intros H. apply escape_protected, protected_leaf.
  cbn in H. destruct H as [H|[H|[H|[H|[H|[H|[H|[H|[]]]]]]]]]; subst l; reflexivity.
Qed.

(* every path execution can take passes a converting handler: whatever is raised wherever, generate
   answers with a DataGenError *)
Lemma rooted_protected p l : rooted p l = true -> protected_path p l = true.
Proof.
  destruct p as [|s p]; cbn [rooted].
  - intros H. apply protected_leaf. destruct l; try discriminate; reflexivity.
  - intros H. replace (s :: p) with ([] ++ s :: p) by reflexivity. apply protected_below.
    destruct s; try discriminate; reflexivity.
Qed.

Lemma escape_rooted p l e : rooted p l = true -> escape p l e = EDGE.
Proof. intros H. apply escape_protected, rooted_protected, H. Qed.

(* the converse: an exception can only leave generate unwrapped along a path that cannot occur *)
Lemma escape_raw_inv p l e n : escape p l e = EPy n -> rooted p l = false.
Proof.
  intros H. destruct (rooted p l) eqn:Hr; [|reflexivity].
  rewrite (escape_rooted p l e Hr) in H. discriminate.
Qed.

Lemma count_conv_wrapped pre e : escape (pre ++ [STmplCount]) LCountConv e = EDGE.
Proof. apply escape_protected, protected_below. reflexivity. Qed.

Lemma static_before_rows E ff mf doc dyn e :
  validate E ff mf doc = Err e -> generate E ff mf doc dyn = (Err e, O).
Proof. intros H. unfold generate. rewrite H. reflexivity. Qed.

Lemma rows_only_after_validation E ff mf doc dyn r n :
  generate E ff mf doc dyn = (r, S n) -> validate E ff mf doc = Ok tt.
Proof.
  unfold generate. destruct (validate E ff mf doc) as [[]|e] eqn:Hv; [reflexivity|].
  intros H. inversion H.
Qed.

(* ================================================================== static half: infrastructure *)
(* [safeE Q r]: whatever error r is, it satisfies Q *)
Definition safeE {A} (Q : err -> Prop) (r : result A) : Prop := forall e, r = Err e -> Q e.
Implicit Types Q : err -> Prop.

Lemma safeE_ok {A} Q (a : A) : safeE Q (Ok a).
Proof. intros e H; discriminate. Qed.

Lemma safeE_err {A} (Q : err -> Prop) e : Q e -> safeE Q (@Err A e).
Proof. intros H e' H'; inversion H'; subst; exact H. Qed.

Lemma safeE_bind {A B} Q (r : result A) (k : A -> result B) :
  safeE Q r -> (forall a, r = Ok a -> safeE Q (k a)) ->
  safeE Q (match r with Ok a => k a | Err e => Err e end).
Proof.
  intros Hr Hk. destruct r as [a|e].
  - apply Hk. reflexivity.
  - intros e' H'. inversion H'; subst. apply Hr. reflexivity.
Qed.

Lemma safeE_if {A} Q (b : bool) (x y : result A) :
  (b = true -> safeE Q x) -> (b = false -> safeE Q y) -> safeE Q (if b then x else y).
Proof. destruct b; auto. Qed.

(* ------------------------------------------------------------------ sizes *)
Fixpoint size (y : yaml) : nat :=
  match y with
  | YSeq l => S (fold_right (fun x a => size x + a)%nat O l)
  | YMap kv => S (fold_right (fun p a => size (snd p) + a)%nat O kv)
  | _ => 1%nat
  end.

Lemma size_in_seq x l : In x l -> (size x < size (YSeq l))%nat.
Proof.
  cbn [size]. induction l as [|a l IH]; cbn [In fold_right]; [tauto|].
  intros [H|H]; [subst; lia|]. specialize (IH H). lia.
Qed.

Lemma size_in_map k v kv : In (k, v) kv -> (size v < size (YMap kv))%nat.
Proof.
  cbn [size]. induction kv as [|a kv IH]; cbn [In fold_right]; [tauto|].
  intros [H|H]; [subst; cbn [snd]; lia|]. specialize (IH H). lia.
Qed.

Lemma lookup_in k kv v : lookup k kv = Some v -> In (YStr k, v) kv.
Proof.
  induction kv as [|[key v'] kv IH]; cbn [lookup]; [discriminate|].
  destruct key; try (intros H; right; exact (IH H)).
  destruct (String.eqb s k) eqn:Hs.
  - intros H; inversion H; subst. apply String.eqb_eq in Hs. subst. left; reflexivity.
  - intros H; right; exact (IH H).
Qed.

Lemma lookup_size k kv v : lookup k kv = Some v -> (size v < size (YMap kv))%nat.
Proof. intros H. eapply size_in_map. apply lookup_in. exact H. Qed.

(* ------------------------------------------------------------------ parse_element *)
Lemma pe_keys_lookup sp kv k v :
  pe_keys sp kv = true -> lookup k kv = Some v -> exists p, expected sp k = Some p /\ p v = true.
Proof.
  induction kv as [|[key v'] kv IH]; cbn [pe_keys lookup]; [discriminate|].
  destruct key; try discriminate.
  destruct (expected sp s) as [p|] eqn:He; [|discriminate].
  intros H. apply andb_true_iff in H. destruct H as [Hp Hr].
  destruct (String.eqb s k) eqn:Hs.
  - intros Hv; inversion Hv; subst. apply String.eqb_eq in Hs; subst. eauto.
  - intros Hv. apply IH; assumption.
Qed.

Lemma parse_element_ok sp kv u : parse_element sp kv = Ok u -> pe_keys sp kv = true.
Proof. unfold parse_element. destruct (pe_keys sp kv); [reflexivity|discriminate]. Qed.

Lemma parse_element_mand sp kv u m :
  parse_element sp kv = Ok u -> In m (e_mand sp) -> has_key kv (fst m) = true.
Proof.
  unfold parse_element. destruct (pe_keys sp kv); [|discriminate].
  destruct (forallb _ (e_mand sp)) eqn:Hf; [|discriminate]. intros _ Hin.
  rewrite forallb_forall in Hf. exact (Hf m Hin).
Qed.

Lemma parse_element_safe Q sp kv : Q (DGE "") -> safeE Q (parse_element sp kv).
Proof.
  intros HQ. unfold parse_element, dge.
  destruct (pe_keys sp kv); [destruct (forallb _ _)|]; try apply safeE_ok; apply safeE_err; exact HQ.
Qed.

Lemma spec_typed sp kv u k v p :
  parse_element sp kv = Ok u -> lookup k kv = Some v -> expected sp k = Some p -> p v = true.
Proof.
  intros Hpe Hl He. destruct (pe_keys_lookup sp kv k v (parse_element_ok _ _ _ Hpe) Hl) as [p' [He' Hp']].
  rewrite He in He'. inversion He'; subst. exact Hp'.
Qed.

(* ------------------------------------------------------------------ map_kv / lookup_res *)
Lemma lookup_res_map_kv {R} (f : yaml -> yaml -> R) k kv :
  lookup_res k (map_kv f kv) = match lookup k kv with Some v => Some (f (YStr k) v) | None => None end.
Proof.
  induction kv as [|[key v] kv IH]; cbn [map_kv lookup_res lookup]; [reflexivity|].
  destruct key; try exact IH.
  destruct (String.eqb s k) eqn:Hs; [|exact IH].
  apply String.eqb_eq in Hs; subst. reflexivity.
Qed.

(* ================================================================== the walk never fails outside three sites *)
Ltac sbind := apply safeE_bind; [ | intros ? ? ].

(* the macro names a tree mentions in `include:` strings (of any mapping at any depth) *)
Definition own_includes (kv : kvs) : list string :=
  match lookup "include" kv with
  | Some (YStr s) => filter nonempty (map strip (split_comma s))
  | _ => []
  end.

Fixpoint incl_names (y : yaml) : list string :=
  match y with
  | YSeq l => flat_map incl_names l
  | YMap kv => own_includes kv ++ flat_map (fun p => incl_names (snd p)) kv
  | _ => []
  end.

Lemma incl_names_seq x l nm : In x l -> In nm (incl_names x) -> In nm (incl_names (YSeq l)).
Proof. intros Hx Hn. cbn [incl_names]. apply in_flat_map. eauto. Qed.

Lemma incl_names_map k v kv nm : In (k, v) kv -> In nm (incl_names v) -> In nm (incl_names (YMap kv)).
Proof.
  intros Hx Hn. cbn [incl_names]. apply in_or_app. right. apply in_flat_map.
  exists (k, v). split; [exact Hx|exact Hn].
Qed.

Lemma incl_names_own kv nm : In nm (own_includes kv) -> In nm (incl_names (YMap kv)).
Proof. intros H. cbn [incl_names]. apply in_or_app. left; exact H. Qed.

Lemma split_include_own site kv incs nm :
  py_split_include site (lookup "include" kv) = Ok incs -> In nm incs -> In nm (own_includes kv).
Proof.
  unfold py_split_include, own_includes. destruct (lookup "include" kv) as [v|].
  - destruct v; try discriminate. intros H; inversion H; subst. auto.
  - intros H; inversion H; subst. intros [].
Qed.

Section WalkSafe.
  Variable Q : err -> Prop.
  Hypothesis Qdge : Q (DGE "").
  Variable inc : string -> result (list rrv).
  Variable A : string -> Prop.                    (* the macro names for which inc is known to behave *)
  Hypothesis Hinc : forall nm, A nm -> safeE Q (inc nm).

  Definition NamesIn (y : yaml) : Prop := forall nm, In nm (incl_names y) -> A nm.

  Lemma NamesIn_seq x l : NamesIn (YSeq l) -> In x l -> NamesIn x.
  Proof. intros H Hx nm Hn. apply H. eapply incl_names_seq; eauto. Qed.
  Lemma NamesIn_map k v kv : NamesIn (YMap kv) -> In (k, v) kv -> NamesIn v.
  Proof. intros H Hx nm Hn. apply H. eapply incl_names_map; eauto. Qed.
  Lemma NamesIn_lookup k v kv : NamesIn (YMap kv) -> lookup k kv = Some v -> NamesIn v.
  Proof. intros H Hl. eapply NamesIn_map; [exact H|]. apply lookup_in. exact Hl. Qed.
  Lemma NamesIn_tail p kv : NamesIn (YMap (p :: kv)) -> forall k v, In (k, v) kv -> NamesIn v.
  Proof. intros H k v Hin. eapply NamesIn_map; [exact H|right; exact Hin]. Qed.

  Lemma dge_safe {A'} : safeE Q (@dge A').
  Proof. apply safeE_err. exact Qdge. Qed.

  Lemma coerce_safe k : safeE Q (coerce_to_string k).
  Proof. destruct k; cbn [coerce_to_string]; try apply safeE_ok; apply dge_safe. Qed.

  Lemma each_safe f l : (forall x, In x l -> safeE Q (f x)) -> safeE Q (each f l).
  Proof.
    induction l as [|x l IH]; intros H; cbn [each].
    - apply safeE_ok.
    - sbind; [apply H; left; reflexivity|].
      sbind; [apply IH; intros; apply H; right; assumption|]. apply safeE_ok.
  Qed.

  Lemma each_kv_safe chk f kv :
    (forall n, safeE Q (chk n)) -> (forall k v, In (k, v) kv -> safeE Q (f v)) ->
    safeE Q (each_kv chk f kv).
  Proof.
    intros Hc. induction kv as [|[k v] kv IH]; intros H; cbn [each_kv].
    - apply safeE_ok.
    - sbind; [apply coerce_safe|]. sbind; [apply Hc|].
      sbind; [eapply H; left; reflexivity|].
      sbind; [apply IH; intros; eapply H; right; eassumption|]. apply safeE_ok.
  Qed.

  Lemma each_inc_safe names : (forall nm, In nm names -> A nm) -> safeE Q (each_inc inc names).
  Proof.
    induction names as [|n r IH]; intros H; cbn [each_inc]; [apply safeE_ok|].
    sbind; [apply Hinc; apply H; left; reflexivity|].
    sbind; [apply IH; intros; apply H; right; assumption|]. apply safeE_ok.
  Qed.

  Lemma no_check_safe n : safeE Q (no_check n).
  Proof. apply safeE_ok. Qed.

  Lemma field_name_check_safe n : safeE Q (field_name_check n).
  Proof.
    unfold field_name_check. destruct (nonempty n); [apply safeE_ok|apply dge_safe].
  Qed.

  Section Rec.
    Variable rec : mode -> yaml -> result out.
    Variable N : nat.
    Hypothesis Hrec : forall y' m', (size y' < N)%nat -> m' <> MStmt true -> NamesIn y' ->
                                    safeE Q (rec m' y').

    Lemma rec_field y' : (size y' < N)%nat -> NamesIn y' -> safeE Q (rec MField y').
    Proof. intros H Hn. apply Hrec; [exact H|discriminate|exact Hn]. Qed.
    Lemma rec_friend y' : (size y' < N)%nat -> NamesIn y' -> safeE Q (rec (MStmt false) y').
    Proof. intros H Hn. apply Hrec; [exact H| |exact Hn]. intros E; inversion E. Qed.

    Lemma kwargs_safe chk kv :
      (forall n, safeE Q (chk n)) -> (size (YMap kv) <= N)%nat -> NamesIn (YMap kv) ->
      safeE Q (each_kv chk (rec MField) kv).
    Proof.
      intros Hc Hs Hn. apply each_kv_safe; [exact Hc|]. intros k v Hin. apply rec_field.
      - pose proof (size_in_map k v kv Hin). lia.
      - eapply NamesIn_map; eauto.
    Qed.

    Lemma sv_args_safe a : (size a < N)%nat -> NamesIn a -> safeE Q (sv_args rec a).
    Proof.
      intros Hs Hn. destruct a; cbn [sv_args];
        try (sbind; [apply rec_field; [exact Hs|exact Hn]|]; apply safeE_ok).
      - sbind; [|apply safeE_ok]. apply each_safe. intros x Hin. apply rec_field.
        + pose proof (size_in_seq x l Hin). lia.
        + eapply NamesIn_seq; eauto.
      - sbind; [|apply safeE_ok]. apply kwargs_safe; [apply no_check_safe|lia|exact Hn].
    Qed.

    Lemma psv_safe kv : (size (YMap kv) <= N)%nat -> NamesIn (YMap kv) -> safeE Q (psv rec kv).
    Proof.
      intros Hs Hn. destruct kv as [|[fn a] rest]; cbn [psv]; [apply dge_safe|].
      sbind; [apply coerce_safe|].
      sbind; [|apply safeE_ok].
      destruct rest as [|p rest].
      - apply sv_args_safe.
        + pose proof (size_in_map fn a [(fn, a)] (or_introl eq_refl)). lia.
        + eapply NamesIn_map; [exact Hn|left; reflexivity].
      - sbind; [|apply safeE_ok]. apply each_kv_safe; [apply no_check_safe|].
        intros k v Hin. apply rec_field.
        + pose proof (size_in_map k v ((fn, a) :: p :: rest) (or_intror Hin)). lia.
        + eapply NamesIn_tail; eauto.
    Qed.

    Lemma parse_fields_safe v :
      (size v <= N)%nat -> NamesIn v -> (truthy v = true -> is_dict v = true) ->
      safeE Q (parse_fields rec v).
    Proof.
      intros Hs Hn Hd. unfold parse_fields. destruct (truthy v) eqn:Ht; [|apply safeE_ok].
      specialize (Hd eq_refl). destruct v; try discriminate.
      sbind; [|apply safeE_ok]. apply kwargs_safe; [apply field_name_check_safe|exact Hs|exact Hn].
    Qed.

    Lemma parse_friends_safe v :
      (size v <= N)%nat -> NamesIn v -> (truthy v = true -> is_list v = true) ->
      safeE Q (parse_friends rec v).
    Proof.
      intros Hs Hn Hd. unfold parse_friends. destruct (truthy v) eqn:Ht; [|apply safeE_ok].
      specialize (Hd eq_refl). destruct v; try discriminate.
      sbind; [|apply safeE_ok]. apply each_safe. intros x Hin. apply rec_friend.
      - pose proof (size_in_seq x l Hin). lia.
      - eapply NamesIn_seq; eauto.
    Qed.

    Lemma value_res_safe kv :
      (size (YMap kv) <= N)%nat -> NamesIn (YMap kv) ->
      safeE Q (match lookup_res "value" (map_kv (value_val rec) kv) with Some r => r | None => Ok [] end).
    Proof.
      intros Hs Hn. rewrite lookup_res_map_kv. destruct (lookup "value" kv) as [v|] eqn:Hl; [|apply safeE_ok].
      unfold value_val. cbn [key_is]. rewrite String.eqb_refl.
      sbind; [|apply safeE_ok]. apply rec_field.
      - pose proof (lookup_size _ _ _ Hl). lia.
      - eapply NamesIn_lookup; eauto.
    Qed.

    Lemma pfe_safe kv : (size (YMap kv) <= N)%nat -> NamesIn (YMap kv) -> safeE Q (pfe rec kv).
    Proof.
      intros Hs Hn. unfold pfe. cbv zeta.
      destruct (parse_element for_each_spec kv) as [u|e] eqn:Hpe;
        [|apply safeE_err; eapply (parse_element_safe Q); [exact Qdge|exact Hpe]].
      sbind; [|apply value_res_safe; assumption].
      (* `var` is a mandatory key now *)
      pose proof (parse_element_mand _ _ _ ("var", is_str) Hpe (or_introl eq_refl)) as Hv.
      unfold has_key in Hv. cbn [fst] in Hv.
      unfold py_attr. destruct (lookup "var" kv); [apply safeE_ok|discriminate].
    Qed.

    Lemma pvd_safe kv :
      (size (YMap kv) <= N)%nat -> NamesIn (YMap kv) -> truthy_opt (lookup "var" kv) = true ->
      safeE Q (pvd rec kv).
    Proof.
      intros Hs Hn Hv. unfold pvd. cbv zeta.
      sbind; [apply parse_element_safe; exact Qdge|].
      sbind; [|apply value_res_safe; assumption].
      unfold py_attr. destruct (lookup "var" kv); [apply safeE_ok|]. discriminate.
    Qed.

    Lemma res_opt_pot_safe kv u k :
      parse_element object_spec kv = Ok u -> (size (YMap kv) <= N)%nat -> NamesIn (YMap kv) ->
      safeE Q (res_opt k (map_kv (pot_val rec) kv)).
    Proof.
      intros Hpe Hs Hn. unfold res_opt. rewrite lookup_res_map_kv.
      destruct (lookup k kv) as [v|] eqn:Hl; [|apply safeE_ok].
      pose proof (lookup_size _ _ _ Hl) as Hsz.
      pose proof (NamesIn_lookup _ _ _ Hn Hl) as Hnv.
      unfold pot_val. cbn [key_is].
      destruct (String.eqb k "fields") eqn:E1.
      { apply String.eqb_eq in E1; subst k. apply parse_fields_safe; [lia|exact Hnv|]. intros _.
        exact (spec_typed _ _ _ _ _ _ Hpe Hl eq_refl). }
      destruct (String.eqb k "friends") eqn:E2.
      { apply String.eqb_eq in E2; subst k. apply parse_friends_safe; [lia|exact Hnv|]. intros _.
        exact (spec_typed _ _ _ _ _ _ Hpe Hl eq_refl). }
      destruct (String.eqb k "count") eqn:E3.
      { destruct (is_none v); [apply safeE_ok|]. sbind; [|apply safeE_ok]. apply rec_field; [lia|exact Hnv]. }
      destruct (String.eqb k "for_each") eqn:E4; [|apply safeE_ok].
      apply String.eqb_eq in E4; subst k.
      destruct (is_none v) eqn:Hnn; [apply safeE_ok|].
      pose proof (spec_typed _ _ _ _ _ _ Hpe Hl eq_refl) as Hd. cbn beta in Hd.
      destruct v; try discriminate. apply pfe_safe; [lia|exact Hnv].
    Qed.

    Lemma check_identifier_safe v : (is_str v = true \/ v = YNull) -> safeE Q (check_identifier v).
    Proof.
      intros [H|H]; unfold check_identifier.
      - rewrite H. rewrite andb_false_r. apply safeE_ok.
      - subst. apply safeE_ok.
    Qed.

    Lemma pot_safe top kv :
      (size (YMap kv) <= N)%nat -> NamesIn (YMap kv) -> truthy_opt (lookup "object" kv) = true ->
      safeE Q (pot inc rec top kv).
    Proof.
      intros Hs Hn Hobj. unfold pot. cbv zeta.
      destruct (parse_element object_spec kv) as [u|e] eqn:Hpe;
        [|apply safeE_err; eapply (parse_element_safe Q); [exact Qdge|exact Hpe]].
      (* just_once *)
      sbind. { unfold py_attr. destruct (lookup "just_once" kv); apply safeE_ok. }
      sbind.
      { destruct (negb top && truthy a) eqn:Hj; [|apply safeE_ok].
        apply andb_true_iff in Hj. destruct Hj as [Hj _]. rewrite Hj. cbn. apply dge_safe. }
      (* object *)
      sbind. { unfold py_attr. destruct (lookup "object" kv); [apply safeE_ok|discriminate]. }
      sbind.
      { apply check_identifier_safe. left. unfold py_attr in H1.
        destruct (lookup "object" kv) as [v|] eqn:Hl; [|discriminate]. inversion H1; subst.
        exact (spec_typed _ _ _ _ _ _ Hpe Hl eq_refl). }
      (* include *)
      sbind.
      { unfold py_split_include. destruct (lookup "include" kv) as [v|] eqn:Hl; [|apply safeE_ok].
        pose proof (spec_typed _ _ _ _ _ _ Hpe Hl eq_refl) as Hd. cbn beta in Hd.
        destruct v; try discriminate. }
      sbind.
      { apply each_inc_safe. intros nm Hin. apply Hn. apply incl_names_own.
        eapply split_include_own; eassumption. }
      sbind. { unfold py_attr. destruct (lookup "fields" kv); apply safeE_ok. }
      sbind; [eapply res_opt_pot_safe; eassumption|].
      sbind. { unfold py_attr. destruct (lookup "friends" kv); apply safeE_ok. }
      sbind; [eapply res_opt_pot_safe; eassumption|].
      sbind. { unfold py_attr. destruct (lookup "nickname" kv); apply safeE_ok. }
      sbind.
      { apply check_identifier_safe. unfold py_attr in H9.
        destruct (lookup "nickname" kv) as [v|] eqn:Hl; inversion H9; subst; [left|right; reflexivity].
        exact (spec_typed _ _ _ _ _ _ Hpe Hl eq_refl). }
      sbind; [eapply res_opt_pot_safe; eassumption|].
      sbind; [eapply res_opt_pot_safe; eassumption|].
      destruct (present kv "count" && present kv "for_each"); [apply dge_safe|apply safeE_ok].
    Qed.
  End Rec.

  Lemma walk_eq m y :
    walk inc m y =
    match m with
    | MField =>
      match y with
      | YMap kv =>
        if truthy_opt (lookup "object" kv)
        then match pot inc (walk inc) false kv with Ok r => Ok (DKNoDef, r) | Err e => Err e end
        else psv (walk inc) kv
      | YSeq [x] =>
        match x with
        | YMap _ => walk inc MField x
        | _ => match need_parent true with Ok _ => dge | Err e => Err e end
        end
      | YStr _ => Ok (DKStr, [])
      | YNull | YBool _ | YInt _ | YFloat _ | YDate | YDateTime => Ok (DKOther, [])
      | _ => match need_parent true with Ok _ => dge | Err e => Err e end
      end
    | MStmt top =>
      match y with
      | YMap kv =>
        if truthy_opt (lookup "object" kv)
        then match pot inc (walk inc) top kv with Ok r => Ok (DKNoDef, r) | Err e => Err e end
        else if truthy_opt (lookup "var" kv)
             then match pvd (walk inc) kv with Ok r => Ok (DKNoDef, r) | Err e => Err e end
             else dge
      | _ => match need_parent (negb top) with Ok _ => dge | Err e => Err e end
      end
    end.
  Proof. destruct m; destruct y; reflexivity. Qed.

  Lemma walk_safe_n n : forall y m,
    (size y < n)%nat -> (m = MStmt true -> is_dict y = true) -> NamesIn y -> safeE Q (walk inc m y).
  Proof.
    induction n as [|n IH]; intros y m Hs Hm Hn; [lia|].
    assert (Hrec : forall y' m', (size y' < size y)%nat -> m' <> MStmt true -> NamesIn y' ->
                                 safeE Q (walk inc m' y')).
    { intros y' m' Hs' Hm' Hn'. apply IH; [lia| |exact Hn']. intros E; contradiction. }
    rewrite walk_eq. destruct m as [|top].
    - destruct y; try apply safeE_ok; try (cbn; apply dge_safe).
      + (* YSeq *)
        destruct l as [|x [|x2 l]]; try (cbn; apply dge_safe).
        destruct x; try (cbn; apply dge_safe).
        apply IH; [|discriminate|].
        * pose proof (size_in_seq (YMap kv) [YMap kv] (or_introl eq_refl)). lia.
        * eapply NamesIn_seq; [exact Hn|left; reflexivity].
      + (* YMap *)
        destruct (truthy_opt (lookup "object" kv)) eqn:Ho.
        * sbind; [|apply safeE_ok]. eapply pot_safe; [exact Hrec|lia|exact Hn|exact Ho].
        * eapply psv_safe; [exact Hrec|lia|exact Hn].
    - destruct y;
        try (destruct top; [specialize (Hm eq_refl); discriminate|cbn; apply dge_safe]).
      destruct (truthy_opt (lookup "object" kv)) eqn:Ho.
      + sbind; [|apply safeE_ok]. eapply pot_safe; [exact Hrec|lia|exact Hn|exact Ho].
      + destruct (truthy_opt (lookup "var" kv)) eqn:Hv.
        * sbind; [|apply safeE_ok]. eapply pvd_safe; [exact Hrec|lia|exact Hn|exact Hv].
        * apply dge_safe.
  Qed.

  Lemma walk_safe y m :
    (m = MStmt true -> is_dict y = true) -> NamesIn y -> safeE Q (walk inc m y).
  Proof. apply (walk_safe_n (S (size y))). lia. Qed.
End WalkSafe.

(* ================================================================== the whole static phase *)
Lemma mapM_safe {A B} Q (f : A -> result B) l :
  (forall x, In x l -> safeE Q (f x)) -> safeE Q (mapM f l).
Proof.
  induction l as [|x l IH]; intros H; cbn [mapM]; [apply safeE_ok|].
  sbind; [apply H; left; reflexivity|]. sbind; [apply IH; intros; apply H; right; assumption|].
  apply safeE_ok.
Qed.

Lemma mapM_ok {A B} (f : A -> result B) l r :
  mapM f l = Ok r -> Forall2 (fun x b => f x = Ok b) l r.
Proof.
  revert r; induction l as [|x l IH]; cbn [mapM]; intros r H.
  - inversion H; constructor.
  - destruct (f x) as [b|] eqn:Hf; [|discriminate].
    destruct (mapM f l) as [bs|] eqn:Hm; [|discriminate]. inversion H; subst.
    constructor; [exact Hf|apply IH; reflexivity].
Qed.

Lemma categorize1_dict y c :
  categorize1 y = Ok c ->
  exists kv, y = YMap kv /\ exists d, In (d, c) collection_rules /\ truthy_opt (lookup d kv) = true.
Proof.
  unfold categorize1. destruct y; try discriminate.
  destruct (filter _ collection_rules) as [|r [|r2 l]] eqn:Hf; try discriminate.
  intros H; inversion H; subst. exists kv; split; [reflexivity|].
  assert (Hin : In r (filter (fun r => truthy_opt (lookup (fst r) kv)) collection_rules))
    by (rewrite Hf; left; reflexivity).
  apply filter_In in Hin. destruct Hin as [Hin Ht]. exists (fst r). split; [|exact Ht].
  destruct r; exact Hin.
Qed.

Lemma categorize_spec data cats :
  categorize data = Ok cats ->
  map snd cats = data /\ Forall (fun p => categorize1 (snd p) = Ok (fst p)) cats.
Proof.
  revert cats; induction data as [|y data IH]; cbn [categorize]; intros cats H.
  - inversion H; split; [reflexivity|constructor].
  - destruct (categorize1 y) as [c|] eqn:Hc; [|discriminate].
    destruct (categorize data) as [cs|] eqn:Hcs; [|discriminate]. inversion H; subst.
    destruct (IH cs eq_refl) as [Hm Hf]. split; [cbn; f_equal; exact Hm|].
    constructor; [exact Hc|exact Hf].
Qed.

Lemma of_category_in c cats y :
  Forall (fun p => categorize1 (snd p) = Ok (fst p)) cats ->
  In y (of_category c cats) -> categorize1 y = Ok c.
Proof.
  intros Hf Hin. unfold of_category in Hin. apply in_map_iff in Hin.
  destruct Hin as [[c' y'] [Hy Hin]]. cbn in Hy; subst y'.
  apply filter_In in Hin. destruct Hin as [Hin Hc]. cbn in Hc. apply String.eqb_eq in Hc; subst c'.
  rewrite Forall_forall in Hf. exact (Hf _ Hin).
Qed.

(* an element of category c: a dict in which the declaring key of that category is truthy *)
Lemma category_key c d y :
  (forall d', In (d', c) collection_rules -> d' = d) ->
  categorize1 y = Ok c -> exists kv, y = YMap kv /\ truthy_opt (lookup d kv) = true.
Proof.
  intros Hu Hc. destruct (categorize1_dict y c Hc) as [kv [Hy [d' [Hin Ht]]]].
  exists kv. split; [exact Hy|]. rewrite <- (Hu d' Hin). exact Ht.
Qed.

Ltac rule_unique :=
  let d := fresh in let H := fresh in
  intros d H; cbn in H;
  repeat (destruct H as [H|H]; [inversion H; try reflexivity|]); try contradiction.

Lemma find_file_crash k l s :
  find_file k l = Some (FBad (LExc s)) -> In s (env_crashes_files l).
Proof.
  induction l as [|[k' e] l IH]; cbn [find_file env_crashes_files]; [discriminate|].
  destruct (String.eqb (fst k') (fst k) && String.eqb (snd k') (snd k)).
  - intros H; inversion H; subst. left; reflexivity.
  - intros H. specialize (IH H). destruct e as [| |[]|]; try exact IH. right; exact IH.
Qed.

Lemma assoc_crash k l s :
  assoc k l = Some (PCrash s) -> In s (env_crashes_plugins l).
Proof.
  induction l as [|[k' e] l IH]; cbn [assoc env_crashes_plugins]; [discriminate|].
  destruct (String.eqb k' k).
  - intros H; inversion H; subst. left; reflexivity.
  - intros H. specialize (IH H). destruct e; try exact IH. right; exact IH.
Qed.

(* the keys of the documents the environment can hand in *)
Fixpoint doc_keys (l : list ((string * string) * fentry)) : list string :=
  match l with
  | [] => []
  | (_, FDoc k _) :: r => k :: doc_keys r
  | _ :: r => doc_keys r
  end.

Lemma find_file_doc_key k l k' d : find_file k l = Some (FDoc k' d) -> In k' (doc_keys l).
Proof.
  induction l as [|[kk e] l IH]; cbn [find_file doc_keys]; [discriminate|].
  destruct (String.eqb (fst kk) (fst k) && String.eqb (snd kk) (snd k)).
  - intros H; inversion H; subst. left; reflexivity.
  - intros H. specialize (IH H). destruct e; try exact IH. right; exact IH.
Qed.

Lemma mem_false_not_in k l : mem k l = false -> ~ In k l.
Proof.
  unfold mem. intros H Hin. assert (existsb (String.eqb k) l = true).
  { apply existsb_exists. exists k. split; [exact Hin|apply String.eqb_refl]. }
  congruence.
Qed.

Lemma NoDup_snoc {A} (l : list A) x : NoDup l -> ~ In x l -> NoDup (l ++ [x]).
Proof.
  induction l as [|a l IH]; cbn [app]; intros Hn Hx.
  - constructor; [intros []|constructor].
  - inversion Hn as [|? ? Ha Hl]; subst. constructor.
    + rewrite in_app_iff. intros [H|[H|[]]]; [contradiction|]. subst. apply Hx. left; reflexivity.
    + apply IH; [exact Hl|]. intros H; apply Hx; right; exact H.
Qed.

(* The static phase under a generic error predicate Q: Q must hold of DataGenErrors, of what the
   environment raises, and of the two artefacts BadOracle / Unsupported; file fuel exhaustion is handled
   through a precondition Pre on (fuel, inclusion stack, file) that either makes it acceptable or impossible. *)
Section Top.
  Variable E : env.
  Variable Q : err -> Prop.
  Hypothesis Qdge : Q (DGE "").
  Hypothesis Qenv : forall s, In s (env_crashes E) -> Q (Internal s).
  Hypothesis Qbad : Q BadOracle.
  Hypothesis Quns : Q Unsupported.

  Definition walk_ok inc (Hinc : forall nm, safeE Q (inc nm)) y m Hm :=
    walk_safe Q Qdge inc (fun _ => True) (fun nm _ => Hinc nm) y m Hm (fun _ _ => I).

  (* macro expansion: Pm n parents says when running out of fuel is acceptable / impossible *)
  Variable Pm : nat -> list string -> Prop.
  Hypothesis Pm0 : forall parents, Pm O parents -> Q OutOfFuel.

  Lemma include_macro_safe M :
    (forall n' ps nm, Pm (S n') ps -> lookup_macro nm M <> None -> mem nm ps = false -> Pm n' (ps ++ [nm])) ->
    forall n parents name, Pm n parents -> safeE Q (include_macro M n parents name).
  Proof.
    intros HS n. induction n as [|n IH]; intros parents name HP; cbn [include_macro].
    - apply safeE_err. eapply Pm0. exact HP.
    - destruct (lookup_macro name M) as [body|] eqn:Hb; [|apply safeE_err; exact Qdge].
      cbv zeta.
      destruct (parse_element macro_spec body) as [u|e] eqn:Hpe;
        [|apply safeE_err; eapply (parse_element_safe Q); [exact Qdge|exact Hpe]].
      destruct (mem name parents) eqn:Hmem; [apply safeE_err; exact Qdge|].
      assert (HP' : Pm n (parents ++ [name])).
      { apply HS; [exact HP| |exact Hmem]. rewrite Hb. discriminate. }
      assert (Hw : forall y' m', (size y' < S (size (YMap body)))%nat -> m' <> MStmt true ->
                                 NamesIn (fun _ => True) y' ->
                                 safeE Q (walk (include_macro M n (parents ++ [name])) m' y')).
      { intros y' m' _ Hm _. apply walk_ok; [intros; apply IH; exact HP'|]. intros Hc; contradiction. }
      sbind.
      { unfold py_split_include. destruct (lookup "include" body) as [v|] eqn:Hl; [|apply safeE_ok].
        pose proof (spec_typed _ _ _ _ _ _ Hpe Hl eq_refl) as Hd. cbn beta in Hd.
        destruct v; try discriminate. }
      sbind; [apply (each_inc_safe Q _ (fun _ => True)); [intros; apply IH; exact HP'|intros; exact I]|].
      sbind. { unfold py_attr. destruct (lookup "fields" body); apply safeE_ok. }
      sbind.
      { unfold py_attr in H1. destruct (lookup "fields" body) as [v|] eqn:Hl; inversion H1; subst.
        - eapply (parse_fields_safe Q Qdge (fun _ => True)); [exact Hw | | |].
          + pose proof (lookup_size _ _ _ Hl). lia.
          + intros ? ?; exact I.
          + intros _. exact (spec_typed _ _ _ _ _ _ Hpe Hl eq_refl).
        - unfold parse_fields. cbn. apply safeE_ok. }
      sbind. { unfold py_attr. destruct (lookup "friends" body); apply safeE_ok. }
      sbind; [|apply safeE_ok].
      unfold py_attr in H3. destruct (lookup "friends" body) as [v|] eqn:Hl; inversion H3; subst.
      + eapply (parse_friends_safe Q (fun _ => True)); [exact Hw | | |].
        * pose proof (lookup_size _ _ _ Hl). lia.
        * intros ? ?; exact I.
        * intros _. exact (spec_typed _ _ _ _ _ _ Hpe Hl eq_refl).
      + unfold parse_friends. cbn. apply safeE_ok.
  Qed.

  (* ---- files *)
  Definition opt_ok (o : kvs) : Prop := exists name, lookup "option" o = Some name /\ hashable name = true.

  Definition CtxOK (c : ctx) : Prop :=
    Forall (fun y => is_dict y = true) (c_stmts c) /\ Forall opt_ok (c_opts c).

  Variable Pf : nat -> list string -> string -> Prop.
  Hypothesis Pf0 : forall stack key, Pf O stack key -> Q OutOfFuel.
  Hypothesis PfS : forall n stack key k,
    Pf (S n) stack key -> In k (doc_keys (fenv E)) -> String.eqb k key || mem k stack = false ->
    Pf n (key :: stack) k.

  Definition LoadOK (load : string -> yaml -> ctx -> result ctx) (P : string -> Prop) : Prop :=
    forall key doc c, P key -> CtxOK c ->
      safeE Q (load key doc c) /\ forall c', load key doc c = Ok c' -> CtxOK c'.

  Lemma include_one_ok load stack key y c kv (P : string -> Prop) :
    LoadOK load P ->
    (forall k, In k (doc_keys (fenv E)) -> String.eqb k key || mem k stack = false -> P k) ->
    CtxOK c -> y = YMap kv -> truthy_opt (lookup "include_file" kv) = true ->
    safeE Q (include_one E load stack key y c) /\
    forall c', include_one E load stack key y c = Ok c' -> CtxOK c'.
  Proof.
    intros Hload HP Hc Hy Ht. subst y. unfold include_one. cbn [as_dict].
    destruct (parse_element include_file_spec kv) as [u|e] eqn:Hpe.
    2:{ split; [|discriminate]. apply safeE_err. eapply (parse_element_safe Q); [exact Qdge|exact Hpe]. }
    unfold py_attr. destruct (lookup "include_file" kv) as [rel|] eqn:Hl; [|discriminate].
    pose proof (spec_typed _ _ _ _ _ _ Hpe Hl eq_refl) as Hs. cbn beta in Hs.
    destruct rel; try discriminate. cbn [py_startswith_slash].
    destruct (starts_with_slash s); [split; [apply safeE_err; exact Qdge|discriminate]|].
    destruct (find_file (key, s) (fenv E)) as [[| |how|k d]|] eqn:Hf.
    - split; [apply safeE_err; exact Qdge|discriminate].
    - split; [apply safeE_err; exact Qdge|discriminate].
    - split; [|destruct how; discriminate].
      destruct how; cbn [load_failure]; try (apply safeE_err; exact Qdge).
      apply safeE_err. apply Qenv. unfold env_crashes. apply in_or_app. left.
      eapply find_file_crash. exact Hf.
    - destruct (String.eqb k key || mem k stack) eqn:Hcyc.
      + split; [apply safeE_err; exact Qdge|discriminate].
      + apply Hload; [|exact Hc]. apply HP; [|exact Hcyc]. eapply find_file_doc_key. exact Hf.
    - split; [|discriminate]. apply safeE_err. exact Qbad.
  Qed.

  Lemma include_all_ok load stack key (P : string -> Prop) l : forall c,
    LoadOK load P ->
    (forall k, In k (doc_keys (fenv E)) -> String.eqb k key || mem k stack = false -> P k) ->
    CtxOK c ->
    (forall y b, In (y, b) l -> b = true ->
                 exists kv, y = YMap kv /\ truthy_opt (lookup "include_file" kv) = true) ->
    safeE Q (include_all E load stack key l c) /\
    forall c', include_all E load stack key l c = Ok c' -> CtxOK c'.
  Proof.
    induction l as [|[y b] l IH]; intros c Hload HP Hc Hl; cbn [include_all].
    - split; [apply safeE_ok|]. intros c' H; inversion H; subst; exact Hc.
    - destruct b.
      + destruct (Hl y true (or_introl eq_refl) eq_refl) as [kv [Hy Ht]].
        destruct (include_one_ok load stack key y c kv P Hload HP Hc Hy Ht) as [Hs Hk].
        destruct (include_one E load stack key y c) as [c1|e] eqn:Ho.
        * apply IH; [exact Hload|exact HP|apply Hk; reflexivity|].
          intros; eapply Hl; [right; eassumption|assumption].
        * split; [|discriminate]. apply safeE_err. exact (Hs e eq_refl).
      + apply IH; [exact Hload|exact HP|exact Hc|]. intros; eapply Hl; [right; eassumption|assumption].
  Qed.

  Lemma resolve_plugin_safe spec : safeE Q (resolve_plugin E spec).
  Proof.
    unfold resolve_plugin. destruct spec; try (apply safeE_err; exact Qdge).
    destruct (valid_plugin_name s); [|apply safeE_err; exact Qdge].
    destruct (assoc s (penv E)) as [[| | | | |site]|] eqn:Ha;
      try apply safeE_ok; try (apply safeE_err; exact Qdge).
    - apply safeE_err. apply Qenv. unfold env_crashes. apply in_or_app. right.
      eapply assoc_crash. exact Ha.
    - apply safeE_err. exact Qbad.
  Qed.

  Lemma parse_version_safe vals : safeE Q (parse_version vals).
  Proof.
    unfold parse_version. destruct vals as [|v0 rest]; [apply safeE_ok|].
    destruct (is_nan v0); [apply safeE_err; exact Qdge|].
    destruct (ver23 v0); [|apply safeE_err; exact Qdge].
    destruct (forallb _ rest); [apply safeE_ok|apply safeE_err; exact Qdge].
  Qed.

  Lemma getitem_category c d cats site y :
    (forall d', In (d', c) collection_rules -> d' = d) ->
    Forall (fun p => categorize1 (snd p) = Ok (fst p)) cats ->
    In y (of_category c cats) -> exists kv v, y = YMap kv /\ lookup d kv = Some v /\ py_getitem site y d = Ok v.
  Proof.
    intros Hu Hf Hin. pose proof (of_category_in _ _ _ Hf Hin) as Hc.
    destruct (category_key c d y Hu Hc) as [kv [Hy Ht]]. subst y. cbn [py_getitem].
    destruct (lookup d kv) as [v|] eqn:Hl; [|discriminate]. exists kv, v. auto.
  Qed.

  Lemma top_level_rest_ok cats c1 :
    Forall (fun p => categorize1 (snd p) = Ok (fst p)) cats -> CtxOK c1 ->
    safeE Q (top_level_rest E cats c1) /\ forall c', top_level_rest E cats c1 = Ok c' -> CtxOK c'.
  Proof.
    intros Hf [Hst Hop]. unfold top_level_rest. cbv zeta.
    assert (Hdict : forall c y, In y (of_category c cats) -> exists kv, y = YMap kv).
    { intros c y Hin. destruct (categorize1_dict y c (of_category_in _ _ _ Hf Hin)) as [kv [Hy _]]. eauto. }
    match goal with |- context [mapM ?f (of_category "option" cats)] =>
      destruct (mapM f (of_category "option" cats)) as [okvs|e] eqn:Hm1 end.
    2:{ split; [|discriminate]. apply safeE_err.
        eapply (mapM_safe Q); [|exact Hm1]. intros y Hin.
        destruct (getitem_category "option" "option" cats "parse_recipe_yaml.py:parse_top_level_elements" y
                    ltac:(rule_unique) Hf Hin) as [kv [v [Hy [_ Hv]]]].
        rewrite Hv. unfold check_name. destruct (hashable v); [|apply safeE_err; exact Qdge].
        subst y. apply safeE_ok. }
    assert (Hokvs : Forall opt_ok okvs).
    { apply mapM_ok in Hm1.
      assert (Hl : forall y, In y (of_category "option" cats) ->
                   exists kv v, y = YMap kv /\ lookup "option" kv = Some v /\
                     py_getitem "parse_recipe_yaml.py:parse_top_level_elements" y "option" = Ok v).
      { intros y Hin. exact (getitem_category "option" "option" cats _ y ltac:(rule_unique) Hf Hin). }
      revert Hm1 Hl. generalize (of_category "option" cats). intros l H2.
      induction H2 as [|y o l os Hy H2 IH]; intros Hl; constructor.
      - destruct (Hl y (or_introl eq_refl)) as [kv [v [Hyy [Hlk Hv]]]]. rewrite Hv in Hy.
        unfold check_name in Hy. destruct (hashable v) eqn:Hh; [|discriminate].
        subst y. cbn in Hy. inversion Hy; subst. exists v. auto.
      - apply IH. intros y' Hin. apply Hl. right; exact Hin. }
    match goal with |- context [mapM ?f (of_category "macro" cats)] =>
      destruct (mapM f (of_category "macro" cats)) as [ms|e] eqn:Hm2 end.
    2:{ split; [|discriminate]. apply safeE_err.
        eapply (mapM_safe Q); [|exact Hm2]. intros y Hin.
        destruct (getitem_category "macro" "macro" cats "parse_recipe_yaml.py:parse_top_level_elements" y
                    ltac:(rule_unique) Hf Hin) as [kv [v [Hy [_ Hv]]]].
        rewrite Hv. unfold check_name, py_hash. destruct (hashable v); [|apply safeE_err; exact Qdge].
        subst y. apply safeE_ok. }
    match goal with |- context [mapM ?f (of_category "plugin" cats)] =>
      destruct (mapM f (of_category "plugin" cats)) as [specs|e] eqn:Hm3 end.
    2:{ split; [|discriminate]. apply safeE_err.
        eapply (mapM_safe Q); [|exact Hm3]. intros y Hin.
        destruct (getitem_category "plugin" "plugin" cats "parse_recipe_yaml.py:parse_top_level_elements" y
                    ltac:(rule_unique) Hf Hin) as [kv [v [_ [_ Hv]]]].
        rewrite Hv. apply safeE_ok. }
    destruct (mapM (resolve_plugin E) specs) as [ps|e] eqn:Hm4.
    2:{ split; [|discriminate]. apply safeE_err.
        eapply (mapM_safe Q); [|exact Hm4]. intros; apply resolve_plugin_safe. }
    match goal with |- context [mapM ?f (of_category "snowfakery_version" cats)] =>
      destruct (mapM f (of_category "snowfakery_version" cats)) as [vals|e] eqn:Hm5 end.
    2:{ split; [|discriminate]. apply safeE_err.
        eapply (mapM_safe Q); [|exact Hm5]. intros y Hin.
        destruct (getitem_category "snowfakery_version" "snowfakery_version" cats
                    "parse_recipe_yaml.py:parse_version" y ltac:(rule_unique) Hf Hin) as [kv [v [_ [_ Hv]]]].
        rewrite Hv. apply safeE_ok. }
    destruct (parse_version vals) as [ver|e] eqn:Hv.
    2:{ split; [|discriminate]. apply safeE_err. eapply parse_version_safe. exact Hv. }
    split; [apply safeE_ok|]. intros c' H; inversion H; subst. split; cbn [c_stmts c_opts].
    - apply Forall_app. split; [exact Hst|]. apply Forall_forall. intros y Hin.
      destruct (Hdict _ _ Hin) as [kv Hy]. subst. reflexivity.
    - apply Forall_app. split; assumption.
  Qed.

  Lemma load_file_ok n : forall stack, LoadOK (load_file E n stack) (Pf n stack).
  Proof.
    induction n as [|n IH]; intros stack key doc c HP Hc; cbn [load_file].
    - split; [|discriminate]. apply safeE_err. eapply Pf0. exact HP.
    - destruct doc; try (split; [apply safeE_err; exact Qdge|discriminate]).
      destruct (categorize l) as [cats|e] eqn:Hcat.
      2:{ split; [|discriminate]. apply safeE_err.
          revert e Hcat. generalize l. clear -Qdge. intros l. induction l as [|y l IHl]; cbn [categorize]; [discriminate|].
          intros e. destruct (categorize1 y) as [cy|e1] eqn:H1.
          - destruct (categorize l) as [cs|e2] eqn:H2; [discriminate|].
            intros H; inversion H; subst. eapply IHl. reflexivity.
          - intros H; inversion H; subst. unfold categorize1 in H1.
            destruct y; try (inversion H1; exact Qdge).
            destruct (filter _ collection_rules) as [|r [|r2 rs]]; inversion H1; exact Qdge. }
      destruct (categorize_spec _ _ Hcat) as [Hmap Hf].
      assert (Hdata : forall y, In y l -> exists kv, y = YMap kv).
      { intros y Hin. rewrite <- Hmap in Hin. apply in_map_iff in Hin. destruct Hin as [[cy y'] [Hy Hin]].
        cbn in Hy; subst y'. rewrite Forall_forall in Hf. specialize (Hf _ Hin). cbn in Hf.
        destruct (categorize1_dict _ _ Hf) as [kv [Hy _]]. eauto. }
      match goal with |- context [mapM ?f l] => destruct (mapM f l) as [incl|e] eqn:Hincl end.
      2:{ split; [|discriminate]. apply safeE_err. eapply (mapM_safe Q); [|exact Hincl].
          intros y Hin. destruct (Hdata y Hin) as [kv Hy]. subst. apply safeE_ok. }
      assert (Hinc : forall y b, In (y, b) incl -> b = true ->
                exists kv, y = YMap kv /\ truthy_opt (lookup "include_file" kv) = true).
      { apply mapM_ok in Hincl. intros y b Hin Hb. subst b.
        clear Hcat Hmap. revert Hin. induction Hincl as [|y0 p l0 incl0 Hy0 _ IHi]; cbn [In]; [tauto|].
        intros [Hp|Hin].
        - subst p. assert (Hd : exists kv, y0 = YMap kv) by (apply Hdata; left; reflexivity).
          destruct Hd as [kv Hy]. subst y0. cbn in Hy0. inversion Hy0; subst.
          exists kv. split; [reflexivity|]. congruence.
        - apply IHi; [|exact Hin]. intros y' Hin'. apply Hdata. right; exact Hin'. }
      destruct (include_all_ok (load_file E n (key :: stack)) stack key (Pf n (key :: stack)) incl c
                               (IH (key :: stack)) (fun k Hk Hc' => PfS n stack key k HP Hk Hc') Hc Hinc)
        as [Hs Hk].
      destruct (include_all E (load_file E n (key :: stack)) stack key incl c) as [c1|e] eqn:Hia.
      + apply top_level_rest_ok; [exact Hf|apply Hk; reflexivity].
      + split; [|discriminate]. apply safeE_err. exact (Hs e eq_refl).
  Qed.

  (* ---- after the parse *)
  Lemma merge_options_safe opts : forall ver, Forall opt_ok opts -> safeE Q (merge_options opts ver).
  Proof.
    induction opts as [|o opts IH]; intros ver Hf; cbn [merge_options]; [apply safeE_ok|].
    inversion Hf as [|? ? Ho Hr]; subst. destruct Ho as [name [Hl Hh]]. cbn [py_getitem].
    rewrite Hl. unfold py_hash. rewrite Hh.
    destruct (lookup "default" o); [|apply safeE_err; exact Qdge].
    apply IH. exact Hr.
  Qed.

  Lemma version_assert_safe ver : safeE Q (version_assert ver).
  Proof.
    unfold version_assert. destruct ver as [v|]; [|apply safeE_ok].
    destruct (ver23 v); [apply safeE_ok|apply safeE_err; exact Qdge].
  Qed.

  Lemma rr_scan_safe l : safeE Q (rr_scan l).
  Proof.
    induction l as [|r l IH]; cbn [rr_scan]; [apply safeE_ok|].
    destruct r; [exact IH|apply safeE_err; exact Qdge].
  Qed.

  Lemma top_statements_safe inc l :
    (forall nm, safeE Q (inc nm)) -> Forall (fun y => is_dict y = true) l ->
    safeE Q (top_statements inc l).
  Proof.
    intros Hinc. induction l as [|y l IH]; intros Hf; cbn [top_statements]; [apply safeE_ok|].
    inversion Hf as [|? ? Hy Hr]; subst.
    sbind; [apply walk_ok; [exact Hinc|intros _; exact Hy]|].
    sbind; [apply IH; exact Hr|]. apply safeE_ok.
  Qed.

  Lemma validate_safe ff mf doc :
    Pf ff [] "" ->
    (forall c, load_file E ff [] "" doc ctx0 = Ok c ->
       Pm mf [] /\
       forall n' ps nm, Pm (S n') ps -> lookup_macro nm (c_macros c) <> None -> mem nm ps = false ->
                        Pm n' (ps ++ [nm])) ->
    safeE Q (validate E ff mf doc).
  Proof.
    intros HPf HPm. unfold validate.
    assert (H0 : CtxOK ctx0) by (split; constructor).
    destruct (load_file_ok ff [] "" doc ctx0 HPf H0) as [Hs Hk].
    destruct (load_file E ff [] "" doc ctx0) as [c|e] eqn:Hl; [|apply safeE_err; exact (Hs e eq_refl)].
    destruct (Hk c eq_refl) as [Hst Hop]. destruct (HPm c eq_refl) as [Hm0 HmS].
    destruct (c_parser c); [apply safeE_err; exact Quns|].
    sbind; [apply top_statements_safe; [intros; apply include_macro_safe; assumption|exact Hst]|].
    sbind; [apply merge_options_safe; exact Hop|].
    sbind; [apply version_assert_safe|]. apply rr_scan_safe.
  Qed.
End Top.

(* ================================================================== never an internal failure *)
Theorem validate_never_crashes E ff mf doc s :
  validate E ff mf doc = Err (Internal s) -> In s (env_crashes E).
Proof.
  intros H.
  pose (Q := fun e : err => forall s, e = Internal s -> In s (env_crashes E)).
  assert (Hs : safeE Q (validate E ff mf doc)).
  { apply (validate_safe E Q) with (Pm := fun _ _ => True) (Pf := fun _ _ _ => True);
      try (intros s' H'; discriminate); auto.
    intros s' Hin s'' H'; inversion H'; subst; exact Hin. }
  exact (Hs _ H s eq_refl).
Qed.

(* ================================================================== termination *)
(* walk is structurally recursive (accepted by Coq as such): only macro expansion and file inclusion
   consume fuel.  Both keep a stack of what is being expanded / loaded and refuse to re-enter it, so the
   depth is bounded by the number of macros / of files. *)
Definition NoOOF (e : err) : Prop := e <> OutOfFuel.

Fixpoint macro_names (M : menv) : list string :=
  match M with
  | [] => []
  | (YStr s, _) :: r => s :: macro_names r
  | _ :: r => macro_names r
  end.

Lemma lookup_macro_in name M : lookup_macro name M <> None -> In name (macro_names M).
Proof.
  induction M as [|[k b] M IH]; cbn [lookup_macro macro_names]; [congruence|].
  destruct (lookup_macro name M) eqn:Hl.
  - intros _. assert (In name (macro_names M)) by (apply IH; discriminate).
    destruct k; try assumption. right; assumption.
  - destruct k; try congruence. destruct (String.eqb s name) eqn:Hs; [|congruence].
    apply String.eqb_eq in Hs. subst. intros _. left; reflexivity.
Qed.

Lemma macro_names_length M : (length (macro_names M) <= length M)%nat.
Proof. induction M as [|[k b] M IH]; cbn [macro_names length]; [lia|]. destruct k; cbn [length]; lia. Qed.

Lemma doc_keys_length l : (length (doc_keys l) <= length l)%nat.
Proof. induction l as [|[k e] l IH]; cbn [doc_keys length]; [lia|]. destruct e; cbn [length]; lia. Qed.

(* a duplicate-free stack drawn from `universe`, with enough fuel left for everything not yet on it *)
Definition bounded (universe : list string) (n : nat) (stack : list string) : Prop :=
  NoDup stack /\ incl stack universe /\ (length universe < n + length stack)%nat.

Lemma bounded_0 universe stack : bounded universe O stack -> False.
Proof.
  intros [Hn [Hi Hl]]. pose proof (NoDup_incl_length Hn Hi). lia.
Qed.

Theorem validate_terminates E ff mf doc :
  (S (length (fenv E)) < ff)%nat ->
  (forall c, load_file E ff [] "" doc ctx0 = Ok c -> (length (c_macros c) < mf)%nat) ->
  validate E ff mf doc <> Err OutOfFuel.
Proof.
  intros Hff Hmf H.
  set (U := "" :: doc_keys (fenv E)).
  pose (Pf := fun n stack key => bounded U n (key :: stack)).
  assert (Hs : safeE NoOOF (validate E ff mf doc)).
  { apply (validate_safe E NoOOF) with
      (Pm := fun n ps => exists c, load_file E ff [] "" doc ctx0 = Ok c /\ bounded (macro_names (c_macros c)) n ps)
      (Pf := Pf); try (intros; discriminate); try discriminate.
    - intros parents [c [_ Hb]]. destruct (bounded_0 _ _ Hb).
    - intros stack key Hb. destruct (bounded_0 _ _ Hb).
    - intros n stack key k [Hn [Hi Hl]] Hk Hc. apply orb_false_iff in Hc. destruct Hc as [Hne Hmem].
      repeat split.
      + constructor; [|exact Hn]. intros [Heq|Hin].
        * subst. rewrite String.eqb_refl in Hne. discriminate.
        * exact (mem_false_not_in _ _ Hmem Hin).
      + intros x [Hx|Hx]; [subst; right; exact Hk|apply Hi; exact Hx].
      + cbn [length] in *. lia.
    - repeat split.
      + constructor; [intros []|constructor].
      + intros x [Hx|[]]. subst. left; reflexivity.
      + unfold U. cbn [length]. pose proof (doc_keys_length (fenv E)). lia.
    - intros c Hc. split.
      + exists c. split; [exact Hc|]. repeat split; [constructor|intros x []|].
        cbn [length]. pose proof (macro_names_length (c_macros c)). specialize (Hmf c Hc). lia.
      + intros n' ps nm [c' [Hc' [Hn [Hi Hl]]]] Hlk Hmem. rewrite Hc in Hc'. inversion Hc'; subst c'.
        exists c. split; [exact Hc|]. repeat split.
        * apply NoDup_snoc; [exact Hn|]. apply mem_false_not_in. exact Hmem.
        * intros x Hx. apply in_app_iff in Hx. destruct Hx as [Hx|[Hx|[]]]; [apply Hi; exact Hx|].
          subst. apply lookup_macro_in. exact Hlk.
        * rewrite app_length. cbn [length]. lia. }
  exact (Hs _ H eq_refl).
Qed.


(* ================================================================== messages *)
Lemma sapp_nil_r (s : string) : (s ++ "")%string = s.
Proof. induction s; cbn; congruence. Qed.

Lemma format_T_func f m :
  py_format T_func [f] [("e", m)] = Ok ("Cannot evaluate function `" ++ f ++ "`:" ++ nl ++ " " ++ m)%string.
Proof. cbn. rewrite sapp_nil_r. reflexivity. Qed.

Lemma format_T_field f m :
  py_format T_field [f] [("e", m)] = Ok ("Problem rendering field " ++ f ++ ":" ++ nl ++ " " ++ m)%string.
Proof. cbn. rewrite sapp_nil_r. reflexivity. Qed.

Lemma format_T_var f m :
  py_format T_var [f] [("e", m)] = Ok ("Cannot evaluate variable `" ++ f ++ "`:" ++ nl ++ " " ++ m)%string.
Proof. cbn. rewrite sapp_nil_r. reflexivity. Qed.

Lemma format_T_parse c d m :
  py_format T_parse (chars (String c d)) [("e", m)] = Ok ("Cannot parse value " ++ String c "")%string.
Proof. reflexivity. Qed.

Lemma format_T_parse_empty m : py_format T_parse (chars "") [("e", m)] = Err (Internal "IndexError").
Proof. reflexivity. Qed.

(* a compile failure needs one of Jinja's delimiters in the definition, so the definition is not empty *)
Definition iframe_possible (f : iframe) : bool :=
  match f with IFDefEHCompile d => nonempty d | _ => true end.

Lemma compile_can_raise_nonempty d : compile_can_raise d = true -> nonempty d = true.
Proof. destruct d; [vm_compute; discriminate | reflexivity]. Qed.

Lemma is_dge_cls e : is_dge e = true -> x_cls e = EDGE.
Proof. unfold is_dge. destruct (x_cls e); [reflexivity|discriminate]. Qed.

Lemma is_dge_false_cls e : is_dge e = false -> exists n, x_cls e = EPy n.
Proof. unfold is_dge. destruct (x_cls e); [discriminate|eauto]. Qed.

(* every wrapper builds its message whatever text it is given, and raises what the frame model says *)
Lemma wrap_total f e :
  iframe_possible f = true ->
  exists e', wrap f e = Ok e' /\ x_cls e' = through (erase f) (x_cls e).
Proof.
  intros Hp. destruct f; cbn [wrap erase through].
  - eexists; split; reflexivity.
  - unfold fix_exception. rewrite format_T_func. eexists; split; reflexivity.
  - cbn in Hp. destruct definition as [|c d]; [discriminate|].
    unfold fix_exception. rewrite format_T_parse. eexists; split; reflexivity.
  - unfold fix_exception. rewrite format_T_field. eexists; split; reflexivity.
  - destruct (is_dge e) eqn:Hd.
    + eexists; split; [reflexivity|]. now apply is_dge_cls.
    + eexists; split; reflexivity.
  - destruct (is_dge e) eqn:Hd.
    + eexists; split; [reflexivity|]. now apply is_dge_cls.
    + unfold fix_exception. rewrite format_T_var. eexists; split; reflexivity.
  - destruct (is_count_conversion_error (x_cls e)); eexists; split; reflexivity.
  - eexists; split; reflexivity.
Qed.

Lemma wrap_or_replace_ok f e e' : wrap f e = Ok e' -> wrap_or_replace f e = e'.
Proof. unfold wrap_or_replace. now intros ->. Qed.

Lemma fold_wrap_class fs : forall e,
  forallb iframe_possible fs = true ->
  x_cls (fold_left (fun e f => wrap_or_replace f e) fs e)
  = fold_left (fun e f => through f e) (map erase fs) (x_cls e).
Proof.
  induction fs as [|f fs IH]; intros e Hp; cbn [fold_left map]; [reflexivity|].
  cbn in Hp. apply andb_prop in Hp as [Hf Hfs].
  destruct (wrap_total f e Hf) as [e' [Hw Hc]].
  rewrite (wrap_or_replace_ok _ _ _ Hw), IH by assumption. now rewrite Hc.
Qed.

Lemma istep_frames_erase s : map erase (istep_frames s) = step_frames (erase_step s).
Proof. destruct s; reflexivity. Qed.

Lemma ileaf_frames_erase l : map erase (ileaf_frames l) = leaf_frames (erase_leaf l).
Proof. destruct l; reflexivity. Qed.

Lemma iframes_erase p l : map erase (iframes p l) = frames (map erase_step p) (erase_leaf l).
Proof.
  induction p as [|s p IH]; cbn [iframes frames map].
  - now rewrite map_app, ileaf_frames_erase.
  - now rewrite map_app, IH, istep_frames_erase.
Qed.

Lemma istep_frames_possible s : forallb iframe_possible (istep_frames s) = true.
Proof. destruct s; reflexivity. Qed.

Lemma iframes_possible p l : ileaf_possible l = true -> forallb iframe_possible (iframes p l) = true.
Proof.
  intros Hl. induction p as [|s p IH]; cbn [iframes]; rewrite forallb_app.
  - apply andb_true_intro; split; [|reflexivity].
    destruct l; try reflexivity. cbn in *. now rewrite (compile_can_raise_nonempty _ Hl).
  - now rewrite IH, istep_frames_possible.
Qed.

(* the text-carrying model refines the frame model: same class, whatever the text *)
Theorem escape_v_class p l e :
  ileaf_possible l = true ->
  x_cls (escape_v p l e) = escape (map erase_step p) (erase_leaf l) (x_cls e).
Proof.
  intros Hl. unfold escape_v, escape.
  now rewrite fold_wrap_class, iframes_erase by now apply iframes_possible.
Qed.

(* no handler ever fails while it builds its message *)
Theorem escape_v_no_replacement fs : forall e,
  forallb iframe_possible fs = true ->
  forall f pre post, fs = pre ++ f :: post ->
  exists e', wrap f (fold_left (fun e f => wrap_or_replace f e) pre e) = Ok e'.
Proof.
  intros e Hp f pre post ->. rewrite forallb_app in Hp. apply andb_prop in Hp as [_ Hp].
  cbn in Hp. apply andb_prop in Hp as [Hf _].
  destruct (wrap_total f (fold_left (fun e f => wrap_or_replace f e) pre e) Hf) as [e' [H _]]. eauto.
Qed.

(* ---- the line: whatever was not a DataGenError at the leaf knows its line when it leaves *)
Definition located (e : exnv) : Prop := is_dge e = true -> x_line e = true.

Lemma wrap_located f e : iframe_possible f = true -> located e -> located (wrap_or_replace f e).
Proof.
  intros Hp He. destruct (wrap_total f e Hp) as [e' [Hw _]]. rewrite (wrap_or_replace_ok _ _ _ Hw).
  destruct f; cbn [wrap] in Hw; unfold fix_exception in Hw;
    try rewrite format_T_func in Hw; try rewrite format_T_field in Hw; try rewrite format_T_var in Hw.
  all: try (inversion Hw; subst; intros _; reflexivity).
  - cbn in Hp. destruct definition; [discriminate|]. rewrite format_T_parse in Hw. inversion Hw; subst. intros _; reflexivity.
  - destruct (is_dge e) eqn:Hd; inversion Hw; subst; [exact He | intros _; reflexivity].
  - destruct (is_dge e) eqn:Hd.
    + inversion Hw; subst. exact He.
    + inversion Hw; subst. intros _; reflexivity.
  - destruct (is_count_conversion_error (x_cls e)); inversion Hw; subst; [intros _; reflexivity | exact He].
  - inversion Hw; subst. exact He.
Qed.

Lemma fold_located fs : forall e,
  forallb iframe_possible fs = true -> located e ->
  located (fold_left (fun e f => wrap_or_replace f e) fs e).
Proof.
  induction fs as [|f fs IH]; intros e Hp He; cbn [fold_left]; [exact He|].
  cbn in Hp. apply andb_prop in Hp as [Hf Hfs]. apply IH; [assumption|]. now apply wrap_located.
Qed.

Theorem escape_v_located p l e n :
  ileaf_possible l = true -> x_cls e = EPy n ->
  is_dge (escape_v p l e) = true -> x_line (escape_v p l e) = true.
Proof.
  intros Hl He. apply fold_located; [now apply iframes_possible|].
  unfold located, is_dge. rewrite He. discriminate.
Qed.

(* ---- the message *)
Definition labels (f : iframe) : bool :=
  match f with IFDefEHFunc _ | IFDefEHCompile _ | IFFieldFactory _ => true | _ => false end.

Lemma nonempty_app_l a b : nonempty a = true -> nonempty (a ++ b)%string = true.
Proof. destruct a; [discriminate|reflexivity]. Qed.
Lemma nonempty_app_r a b : nonempty b = true -> nonempty (a ++ b)%string = true.
Proof. destruct a; cbn; [trivial|reflexivity]. Qed.

Lemma wrap_keeps_message f e :
  iframe_possible f = true -> nonempty (x_msg e) = true -> nonempty (x_msg (wrap_or_replace f e)) = true.
Proof.
  intros Hp He. destruct (wrap_total f e Hp) as [e' [Hw _]]. rewrite (wrap_or_replace_ok _ _ _ Hw).
  destruct f; cbn [wrap] in Hw; unfold fix_exception in Hw;
    try rewrite format_T_func in Hw; try rewrite format_T_field in Hw.
  all: try (inversion Hw; subst; cbn; (exact He || reflexivity)).
  - cbn in Hp. destruct definition; [discriminate|]. rewrite format_T_parse in Hw. inversion Hw; subst. reflexivity.
  - destruct (is_dge e); inversion Hw; subst; [exact He|]. cbn [x_msg dge_at].
    apply nonempty_app_r. reflexivity.
  - destruct (is_dge e).
    + inversion Hw; subst. exact He.
    + rewrite format_T_var in Hw. inversion Hw; subst. reflexivity.
  - destruct (is_count_conversion_error (x_cls e)); inversion Hw; subst; [reflexivity | exact He].
Qed.

Lemma wrap_label_message f e :
  iframe_possible f = true -> labels f = true -> nonempty (x_msg (wrap_or_replace f e)) = true.
Proof.
  intros Hp Hl. destruct (wrap_total f e Hp) as [e' [Hw _]]. rewrite (wrap_or_replace_ok _ _ _ Hw).
  destruct f; try discriminate; cbn [wrap] in Hw; unfold fix_exception in Hw.
  - rewrite format_T_func in Hw. inversion Hw; subst. reflexivity.
  - cbn in Hp. destruct definition; [discriminate|]. rewrite format_T_parse in Hw. inversion Hw; subst. reflexivity.
  - rewrite format_T_field in Hw. inversion Hw; subst. reflexivity.
Qed.

Lemma fold_message fs : forall e,
  forallb iframe_possible fs = true ->
  nonempty (x_msg e) = true \/ existsb labels fs = true ->
  nonempty (x_msg (fold_left (fun e f => wrap_or_replace f e) fs e)) = true.
Proof.
  induction fs as [|f fs IH]; intros e Hp H; cbn [fold_left].
  - destruct H as [H|H]; [exact H|discriminate].
  - cbn in Hp. apply andb_prop in Hp as [Hf Hfs]. apply IH; [assumption|].
    destruct H as [H|H].
    + left. now apply wrap_keeps_message.
    + cbn in H. apply orb_prop in H as [H|H]; [left; now apply wrap_label_message | now right].
Qed.

Theorem escape_v_message p l e :
  ileaf_possible l = true ->
  nonempty (x_msg e) = true \/ existsb labels (iframes p l) = true ->
  nonempty (x_msg (escape_v p l e)) = true.
Proof. intros Hl H. apply fold_message; [now apply iframes_possible|exact H]. Qed.


From Coq Require Import PeanoNat.
Open Scope nat_scope.
(* ================================================================== the alias walk *)
Lemma memn_true i l : memn i l = true <-> In i l.
Proof.
  unfold memn. rewrite existsb_exists. split.
  - intros [x [Hx He]]. apply Nat.eqb_eq in He. now subst.
  - intros H. exists i. split; [assumption|apply Nat.eqb_refl].
Qed.

Lemma memn_false i l : memn i l = false <-> ~ In i l.
Proof. rewrite <- memn_true. destruct (memn i l); split; congruence. Qed.

(* a member slot is settled by a list of finished containers when it holds a scalar or a finished container *)
Definition settled (h : heap) (fin : list nat) (c : nat) : Prop :=
  exists m, nth_error h c = Some m /\ (is_container m = false \/ In c fin).

(* finished containers in the order they were finished, latest first: the members of each were settled before *)
Fixpoint topo (h : heap) (fin : list nat) : Prop :=
  match fin with
  | [] => True
  | i :: r => (exists n, nth_error h i = Some n /\ forall c, In c (children n) -> settled h r c) /\ topo h r
  end.

Lemma settled_mono h fin new c : settled h fin c -> settled h (new ++ fin) c.
Proof. intros [m [Hm [H|H]]]; exists m; split; auto. right. apply in_or_app. now right. Qed.

Definition sumkids (h : heap) (l : list nat) : nat := list_sum (map (kids h) l).

Lemma sumkids_app h a b : sumkids h (a ++ b) = sumkids h a + sumkids h b.
Proof. unfold sumkids. now rewrite map_app, list_sum_app. Qed.

(* what one invocation (or a run of invocations) does to the state *)
Definition extends (h : heap) (anc : list nat) (budget : nat) (st st' : astate) : Prop :=
  exists new,
    a_fin st' = new ++ a_fin st /\
    (forall x, In x new -> ~ In x anc) /\
    a_calls st' <= a_calls st + budget + sumkids h new /\
    NoDup (a_fin st') /\
    topo h (a_fin st').

Lemma aloop_inv h anc (rec : nat -> astate -> result astate) :
  (forall c st st', rec c st = Ok st' -> NoDup (a_fin st) -> topo h (a_fin st) ->
                    extends h anc 1 st st' /\ settled h (a_fin st') c) ->
  forall cs st st', aloop rec cs st = Ok st' -> NoDup (a_fin st) -> topo h (a_fin st) ->
    extends h anc (length cs) st st' /\ forall c, In c cs -> settled h (a_fin st') c.
Proof.
  intros Hrec. induction cs as [|c cs IH]; intros st st' H Hnd Htp; cbn in H.
  - inversion H; subst. split; [|intros c []].
    exists []. cbn. repeat split; auto. unfold sumkids; cbn; lia.
  - destruct (rec c st) as [s1|] eqn:Hc; [|discriminate].
    destruct (Hrec _ _ _ Hc Hnd Htp) as [[n1 [F1 [A1 [C1 [N1 T1]]]]] S1].
    destruct (IH _ _ H N1 T1) as [[n2 [F2 [A2 [C2 [N2 T2]]]]] S2].
    split.
    + exists (n2 ++ n1). split; [|split; [|split; [|split]]].
      * rewrite F2, F1. now rewrite app_assoc.
      * intros x Hx. apply in_app_or in Hx as [Hx|Hx]; auto.
      * rewrite sumkids_app. cbn [length]. lia.
      * exact N2.
      * exact T2.
    + intros x [->|Hx]; [|now apply S2].
      rewrite F2. now apply settled_mono.
Qed.

Lemma acheck_inv h : forall fuel anc i st st',
  acheck h fuel anc i st = Ok st' -> NoDup (a_fin st) -> topo h (a_fin st) ->
  extends h anc 1 st st' /\ settled h (a_fin st') i.
Proof.
  induction fuel as [|f IH]; intros anc i st st' H Hnd Htp; cbn [acheck] in H; [discriminate|].
  destruct (nth_error h i) as [n|] eqn:Hn; [|discriminate].
  cbn [a_fin] in H.
  destruct (negb (is_container n) || memn i (a_fin st)) eqn:Hskip.
  - inversion H; subst. split.
    + exists []. cbn. repeat split; auto. unfold sumkids; cbn; lia.
    + exists n. split; [assumption|]. cbn [a_fin].
      apply orb_prop in Hskip as [Hl|Hm].
      * left. now destruct (is_container n).
      * right. now apply memn_true.
  - apply orb_false_elim in Hskip as [Hcont Hnf].
    destruct (memn i anc) eqn:Hia; [discriminate|].
    destruct (aloop (acheck h f (i :: anc)) (children n) {| a_fin := a_fin st; a_calls := S (a_calls st) |}) as [s1|] eqn:Hl;
      [|discriminate].
    inversion H; subst; clear H.
    destruct (aloop_inv h (i :: anc) (acheck h f (i :: anc)) (fun c s s' Hc => IH (i :: anc) c s s' Hc)
                        _ _ _ Hl Hnd Htp) as [[new [F [A [C [N T]]]]] Hs].
    cbn [a_fin a_calls] in *.
    apply memn_false in Hnf. apply memn_false in Hia.
    assert (Hni : ~ In i (a_fin s1)).
    { rewrite F. intros Hin. apply in_app_or in Hin as [Hin|Hin]; [|contradiction].
      apply A in Hin. apply Hin. now left. }
    split.
    + exists (i :: new). cbn [a_fin a_calls]. split; [|split; [|split; [|split]]].
      * rewrite F. reflexivity.
      * intros x [<-|Hx]; [assumption|]. intros Hxa. apply A in Hx. apply Hx. now right.
      * unfold sumkids in *. cbn [map list_sum]. unfold kids at 1. rewrite Hn. unfold list_sum in *. cbn [fold_right]. lia.
      * constructor; assumption.
      * cbn [topo]. split; [|exact T]. exists n. split; [assumption|exact Hs].
    + exists n. split; [assumption|]. right. now left.
Qed.

(* ---- sums over distinct indices *)
Lemma list_sum_nodup_incl (F : nat -> nat) : forall l m,
  NoDup l -> incl l m -> list_sum (map F l) <= list_sum (map F m).
Proof.
  induction l as [|x l IH]; intros m Hnd Hin; [cbn; lia|].
  inversion Hnd as [|? ? Hx Hnd']; subst.
  assert (Hxm : In x m) by (apply Hin; now left).
  apply in_split in Hxm as [m1 [m2 ->]].
  assert (Hl : incl l (m1 ++ m2)).
  { intros y Hy. assert (Hy' : In y (m1 ++ x :: m2)) by (apply Hin; now right).
    apply in_app_or in Hy' as [Hy'|[->|Hy']]; [apply in_or_app; now left | contradiction | apply in_or_app; now right]. }
  specialize (IH _ Hnd' Hl). rewrite !map_app, !list_sum_app in *. cbn [map].
  unfold list_sum in *. cbn [fold_right]. lia.
Qed.

Lemma list_sum_cons a l : list_sum (a :: l) = a + list_sum l.
Proof. reflexivity. Qed.

Lemma edges_seq h : edges h = list_sum (map (kids h) (seq 0 (length h))).
Proof.
  unfold edges. induction h as [|n h IH]; [reflexivity|].
  cbn [length seq map]. rewrite <- seq_shift, map_map, !list_sum_cons, IH. reflexivity.
Qed.

Lemma topo_in_range h fin : topo h fin -> forall i, In i fin -> i < length h.
Proof.
  induction fin as [|x r IH]; intros Ht i Hi; [destruct Hi|].
  destruct Ht as [[n [Hn _]] Hr]. destruct Hi as [<-|Hi]; [|now apply IH].
  apply nth_error_Some. congruence.
Qed.

Lemma sumkids_le_edges h fin : NoDup fin -> topo h fin -> sumkids h fin <= edges h.
Proof.
  intros Hnd Ht. rewrite edges_seq. apply list_sum_nodup_incl; [assumption|].
  intros i Hi. apply in_seq. pose proof (topo_in_range _ _ Ht _ Hi). lia.
Qed.

(* each container is expanded once: the finished list has no repetition, and the number of invocations is
   at most one per member slot of the document (plus the one for the root) *)
Theorem alias_walk_linear h root st :
  alias_check h root = Ok st ->
  NoDup (a_fin st) /\ a_calls st <= 1 + edges h.
Proof.
  unfold alias_check. intros H.
  destruct (acheck_inv _ _ _ _ _ _ H (NoDup_nil _) I) as [[new [F [_ [C [N T]]]]] _].
  split; [exact N|].
  cbn [a_calls a_fin] in *. rewrite app_nil_r in F.
  pose proof (sumkids_le_edges h (a_fin st) N T) as Hs.
  rewrite F in Hs. lia.
Qed.

(* ---- the walk needs no more fuel than the document has containers *)
Lemma aloop_no_oof (rec : nat -> astate -> result astate) :
  (forall c st, rec c st <> Err OutOfFuel) -> forall cs st, aloop rec cs st <> Err OutOfFuel.
Proof.
  intros Hrec. induction cs as [|c cs IH]; intros st; cbn; [discriminate|].
  destruct (rec c st) eqn:Hc; [apply IH|]. intros He. inversion He; subst. now apply (Hrec c st).
Qed.

Lemma range_length (l : list nat) n : NoDup l -> (forall x, In x l -> x < n) -> length l <= n.
Proof.
  intros Hnd Hr. rewrite <- (seq_length n 0). apply NoDup_incl_length; [assumption|].
  intros x Hx. apply in_seq. specialize (Hr _ Hx). lia.
Qed.

Lemma acheck_no_oof h : forall fuel anc i st,
  NoDup anc -> (forall x, In x anc -> x < length h) -> length h + 1 < fuel + length anc ->
  acheck h fuel anc i st <> Err OutOfFuel.
Proof.
  induction fuel as [|f IH]; intros anc i st Hnd Hr Hf.
  - pose proof (range_length _ _ Hnd Hr). cbn in Hf. lia.
  - cbn [acheck]. destruct (nth_error h i) as [n|] eqn:Hn; [|discriminate].
    destruct (negb (is_container n) || memn i _); [discriminate|].
    destruct (memn i anc) eqn:Hia; [discriminate|].
    apply memn_false in Hia.
    assert (Hi : i < length h) by (apply nth_error_Some; congruence).
    match goal with |- context [aloop ?r ?cs ?s] => pose proof (aloop_no_oof r) as Hl; specialize (Hl) end.
    match goal with |- context [aloop ?r ?cs ?s] => destruct (aloop r cs s) eqn:Ha; [discriminate|] end.
    intros He. inversion He; subst.
    eapply Hl; [|exact Ha].
    intros c s. apply IH.
    + now constructor.
    + intros x [<-|Hx]; auto.
    + cbn [length]. lia.
Qed.

Theorem alias_walk_terminates h root : alias_check h root <> Err OutOfFuel.
Proof.
  unfold alias_check, alias_fuel. apply acheck_no_oof; [constructor | intros x [] | cbn; lia].
Qed.

(* ---- what the walk accepts is a finite tree *)
Lemma mapM_all_ok {A B} (f : A -> result B) l :
  (forall x, In x l -> exists y, f x = Ok y) -> exists ys, mapM f l = Ok ys.
Proof.
  induction l as [|x l IH]; intros H; cbn; [eauto|].
  destruct (H x (or_introl eq_refl)) as [y ->].
  destruct IH as [ys ->]; [intros; apply H; now right|]. eauto.
Qed.

Lemma unfold_topo h : forall fin, topo h fin -> forall i fuel, settled h fin i -> length fin < fuel ->
  exists y, unfold h fuel i = Ok y.
Proof.
  induction fin as [|x r IH]; intros Ht i fuel [m [Hm Hs]] Hf.
  - destruct Hs as [Hs|[]]. destruct fuel; [cbn in Hf; lia|]. cbn [unfold]. rewrite Hm.
    destruct m; [eauto|discriminate|discriminate].
  - destruct Ht as [[n [Hn Hk]] Hr].
    assert (Hsub : forall c f, settled h r c -> length r < f -> exists y, unfold h f c = Ok y)
      by (intros; now apply IH).
    destruct Hs as [Hs|[<-|Hi]].
    + destruct fuel; [cbn in Hf; lia|]. cbn [unfold]. rewrite Hm. destruct m; [eauto|discriminate|discriminate].
    + destruct fuel as [|f]; [cbn in Hf; lia|]. cbn [length] in Hf. cbn [unfold]. rewrite Hn.
      destruct n as [y|l|kv]; [eauto| |].
      * destruct (mapM_all_ok (unfold h f) l) as [ys ->]; [|eauto].
        intros c Hc. apply Hsub; [apply Hk; exact Hc|lia].
      * destruct (mapM_all_ok (fun p => match unfold h f (snd p) with Ok v => Ok (fst p, v) | Err e => Err e end) kv)
          as [ys ->]; [|eauto].
        intros [k c] Hc. cbn [fst snd]. destruct (Hsub c f) as [y ->]; [|lia|eauto].
        apply Hk. cbn [children]. apply in_map_iff. exists (k, c). now split.
    + apply IH; [assumption| |cbn [length] in Hf; lia]. exists m. split; [assumption|now right].
Qed.

Theorem alias_walk_accepts_trees h root st :
  alias_check h root = Ok st -> exists doc, unfold h (S (length h)) root = Ok doc.
Proof.
  unfold alias_check. intros H.
  destruct (acheck_inv _ _ _ _ _ _ H (NoDup_nil _) I) as [[new [F [_ [C [N T]]]]] S].
  apply (unfold_topo h (a_fin st)); [exact T|exact S|].
  assert (length (a_fin st) <= length h); [|lia].
  apply range_length; [exact N|].
  apply topo_in_range. exact T.
Qed.

(* ---- the walk itself raises nothing but the recipe error *)
Lemma aloop_err (rec : nat -> astate -> result astate) (Q : err -> Prop) :
  (forall c st e, rec c st = Err e -> Q e) -> forall cs st e, aloop rec cs st = Err e -> Q e.
Proof.
  intros Hrec. induction cs as [|c cs IH]; intros st e; cbn; [discriminate|].
  destruct (rec c st) eqn:Hc; [apply IH|]. intros He. inversion He; subst. eapply Hrec; eauto.
Qed.

Lemma acheck_err h : forall fuel anc i st e,
  acheck h fuel anc i st = Err e -> e = OutOfFuel \/ e = BadOracle \/ e = DGE "".
Proof.
  induction fuel as [|f IH]; intros anc i st e; cbn [acheck]; [intros H; inversion H; auto|].
  destruct (nth_error h i) as [n|]; [|intros H; inversion H; auto].
  destruct (negb (is_container n) || memn i _); [discriminate|].
  destruct (memn i anc); [intros H; inversion H; auto|].
  match goal with |- context [aloop ?r ?cs ?s] => destruct (aloop r cs s) eqn:Ha; [discriminate|] end.
  intros H; inversion H; subst.
  eapply (aloop_err _ (fun e => e = OutOfFuel \/ e = BadOracle \/ e = DGE "")); [|exact Ha].
  intros c s e0. apply IH.
Qed.

(* ---- what the walk rejects does contain itself *)
Definition edge (h : heap) (i c : nat) : Prop := exists n, nth_error h i = Some n /\ In c (children n).
Inductive path (h : heap) : nat -> nat -> Prop :=
| path_step a b : edge h a b -> path h a b
| path_more a b c : path h a b -> edge h b c -> path h a c.

(* the ancestors are the way from the root down to the node at hand, nearest first *)
Fixpoint chain (h : heap) (i : nat) (anc : list nat) : Prop :=
  match anc with [] => True | p :: r => edge h p i /\ chain h p r end.

Lemma chain_path h : forall anc i x, chain h i anc -> In x anc -> path h x i.
Proof.
  induction anc as [|p r IH]; intros i x Hc Hx; [destruct Hx|].
  destruct Hc as [He Hr]. destruct Hx as [<-|Hx]; [now apply path_step|].
  eapply path_more; [apply IH; eassumption|exact He].
Qed.

Lemma aloop_dge_in (rec : nat -> astate -> result astate) (Q : Prop) :
  forall cs, (forall c st, In c cs -> rec c st = Err (DGE "") -> Q) ->
  forall st, aloop rec cs st = Err (DGE "") -> Q.
Proof.
  induction cs as [|c cs IH]; intros Hrec st; cbn; [discriminate|].
  destruct (rec c st) eqn:Hc.
  - apply IH. intros c' st' Hin. apply Hrec. now right.
  - intros He. inversion He; subst. eapply Hrec; [now left|exact Hc].
Qed.

Lemma acheck_dge_cycle h : forall fuel anc i st,
  chain h i anc -> acheck h fuel anc i st = Err (DGE "") -> exists x, path h x x.
Proof.
  induction fuel as [|f IH]; intros anc i st Hch; cbn [acheck]; [discriminate|].
  destruct (nth_error h i) as [n|] eqn:Hn; [|discriminate].
  destruct (negb (is_container n) || memn i _); [discriminate|].
  destruct (memn i anc) eqn:Hia.
  - intros _. apply memn_true in Hia. exists i. eapply chain_path; eassumption.
  - match goal with |- context [aloop ?r ?cs ?s] => destruct (aloop r cs s) eqn:Ha; [discriminate|] end.
    intros H; inversion H; subst.
    eapply aloop_dge_in; [|exact Ha].
    intros c s Hin. apply IH. split; [|assumption]. exists n. now split.
Qed.

Theorem alias_walk_rejects_cycles h root :
  alias_check h root = Err (DGE "") -> exists x, path h x x.
Proof. unfold alias_check. apply acheck_dge_cycle. exact I. Qed.


(* ================================================================== the document as a graph *)
Lemma unfold_err h : forall fuel i e, unfold h fuel i = Err e -> e = OutOfFuel \/ e = BadOracle.
Proof.
  induction fuel as [|f IH]; intros i e; cbn [unfold]; [intros H; inversion H; auto|].
  destruct (nth_error h i) as [[y|l|kv]|]; try discriminate; try (intros H; inversion H; auto; fail).
  - destruct (mapM (unfold h f) l) eqn:Hm; [discriminate|]. intros H; inversion H; subst.
    apply (mapM_safe (fun e => e = OutOfFuel \/ e = BadOracle) (unfold h f) l); [|exact Hm].
    intros x _ e0 He0. eapply IH; eassumption.
  - match goal with |- context [mapM ?g kv] => destruct (mapM g kv) eqn:Hm; [discriminate|];
      intros H; inversion H; subst;
      apply (mapM_safe (fun e => e = OutOfFuel \/ e = BadOracle) g kv); [|exact Hm] end.
    intros [k c] _ e0. cbn [fst snd]. destruct (unfold h f c) eqn:Hu; [discriminate|].
    intros He0; inversion He0; subst. eapply IH; eassumption.
Qed.

Lemma alias_check_err h root e :
  alias_check h root = Err e -> e = BadOracle \/ e = DGE "".
Proof.
  intros H. destruct (acheck_err _ _ _ _ _ _ H) as [->|[->| ->]]; auto.
  destruct (alias_walk_terminates _ _ H).
Qed.

(* the whole static phase on a document with anchors: never an internal failure of Snowfakery's own *)
Theorem validate_graph_never_crashes E ff mf h root s :
  validate_graph E ff mf h root = Err (Internal s) -> In s (env_crashes E).
Proof.
  unfold validate_graph. destruct (alias_check h root) as [st|e] eqn:Ha.
  - destruct (unfold h (S (length h)) root) as [doc|e] eqn:Hu.
    + apply validate_never_crashes.
    + intros H; inversion H; subst. destruct (unfold_err _ _ _ _ Hu); discriminate.
  - intros H; inversion H; subst. destruct (alias_check_err _ _ _ Ha); discriminate.
Qed.

(* ... and it comes to an end: the alias walk and the unfolding need no more fuel than the document has
   containers; the rest is validate_terminates *)
Theorem validate_graph_terminates E ff mf h root :
  (S (length (fenv E)) < ff)%nat ->
  (forall doc c, unfold h (S (length h)) root = Ok doc ->
                 load_file E ff [] "" doc ctx0 = Ok c -> (length (c_macros c) < mf)%nat) ->
  validate_graph E ff mf h root <> Err OutOfFuel.
Proof.
  intros Hff Hmf. unfold validate_graph. destruct (alias_check h root) as [st|e] eqn:Ha.
  - destruct (alias_walk_accepts_trees _ _ _ Ha) as [doc Hu]. rewrite Hu.
    apply validate_terminates; [exact Hff|]. intros c. now apply Hmf.
  - intros H; inversion H; subst. now apply (alias_walk_terminates h root).
Qed.
