(* InterpHeapP.v — heap stability of the SF-core interpreter: expressions, formulas and
   references never touch the heap; the evaluator only appends cells and fills fields, so a
   handle keeps denoting a row of the same table, id and child index.
   (The first block is the mechanical heap-analogue of the same_out lemmas of InterpP.v.) *)
From Coq Require Import ZArith List Lia Bool Permutation ZifyBool.
From SFV Require Import Base Interp.
From SFV.P Require Import BaseP InterpP.
Import ListNotations. Open Scope Z_scope.

(* [same_heap s s'] : the heap is untouched *)
Definition same_heap (s s' : st) : Prop := heap s' = heap s.

Lemma touch_slot_heap s n s' i : touch_slot s n = Ok (s', i) -> same_heap s s'.
Proof.
  unfold touch_slot, same_heap. destruct (lookup n (slots s)) as [sl|]; [|discriminate].
  destruct (s_alloc sl); intros H; injection H as <- _; reflexivity.
Qed.

Lemma eval_expr_heap e x : forall s s' v, eval_expr e x s = Ok (s', v) -> same_heap s s'.
Proof.
  unfold same_heap.
  induction x as [z|n|a IHa f|a IHa b IHb|a IHa b IHb|a IHa b IHb]; intros s s' v H; cbn [eval_expr] in H.
  - injection H as <- _. reflexivity.
  - dbind H as o. destruct o; injection H as <- _; reflexivity.
  - dbind H as [s1 v1]. apply IHa in E.
    destruct v1; try discriminate;
      try (destruct (py_own_attr f); [discriminate|]);
      try (injection H as <- _; exact E);
      try (dbind H as w0; injection H as <- _; exact E).
    + destruct (nth_error (heap s1) h); [|discriminate].
      destruct (row_attr c f); injection H as <- _; exact E.
    + destruct (String.eqb f "id"); [|discriminate]. dbind H as [s2 i].
      injection H as <- _. apply touch_slot_heap in E0. unfold same_heap in E0. congruence.
  - dbind H as [s1 v1]. dbind H as [s2 v2].
    apply IHa in E. apply IHb in E0.
    destruct v1, v2; try discriminate; injection H as <- _; congruence.
  - dbind H as [s1 v1]. dbind H as [s2 v2].
    apply IHa in E. apply IHb in E0.
    destruct v1, v2; try discriminate; injection H as <- _; congruence.
  - dbind H as [s1 v1]. dbind H as [s2 v2].
    apply IHa in E. apply IHb in E0.
    destruct v1, v2; try discriminate; injection H as <- _; congruence.
Qed.

Lemma render_pieces_heap e ps : forall s s' t, render_pieces e ps s = Ok (s', t) -> same_heap s s'.
Proof.
  unfold same_heap. induction ps as [|p ps IH]; intros s s' t H; cbn [render_pieces] in H.
  - injection H as <- _. reflexivity.
  - destruct p as [tx|x].
    + dbind H as [s1 rest]. injection H as <- _. eauto.
    + dbind H as [s1 v]. dbind H as w0. dbind H as [s2 rest].
      injection H as <- _. apply eval_expr_heap in E. apply IH in E1. unfold same_heap in E. congruence.
Qed.

Lemma render_formula_heap e ps s s' v : render_formula e ps s = Ok (s', v) -> same_heap s s'.
Proof.
  unfold render_formula, same_heap. intros H.
  destruct (version e =? 3).
  - destruct ps as [|[tx|x] [|p2 r]];
      try (dbind H as [s1 t]; dbind H as w0; injection H as <- _;
           apply render_pieces_heap in E; exact E).
    dbind H as [s1 w]. apply eval_expr_heap in E.
    destruct w; try discriminate; try (injection H as <- _; exact E).
    dbind H as w0. injection H as <- _. exact E.
  - dbind H as [s1 t]. dbind H as w0. injection H as <- _.
    apply render_pieces_heap in E. exact E.
Qed.

Lemma follow_path_heap parts : forall s v s' w, follow_path s v parts = Ok (s', w) -> same_heap s s'.
Proof.
  unfold same_heap. induction parts as [|p r IH]; intros s v s' w H; cbn [follow_path] in H.
  - injection H as <- _. reflexivity.
  - dbind H as [s1 w1]. apply IH in H. rewrite H.
    unfold getattr_path in E. destruct v; try discriminate.
    + destruct (nth_error (heap s) h); [|discriminate].
      destruct (row_attr c p); [|discriminate]. injection E as <- _. reflexivity.
    + destruct (String.eqb p "id"); [|discriminate]. dbind E as [s2 i].
      injection E as <- _. apply touch_slot_heap in E0. exact E0.
    + dbind E as w0. injection E as <- _. reflexivity.
Qed.

Lemma reference_heap e path s s' v : reference e path s = Ok (s', v) -> same_heap s s'.
Proof.
  unfold reference, same_heap. intros H.
  destruct (split_dot path) as [|first parts]; [discriminate|].
  dbind H as o. destruct o as [v0|]; [|destruct parts; discriminate].
  dbind H as [s1 target]. apply follow_path_heap in E0.
  destruct target; try discriminate.
  - injection H as <- _. exact E0.
  - dbind H as [s2 i]. injection H as <- _.
    apply touch_slot_heap in E1. unfold same_heap in *. congruence.
  - injection H as <- _. exact E0.
Qed.

Lemma rnd_only_heap s s' : rnd_only s s' -> heap s' = heap s.
Proof. intros [x ->]. reflexivity. Qed.


Lemma flatten_fields_heap fs : forall s s' l, flatten_fields s fs = Ok (s', l) -> same_heap s s'.
Proof.
  unfold same_heap. induction fs as [|[n v] r IH]; intros s s' l H; cbn [flatten_fields] in H.
  - injection H as <- _. reflexivity.
  - destruct (hidden n); [eauto|].
    dbind H as [s1 o]. dbind H as [s2 rest]. injection H as <- _.
    apply IH in E0. rewrite E0.
    destruct v; try discriminate; try (injection E as <- _; reflexivity).
    + destruct (nth_error (heap s) h); [|discriminate]. injection E as <- _. reflexivity.
    + destruct (lookup name (slots s)); [|discriminate]. dbind E as [s3 i].
      injection E as <- _. apply touch_slot_heap in E1. exact E1.
Qed.

Lemma write_row_heap s h s' : write_row s h = Ok s' -> heap s' = heap s.
Proof.
  unfold write_row. destruct (nth_error (heap s) h); [|discriminate].
  destruct (hidden (c_table c)); [intros H; injection H as <-; reflexivity|].
  intros H. dbind H as [s1 fs]. injection H as <-. apply flatten_fields_heap in E. exact E.
Qed.

Lemma remember_deps_heap fs : forall s t, heap (remember_deps s t fs) = heap s.
Proof.
  unfold remember_deps. induction fs as [|[n v] r IH]; intros s t; cbn [fold_left]; [reflexivity|].
  rewrite IH. destruct (target_table s v); [|reflexivity]. destruct (existsb _ _); reflexivity.
Qed.

Lemma set_var_heap s n v : heap (set_var s n v) = heap s.
Proof. unfold set_var. destruct (frames s); reflexivity. Qed.
Lemma set_obj_heap s h : heap (set_obj s h) = heap s.
Proof. unfold set_obj. destruct (frames s); reflexivity. Qed.
Lemma pop_frame_heap s : heap (pop_frame s) = heap s.
Proof. unfold pop_frame. destruct (frames s); reflexivity. Qed.
Lemma register_object_heap s h t nick once : heap (register_object s h t nick once) = heap s.
Proof. unfold register_object. destruct nick, once; reflexivity. Qed.
Lemma new_row_id_heap s t nick : heap (fst (new_row_id s t nick)) = heap s.
Proof.
  unfold new_row_id, consume_for, generate_id.
  destruct nick as [n|].
  - destruct (lookup n (slots s)) as [sl|]; [destruct (s_alloc sl); [destruct (_ && _)|]|];
      try reflexivity;
      destruct (lookup t (slots s)) as [sl2|]; try reflexivity;
      destruct (s_alloc sl2); try reflexivity; destruct (_ && _); reflexivity.
  - destruct (lookup t (slots s)) as [sl2|]; try reflexivity;
      destruct (s_alloc sl2); try reflexivity; destruct (_ && _); reflexivity.
Qed.

(* ------------------------------------------------------------------ handles stay valid *)

Definition same_key (c c' : cell) : Prop :=
  c_table c' = c_table c /\ c_id c' = c_id c /\ c_index c' = c_index c.

Definition heap_ext (s s' : st) : Prop :=
  forall h c, nth_error (heap s) h = Some c ->
              exists c', nth_error (heap s') h = Some c' /\ same_key c c'.

Lemma heap_ext_refl s : heap_ext s s.
Proof. intros h c H. exists c. unfold same_key. auto. Qed.

Lemma heap_ext_eq s s' : heap s' = heap s -> heap_ext s s'.
Proof. intros E h c H. exists c. rewrite E. unfold same_key. auto. Qed.

Lemma heap_ext_trans s1 s2 s3 : heap_ext s1 s2 -> heap_ext s2 s3 -> heap_ext s1 s3.
Proof.
  intros H1 H2 h c Hc. destruct (H1 h c Hc) as (c' & Hc' & k1 & k2 & k3).
  destruct (H2 h c' Hc') as (c'' & Hc'' & k4 & k5 & k6). exists c''. unfold same_key. splits; congruence.
Qed.

Lemma nth_error_set_nth {A} (l : list A) : forall i j x,
  nth_error (set_nth i x l) j =
  if Nat.eqb i j then (match nth_error l j with Some _ => Some x | None => None end) else nth_error l j.
Proof.
  induction l as [|y r IH]; intros i j x; cbn [set_nth].
  - destruct i, j; cbn [nth_error Nat.eqb]; try reflexivity. destruct (Nat.eqb i j); reflexivity.
  - destruct i, j; cbn [nth_error Nat.eqb]; try reflexivity. apply IH.
Qed.

Lemma set_field_ext s h n v : heap_ext s (set_field s h n v).
Proof.
  unfold set_field. destruct (nth_error (heap s) h) as [c0|] eqn:E; [|apply heap_ext_refl].
  intros j c Hc. cbn [heap upd_heap]. rewrite nth_error_set_nth.
  destruct (Nat.eqb h j) eqn:Ej.
  - apply Nat.eqb_eq in Ej. subst j. rewrite Hc. rewrite E in Hc. injection Hc as <-.
    eexists. split; [reflexivity|]. unfold same_key. cbn. auto.
  - exists c. unfold same_key. auto.
Qed.

Lemma heap_snoc_ext s x : heap_ext s (upd_heap s (heap s ++ [x])).
Proof.
  intros h c Hc. exists c. cbn [heap upd_heap]. split; [|unfold same_key; auto].
  rewrite nth_error_app1; [exact Hc|]. apply nth_error_Some. congruence.
Qed.

Theorem run_heap_ext fuel : forall e tk s s' r,
  run fuel e tk s = Ok (s', r) -> heap_ext s s'.
Proof.
  induction fuel as [|n IH]; intros e tk s s' r H; [discriminate|].
  cbn [run] in H. destruct tk as [l c|x c|t|t i cnt last|t i|h fs|d].
  - destruct l as [|x l]; [injection H as <- _; apply heap_ext_refl|].
    dbind H as [s1 r1]. apply IH in E. apply IH in H. eapply heap_ext_trans; eassumption.
  - destruct x as [t|name d].
    + destruct (t_once t && c); [injection H as <- _; apply heap_ext_refl|].
      dbind H as [s1 r1]. injection H as <- _. apply IH in E. exact E.
    + destruct d; try discriminate;
        (dbind H as [s1 r1]; injection H as <- _; apply IH in E;
         (eapply heap_ext_trans; [apply (heap_ext_eq s (push_frame s)); reflexivity|]);
         (eapply heap_ext_trans; [exact E|]); apply heap_ext_eq; rewrite set_var_heap, pop_frame_heap; reflexivity).
  - dbind H as [s1 cnt]. dbind H as [s2 r2]. injection H as <- _.
    assert (H1 : heap_ext s s1).
    { destruct (t_count t) as [d|].
      - dbind E as [s1' r1]. dbind E as w0. injection E as <- _. apply IH in E1.
        eapply heap_ext_trans; [|exact E1]. apply heap_ext_eq. reflexivity.
      - injection E as <- _. apply heap_ext_eq. reflexivity. }
    apply IH in E0. eapply heap_ext_trans; [exact H1|].
    eapply heap_ext_trans; [exact E0|]. apply heap_ext_eq. apply pop_frame_heap.
  - destruct (i <? cnt); [|injection H as <- _; apply heap_ext_refl].
    dbind H as [s1 r1]. apply IH in E. destruct r1; try discriminate. apply IH in H.
    eapply heap_ext_trans; [|exact H]. eapply heap_ext_trans; [|exact E].
    apply heap_ext_eq. apply set_var_heap.
  - destruct (new_row_id s (t_table t) (t_nick t)) as [s1 id] eqn:Hid.
    dbind H as [s4 r4].
    destruct (nth_error (heap s4) (length (heap s1))) as [c|]; [|discriminate].
    dbind H as s5. dbind H as s6. dbind H as [s7 r7]. injection H as <- _.
    apply IH in E. apply IH in E2. apply write_row_heap in E1.
    apply remember_history_rnd in E0. apply rnd_only_heap in E0. rewrite E0, remember_deps_heap in E1.
    assert (H0 : heap s1 = heap s).
    { pose proof (new_row_id_heap s (t_table t) (t_nick t)) as Hn. rewrite Hid in Hn. exact Hn. }
    eapply heap_ext_trans; [|exact E2]. eapply heap_ext_trans; [|apply heap_ext_eq; exact E1].
    eapply heap_ext_trans; [|exact E].
    eapply heap_ext_trans; [apply heap_ext_eq; exact H0|].
    eapply heap_ext_trans; [apply heap_snoc_ext|].
    apply heap_ext_eq. rewrite register_object_heap, set_obj_heap. reflexivity.
  - destruct fs as [|[name d] fs]; [injection H as <- _; apply heap_ext_refl|].
    destruct (String.eqb name "id"); [discriminate|].
    dbind H as [s1 v]. apply IH in E. apply IH in H.
    eapply heap_ext_trans; [exact E|]. eapply heap_ext_trans; [apply set_field_ext|exact H].
  - destruct d as [z|x|ps|path|t|to].
    + injection H as <- _. apply heap_ext_refl.
    + destruct (version e =? 3); [injection H as <- _; apply heap_ext_refl|].
      dbind H as w0. injection H as <- _. apply heap_ext_refl.
    + dbind H as [s1 v]. injection H as <- _. apply heap_ext_eq. apply render_formula_heap in E. exact E.
    + dbind H as [s1 v]. injection H as <- _. apply heap_ext_eq. apply reference_heap in E. exact E.
    + apply IH in H. exact H.
    + dbind H as [s1 v]. injection H as <- _. apply heap_ext_eq. apply rnd_only_heap.
      eapply random_reference_rnd. exact E.
Qed.

(* ------------------------------------------------------------------ emission order of one row *)

(* The rows emitted while generating one row of template t are, in output order: the rows
   created by its fields (nested templates), then the row itself (unless its table is
   hidden), then the rows created by its friends.  ([out] is kept newest-first.) *)
Theorem row_emission_order n e t i s s' r :
  run (S n) e (TRow t i) s = Ok (s', r) ->
  exists fields_rows this friends_rows,
    out s' = friends_rows ++ this ++ fields_rows ++ out s /\
    Forall clean_row fields_rows /\ Forall clean_row friends_rows /\
    (this = [] \/ exists row, this = [row] /\ fst row = t_table t /\ clean_row row).
Proof.
  intros H. cbn [run] in H.
  destruct (new_row_id s (t_table t) (t_nick t)) as [s1 id] eqn:Hid.
  dbind H as [s4 r4].
  destruct (nth_error (heap s4) (length (heap s1))) as [c|] eqn:Hc; [|discriminate].
  dbind H as s5. dbind H as s6. dbind H as [s7 r7]. injection H as <- _.
  pose proof (remember_history_rnd _ _ _ _ _ _ E0) as Hrnd.
  pose proof (new_row_id_out s (t_table t) (t_nick t)) as H0. rewrite Hid in H0. cbn [fst] in H0.
  (* the cell being written is the one created for this row *)
  assert (Hct : c_table c = t_table t).
  { pose proof (run_heap_ext _ _ _ _ _ _ E) as Hext.
    assert (Hn3 : nth_error (heap (register_object (set_obj (upd_heap s1 (heap s1 ++ [mkCell (t_table t) id i []])) (length (heap s1)))
                                     (length (heap s1)) (t_table t) (t_nick t) (t_once t))) (length (heap s1))
                  = Some (mkCell (t_table t) id i [])).
    { rewrite register_object_heap, set_obj_heap. cbn [heap upd_heap].
      rewrite nth_error_app2 by lia. rewrite Nat.sub_diag. reflexivity. }
    destruct (Hext _ _ Hn3) as (c' & Hc' & k1 & _). rewrite Hc in Hc'. injection Hc' as <-. exact k1. }
  apply run_extends in E. destruct E as (nf & Hnf & Fnf).
  rewrite register_object_out, set_obj_out in Hnf. cbn [out upd_heap] in Hnf. rewrite H0 in Hnf.
  apply run_extends in E2. destruct E2 as (nfr & Hnfr & Fnfr).
  apply write_row_spec in E1. rewrite (rnd_only_out _ _ Hrnd), (rnd_only_heap _ _ Hrnd), remember_deps_out, remember_deps_heap in E1.
  destruct E1 as [Hs|(row & Hr & Hclean & c' & Hc' & Ht & _)].
  - exists nf, [], nfr. rewrite Hnfr, Hs, Hnf. cbn [app]. splits; auto.
  - exists nf, [row], nfr. rewrite Hnfr, Hr, Hnf. cbn [app]. splits; auto.
    right. exists row. splits; auto. rewrite Hc in Hc'. injection Hc' as <-. congruence.
Qed.

(* ------------------------------------------------------------------ hidden names are ordinary names
   for everything except the write primitive *)

(* the evaluator treats a field's name only as the key under which the value is stored *)
Lemma fields_step n e h name d r s :
  String.eqb name "id" = false ->
  run (S n) e (TFields h ((name, d) :: r)) s =
  (do '(s1, v) <- run n e (TField d) s; run n e (TFields h r) (set_field s1 h name (ret_value v))).
Proof. intros H. cbn [run]. rewrite H. reflexivity. Qed.

Lemma lookup_assign_same' {A} k (v : A) l : lookup k (assign k v l) = Some v.
Proof.
  induction l as [|[k' v'] r IH]; cbn [assign lookup].
  - rewrite String.eqb_refl. reflexivity.
  - destruct (String.eqb k k') eqn:E; cbn [lookup]; rewrite ?String.eqb_refl, ?E; auto.
Qed.

(* a stored field — hidden or not — is read back by formulas and references exactly as stored *)
Lemma stored_field_readable s h name v c :
  String.eqb name "id" = false -> nth_error (heap s) h = Some c ->
  exists c', nth_error (heap (set_field s h name v)) h = Some c' /\ row_attr c' name = Some v /\
             same_key c c'.
Proof.
  intros Hid Hc. unfold set_field. rewrite Hc. cbn [heap upd_heap]. rewrite nth_error_set_nth, Nat.eqb_refl, Hc.
  eexists. split; [reflexivity|]. split.
  - unfold row_attr. rewrite Hid. cbn [c_fields]. apply lookup_assign_same'.
  - unfold same_key. cbn. auto.
Qed.

(* ------------------------------------------------------------------ the row loop *)

(* [loop_rows e t i cnt s s' last last']: rows with child_index i, i+1, ..., cnt-1 are generated
   one after the other, each by the row task of template t, threading the state *)
Inductive loop_rows (e : env) (t : template) : Z -> Z -> st -> st -> option nat -> option nat -> Prop :=
| loop_done i cnt s last : cnt <= i -> loop_rows e t i cnt s s last last
| loop_step i cnt s s1 s' h last last' fuel :
    i < cnt ->
    run fuel e (TRow t i) (set_var s "child_index" (VInt i)) = Ok (s1, RRow h) ->
    loop_rows e t (i + 1) cnt s1 s' h last' ->
    loop_rows e t i cnt s s' last last'.

Theorem loop_generates_count_rows fuel : forall e t i cnt last s s' r,
  run fuel e (TLoop t i cnt last) s = Ok (s', r) ->
  exists last', r = RRow last' /\ loop_rows e t i cnt s s' last last'.
Proof.
  induction fuel as [|n IH]; intros e t i cnt last s s' r H; [discriminate|].
  cbn [run] in H. destruct (i <? cnt) eqn:E.
  - dbind H as [s1 r1]. destruct r1 as [|v|h]; try discriminate.
    destruct (IH _ _ _ _ _ _ _ _ H) as (last' & -> & HL).
    exists last'. split; [reflexivity|]. eapply loop_step; [lia|exact E0|exact HL].
  - injection H as <- <-. exists last. split; [reflexivity|]. apply loop_done. lia.
Qed.

(* the number of rows a loop generates *)
Lemma loop_rows_count e t i cnt s s' last last' :
  loop_rows e t i cnt s s' last last' -> i <= cnt ->
  exists n : nat, Z.of_nat n = cnt - i.
Proof. intros _ H. exists (Z.to_nat (cnt - i)). lia. Qed.
