(* StopInterpP.v — property C07 over the SF-core interpreter: the stopping logic of Stopping.v
   driving Interp.iteration (theories/StopInterp.v).  The abstraction of Stopping.v ("an
   iteration is the number of rows of the criterion table it creates") is discharged here with
   theorem C01 (IdsP.ids_dense_run): at every iteration boundary the id counter of a table has
   advanced by exactly the number of rows of that table delivered to the output.            *)
From Coq Require Import ZArith List Lia Bool Permutation ZifyBool.
From SFV Require Import Base Interp StopInterp.
From SFV Require Stopping.
From SFV.P Require Import BaseP InterpP IdsP RefsP.
Import ListNotations. Open Scope Z_scope.

Strategy 1000 [iteration run].

(* ------------------------------------------------------------------ counter = rows *)

(* One run (fresh or continued) of k whole iterations: the counter of a visible table has
   advanced by exactly the number of its rows written by this run. *)
Theorem counter_is_rows e stmts c k s0 s T :
  start_ok s0 -> iterations k e stmts c s0 = Ok s -> hidden T = false ->
  Z.of_nat (length (written T (out s))) = last_id s T - last_id s0 T.
Proof.
  intros Hs0 H HT. destruct (ids_dense_run _ _ _ _ _ _ Hs0 H) as [_ HD].
  destruct (HD T) as [Hle HP]. specialize (HP HT).
  apply Permutation_length in HP. rewrite Zseq_length in HP. rewrite HP. lia.
Qed.

(* for any table, hidden ones included, the counter never goes back *)
Lemma counter_monotone e stmts c k s0 s T :
  start_ok s0 -> iterations k e stmts c s0 = Ok s -> last_id s0 T <= last_id s T.
Proof.
  intros Hs0 H. destruct (ids_dense_run _ _ _ _ _ _ Hs0 H) as [_ HD]. destruct (HD T) as [Hle _]. exact Hle.
Qed.

(* ------------------------------------------------------------------ the loop, one step *)

Lemma iterations_S k e stmts c s :
  iterations (S k) e stmts c s = (do s1 <- iteration e stmts c s; iterations k e stmts true s1).
Proof. reflexivity. Qed.

Lemma iterations_0 e stmts c s : iterations 0 e stmts c s = Ok s.
Proof. reflexivity. Qed.

Definition startv (mstart : option Z) : Z := match mstart with Some x => x | None => 1 end.

Lemma start_of_mk l mstart : Stopping.start_of (Stopping.mkIdm l mstart) = startv mstart.
Proof. reflexivity. Qed.

Lemma proper_eqb T : Stopping.proper_table T -> String.eqb T Stopping.COUNT_REPS = false.
Proof.
  intros H. destruct (String.eqb T Stopping.COUNT_REPS) eqn:E; [|reflexivity].
  apply String.eqb_eq in E. contradiction.
Qed.

(* the reference id the progress check compares with *)
Definition ref_id (a : Stopping.app) (mstart : option Z) : Z :=
  if Stopping.a_rep_count a =? 0 then startv mstart - 1 else Stopping.a_starting_id a.

Lemma ensure_progress_table T N a l mstart :
  Stopping.proper_table T -> Stopping.a_crit a = Stopping.mkCrit T N ->
  Stopping.ensure_progress a (Stopping.mkIdm l mstart) =
  if l =? ref_id a mstart then Err Stopping.runtime_error
  else Ok (Stopping.mkApp (Stopping.mkCrit T N) l (Stopping.a_rep_count a)).
Proof.
  intros HT Ha. unfold Stopping.ensure_progress, Stopping.stopping_tablename, ref_id.
  rewrite Ha. cbn [Stopping.c_table]. rewrite (proper_eqb _ HT).
  cbn [Stopping.m_last]. rewrite start_of_mk. reflexivity.
Qed.

Lemma check_finished_table T N a l mstart :
  Stopping.proper_table T -> Stopping.a_crit a = Stopping.mkCrit T N ->
  Stopping.check_finished a (Stopping.mkIdm l mstart) =
  (Stopping.mkApp (Stopping.mkCrit T N) (Stopping.a_starting_id a) (Stopping.a_rep_count a + 1),
   startv mstart + N - 1 <=? l).
Proof.
  intros HT Ha. unfold Stopping.check_finished, Stopping.target_id.
  rewrite Ha. cbn [Stopping.c_table Stopping.c_count]. rewrite (proper_eqb _ HT).
  cbn [Stopping.m_last]. rewrite start_of_mk. reflexivity.
Qed.

(* run_until, one unfolding, for a row-count criterion *)
Lemma run_until_table_S T N f e stmts c a mstart s j :
  Stopping.proper_table T -> Stopping.a_crit a = Stopping.mkCrit T N ->
  run_until (S f) e stmts c a mstart s j =
  (do s1 <- iteration e stmts c s;
   if last_id s1 T =? ref_id a mstart then Err Stopping.runtime_error
   else if startv mstart + N - 1 <=? last_id s1 T then Ok (s1, S j)
   else run_until f e stmts true
          (Stopping.mkApp (Stopping.mkCrit T N) (last_id s1 T) (Stopping.a_rep_count a + 1))
          mstart s1 (S j)).
Proof.
  intros HT Ha. cbn [run_until]. destruct (iteration e stmts c s) as [s1|x]; cbn [bind]; [|reflexivity].
  unfold crit_table. rewrite Ha. cbn [Stopping.c_table].
  rewrite (ensure_progress_table T N a _ mstart HT Ha).
  destruct (last_id s1 T =? ref_id a mstart); [reflexivity|].
  rewrite (check_finished_table T N (Stopping.mkApp (Stopping.mkCrit T N) (last_id s1 T) (Stopping.a_rep_count a)) _ mstart HT eq_refl).
  cbn [Stopping.a_starting_id Stopping.a_rep_count].
  destruct (startv mstart + N - 1 <=? last_id s1 T); reflexivity.
Qed.

(* ------------------------------------------------------------------ normal end: first boundary *)

(* When the loop returns normally it has run whole iterations only, the last boundary reached
   the target id and no earlier boundary did. *)
Lemma run_until_spec T N mstart e stmts :
  Stopping.proper_table T ->
  forall fuel a c s j s' j',
    Stopping.a_crit a = Stopping.mkCrit T N ->
    run_until fuel e stmts c a mstart s j = Ok (s', j') ->
    exists d, j' = (j + S d)%nat /\ iterations (S d) e stmts c s = Ok s' /\
      startv mstart + N - 1 <= last_id s' T /\
      forall i si, (1 <= i <= d)%nat -> iterations i e stmts c s = Ok si ->
                   last_id si T < startv mstart + N - 1.
Proof.
  intros HT. induction fuel as [|f IH]; intros a c s j s' j' Ha H; [discriminate H|].
  rewrite (run_until_table_S T N f e stmts c a mstart s j HT Ha) in H.
  dbind H as s1.
  destruct (last_id s1 T =? ref_id a mstart); [discriminate H|].
  destruct (startv mstart + N - 1 <=? last_id s1 T) eqn:Efin.
  - injection H as <- <-. exists 0%nat. splits.
    + lia.
    + rewrite iterations_S, E. reflexivity.
    + lia.
    + intros i si Hi. lia.
  - apply IH in H; [|reflexivity]. destruct H as (d & -> & Hit & Hfin & Hearlier).
    exists (S d). splits.
    + lia.
    + rewrite iterations_S, E. exact Hit.
    + exact Hfin.
    + intros i si Hi Hsi. destruct i as [|i]; [lia|].
      rewrite iterations_S, E in Hsi. cbn [bind] in Hsi.
      destruct i as [|i].
      * rewrite iterations_0 in Hsi. injection Hsi as <-. lia.
      * apply (Hearlier (S i) si); [lia|exact Hsi].
Qed.

Lemma tapp_crit T N : Stopping.a_crit (Stopping.new_app (Some (Stopping.mkCrit T N))) = Stopping.mkCrit T N.
Proof. reflexivity. Qed.

(* The start id of a run: fresh runs have no start_ids entry (the default 1 is read) and begin
   at counter 0; a continued run reads last + 1 from the restored id manager. *)
Definition mstart_ok (mstart : option Z) (s0 : st) (T : string) : Prop :=
  startv mstart = last_id s0 T + 1.

Lemma mstart_of_ok continued s0 T :
  (continued = false -> last_id s0 T = 0) -> mstart_ok (mstart_of continued s0 T) s0 T.
Proof.
  unfold mstart_ok, mstart_of. destruct continued; cbn [startv]; intros H; [reflexivity|].
  rewrite H; reflexivity.
Qed.

(* C07 on real recipes: a target (T, N) run that returns has executed whole iterations only,
   at least one; at its end the table's counter has advanced by >= N since this run's start and
   at no earlier boundary it had. *)
Theorem target_first_boundary_counter e stmts c T N fuel mstart s0 s j :
  Stopping.proper_table T -> mstart_ok mstart s0 T ->
  run_until fuel e stmts c (Stopping.new_app (Some (Stopping.mkCrit T N))) mstart s0 0 = Ok (s, j) ->
  (1 <= j)%nat /\ iterations j e stmts c s0 = Ok s /\
  N <= last_id s T - last_id s0 T /\
  forall i si, (1 <= i < j)%nat -> iterations i e stmts c s0 = Ok si ->
               last_id si T - last_id s0 T < N.
Proof.
  intros HT Hm H. unfold mstart_ok in Hm.
  destruct (run_until_spec T N mstart e stmts HT _ _ _ _ _ _ _ (tapp_crit T N) H) as (d & -> & Hit & Hfin & He).
  splits.
  - lia.
  - exact Hit.
  - lia.
  - intros i si Hi Hsi. specialize (He i si). assert (last_id si T < startv mstart + N - 1) by (apply He; [lia|exact Hsi]). lia.
Qed.

(* ... and, for a visible table, the counter difference is the number of rows of T this run has
   delivered to the output: the statement of C07 about rows. *)
Theorem target_first_boundary_rows e stmts c T N fuel mstart s0 s j :
  Stopping.proper_table T -> hidden T = false -> start_ok s0 -> mstart_ok mstart s0 T ->
  run_until fuel e stmts c (Stopping.new_app (Some (Stopping.mkCrit T N))) mstart s0 0 = Ok (s, j) ->
  (1 <= j)%nat /\ iterations j e stmts c s0 = Ok s /\
  N <= Z.of_nat (length (written T (out s))) /\
  forall i si, (1 <= i < j)%nat -> iterations i e stmts c s0 = Ok si ->
               Z.of_nat (length (written T (out si))) < N.
Proof.
  intros HT Hv Hs0 Hm H.
  destruct (target_first_boundary_counter _ _ _ _ _ _ _ _ _ _ HT Hm H) as (Hj & Hit & Hfin & He).
  splits; [exact Hj|exact Hit| |].
  - rewrite (counter_is_rows _ _ _ _ _ _ _ Hs0 Hit Hv). exact Hfin.
  - intros i si Hi Hsi. rewrite (counter_is_rows _ _ _ _ _ _ _ Hs0 Hsi Hv). apply (He i si Hi Hsi).
Qed.

(* ------------------------------------------------------------------ where an error comes from *)

(* invariant of the application object between iterations: the progress check compares with
   the counter value of the previous boundary (the run's start value at the first one) *)
Definition app_inv (a : Stopping.app) (mstart : option Z) (s : st) (T : string) : Prop :=
  0 <= Stopping.a_rep_count a /\ ref_id a mstart = last_id s T.

Lemma app_inv_new sc mstart s0 T : mstart_ok mstart s0 T -> app_inv (Stopping.new_app sc) mstart s0 T.
Proof.
  unfold app_inv, ref_id, mstart_ok. intros H. cbn [Stopping.new_app Stopping.a_rep_count Stopping.a_starting_id].
  split; [lia|]. change (0 =? 0) with true. cbv iota. lia.
Qed.

Lemma app_inv_step T N l r mstart s1 :
  0 <= r -> l = last_id s1 T ->
  app_inv (Stopping.mkApp (Stopping.mkCrit T N) l (r + 1)) mstart s1 T.
Proof.
  intros Hr ->. unfold app_inv, ref_id. cbn [Stopping.a_rep_count Stopping.a_starting_id].
  split; [lia|]. destruct (r + 1 =? 0) eqn:E; [lia|reflexivity].
Qed.

(* Every error of a target run is accounted for: it is the error of one of the recipe's
   iterations, or the no-progress error raised at the end of an iteration that completed and
   did not advance the table's counter, or the model's own fuel ran out after [fuel] good
   iterations. *)
Lemma run_until_err T N mstart e stmts :
  Stopping.proper_table T ->
  forall fuel a c s j x,
    Stopping.a_crit a = Stopping.mkCrit T N -> app_inv a mstart s T ->
    run_until fuel e stmts c a mstart s j = Err x ->
    (exists d si, iterations d e stmts c s = Ok si /\ iterations (S d) e stmts c s = Err x) \/
    (x = Stopping.runtime_error /\ exists d si si',
        iterations d e stmts c s = Ok si /\ iterations (S d) e stmts c s = Ok si' /\
        last_id si' T = last_id si T) \/
    (x = OutOfFuel /\ exists si, iterations fuel e stmts c s = Ok si).
Proof.
  intros HT. induction fuel as [|f IH]; intros a c s j x Ha [Hr Href] H.
  - cbn [run_until] in H. injection H as <-. right; right. split; [reflexivity|]. exists s. reflexivity.
  - rewrite (run_until_table_S T N f e stmts c a mstart s j HT Ha) in H.
    destruct (iteration e stmts c s) as [s1|y] eqn:E; cbn [bind] in H.
    2:{ injection H as <-. left. exists 0%nat, s. split; [reflexivity|]. rewrite iterations_S, E. reflexivity. }
    destruct (last_id s1 T =? ref_id a mstart) eqn:Eprog.
    { injection H as <-. right; left. split; [reflexivity|]. exists 0%nat, s, s1. splits.
      - reflexivity.
      - rewrite iterations_S, E. reflexivity.
      - lia. }
    destruct (startv mstart + N - 1 <=? last_id s1 T); [discriminate H|].
    apply IH in H; [|reflexivity|apply app_inv_step; [exact Hr|reflexivity]].
    destruct H as [(d & si & H1 & H2)|[(-> & d & si & si' & H1 & H2 & H3)|(-> & si & H1)]].
    + left. exists (S d), si. split; rewrite iterations_S, E; cbn [bind]; assumption.
    + right; left. split; [reflexivity|]. exists (S d), si, si'. splits; try (rewrite iterations_S, E; cbn [bind]; assumption). exact H3.
    + right; right. split; [reflexivity|]. exists si. rewrite iterations_S, E. exact H1.
Qed.

(* The no-progress error is raised: whenever the boundaries so far stayed below the target and
   each advanced the counter, and the next iteration completes without advancing it. *)
Lemma run_until_no_progress T N mstart e stmts :
  Stopping.proper_table T ->
  forall d fuel a c s j si si',
    Stopping.a_crit a = Stopping.mkCrit T N -> app_inv a mstart s T ->
    (d < fuel)%nat ->
    iterations d e stmts c s = Ok si -> iterations (S d) e stmts c s = Ok si' ->
    last_id si' T = last_id si T ->
    (forall i sa sb, (i < d)%nat -> iterations i e stmts c s = Ok sa -> iterations (S i) e stmts c s = Ok sb ->
                     last_id sb T <> last_id sa T /\ last_id sb T < startv mstart + N - 1) ->
    run_until fuel e stmts c a mstart s j = Err Stopping.runtime_error.
Proof.
  intros HT. induction d as [|d IH]; intros fuel a c s j si si' Ha [Hr Href] Hf H1 H2 Hsame Hgood;
    (destruct fuel as [|f]; [lia|]);
    rewrite (run_until_table_S T N f e stmts c a mstart s j HT Ha).
  - rewrite iterations_0 in H1. injection H1 as <-.
    rewrite iterations_S in H2. destruct (iteration e stmts c s) as [s1|] eqn:E; cbn [bind] in H2; [|discriminate H2].
    rewrite iterations_0 in H2. injection H2 as <-. cbn [bind].
    replace (last_id s1 T =? ref_id a mstart) with true by lia. reflexivity.
  - rewrite iterations_S in H1. destruct (iteration e stmts c s) as [s1|] eqn:E; cbn [bind] in H1; [|discriminate H1].
    cbn [bind].
    destruct (Hgood 0%nat s s1) as [Hne Hlt]; [lia|reflexivity|rewrite iterations_S, E; reflexivity|].
    replace (last_id s1 T =? ref_id a mstart) with false by lia.
    replace (startv mstart + N - 1 <=? last_id s1 T) with false by lia.
    apply (IH f _ true s1 (S j) si si'); try assumption.
    + reflexivity.
    + apply app_inv_step; [exact Hr|reflexivity].
    + lia.
    + rewrite iterations_S, E in H2. exact H2.
    + intros i sa sb Hi Ha' Hb'. apply (Hgood (S i) sa sb); [lia| |]; rewrite iterations_S, E; cbn [bind]; assumption.
Qed.

(* ------------------------------------------------------------------ fuel: N iterations suffice *)

(* Every boundary that passes the progress check advances the counter (counters never go back:
   RefsP.iteration_J), so after at most (target - counter) iterations the run has ended one way
   or another: more fuel than that changes nothing. *)
Lemma run_until_fuel_stable T N mstart e stmts :
  Stopping.proper_table T ->
  forall f1 f2 a c s j,
    Stopping.a_crit a = Stopping.mkCrit T N -> app_inv a mstart s T -> J s -> V s ->
    last_id s T < startv mstart + N - 1 ->
    startv mstart + N - 1 - last_id s T <= Z.of_nat f1 ->
    startv mstart + N - 1 - last_id s T <= Z.of_nat f2 ->
    run_until f1 e stmts c a mstart s j = run_until f2 e stmts c a mstart s j.
Proof.
  intros HT. induction f1 as [|f1 IH]; intros f2 a c s j Ha [Hr Href] HJ HV Hlt H1 H2; [lia|].
  destruct f2 as [|f2]; [lia|].
  rewrite !(run_until_table_S T N _ e stmts c a mstart s j HT Ha).
  destruct (iteration e stmts c s) as [s1|y] eqn:E; cbn [bind]; [|reflexivity].
  destruct (last_id s1 T =? ref_id a mstart) eqn:Eprog; [reflexivity|].
  destruct (startv mstart + N - 1 <=? last_id s1 T) eqn:Efin; [reflexivity|].
  destruct (iteration_J _ _ _ _ _ E HJ HV) as (J1 & M1 & V1). specialize (M1 T).
  apply IH; [reflexivity|apply app_inv_step; [exact Hr|reflexivity]|exact J1|exact V1|lia|lia|lia].
Qed.

(* A fresh or continued run with target (T, N), N >= 1: fuel N is as good as any larger fuel. *)
Theorem target_fuel_N_suffices e stmts c T N mstart s0 fuel :
  Stopping.proper_table T -> mstart_ok mstart s0 T -> J s0 -> V s0 -> 1 <= N ->
  (Z.to_nat N <= fuel)%nat ->
  run_until fuel e stmts c (Stopping.new_app (Some (Stopping.mkCrit T N))) mstart s0 0 =
  run_until (Z.to_nat N) e stmts c (Stopping.new_app (Some (Stopping.mkCrit T N))) mstart s0 0.
Proof.
  intros HT Hm HJ HV HN Hf. pose proof Hm as Hm'. unfold mstart_ok in Hm'.
  apply (run_until_fuel_stable T N mstart e stmts HT); try assumption.
  - reflexivity.
  - apply app_inv_new. exact Hm.
  - lia.
  - lia.
  - lia.
Qed.

(* When the loop itself runs out of fuel every boundary so far advanced the counter and stayed
   below the target. *)
Lemma run_until_exhausted T N mstart e stmts :
  Stopping.proper_table T ->
  forall fuel a c s j,
    Stopping.a_crit a = Stopping.mkCrit T N -> app_inv a mstart s T -> J s -> V s ->
    run_until fuel e stmts c a mstart s j = Err OutOfFuel ->
    (exists d si, iterations d e stmts c s = Ok si /\ iterations (S d) e stmts c s = Err OutOfFuel) \/
    (exists si, iterations fuel e stmts c s = Ok si /\
                last_id s T + Z.of_nat fuel <= last_id si T /\
                ((0 < fuel)%nat -> last_id si T < startv mstart + N - 1)).
Proof.
  intros HT. induction fuel as [|f IH]; intros a c s j Ha [Hr Href] HJ HV H.
  - right. exists s. splits; [reflexivity|lia|lia].
  - rewrite (run_until_table_S T N f e stmts c a mstart s j HT Ha) in H.
    destruct (iteration e stmts c s) as [s1|y] eqn:E; cbn [bind] in H.
    2:{ injection H as ->. left. exists 0%nat, s. split; [reflexivity|]. rewrite iterations_S, E. reflexivity. }
    destruct (last_id s1 T =? ref_id a mstart) eqn:Eprog; [discriminate H|].
    destruct (startv mstart + N - 1 <=? last_id s1 T) eqn:Efin; [discriminate H|].
    destruct (iteration_J _ _ _ _ _ E HJ HV) as (J1 & M1 & V1). specialize (M1 T).
    apply IH in H; [|reflexivity|apply app_inv_step; [exact Hr|reflexivity]|exact J1|exact V1].
    destruct H as [(d & si & H1 & H2)|(si & H1 & H2 & H3)].
    + left. exists (S d), si. split; rewrite iterations_S, E; cbn [bind]; assumption.
    + right. exists si. splits.
      * rewrite iterations_S, E. exact H1.
      * lia.
      * intros _. destruct f as [|f].
        -- rewrite iterations_0 in H1. injection H1 as <-. lia.
        -- apply H3. lia.
Qed.

(* ... hence a target run never needs more than N iterations: with fuel N the model's own
   out-of-fuel answer can only be the out-of-fuel answer of one of the recipe's iterations. *)
Theorem target_never_exhausts e stmts c T N mstart s0 :
  Stopping.proper_table T -> mstart_ok mstart s0 T -> J s0 -> V s0 -> 1 <= N ->
  run_until (Z.to_nat N) e stmts c (Stopping.new_app (Some (Stopping.mkCrit T N))) mstart s0 0 = Err OutOfFuel ->
  exists d si, iterations d e stmts c s0 = Ok si /\ iterations (S d) e stmts c s0 = Err OutOfFuel.
Proof.
  intros HT Hm HJ HV HN H. pose proof Hm as Hm'. unfold mstart_ok in Hm'.
  destruct (run_until_exhausted T N mstart e stmts HT _ _ _ _ _ (tapp_crit T N) (app_inv_new _ _ _ _ Hm) HJ HV H)
    as [Hit|(si & _ & H2 & H3)]; [exact Hit|].
  exfalso. assert (last_id si T < startv mstart + N - 1) by (apply H3; lia). lia.
Qed.

(* ------------------------------------------------------------------ repetition targets *)

Lemma run_until_reps_S k f e stmts c a mstart s j :
  Stopping.a_crit a = Stopping.mkCrit Stopping.COUNT_REPS k ->
  run_until (S f) e stmts c a mstart s j =
  (do s1 <- iteration e stmts c s;
   if k <=? Stopping.a_rep_count a + 1 then Ok (s1, S j)
   else run_until f e stmts true
          (Stopping.mkApp (Stopping.mkCrit Stopping.COUNT_REPS k) (Stopping.a_starting_id a) (Stopping.a_rep_count a + 1))
          mstart s1 (S j)).
Proof.
  intros Ha. cbn [run_until]. destruct (iteration e stmts c s) as [s1|x]; cbn [bind]; [|reflexivity].
  unfold Stopping.ensure_progress, Stopping.stopping_tablename. rewrite Ha. cbn [Stopping.c_table].
  change (String.eqb Stopping.COUNT_REPS Stopping.COUNT_REPS) with true. cbv iota.
  unfold Stopping.check_finished. rewrite Ha. cbn [Stopping.c_table Stopping.c_count].
  change (String.eqb Stopping.COUNT_REPS Stopping.COUNT_REPS) with true. cbv iota.
  cbn [Stopping.a_rep_count Stopping.a_starting_id].
  destruct (k <=? Stopping.a_rep_count a + 1); reflexivity.
Qed.

(* A repetition target: n more iterations to go, fuel >= n: the loop is [iterations n]. *)
Lemma run_until_reps k mstart e stmts :
  forall n fuel a c s j,
    Stopping.a_crit a = Stopping.mkCrit Stopping.COUNT_REPS k ->
    (1 <= n)%nat -> k = Stopping.a_rep_count a + Z.of_nat n -> (n <= fuel)%nat ->
    run_until fuel e stmts c a mstart s j =
    (do s' <- iterations n e stmts c s; Ok (s', (j + n)%nat)).
Proof.
  induction n as [|n IH]; intros fuel a c s j Ha Hn Hk Hf; [lia|].
  destruct fuel as [|f]; [lia|].
  rewrite (run_until_reps_S k f e stmts c a mstart s j Ha), iterations_S.
  destruct (iteration e stmts c s) as [s1|x]; cbn [bind]; [|reflexivity].
  destruct n as [|n].
  - replace (k <=? Stopping.a_rep_count a + 1) with true by lia.
    rewrite iterations_0. cbn [bind]. do 2 f_equal. lia.
  - replace (k <=? Stopping.a_rep_count a + 1) with false by lia.
    rewrite (IH f _ true s1 (S j)); [|reflexivity|lia|cbn [Stopping.a_rep_count]; lia|lia].
    destruct (iterations (S n) e stmts true s1); cbn [bind]; [|reflexivity]. do 2 f_equal. lia.
Qed.

(* repetition target k >= 1: exactly k iterations; no target: exactly one *)
Theorem reps_exact_interp e stmts c k mstart s fuel :
  1 <= k -> (Z.to_nat k <= fuel)%nat ->
  run_until fuel e stmts c (Stopping.new_app (Some (Stopping.mkCrit Stopping.COUNT_REPS k))) mstart s 0 =
  (do s' <- iterations (Z.to_nat k) e stmts c s; Ok (s', Z.to_nat k)).
Proof.
  intros Hk Hf. rewrite (run_until_reps k mstart e stmts (Z.to_nat k) fuel _ c s 0%nat); try reflexivity; try lia.
  cbn [Stopping.new_app Stopping.a_rep_count]. lia.
Qed.

Theorem default_one_iteration_interp e stmts c mstart s fuel :
  (1 <= fuel)%nat ->
  run_until fuel e stmts c (Stopping.new_app None) mstart s 0 =
  (do s' <- iterations 1 e stmts c s; Ok (s', 1%nat)).
Proof.
  intros Hf. apply (run_until_reps 1 mstart e stmts 1%nat fuel _ c s 0%nat); try reflexivity; lia.
Qed.

(* ------------------------------------------------------------------ generate() on a recipe *)

Lemma interp_init_table T N tables :
  Stopping.proper_table T ->
  Stopping.interp_init (Stopping.new_app (Some (Stopping.mkCrit T N))) tables =
  if existsb (String.eqb T) tables then Ok tt else Err (DGE "DataGenNameError").
Proof.
  intros HT. unfold Stopping.interp_init, Stopping.stopping_tablename.
  cbn [Stopping.new_app Stopping.a_crit Stopping.c_table]. rewrite (proper_eqb _ HT).
  destruct (existsb (String.eqb T) tables); reflexivity.
Qed.

Lemma existsb_eqb_In T l : existsb (String.eqb T) l = true <-> In T l.
Proof.
  rewrite existsb_exists. split.
  - intros (x & Hin & Hx). apply String.eqb_eq in Hx. subst x. exact Hin.
  - intros Hin. exists T. split; [exact Hin|apply String.eqb_refl].
Qed.

(* A target naming a table that no template of the recipe creates is rejected before the first
   iteration, fresh or continued: no row is ever written. *)
Theorem unknown_target_rejected r T N fuel c :
  Stopping.proper_table T -> ~ In T (tables_of (r_stmts r)) ->
  run_target r (Some (Stopping.mkCrit T N)) fuel c = Err (DGE "DataGenNameError").
Proof.
  intros HT Hnot. unfold run_target. rewrite (interp_init_table T N _ HT).
  destruct (existsb (String.eqb T) (tables_of (r_stmts r))) eqn:E; [|reflexivity].
  apply existsb_eqb_In in E. contradiction.
Qed.

(* Fresh run of a recipe with target (T, N), T a visible table: if generate() returns, some
   template creates T, whole iterations only were run (j >= 1 of them, the run equals the
   repetition run of j iterations), this run has delivered >= N rows of T, and after every
   smaller number of iterations it had delivered < N. *)
Theorem target_run_fresh r T N fuel s j :
  Stopping.proper_table T -> hidden T = false ->
  run_target r (Some (Stopping.mkCrit T N)) fuel None = Ok (s, j) ->
  In T (tables_of (r_stmts r)) /\ (1 <= j)%nat /\ run_fresh r j = Ok s /\
  N <= Z.of_nat (length (written T (out s))) /\
  forall i si, (1 <= i < j)%nat -> run_fresh r i = Ok si -> Z.of_nat (length (written T (out si))) < N.
Proof.
  intros HT Hv H. unfold run_target in H. rewrite (interp_init_table T N _ HT) in H.
  destruct (existsb (String.eqb T) (tables_of (r_stmts r))) eqn:E; [|discriminate H].
  apply existsb_eqb_In in E. split; [exact E|].
  unfold run_fresh.
  apply (target_first_boundary_rows (env_of r) (r_stmts r) false T N fuel None
           (init_st (env_of r) (r_draws r)) s j HT Hv (init_start_ok _ _)); [|exact H].
  unfold mstart_ok. cbn [startv]. unfold last_id. cbn. reflexivity.
Qed.

(* The same for a run continued from a continuation file whose counters are not negative: rows
   are counted from this run's start (the file's counter), not from the start of the dataset. *)
Theorem target_run_continued r T N fuel c0 s0 s j :
  Stopping.proper_table T -> hidden T = false ->
  (forall U, 0 <= match lookup U (k_ids c0) with Some z => z | None => 0 end) ->
  load (env_of r) c0 = Ok s0 ->
  run_target r (Some (Stopping.mkCrit T N)) fuel (Some c0) = Ok (s, j) ->
  (1 <= j)%nat /\ iterations j (env_of r) (r_stmts r) true s0 = Ok s /\
  N <= Z.of_nat (length (written T (out s))) /\
  N <= last_id s T - last_id s0 T /\
  forall i si, (1 <= i < j)%nat -> iterations i (env_of r) (r_stmts r) true s0 = Ok si ->
               Z.of_nat (length (written T (out si))) < N.
Proof.
  intros HT Hv Hnn Hl H. unfold run_target in H. rewrite (interp_init_table T N _ HT) in H.
  destruct (existsb (String.eqb T) (tables_of (r_stmts r))); [|discriminate H].
  rewrite Hl in H. cbn [bind] in H.
  unfold crit_table in H. cbn [Stopping.new_app Stopping.a_crit Stopping.c_table] in H.
  assert (Hm : mstart_ok (mstart_of true s0 T) s0 T) by (apply mstart_of_ok; discriminate).
  pose proof (load_start_ok _ _ _ Hl Hnn) as Hs0.
  destruct (target_first_boundary_rows _ _ _ _ _ _ _ _ _ _ HT Hv Hs0 Hm H) as (Hj & Hit & Hrows & He).
  destruct (target_first_boundary_counter _ _ _ _ _ _ _ _ _ _ HT Hm H) as (_ & _ & Hcnt & _).
  splits; assumption.
Qed.

(* A fresh target run with N >= 1 needs at most N iterations. *)
Theorem target_run_fresh_fuel r T N fuel :
  Stopping.proper_table T -> 1 <= N -> (Z.to_nat N <= fuel)%nat ->
  run_target r (Some (Stopping.mkCrit T N)) fuel None =
  run_target r (Some (Stopping.mkCrit T N)) (Z.to_nat N) None.
Proof.
  intros HT HN Hf. unfold run_target. rewrite (interp_init_table T N _ HT).
  destruct (existsb (String.eqb T) (tables_of (r_stmts r))); [|reflexivity].
  apply target_fuel_N_suffices; try assumption.
  - unfold mstart_ok. cbn [startv]. unfold last_id. cbn. reflexivity.
  - split; [apply init_Bd|]. intros ? ? ? ? Hx. cbn [init_st out] in Hx. destruct Hx.
  - apply init_V.
Qed.

(* ------------------------------------------------------------------ C01 / C02 under a target *)

(* A target run is a repetition run of some number of iterations, so everything proved for
   repetition runs holds for it: in particular the ids written per visible table are dense. *)
Theorem ids_dense_target r T N fuel s j :
  Stopping.proper_table T -> hidden T = false ->
  run_target r (Some (Stopping.mkCrit T N)) fuel None = Ok (s, j) ->
  forall U, hidden U = false ->
    Permutation (written U (out s)) (Zseq 1 (Z.to_nat (last_id s U))).
Proof.
  intros HT Hv H U HU.
  destruct (target_run_fresh r T N fuel s j HT Hv H) as (_ & _ & Hrun & _).
  exact (ids_dense_fresh r j s Hrun U HU).
Qed.

Theorem no_dangling_target r T N fuel s j :
  Stopping.proper_table T -> hidden T = false ->
  run_target r (Some (Stopping.mkCrit T N)) fuel None = Ok (s, j) ->
  forall row n U i, In row (out s) -> In (n, ORef U i) (snd row) -> hidden U = false ->
    exists row', In row' (out s) /\ fst row' = U /\ orow_id row' = [i].
Proof.
  intros HT Hv H.
  destruct (target_run_fresh r T N fuel s j HT Hv H) as (_ & _ & Hrun & _).
  exact (no_dangling_fresh r j s Hrun).
Qed.
