(* RowHistoryP.v — proofs about the model of row_history.py (property C10). *)
From Coq Require Import ZArith List Lia Bool Permutation ZifyBool.
From SFV Require Import Base RandRange RowHistory.
From SFV.P Require Import BaseP LcgP RandRangeP.
Import ListNotations. Open Scope Z_scope.

Ltac splits := repeat match goal with |- _ /\ _ => split end.

Lemma lookupZ_assign_same k v l : lookupZ k (assignZ k v l) = Some v.
Proof.
  induction l as [|[k' v'] r IH]; cbn [assignZ lookupZ].
  - rewrite String.eqb_refl. reflexivity.
  - destruct (String.eqb k k') eqn:E; cbn [lookupZ]; rewrite ?String.eqb_refl, ?E; auto.
Qed.

Lemma lookupZ_assign_other k k2 v l : k2 <> k -> lookupZ k2 (assignZ k v l) = lookupZ k2 l.
Proof.
  intros Hne. induction l as [|[k' v'] r IH]; cbn [assignZ lookupZ].
  - destruct (String.eqb k2 k) eqn:E; [apply String.eqb_eq in E; contradiction|reflexivity].
  - destruct (String.eqb k k') eqn:E; cbn [lookupZ].
    + apply String.eqb_eq in E. subst k'.
      destruct (String.eqb k2 k) eqn:E2; [apply String.eqb_eq in E2; contradiction|reflexivity].
    + destruct (String.eqb k2 k'); auto.
Qed.

Lemma get0_assign k k2 v l : get0 k2 (assignZ k v l) = if String.eqb k2 k then v else get0 k2 l.
Proof.
  unfold get0. destruct (String.eqb k2 k) eqn:E.
  - apply String.eqb_eq in E. subst. rewrite lookupZ_assign_same. reflexivity.
  - rewrite lookupZ_assign_other; [reflexivity|]. intros ->. rewrite String.eqb_refl in E. discriminate.
Qed.

(* ------------------------------------------------------------------ nickname ordinals are dense *)

Definition NickInv (h : rh) : Prop :=
  forall n,
    0 <= get0 n (nc h) /\
    (forall d, 1 <= d <= get0 n (nc h) ->
       exists r, In r (hrows h) /\ h_nick r = Some n /\ h_nid r = d) /\
    (forall r, In r (hrows h) -> h_nick r = Some n -> 1 <= h_nid r <= get0 n (nc h)).

Lemma NickInv_init counters names : NickInv (rh_init counters names).
Proof.
  intros n. unfold rh_init, get0. cbn [nc hrows lookupZ]. splits; [lia|intros; lia|intros r []].
Qed.

Lemma NickInv_reset h : NickInv h -> NickInv (reset_locals h).
Proof. intros H n. exact (H n). Qed.

Lemma NickInv_save h t nick i : NickInv h -> NickInv (save_row h t nick i).
Proof.
  intros H n. destruct (H n) as (H0 & H1 & H2). unfold save_row. destruct nick as [m|]; cbn [nc hrows].
  - rewrite get0_assign. destruct (String.eqb n m) eqn:E.
    + apply String.eqb_eq in E. subst m. splits; [lia| |].
      * intros d Hd. destruct (Z.eq_dec d (get0 n (nc h) + 1)) as [->|Hne].
        -- eexists. split; [apply in_or_app; right; left; reflexivity|]. cbn. auto.
        -- destruct (H1 d ltac:(lia)) as (r & Hr & Hn & Hd'). exists r. split; [apply in_or_app; auto|auto].
      * intros r Hr Hn. apply in_app_or in Hr. destruct Hr as [Hr|[<-|[]]].
        -- specialize (H2 r Hr Hn). lia.
        -- cbn [h_nid]. lia.
    + splits; [exact H0| |].
      * intros d Hd. destruct (H1 d Hd) as (r & Hr & Hn & Hd'). exists r. split; [apply in_or_app; auto|auto].
      * intros r Hr Hn. apply in_app_or in Hr. destruct Hr as [Hr|[<-|[]]]; [auto|].
        cbn [h_nick] in Hn. injection Hn as ->. rewrite String.eqb_refl in E. discriminate.
  - splits; [exact H0| |].
    + intros d Hd. destruct (H1 d Hd) as (r & Hr & Hn & Hd'). exists r. split; [apply in_or_app; auto|auto].
    + intros r Hr Hn. apply in_app_or in Hr. destruct Hr as [Hr|[<-|[]]]; [auto|]. discriminate.
Qed.

(* every saved row under nickname n belongs to the table the nickname is declared for *)
Definition NickTables (h : rh) : Prop :=
  forall r n, In r (hrows h) -> h_nick r = Some n ->
    match lookupS n (n2t h) with Some t => h_table r = t | None => True end.

Lemma find_nick_row_sound rows table nick d i :
  find_nick_row rows table nick d = Some i ->
  exists r, In r rows /\ h_table r = table /\ h_nick r = Some nick /\ h_nid r = d /\ h_id r = i.
Proof.
  induction rows as [|r rest IH]; cbn [find_nick_row]; [discriminate|].
  destruct (String.eqb (h_table r) table && _ && (h_nid r =? d)) eqn:E.
  - intros H. injection H as <-. apply andb_true_iff in E. destruct E as [E E3].
    apply andb_true_iff in E. destruct E as [E1 E2].
    exists r. splits; [left; reflexivity|apply String.eqb_eq; exact E1| |lia|reflexivity].
    destruct (h_nick r) as [m|]; [|discriminate]. apply String.eqb_eq in E2. congruence.
  - intros H. destruct (IH H) as (r' & Hin & Hrest). exists r'. split; [right; exact Hin|exact Hrest].
Qed.

Lemma find_nick_row_complete rows table nick d :
  (exists r, In r rows /\ h_table r = table /\ h_nick r = Some nick /\ h_nid r = d) ->
  exists i, find_nick_row rows table nick d = Some i.
Proof.
  induction rows as [|r rest IH]; intros (r0 & Hin & Ht & Hn & Hd); [destruct Hin|].
  cbn [find_nick_row].
  destruct (String.eqb (h_table r) table && _ && (h_nid r =? d)) eqn:E; [eauto|].
  destruct Hin as [<-|Hin]; [|apply IH; eauto].
  rewrite Ht, Hn, Hd, !String.eqb_refl, Z.eqb_refl in E. discriminate.
Qed.

(* ------------------------------------------------------------------ random_reference: nickname case *)

(* A reference by nickname always succeeds (for a draw inside the requested interval) and
   returns a row that was saved under that nickname, in the nickname's table. *)
Theorem nick_ref_sound h name t d tbl i :
  NickInv h -> lookupS name (n2t h) = Some t ->
  random_ref h name d = Ok (tbl, i) ->
  tbl = t /\ exists r, In r (hrows h) /\ h_table r = t /\ h_nick r = Some name /\ h_id r = i.
Proof.
  intros HI Hl H. unfold random_ref, ref_range in H. rewrite Hl in H.
  destruct (get0 name (nc h) =? 0); [discriminate|]. cbn [bind] in H.
  destruct (_ && _); [|discriminate]. unfold resolve_draw in H.
  destruct (find_nick_row (hrows h) t name d) as [id|] eqn:Hf; [|discriminate].
  injection H as <- <-. split; [reflexivity|].
  destruct (find_nick_row_sound _ _ _ _ _ Hf) as (r & Hin & Ht & Hn & _ & Hid). exists r. auto.
Qed.

Theorem nick_ref_total h name t :
  NickInv h -> NickTables h -> lookupS name (n2t h) = Some t ->
  get0 name (nc h) <> 0 -> 0 <= get0 name (lnc h) ->
  exists lo hi, ref_range h name = Ok (Some name, t, lo, hi) /\ 1 <= lo <= hi /\ hi = get0 name (nc h) /\
    forall d, lo <= d <= hi -> exists i, random_ref h name d = Ok (t, i).
Proof.
  intros HI HT Hl Hnz Hlc. destruct (HI name) as (H0 & H1 & _).
  unfold ref_range. rewrite Hl. destruct (get0 name (nc h) =? 0) eqn:E; [lia|].
  set (m := get0 name (nc h)) in *. set (min0 := get0 name (lnc h) + 1).
  exists (if m <? min0 then 1 else min0), m.
  assert (Hb : 1 <= (if m <? min0 then 1 else min0) <= m).
  { unfold min0. destruct (m <? get0 name (lnc h) + 1) eqn:E2; lia. }
  split; [reflexivity|]. split; [exact Hb|]. split; [reflexivity|].
  intros d Hd. unfold random_ref, ref_range. rewrite Hl. fold m. rewrite E. cbn [bind]. fold min0.
  assert (Hr : ((if m <? min0 then 1 else min0) <=? d) && (d <=? m) = true) by lia.
  rewrite Hr. unfold resolve_draw.
  destruct (H1 d ltac:(lia)) as (r & Hin & Hn & Hnid).
  pose proof (HT r name Hin Hn) as Htab. rewrite Hl in Htab.
  destruct (find_nick_row_complete (hrows h) t name d) as (i & Hi); [exists r; auto|].
  rewrite Hi. eauto.
Qed.

(* ------------------------------------------------------------------ random_reference: table case *)

(* By table name: the result is the drawn id itself, inside [min_id, last saved id]; when a
   row of the table was saved since the last reset (ids in increasing order) the result is
   one of those. *)
Theorem table_ref_range h name d tbl i :
  lookupS name (n2t h) = None ->
  random_ref h name d = Ok (tbl, i) ->
  tbl = name /\ i = d /\ exists m, lookupZ name (tc h) = Some m /\ d <= m /\
    (if m <? get0 name (lc h) + 1 then 1 <= d else get0 name (lc h) < d).
Proof.
  intros Hl H. unfold random_ref, ref_range in H. rewrite Hl in H.
  destruct (lookupZ name (tc h)) as [m|]; [|discriminate].
  destruct (m =? 0); [discriminate|]. cbn [bind] in H.
  destruct (_ && _) eqn:E; [|discriminate]. unfold resolve_draw in H. injection H as <- <-.
  splits; try reflexivity. exists m. split; [reflexivity|].
  destruct (m <? get0 name (lc h) + 1); lia.
Qed.

(* ids of table T saved in increasing order (no id reserved by a forward reference), and T
   not used as a nickname: every id between [base] and the last saved id is in the history *)
Fixpoint ordered_for (T : string) (h : rh) (ops : list hop) : Prop :=
  match ops with
  | [] => True
  | HSave t n i :: r =>
    (t = T -> i = get0 T (tc h) + 1) /\ n <> Some T /\ ordered_for T (save_row h t n i) r
  | HReset :: r => ordered_for T (reset_locals h) r
  | _ :: r => ordered_for T h r
  end.

Definition dense_from (T : string) (base : Z) (h : rh) : Prop :=
  forall i, base < i <= get0 T (tc h) -> exists r, In r (hrows h) /\ h_table r = T /\ h_id r = i.

Lemma save_row_rows h t n i r : In r (hrows h) -> In r (hrows (save_row h t n i)).
Proof. unfold save_row. destruct n; cbn [hrows]; intros H; apply in_or_app; auto. Qed.

Lemma save_row_tc_other h t n i T :
  T <> t -> n <> Some T -> get0 T (tc (save_row h t n i)) = get0 T (tc h).
Proof.
  intros H1 H2. unfold save_row. destruct n as [m|]; cbn [tc]; rewrite ?get0_assign.
  - destruct (String.eqb T m) eqn:E; [apply String.eqb_eq in E; congruence|].
    destruct (String.eqb T t) eqn:E2; [apply String.eqb_eq in E2; congruence|reflexivity].
  - destruct (String.eqb T t) eqn:E2; [apply String.eqb_eq in E2; congruence|reflexivity].
Qed.

Lemma save_row_tc_same h n i T :
  n <> Some T -> get0 T (tc (save_row h T n i)) = i.
Proof.
  intros H2. unfold save_row. destruct n as [m|]; cbn [tc]; rewrite ?get0_assign.
  - destruct (String.eqb T m) eqn:E; [apply String.eqb_eq in E; congruence|].
    rewrite String.eqb_refl. reflexivity.
  - rewrite String.eqb_refl. reflexivity.
Qed.

Theorem ordered_dense T base ops : forall h,
  dense_from T base h -> ordered_for T h ops -> dense_from T base (apply_ops h ops).
Proof.
  induction ops as [|op ops IH]; intros h HD HO; cbn [apply_ops]; [exact HD|].
  destruct op as [t n i0| |name d|name]; cbn [ordered_for] in HO.
  - destruct HO as (Hi & Hn & HO). apply IH; [|exact HO].
    intros i Hb. destruct (String.eqb T t) eqn:E.
    + apply String.eqb_eq in E. subst t. rewrite (save_row_tc_same _ _ _ _ Hn) in Hb.
      specialize (Hi eq_refl). destruct (Z.eq_dec i i0) as [->|Hne].
      * exists (mkHrow T i0 n (match n with Some m => get0 m (nc h) + 1 | None => 0 end)).
        split; [|cbn; auto]. unfold save_row. destruct n; cbn [hrows]; apply in_or_app; right; left; reflexivity.
      * destruct (HD i ltac:(lia)) as (r & Hr & Hrest). exists r. split; [apply save_row_rows; exact Hr|exact Hrest].
    + assert (Hne : T <> t) by (intros ->; rewrite String.eqb_refl in E; discriminate).
      rewrite (save_row_tc_other _ _ _ _ _ Hne Hn) in Hb.
      destruct (HD i Hb) as (r & Hr & Hrest). exists r. split; [apply save_row_rows; exact Hr|exact Hrest].
  - apply IH; [exact HD|exact HO].
  - apply IH; [exact HD|exact HO].
  - apply IH; [exact HD|exact HO].
Qed.

(* consequence for references by table name: with ordered ids the target is a saved row of
   the table or an id issued before the history started (a row of an earlier run) *)
Theorem table_ref_exists T base ops h0 d tbl i :
  dense_from T base h0 -> ordered_for T h0 ops ->
  lookupS T (n2t (apply_ops h0 ops)) = None ->
  random_ref (apply_ops h0 ops) T d = Ok (tbl, i) ->
  tbl = T /\ ((exists r, In r (hrows (apply_ops h0 ops)) /\ h_table r = T /\ h_id r = i) \/ i <= base).
Proof.
  intros HD HO Hl H. destruct (table_ref_range _ _ _ _ _ Hl H) as (-> & -> & m & Hm & Hle & _).
  split; [reflexivity|]. destruct (Z_le_dec d base) as [Hb|Hb]; [right; exact Hb|left].
  apply (ordered_dense T base ops h0 HD HO). unfold get0. rewrite Hm. lia.
Qed.

(* ------------------------------------------------------------------ unique *)

(* a chain of unique draws is a script of the updatable range *)
Fixpoint uchain (u : uctx) (reqs : list (Z * Z)) (oracle : list (Z * Z)) : result (list Z) :=
  match reqs with
  | [] => Ok []
  | (a, b) :: r =>
    do '(v, u1) <- unique_draw u a b oracle;
    do rest <- uchain (Some u1) r (u_oracle u1);
    Ok (v :: rest)
  end.

Definition req_ops (reqs : list (Z * Z)) : list uop :=
  flat_map (fun '(a, b) => [USet a (b + 1); UNext]) reqs.

Lemma uchain_run reqs : forall u vs,
  uchain (Some u) reqs (u_oracle u) = Ok vs ->
  exists u', urr_run u (req_ops reqs) = Ok (map Some vs, u').
Proof.
  induction reqs as [|[a b] r IH]; intros u vs H; cbn [uchain] in H.
  - injection H as <-. exists u. reflexivity.
  - unfold unique_draw in H. cbn [bind] in H.
    destruct (urr_set_new_range u a (b + 1)) as [u1|e] eqn:E1; [|discriminate]. cbn [bind] in H.
    destruct (urr_next u1) as [[v u2]|e] eqn:E2; [|discriminate]. cbn [bind] in H.
    destruct v as [x|]; [|discriminate]. cbn [bind] in H.
    destruct (uchain (Some u2) r (u_oracle u2)) as [rest|e] eqn:E3; [|discriminate]. cbn [bind] in H.
    injection H as <-. destruct (IH _ _ E3) as (u' & Hr).
    exists u'. cbn [req_ops flat_map app urr_run]. rewrite E1. cbn [bind]. rewrite E2. cbn [bind].
    fold (req_ops r). rewrite Hr. reflexivity.
Qed.

Lemma produced_map_Some vs : produced (map Some vs) = vs.
Proof. induction vs as [|v r IH]; cbn [map produced]; [reflexivity|]. rewrite IH. reflexivity. Qed.

(* No number is drawn twice by one unique random_reference context, whatever intervals the
   row history requests over time (as long as the range object accepts them). *)
Theorem unique_draws_no_repeat reqs oracle vs :
  uchain None reqs oracle = Ok vs -> NoDup vs.
Proof.
  destruct reqs as [|[a b] r]; cbn [uchain]; intros H.
  - injection H as <-. constructor.
  - unfold unique_draw in H. cbn [bind] in H.
    destruct (urr_init a (b + 1) oracle) as [u1|e] eqn:E1; [|discriminate]. cbn [bind] in H.
    destruct (urr_next u1) as [[v u2]|e] eqn:E2; [|discriminate]. cbn [bind] in H.
    destruct v as [x|]; [|discriminate]. cbn [bind] in H.
    destruct (uchain (Some u2) r (u_oracle u2)) as [rest|e] eqn:E3; [|discriminate]. cbn [bind] in H.
    injection H as <-. destruct (uchain_run _ _ _ E3) as (u' & Hr).
    assert (Hs : urr_script a (b + 1) oracle (UNext :: req_ops r) = Ok (Some x :: map Some rest)).
    { unfold urr_script. rewrite E1. cbn [bind urr_run]. rewrite E2. cbn [bind]. rewrite Hr. reflexivity. }
    apply updatable_no_repeat in Hs. cbn [produced] in Hs. rewrite produced_map_Some in Hs. exact Hs.
Qed.

(* ================================================================== several call sites (round 3) *)

Lemma ref_range_sc_local h name : ref_range_sc h name false = ref_range h name.
Proof. reflexivity. Qed.

Lemma ref_range_sc_global h name nick table lo hi :
  ref_range_sc h name true = Ok (nick, table, lo, hi) -> lo = 1.
Proof.
  unfold ref_range_sc. destruct (lookupS name (n2t h)) as [t|].
  - destruct (get0 name (nc h) =? 0); [discriminate|]. intros H. injection H as _ _ <- _.
    destruct (get0 name (nc h) <? 1); reflexivity.
  - destruct (lookupZ name (tc h)) as [m|]; [|discriminate].
    destruct (m =? 0); [discriminate|]. intros H. injection H as _ _ <- _.
    destruct (m <? 1); reflexivity.
Qed.

(* the interval is never empty and, for a draw inside it, a unique reference is resolved
   exactly as a plain one *)
Lemma unique_target_as_plain h name nick table lo hi d :
  ref_range_sc h name false = Ok (nick, table, lo, hi) -> lo <= d <= hi ->
  random_ref h name d = resolve_draw h nick table d.
Proof.
  intros H Hd. rewrite ref_range_sc_local in H. unfold random_ref. rewrite H. cbn [bind].
  assert (E : (lo <=? d) && (d <=? hi) = true) by lia. rewrite E. reflexivity.
Qed.

Lemma nick_resolve_sound h name t d tbl i :
  resolve_draw h (Some name) t d = Ok (tbl, i) ->
  tbl = t /\ exists r, In r (hrows h) /\ h_table r = t /\ h_nick r = Some name /\ h_nid r = d /\ h_id r = i.
Proof.
  unfold resolve_draw. destruct (find_nick_row (hrows h) t name d) as [id|] eqn:Hf; [|discriminate].
  intros H. injection H as <- <-. split; [reflexivity|].
  destruct (find_nick_row_sound _ _ _ _ _ Hf) as (r & Hin & Ht & Hn & Hd & Hid). exists r. auto.
Qed.

Lemma Uinv_with_oracle u o prev em : Uinv u prev em -> Uinv (with_oracle u o) prev em.
Proof. intros [H1 H2 H3 H4 H5 H6 H7 H8]. constructor; assumption. Qed.

(* one next() that yields: bookkeeping of what this range has produced since its window began *)
Lemma next_step u0 prev em d u1 :
  Uinv u0 prev em ->
  Permutation prev (Zseq (u_start u0) (Z.to_nat (u_min u0 - u_start u0))) ->
  urr_next u0 = Ok (Some d, u1) ->
  exists prev' em',
    Uinv u1 prev' em' /\ u_start u1 = u_start u0 /\ u_cur_max u1 = u_cur_max u0 /\
    Permutation prev' (Zseq (u_start u1) (Z.to_nat (u_min u1 - u_start u1))) /\
    Permutation (prev' ++ em') ((prev ++ em) ++ [d]) /\
    ~ In d (prev ++ em) /\ u_start u0 <= d < u_cur_max u0.
Proof.
  intros I HP Hn.
  assert (Hgoal : exists prev' em',
    Uinv u1 prev' em' /\ u_start u1 = u_start u0 /\ u_cur_max u1 = u_cur_max u0 /\
    Permutation prev' (Zseq (u_start u1) (Z.to_nat (u_min u1 - u_start u1))) /\
    Permutation (prev' ++ em') ((prev ++ em) ++ [d])).
  { destruct (urr_next_inv _ _ _ _ _ I Hn) as
        [(v & Hv & I1 & Hs & Hm & Hc & _)|[(Hv & _)|(v & Hv & I1 & Hs & Hm & Hc & HPem)]];
      [injection Hv as <-|discriminate|injection Hv as <-].
    - exists prev, (em ++ [d]). splits; try assumption.
      + rewrite Hs, Hm. exact HP.
      + rewrite app_assoc. apply Permutation_refl.
    - exists (prev ++ em), [d]. splits; try assumption; [|apply Permutation_refl].
      rewrite Hs, Hm.
      pose proof (ui_lo _ _ _ I). pose proof (ui_min _ _ _ I).
      pose proof (ui_omax _ _ _ I). pose proof (ui_pos _ _ _ I).
      replace (Z.to_nat (u_orig_max u0 - u_start u0))
        with (Z.to_nat (u_min u0 - u_start u0) + Z.to_nat (u_orig_max u0 - u_min u0))%nat by lia.
      rewrite Zseq_app. apply Permutation_app; [assumption|].
      rewrite Z2Nat.id by lia. replace (u_start u0 + (u_min u0 - u_start u0)) with (u_min u0) by lia.
      exact HPem. }
  destruct Hgoal as (prev' & em' & I1 & Hs & Hc & HP1 & HA).
  exists prev', em'. splits; try assumption.
  - destruct (Uinv_all _ _ _ I1) as [Hnd _].
    apply (Permutation_NoDup HA) in Hnd. apply NoDup_remove_2 in Hnd. rewrite app_nil_r in Hnd. exact Hnd.
  - destruct (Uinv_all _ _ _ I1) as [_ Hall].
    assert (Hin : In d (prev' ++ em')).
    { apply (Permutation_in _ (Permutation_sym HA)). apply in_or_app. right. left. reflexivity. }
    apply Hall in Hin. pose proof (ui_cmax _ _ _ I1). lia.
  - destruct (Uinv_all _ _ _ I1) as [_ Hall].
    assert (Hin : In d (prev' ++ em')).
    { apply (Permutation_in _ (Permutation_sym HA)). apply in_or_app. right. left. reflexivity. }
    apply Hall in Hin. pose proof (ui_cmax _ _ _ I1). lia.
Qed.

(* one next() that stops: the whole window [start, cur_max) has been produced *)
Lemma next_stop u0 prev em u1 :
  Uinv u0 prev em ->
  Permutation prev (Zseq (u_start u0) (Z.to_nat (u_min u0 - u_start u0))) ->
  urr_next u0 = Ok (None, u1) ->
  Permutation (prev ++ em) (Zseq (u_start u0) (Z.to_nat (u_cur_max u0 - u_start u0))).
Proof.
  intros I HP Hn.
  destruct (urr_next_inv _ _ _ _ _ I Hn) as
      [(v & Hv & _)|[(_ & _ & _ & _ & _ & _ & Hcm & HPem)|(v & Hv & _)]]; try discriminate.
  pose proof (ui_lo _ _ _ I). pose proof (ui_min _ _ _ I).
  pose proof (ui_omax _ _ _ I). pose proof (ui_pos _ _ _ I).
  rewrite Hcm.
  replace (Z.to_nat (u_orig_max u0 - u_start u0))
    with (Z.to_nat (u_min u0 - u_start u0) + Z.to_nat (u_orig_max u0 - u_min u0))%nat by lia.
  rewrite Zseq_app. apply Permutation_app; [assumption|].
  rewrite Z2Nat.id by lia. replace (u_start u0 + (u_min u0 - u_start u0)) with (u_min u0) by lia.
  exact HPem.
Qed.

(* what a call site has drawn under its current parent row: [s_old] before its range last
   moved to a disjoint window, [s_cur] in the current window; the current window has been
   produced without gaps from its start up to [u_min] *)
Definition SiteInv (st : sitest) : Prop :=
  match s_ctx st with
  | None => s_old st = [] /\ s_cur st = []
  | Some u => exists prev em,
      Uinv u prev em /\
      Permutation prev (Zseq (u_start u) (Z.to_nat (u_min u - u_start u))) /\
      Permutation (s_cur st) (prev ++ em) /\
      NoDup (s_old st) /\ (forall v, In v (s_old st) -> v < u_start u)
  end.

Definition SitesInv (ss : sites) : Prop := forall s st, lookupN s ss = Some st -> SiteInv st.

Lemma SitesInv_nil : SitesInv [].
Proof. intros s st H. discriminate. Qed.

Lemma SiteInv_bounds st u :
  SiteInv st -> s_ctx st = Some u ->
  NoDup (s_cur st) /\ (forall v, In v (s_cur st) -> u_start u <= v < u_orig_max u) /\ u_start u < u_orig_max u.
Proof.
  unfold SiteInv. intros H E. rewrite E in H. destruct H as (prev & em & I & HP & HC & _).
  destruct (Uinv_all _ _ _ I) as [Hnd Hall]. splits.
  - apply (Permutation_NoDup (Permutation_sym HC)). exact Hnd.
  - intros v Hv. apply Hall. apply (Permutation_in _ HC). exact Hv.
  - pose proof (ui_lo _ _ _ I). pose proof (ui_min _ _ _ I).
    pose proof (ui_omax _ _ _ I). pose proof (ui_pos _ _ _ I). lia.
Qed.

Lemma SiteInv_nodup st : SiteInv st -> NoDup (s_old st ++ s_cur st).
Proof.
  intros H. destruct (s_ctx st) as [u|] eqn:E.
  - destruct (SiteInv_bounds _ _ H E) as (Hnd & Hr & _).
    unfold SiteInv in H. rewrite E in H. destruct H as (prev & em & _ & _ & _ & Hno & Hlt).
    apply NoDup_app_intro; [assumption|assumption|].
    intros x Hx Hx'. apply Hlt in Hx. apply Hr in Hx'. lia.
  - unfold SiteInv in H. rewrite E in H. destruct H as [-> ->]. constructor.
Qed.

Lemma lookupN_assign_same k v l : lookupN k (assignN k v l) = Some v.
Proof.
  induction l as [|[k' v'] r IH]; cbn [assignN lookupN].
  - rewrite Z.eqb_refl. reflexivity.
  - destruct (k =? k') eqn:E; cbn [lookupN]; rewrite ?Z.eqb_refl, ?E; auto.
Qed.

Lemma lookupN_assign_other k k2 v l : k2 <> k -> lookupN k2 (assignN k v l) = lookupN k2 l.
Proof.
  intros Hne. induction l as [|[k' v'] r IH]; cbn [assignN lookupN].
  - destruct (k2 =? k) eqn:E; [lia|reflexivity].
  - destruct (k =? k') eqn:E; cbn [lookupN].
    + assert (k' = k) by lia. subst k'. destruct (k2 =? k) eqn:E2; [lia|reflexivity].
    + destruct (k2 =? k'); auto.
Qed.

Lemma site_get_inv ss s p : SitesInv ss -> SiteInv (site_get ss s p).
Proof.
  intros H. unfold site_get. destruct (lookupN s ss) as [st|] eqn:E.
  - destruct (s_parent st =? p); [exact (H _ _ E)|split; reflexivity].
  - split; reflexivity.
Qed.

Lemma site_get_parent ss s p : s_parent (site_get ss s p) = p.
Proof.
  unfold site_get. destruct (lookupN s ss) as [st|]; [|reflexivity].
  destruct (s_parent st =? p) eqn:E; [lia|reflexivity].
Qed.

(* the step of one unique draw, seen from the call site that makes it *)
Lemma draw_ok st p po lo hi d u1 :
  SiteInv st ->
  unique_draw (option_map (fun u => with_oracle u po) (s_ctx st)) lo hi po = Ok (d, u1) ->
  lo <= d <= hi /\ ~ In d (s_old st ++ s_cur st) /\
  SiteInv (if uref_moves (s_ctx st) lo
           then mkSite p (Some u1) (s_old st ++ s_cur st) [d]
           else mkSite p (Some u1) (s_old st) (s_cur st ++ [d])).
Proof.
  intros HS H. unfold unique_draw in H.
  destruct (s_ctx st) as [u|] eqn:Ec; cbn [option_map uref_moves] in *.
  - (* the site has a range *)
    destruct (SiteInv_bounds _ _ HS Ec) as (Hcnd & Hcr & Hne).
    unfold SiteInv in HS. rewrite Ec in HS. destruct HS as (prev & em & I & HP & HC & Hno & Hlt).
    destruct (urr_set_new_range (with_oracle u po) lo (hi + 1)) as [u0|e] eqn:Es; [|discriminate].
    cbn [bind] in H.
    destruct (urr_next u0) as [[v u2]|e] eqn:En; [|discriminate]. cbn [bind] in H.
    destruct v as [x|]; [|discriminate]. injection H as -> ->.
    destruct (urr_set_inv _ _ _ _ _ _ (Uinv_with_oracle u po _ _ I) Es) as
        [(Hlo & I0 & Hs0 & Hm0 & Hc0 & _)|(Hne0 & Hle & I0 & Hs0 & Hm0 & Hc0)];
      change (u_start (with_oracle u po)) with (u_start u) in *;
      change (u_min (with_oracle u po)) with (u_min u) in *;
      change (u_orig_max (with_oracle u po)) with (u_orig_max u) in *.
    + (* same lower bound: the window is extended *)
      assert (E : (lo =? u_start u) = true) by lia. rewrite E. cbn [negb].
      assert (HP0 : Permutation prev (Zseq (u_start u0) (Z.to_nat (u_min u0 - u_start u0))))
        by (rewrite Hs0, Hm0; exact HP).
      destruct (next_step _ _ _ _ _ I0 HP0 En) as (prev' & em' & I1 & Hs1 & Hc1 & HP1 & HA & Hnin & Hrange).
      splits; [lia|lia| |].
      * intros Hin. apply in_app_or in Hin. destruct Hin as [Hin|Hin].
        -- apply Hlt in Hin. lia.
        -- apply Hnin. apply (Permutation_in _ HC). exact Hin.
      * unfold SiteInv. cbn [s_ctx s_old s_cur]. exists prev', em'. splits; try assumption.
        -- apply (Permutation_trans (Permutation_app_tail [d] HC)). apply Permutation_sym. exact HA.
        -- intros v Hv. apply Hlt in Hv. lia.
    + (* another lower bound: the window moves above everything produced so far *)
      assert (E : (lo =? u_start u) = false) by lia. rewrite E. cbn [negb].
      assert (HP0 : Permutation [] (Zseq (u_start u0) (Z.to_nat (u_min u0 - u_start u0)))).
      { rewrite Hs0, Hm0. replace (lo - lo) with 0 by lia. constructor. }
      destruct (next_step _ _ _ _ _ I0 HP0 En) as (prev' & em' & I1 & Hs1 & Hc1 & HP1 & HA & Hnin & Hrange).
      cbn [app] in HA.
      assert (Hbelow : forall v, In v (s_old st ++ s_cur st) -> v < lo).
      { intros v Hv. apply in_app_or in Hv. destruct Hv as [Hv|Hv].
        - apply Hlt in Hv. lia.
        - apply Hcr in Hv. lia. }
      splits; [lia|lia| |].
      * intros Hin. apply Hbelow in Hin. lia.
      * unfold SiteInv. cbn [s_ctx s_old s_cur]. exists prev', em'. splits; try assumption.
        -- apply Permutation_sym. exact HA.
        -- apply NoDup_app_intro; [assumption|assumption|].
           intros x Hx Hx'. apply Hlt in Hx. apply Hcr in Hx'. lia.
        -- intros v Hv. apply Hbelow in Hv. lia.
  - (* first use (or first use under a new parent row): a fresh range *)
    unfold SiteInv in HS. rewrite Ec in HS. destruct HS as [Ho Hc]. rewrite Ho, Hc. cbn [app].
    destruct (urr_init lo (hi + 1) po) as [u0|e] eqn:Ei; [|discriminate]. cbn [bind] in H.
    destruct (urr_next u0) as [[v u2]|e] eqn:En; [|discriminate]. cbn [bind] in H.
    destruct v as [x|]; [|discriminate]. injection H as -> ->.
    destruct (urr_init_inv _ _ _ _ Ei) as (I0 & Hs0 & Hm0 & Hc0).
    assert (HP0 : Permutation [] (Zseq (u_start u0) (Z.to_nat (u_min u0 - u_start u0)))).
    { rewrite Hs0, Hm0. replace (lo - lo) with 0 by lia. constructor. }
    destruct (next_step _ _ _ _ _ I0 HP0 En) as (prev' & em' & I1 & Hs1 & Hc1 & HP1 & HA & Hnin & Hrange).
    cbn [app] in HA.
    splits; [lia|lia|intros []|].
    unfold SiteInv. cbn [s_ctx s_old s_cur]. exists prev', em'. splits; try assumption.
    + apply Permutation_sym. exact HA.
    + constructor.
    + intros v [].
Qed.

(* the errors of the range object are never a DataGenError *)
Definition is_dge (e : err) : bool := match e with DGE _ => true | _ => false end.

Lemma gen_next_err fuel : forall g e, gen_next fuel g = Err e -> is_dge e = false.
Proof.
  induction fuel as [|n IH]; intros g e H; cbn [gen_next] in H.
  - injection H as <-. reflexivity.
  - destruct (g_found g <? g_size g); [|discriminate].
    destruct (g_value g <? g_size g); [discriminate|]. exact (IH _ _ H).
Qed.

Lemma new_gen_err a b v o e : new_gen a b v o = Err e -> is_dge e = false.
Proof.
  unfold new_gen. destruct (b - a <? 0); [intros H; injection H as <-; reflexivity|].
  destruct (negb _); [intros H; injection H as <-; reflexivity|discriminate].
Qed.

Lemma urr_next_err u e : urr_next u = Err e -> is_dge e = false.
Proof.
  unfold urr_next, force. intros H.
  destruct (u_gen u) as [a b|g].
  - destruct (u_oracle u) as [|[v0 o0] rest]; [injection H as <-; reflexivity|].
    destruct (new_gen a b v0 o0) as [g1|e1] eqn:Hn; cbn [bind] in H;
      [|injection H as <-; exact (new_gen_err _ _ _ _ _ Hn)].
    destruct (gen_next (gen_fuel g1) g1) as [[[v g']|]|e1] eqn:Hg; cbn [bind] in H;
      [discriminate| |injection H as <-; exact (gen_next_err _ _ _ Hg)].
    destruct (u_cur_max u <=? u_orig_max u); [discriminate|].
    destruct rest as [|[v1 o1] rest']; [injection H as <-; reflexivity|].
    destruct (new_gen (u_orig_max u) (u_cur_max u) v1 o1) as [g2|e2] eqn:Hn2; cbn [bind] in H;
      [|injection H as <-; exact (new_gen_err _ _ _ _ _ Hn2)].
    destruct (gen_next (gen_fuel g2) g2) as [[[v g']|]|e2] eqn:Hg2; cbn [bind] in H;
      [discriminate|discriminate|injection H as <-; exact (gen_next_err _ _ _ Hg2)].
  - cbn [bind] in H.
    destruct (gen_next (gen_fuel g) g) as [[[v g']|]|e1] eqn:Hg; cbn [bind] in H;
      [discriminate| |injection H as <-; exact (gen_next_err _ _ _ Hg)].
    destruct (u_cur_max u <=? u_orig_max u); [discriminate|].
    destruct (u_oracle u) as [|[v1 o1] rest']; [injection H as <-; reflexivity|].
    destruct (new_gen (u_orig_max u) (u_cur_max u) v1 o1) as [g2|e2] eqn:Hn2; cbn [bind] in H;
      [|injection H as <-; exact (new_gen_err _ _ _ _ _ Hn2)].
    destruct (gen_next (gen_fuel g2) g2) as [[[v g']|]|e2] eqn:Hg2; cbn [bind] in H;
      [discriminate|discriminate|injection H as <-; exact (gen_next_err _ _ _ Hg2)].
Qed.

Lemma urr_set_err u a b e : urr_set_new_range u a b = Err e -> is_dge e = false.
Proof.
  unfold urr_set_new_range, set_immediately, assertion.
  repeat match goal with |- context [if ?c then _ else _] => destruct c end;
    intros H; try discriminate; injection H as <-; reflexivity.
Qed.

Lemma urr_init_err a b o e : urr_init a b o = Err e -> is_dge e = false.
Proof.
  unfold urr_init, set_immediately, assertion.
  repeat match goal with |- context [if ?c then _ else _] => destruct c end;
    intros H; try discriminate; injection H as <-; reflexivity.
Qed.

(* a refusal ("Cannot find an unused ...") happens only when this site has itself produced
   every number of the interval it asks for, in its current window *)
Lemma draw_refused st po lo hi :
  SiteInv st ->
  unique_draw (option_map (fun u => with_oracle u po) (s_ctx st)) lo hi po = Err (DGE "no-unused-target") ->
  Permutation (s_cur st) (Zseq lo (Z.to_nat (hi + 1 - lo))).
Proof.
  intros HS H. unfold unique_draw in H.
  assert (Hfresh : forall u0 u2, Uinv u0 [] [] -> u_min u0 = u_start u0 ->
                    urr_next u0 = Ok (None, u2) -> False).
  { intros u0 u2 I0 Hm En.
    assert (HP0 : Permutation [] (Zseq (u_start u0) (Z.to_nat (u_min u0 - u_start u0)))).
    { rewrite Hm. replace (u_start u0 - u_start u0) with 0 by lia. constructor. }
    pose proof (next_stop _ _ _ _ I0 HP0 En) as HPe. cbn [app] in HPe.
    apply Permutation_length in HPe. rewrite Zseq_length in HPe. cbn [length] in HPe.
    pose proof (ui_lo _ _ _ I0). pose proof (ui_min _ _ _ I0). pose proof (ui_cmax _ _ _ I0).
    pose proof (ui_omax _ _ _ I0). pose proof (ui_pos _ _ _ I0). lia. }
  destruct (s_ctx st) as [u|] eqn:Ec; cbn [option_map] in *.
  - unfold SiteInv in HS. rewrite Ec in HS. destruct HS as (prev & em & I & HP & HC & Hno & Hlt).
    destruct (urr_set_new_range (with_oracle u po) lo (hi + 1)) as [u0|e] eqn:Es; cbn [bind] in H.
    2:{ injection H as ->. apply urr_set_err in Es. discriminate. }
    destruct (urr_next u0) as [[v u2]|e] eqn:En; cbn [bind] in H.
    2:{ injection H as ->. apply urr_next_err in En. discriminate. }
    destruct v as [x|]; [discriminate|].
    destruct (urr_set_inv _ _ _ _ _ _ (Uinv_with_oracle u po _ _ I) Es) as
        [(Hlo & I0 & Hs0 & Hm0 & Hc0 & _)|(Hne0 & Hle & I0 & Hs0 & Hm0 & Hc0)];
      change (u_start (with_oracle u po)) with (u_start u) in *;
      change (u_min (with_oracle u po)) with (u_min u) in *;
      change (u_orig_max (with_oracle u po)) with (u_orig_max u) in *.
    + assert (HP0 : Permutation prev (Zseq (u_start u0) (Z.to_nat (u_min u0 - u_start u0))))
        by (rewrite Hs0, Hm0; exact HP).
      pose proof (next_stop _ _ _ _ I0 HP0 En) as HPe. rewrite Hs0, Hc0, <- Hlo in HPe.
      exact (Permutation_trans HC HPe).
    + exfalso. apply (Hfresh u0 u2 I0); [lia|exact En].
  - destruct (urr_init lo (hi + 1) po) as [u0|e] eqn:Ei; cbn [bind] in H.
    2:{ injection H as ->. apply urr_init_err in Ei. discriminate. }
    destruct (urr_next u0) as [[v u2]|e] eqn:En; cbn [bind] in H.
    2:{ injection H as ->. apply urr_next_err in En. discriminate. }
    destruct v as [x|]; [discriminate|].
    destruct (urr_init_inv _ _ _ _ Ei) as (I0 & Hs0 & Hm0 & Hc0).
    exfalso. apply (Hfresh u0 u2 I0); [lia|exact En].
Qed.

Lemma mstep_uref_range h ss orc s p name glob r :
  mstep_uref h ss orc s p name glob = Ok r ->
  exists nick table lo hi, ref_range_sc h name glob = Ok (nick, table, lo, hi).
Proof.
  unfold mstep_uref. destruct (ref_range_sc h name glob) as [[[[nick table] lo] hi]|e]; [|discriminate].
  intros _. eauto.
Qed.

(* One unique reference evaluated at call site s under parent row p: the number it draws lies
   in the interval the row history asks for NOW, was never drawn by this call site under this
   parent row before, is recorded for this site, and no other call site is touched. *)
Theorem site_step h ss orc s p name glob nick table lo hi t i ss' orc' :
  SitesInv ss ->
  ref_range_sc h name glob = Ok (nick, table, lo, hi) ->
  mstep_uref h ss orc s p name glob = Ok (t, i, ss', orc') ->
  exists d st',
    lo <= d <= hi /\ resolve_draw h nick table d = Ok (t, i) /\
    ~ In d (s_old (site_get ss s p) ++ s_cur (site_get ss s p)) /\
    lookupN s ss' = Some st' /\ s_parent st' = p /\
    s_old st' ++ s_cur st' = (s_old (site_get ss s p) ++ s_cur (site_get ss s p)) ++ [d] /\
    (forall s', s' <> s -> lookupN s' ss' = lookupN s' ss) /\
    SitesInv ss'.
Proof.
  intros HI Hr H. unfold mstep_uref in H. rewrite Hr in H. cbn [bind] in H.
  set (st := site_get ss s p) in *.
  destruct (unique_draw (option_map (fun u => with_oracle u (pair_up orc)) (s_ctx st)) lo hi (pair_up orc))
    as [[d u1]|e] eqn:Ed; [|discriminate]. cbn [bind] in H.
  destruct (resolve_draw h nick table d) as [r|e] eqn:Er; [|discriminate]. cbn [bind] in H.
  injection H as -> <- _.
  destruct (draw_ok st p _ _ _ _ _ (site_get_inv ss s p HI) Ed) as (Hd & Hnin & HS).
  set (st' := if uref_moves (s_ctx st) lo
              then mkSite p (Some u1) (s_old st ++ s_cur st) [d]
              else mkSite p (Some u1) (s_old st) (s_cur st ++ [d])) in *.
  exists d, st'. split; [exact Hd|]. split; [exact Er|]. split; [exact Hnin|].
  split; [|split; [|split; [|split]]].
  - apply lookupN_assign_same.
  - unfold st'. destruct (uref_moves (s_ctx st) lo); reflexivity.
  - unfold st'. destruct (uref_moves (s_ctx st) lo); cbn [s_old s_cur]; [reflexivity|apply app_assoc].
  - intros s' Hne. apply lookupN_assign_other. exact Hne.
  - intros s0 st0 Hl. destruct (Z.eq_dec s0 s) as [->|Hne].
    + rewrite lookupN_assign_same in Hl. injection Hl as <-. exact HS.
    + rewrite lookupN_assign_other in Hl by exact Hne. exact (HI _ _ Hl).
Qed.

(* "Cannot find an unused ..." is raised at a call site only when that very call site, under
   the current parent row and in its current window, has used EVERY number of the interval *)
Theorem site_refused h ss orc s p name glob nick table lo hi :
  SitesInv ss ->
  ref_range_sc h name glob = Ok (nick, table, lo, hi) ->
  mstep_uref h ss orc s p name glob = Err (DGE "no-unused-target") ->
  Permutation (s_cur (site_get ss s p)) (Zseq lo (Z.to_nat (hi + 1 - lo))).
Proof.
  intros HI Hr H. unfold mstep_uref in H. rewrite Hr in H. cbn [bind] in H.
  set (st := site_get ss s p) in *.
  destruct (unique_draw (option_map (fun u => with_oracle u (pair_up orc)) (s_ctx st)) lo hi (pair_up orc))
    as [[d u1]|e] eqn:Ed; cbn [bind] in H.
  - destruct (resolve_draw h nick table d) as [r|e] eqn:Er; cbn [bind] in H; [discriminate|].
    exfalso. unfold resolve_draw in Er. destruct nick as [n|]; [|discriminate].
    destruct (find_nick_row (hrows h) table n d); [discriminate|]. congruence.
  - injection H as ->. exact (draw_refused st _ _ _ (site_get_inv ss s p HI) Ed).
Qed.

(* the invariant holds along every run of every script *)
Lemma mstep_inv m op o m1 :
  SitesInv (m_sites m) -> mstep m op = (o, Some m1) -> SitesInv (m_sites m1).
Proof.
  intros HI H. destruct op as [t n i| |name glob|s p name glob]; cbn [mstep] in H.
  - injection H as _ <-. exact HI.
  - injection H as _ <-. exact HI.
  - destruct (mstep_ref (m_h m) name glob (m_orc m)) as [res orc']. injection H as _ <-. exact HI.
  - destruct (mstep_uref (m_h m) (m_sites m) (m_orc m) s p name glob) as [[[[t i] ss'] orc']|e] eqn:E;
      [|discriminate].
    injection H as _ <-. cbn [m_sites].
    destruct (mstep_uref_range _ _ _ _ _ _ _ _ E) as (nick & table & lo & hi & Hr).
    destruct (site_step _ _ _ _ _ _ _ _ _ _ _ _ _ _ _ HI Hr E) as (d & st' & _ & _ & _ & _ & _ & _ & _ & HI').
    exact HI'.
Qed.

Theorem mrun_inv ops : forall m, SitesInv (m_sites m) -> SitesInv (m_sites (snd (mrun m ops))).
Proof.
  induction ops as [|op ops IH]; intros m HI; cbn [mrun]; [exact HI|].
  destruct (mstep m op) as [o [m1|]] eqn:E; [|exact HI].
  specialize (IH m1 (mstep_inv _ _ _ _ HI E)).
  destruct (mrun m1 ops) as [os m2]. exact IH.
Qed.

(* whatever the script and the draws: at the end no call site has drawn a number twice under
   its current parent row *)
Theorem sites_never_repeat counters names orc ops s st :
  lookupN s (m_sites (snd (mrun (mkM (rh_init counters names) [] orc) ops))) = Some st ->
  NoDup (s_old st ++ s_cur st).
Proof.
  intros H. apply SiteInv_nodup.
  exact (mrun_inv ops (mkM (rh_init counters names) [] orc) SitesInv_nil _ _ H).
Qed.

(* ---------------------------------------------------------------- the lifetime of a scope (round 4)
   The entry of a call site lives as long as its parent row is the same row: saves, plain
   references, unique references at other call sites and - above all - iteration ends (MReset)
   neither remove it nor shorten what it remembers; it is replaced only when this very call
   site is evaluated under a different parent row.                                            *)
Definition keeps_parent (s p : Z) (op : mop) : Prop :=
  match op with MURef s' p' _ _ => s' = s -> p' = p | _ => True end.

Lemma site_get_same ss s p st : lookupN s ss = Some st -> s_parent st = p -> site_get ss s p = st.
Proof.
  intros Hl Hp. unfold site_get. rewrite Hl.
  destruct (s_parent st =? p) eqn:E; [reflexivity|lia].
Qed.

Lemma scope_step m op o m1 s p st :
  SitesInv (m_sites m) -> mstep m op = (o, Some m1) -> keeps_parent s p op ->
  lookupN s (m_sites m) = Some st -> s_parent st = p ->
  exists st' l, lookupN s (m_sites m1) = Some st' /\ s_parent st' = p /\
                s_old st' ++ s_cur st' = (s_old st ++ s_cur st) ++ l.
Proof.
  intros HI H Hk Hl Hp.
  destruct op as [t n i| |name glob|s' p' name glob]; cbn [mstep] in H.
  - injection H as _ <-. exists st, []. rewrite app_nil_r. auto.
  - injection H as _ <-. exists st, []. rewrite app_nil_r. auto.
  - destruct (mstep_ref (m_h m) name glob (m_orc m)) as [res orc']. injection H as _ <-.
    exists st, []. rewrite app_nil_r. auto.
  - destruct (mstep_uref (m_h m) (m_sites m) (m_orc m) s' p' name glob) as [[[[t i] ss'] orc']|e] eqn:E;
      [|discriminate].
    injection H as _ <-. cbn [m_sites].
    destruct (mstep_uref_range _ _ _ _ _ _ _ _ E) as (nick & table & lo & hi & Hr).
    destruct (site_step _ _ _ _ _ _ _ _ _ _ _ _ _ _ _ HI Hr E)
      as (d & st' & _ & _ & _ & Hl' & Hp' & Hlist & Hoth & _).
    destruct (Z.eq_dec s' s) as [->|Hne].
    + cbn [keeps_parent] in Hk. specialize (Hk eq_refl). subst p'.
      rewrite (site_get_same _ _ _ _ Hl Hp) in Hlist.
      exists st', [d]. auto.
    + exists st, []. rewrite app_nil_r. rewrite (Hoth s) by (intro; apply Hne; congruence). auto.
Qed.

Theorem scope_outlives_iterations ops : forall m s p st,
  SitesInv (m_sites m) -> Forall (keeps_parent s p) ops ->
  lookupN s (m_sites m) = Some st -> s_parent st = p ->
  exists st' l, lookupN s (m_sites (snd (mrun m ops))) = Some st' /\ s_parent st' = p /\
                s_old st' ++ s_cur st' = (s_old st ++ s_cur st) ++ l /\
                NoDup (s_old st' ++ s_cur st').
Proof.
  induction ops as [|op ops IH]; intros m s p st HI Hall Hl Hp; subst p; cbn [mrun].
  - exists st, []. rewrite app_nil_r. cbn [snd]. repeat split; auto. apply SiteInv_nodup. exact (HI _ _ Hl).
  - inversion Hall as [|? ? Hk Hrest]; subst.
    pose proof (eq_refl (s_parent st)) as Hp.
    destruct (mstep m op) as [o [m1|]] eqn:E.
    + destruct (scope_step _ _ _ _ _ _ _ HI E Hk Hl Hp) as (st1 & l1 & Hl1 & Hp1 & Hlist1).
      destruct (IH m1 s (s_parent st) st1 (mstep_inv _ _ _ _ HI E) Hrest Hl1 Hp1)
        as (st2 & l2 & Hl2 & Hp2 & Hlist2 & Hnd).
      destruct (mrun m1 ops) as [os m2]. cbn [snd] in *.
      exists st2, (l1 ++ l2). repeat split; auto.
      rewrite Hlist2, Hlist1. rewrite app_assoc. reflexivity.
    + cbn [snd]. exists st, []. rewrite app_nil_r. repeat split; auto. apply SiteInv_nodup. exact (HI _ _ Hl).
Qed.

(* an iteration end touches the row history only: the table of call sites is handed on as is *)
Lemma reset_keeps_sites m :
  mstep m MReset = (ONone, Some (mkM (reset_locals (m_h m)) (m_sites m) (m_orc m))).
Proof. reflexivity. Qed.

(* ================================================================ `parent:` naming a plain VALUE (round 5)

   get_contextual_state resolves `parent:` with field_vars().get(parent): the parent may be an object row or any
   value a recipe computes (a field of the row being built, a variable).  The stored parent is compared with `!=`,
   so the token s_parent stands for the CLASS OF EQUAL parent values (for object rows, which have no __eq__: the
   row itself), never for the Python object that happens to carry the value.                                    *)

Lemma site_get_other ss s p st :
  lookupN s ss = Some st -> s_parent st <> p -> site_get ss s p = mkSite p None [] [].
Proof.
  intros Hl Hp. unfold site_get. rewrite Hl. destruct (s_parent st =? p) eqn:E; [lia|reflexivity].
Qed.

(* a successful unique reference leaves the call site's entry under the parent it was evaluated under *)
Lemma uref_sets_parent h ss orc s p' name glob r ss' orc' :
  mstep_uref h ss orc s p' name glob = Ok (r, ss', orc') ->
  exists st', lookupN s ss' = Some st' /\ s_parent st' = p'.
Proof.
  intros H. unfold mstep_uref in H.
  destruct (ref_range_sc h name glob) as [[[[nick table] lo] hi]|e]; [|discriminate]. cbn [bind] in H.
  set (st := site_get ss s p') in *.
  destruct (unique_draw (option_map (fun u => with_oracle u (pair_up orc)) (s_ctx st)) lo hi (pair_up orc))
    as [[d u1]|e]; [|discriminate]. cbn [bind] in H.
  destruct (resolve_draw h nick table d) as [r0|e]; [|discriminate]. cbn [bind] in H.
  injection H as _ <- _.
  eexists. split; [apply lookupN_assign_same|]. destruct (uref_moves (s_ctx st) lo); reflexivity.
Qed.

Theorem scope_keyed_by_parent_value :
  (forall ss s p st, lookupN s ss = Some st -> s_parent st = p -> site_get ss s p = st) /\
  (forall h ss orc s p' name glob r ss' orc' p,
     mstep_uref h ss orc s p' name glob = Ok (r, ss', orc') -> p <> p' ->
     site_get ss' s p = mkSite p None [] []).
Proof.
  split; [exact site_get_same|].
  intros h ss orc s p' name glob r ss' orc' p H Hne.
  destruct (uref_sets_parent _ _ _ _ _ _ _ _ _ _ H) as (st' & Hl & Hp).
  apply (site_get_other _ _ _ _ Hl). congruence.
Qed.

(* the outcome at a call site is a function of the row history, of THAT site's entry and of
   the random stream: the entries of other call sites are neither read nor (site_step) written *)
Theorem site_outcome_local h ss1 ss2 orc s p name glob :
  site_get ss1 s p = site_get ss2 s p ->
  match mstep_uref h ss1 orc s p name glob, mstep_uref h ss2 orc s p name glob with
  | Ok (r1, ss1', o1), Ok (r2, ss2', o2) => r1 = r2 /\ o1 = o2 /\ lookupN s ss1' = lookupN s ss2'
  | Err e1, Err e2 => e1 = e2
  | _, _ => False
  end.
Proof.
  intros H. unfold mstep_uref. rewrite H.
  destruct (ref_range_sc h name glob) as [[[[nick table] lo] hi]|e]; cbn [bind]; [|reflexivity].
  destruct (unique_draw _ lo hi (pair_up orc)) as [[d u1]|e]; cbn [bind]; [|reflexivity].
  destruct (resolve_draw h nick table d) as [r|e]; cbn [bind]; [|reflexivity].
  split; [reflexivity|]. split; [reflexivity|]. rewrite !lookupN_assign_same. reflexivity.
Qed.

(* ------------------------------------------------------------------ numbers and rows *)

(* the history never holds two rows with the same table and id (sqlite: id ... UNIQUE) *)
Definition IdsUnique (h : rh) : Prop :=
  forall r1 r2, In r1 (hrows h) -> In r2 (hrows h) ->
    h_table r1 = h_table r2 -> h_id r1 = h_id r2 -> r1 = r2.

Lemma IdsUnique_init counters names : IdsUnique (rh_init counters names).
Proof. intros r1 r2 []. Qed.

Lemma IdsUnique_reset h : IdsUnique h -> IdsUnique (reset_locals h).
Proof. intros H. exact H. Qed.

Lemma IdsUnique_save h t n i :
  IdsUnique h -> (forall r, In r (hrows h) -> h_table r = t -> h_id r <> i) ->
  IdsUnique (save_row h t n i).
Proof.
  intros HU Hfresh r1 r2 H1 H2 Ht Hi.
  assert (Hrows : exists r0, hrows (save_row h t n i) = hrows h ++ [r0] /\ h_table r0 = t /\ h_id r0 = i).
  { unfold save_row. destruct n; cbn [hrows]; eexists; (split; [reflexivity|split; reflexivity]). }
  destruct Hrows as (r0 & E & Ht0 & Hi0). rewrite E in H1, H2.
  apply in_app_or in H1. apply in_app_or in H2.
  destruct H1 as [H1|[<-|[]]]; destruct H2 as [H2|[<-|[]]].
  - exact (HU _ _ H1 H2 Ht Hi).
  - exfalso. apply (Hfresh r1 H1); congruence.
  - exfalso. apply (Hfresh r2 H2); congruence.
  - reflexivity.
Qed.

(* by nickname: two different numbers never name the same row, so "no number twice" is
   "no row twice" (by table name the row id IS the number) *)
Theorem nick_numbers_name_distinct_rows h n t d1 d2 tbl i :
  IdsUnique h ->
  resolve_draw h (Some n) t d1 = Ok (tbl, i) -> resolve_draw h (Some n) t d2 = Ok (tbl, i) -> d1 = d2.
Proof.
  intros HU H1 H2.
  destruct (nick_resolve_sound _ _ _ _ _ _ H1) as (_ & r1 & Hin1 & Ht1 & _ & Hd1 & Hi1).
  destruct (nick_resolve_sound _ _ _ _ _ _ H2) as (_ & r2 & Hin2 & Ht2 & _ & Hd2 & Hi2).
  assert (r1 = r2) by (apply HU; congruence). subst r2. congruence.
Qed.
