(* RowHistoryP.v — proofs about the model of row_history.py (property C10). *)
From Coq Require Import ZArith List Lia Bool Permutation ZifyBool.
From SFV Require Import Base RandRange RowHistory.
From SFV.P Require Import BaseP LcgP RandRangeP.
Import ListNotations. Open Scope Z_scope.

Ltac splits := repeat match goal with |- _ /\ _ => split end.

Lemma lookupZ_assign_same k v l : lookupZ k (assignZ k v l) = Some v.
Proof.
  induction l as [|[k' v'] r IH]; cbn [assignZ lookupZ].
  - rewrite String.eqb_refl. reflexivity.
  - destruct (String.eqb k k') eqn:E; cbn [lookupZ]; rewrite ?String.eqb_refl, ?E; auto.
Qed.

Lemma lookupZ_assign_other k k2 v l : k2 <> k -> lookupZ k2 (assignZ k v l) = lookupZ k2 l.
Proof.
  intros Hne. induction l as [|[k' v'] r IH]; cbn [assignZ lookupZ].
  - destruct (String.eqb k2 k) eqn:E; [apply String.eqb_eq in E; contradiction|reflexivity].
  - destruct (String.eqb k k') eqn:E; cbn [lookupZ].
    + apply String.eqb_eq in E. subst k'.
      destruct (String.eqb k2 k) eqn:E2; [apply String.eqb_eq in E2; contradiction|reflexivity].
    + destruct (String.eqb k2 k'); auto.
Qed.

Lemma get0_assign k k2 v l : get0 k2 (assignZ k v l) = if String.eqb k2 k then v else get0 k2 l.
Proof.
  unfold get0. destruct (String.eqb k2 k) eqn:E.
  - apply String.eqb_eq in E. subst. rewrite lookupZ_assign_same. reflexivity.
  - rewrite lookupZ_assign_other; [reflexivity|]. intros ->. rewrite String.eqb_refl in E. discriminate.
Qed.

(* ------------------------------------------------------------------ nickname ordinals are dense *)

Definition NickInv (h : rh) : Prop :=
  forall n,
    0 <= get0 n (nc h) /\
    (forall d, 1 <= d <= get0 n (nc h) ->
       exists r, In r (hrows h) /\ h_nick r = Some n /\ h_nid r = d) /\
    (forall r, In r (hrows h) -> h_nick r = Some n -> 1 <= h_nid r <= get0 n (nc h)).

Lemma NickInv_init counters names : NickInv (rh_init counters names).
Proof.
  intros n. unfold rh_init, get0. cbn [nc hrows lookupZ]. splits; [lia|intros; lia|intros r []].
Qed.

Lemma NickInv_reset h : NickInv h -> NickInv (reset_locals h).
Proof. intros H n. exact (H n). Qed.

Lemma NickInv_save h t nick i : NickInv h -> NickInv (save_row h t nick i).
Proof.
  intros H n. destruct (H n) as (H0 & H1 & H2). unfold save_row. destruct nick as [m|]; cbn [nc hrows].
  - rewrite get0_assign. destruct (String.eqb n m) eqn:E.
    + apply String.eqb_eq in E. subst m. splits; [lia| |].
      * intros d Hd. destruct (Z.eq_dec d (get0 n (nc h) + 1)) as [->|Hne].
        -- eexists. split; [apply in_or_app; right; left; reflexivity|]. cbn. auto.
        -- destruct (H1 d ltac:(lia)) as (r & Hr & Hn & Hd'). exists r. split; [apply in_or_app; auto|auto].
      * intros r Hr Hn. apply in_app_or in Hr. destruct Hr as [Hr|[<-|[]]].
        -- specialize (H2 r Hr Hn). lia.
        -- cbn [h_nid]. lia.
    + splits; [exact H0| |].
      * intros d Hd. destruct (H1 d Hd) as (r & Hr & Hn & Hd'). exists r. split; [apply in_or_app; auto|auto].
      * intros r Hr Hn. apply in_app_or in Hr. destruct Hr as [Hr|[<-|[]]]; [auto|].
        cbn [h_nick] in Hn. injection Hn as ->. rewrite String.eqb_refl in E. discriminate.
  - splits; [exact H0| |].
    + intros d Hd. destruct (H1 d Hd) as (r & Hr & Hn & Hd'). exists r. split; [apply in_or_app; auto|auto].
    + intros r Hr Hn. apply in_app_or in Hr. destruct Hr as [Hr|[<-|[]]]; [auto|]. discriminate.
Qed.

(* every saved row under nickname n belongs to the table the nickname is declared for *)
Definition NickTables (h : rh) : Prop :=
  forall r n, In r (hrows h) -> h_nick r = Some n ->
    match lookupS n (n2t h) with Some t => h_table r = t | None => True end.

Lemma find_nick_row_sound rows table nick d i :
  find_nick_row rows table nick d = Some i ->
  exists r, In r rows /\ h_table r = table /\ h_nick r = Some nick /\ h_nid r = d /\ h_id r = i.
Proof.
  induction rows as [|r rest IH]; cbn [find_nick_row]; [discriminate|].
  destruct (String.eqb (h_table r) table && _ && (h_nid r =? d)) eqn:E.
  - intros H. injection H as <-. apply andb_true_iff in E. destruct E as [E E3].
    apply andb_true_iff in E. destruct E as [E1 E2].
    exists r. splits; [left; reflexivity|apply String.eqb_eq; exact E1| |lia|reflexivity].
    destruct (h_nick r) as [m|]; [|discriminate]. apply String.eqb_eq in E2. congruence.
  - intros H. destruct (IH H) as (r' & Hin & Hrest). exists r'. split; [right; exact Hin|exact Hrest].
Qed.

Lemma find_nick_row_complete rows table nick d :
  (exists r, In r rows /\ h_table r = table /\ h_nick r = Some nick /\ h_nid r = d) ->
  exists i, find_nick_row rows table nick d = Some i.
Proof.
  induction rows as [|r rest IH]; intros (r0 & Hin & Ht & Hn & Hd); [destruct Hin|].
  cbn [find_nick_row].
  destruct (String.eqb (h_table r) table && _ && (h_nid r =? d)) eqn:E; [eauto|].
  destruct Hin as [<-|Hin]; [|apply IH; eauto].
  rewrite Ht, Hn, Hd, !String.eqb_refl, Z.eqb_refl in E. discriminate.
Qed.

(* ------------------------------------------------------------------ random_reference: nickname case *)

(* A reference by nickname always succeeds (for a draw inside the requested interval) and
   returns a row that was saved under that nickname, in the nickname's table. *)
Theorem nick_ref_sound h name t d tbl i :
  NickInv h -> lookupS name (n2t h) = Some t ->
  random_ref h name d = Ok (tbl, i) ->
  tbl = t /\ exists r, In r (hrows h) /\ h_table r = t /\ h_nick r = Some name /\ h_id r = i.
Proof.
  intros HI Hl H. unfold random_ref, ref_range in H. rewrite Hl in H.
  destruct (get0 name (nc h) =? 0); [discriminate|]. cbn [bind] in H.
  destruct (_ && _); [|discriminate]. unfold resolve_draw in H.
  destruct (find_nick_row (hrows h) t name d) as [id|] eqn:Hf; [|discriminate].
  injection H as <- <-. split; [reflexivity|].
  destruct (find_nick_row_sound _ _ _ _ _ Hf) as (r & Hin & Ht & Hn & _ & Hid). exists r. auto.
Qed.

Theorem nick_ref_total h name t :
  NickInv h -> NickTables h -> lookupS name (n2t h) = Some t ->
  get0 name (nc h) <> 0 -> 0 <= get0 name (lnc h) ->
  exists lo hi, ref_range h name = Ok (Some name, t, lo, hi) /\ 1 <= lo <= hi /\ hi = get0 name (nc h) /\
    forall d, lo <= d <= hi -> exists i, random_ref h name d = Ok (t, i).
Proof.
  intros HI HT Hl Hnz Hlc. destruct (HI name) as (H0 & H1 & _).
  unfold ref_range. rewrite Hl. destruct (get0 name (nc h) =? 0) eqn:E; [lia|].
  set (m := get0 name (nc h)) in *. set (min0 := get0 name (lnc h) + 1).
  exists (if m <? min0 then 1 else min0), m.
  assert (Hb : 1 <= (if m <? min0 then 1 else min0) <= m).
  { unfold min0. destruct (m <? get0 name (lnc h) + 1) eqn:E2; lia. }
  split; [reflexivity|]. split; [exact Hb|]. split; [reflexivity|].
  intros d Hd. unfold random_ref, ref_range. rewrite Hl. fold m. rewrite E. cbn [bind]. fold min0.
  assert (Hr : ((if m <? min0 then 1 else min0) <=? d) && (d <=? m) = true) by lia.
  rewrite Hr. unfold resolve_draw.
  destruct (H1 d ltac:(lia)) as (r & Hin & Hn & Hnid).
  pose proof (HT r name Hin Hn) as Htab. rewrite Hl in Htab.
  destruct (find_nick_row_complete (hrows h) t name d) as (i & Hi); [exists r; auto|].
  rewrite Hi. eauto.
Qed.

(* ------------------------------------------------------------------ random_reference: table case *)

(* By table name: the result is the drawn id itself, inside [min_id, last saved id]; when a
   row of the table was saved since the last reset (ids in increasing order) the result is
   one of those. *)
Theorem table_ref_range h name d tbl i :
  lookupS name (n2t h) = None ->
  random_ref h name d = Ok (tbl, i) ->
  tbl = name /\ i = d /\ exists m, lookupZ name (tc h) = Some m /\ d <= m /\
    (if m <? get0 name (lc h) + 1 then 1 <= d else get0 name (lc h) < d).
Proof.
  intros Hl H. unfold random_ref, ref_range in H. rewrite Hl in H.
  destruct (lookupZ name (tc h)) as [m|]; [|discriminate].
  destruct (m =? 0); [discriminate|]. cbn [bind] in H.
  destruct (_ && _) eqn:E; [|discriminate]. unfold resolve_draw in H. injection H as <- <-.
  splits; try reflexivity. exists m. split; [reflexivity|].
  destruct (m <? get0 name (lc h) + 1); lia.
Qed.

(* ids of table T saved in increasing order (no id reserved by a forward reference), and T
   not used as a nickname: every id between [base] and the last saved id is in the history *)
Fixpoint ordered_for (T : string) (h : rh) (ops : list hop) : Prop :=
  match ops with
  | [] => True
  | HSave t n i :: r =>
    (t = T -> i = get0 T (tc h) + 1) /\ n <> Some T /\ ordered_for T (save_row h t n i) r
  | HReset :: r => ordered_for T (reset_locals h) r
  | _ :: r => ordered_for T h r
  end.

Definition dense_from (T : string) (base : Z) (h : rh) : Prop :=
  forall i, base < i <= get0 T (tc h) -> exists r, In r (hrows h) /\ h_table r = T /\ h_id r = i.

Lemma save_row_rows h t n i r : In r (hrows h) -> In r (hrows (save_row h t n i)).
Proof. unfold save_row. destruct n; cbn [hrows]; intros H; apply in_or_app; auto. Qed.

Lemma save_row_tc_other h t n i T :
  T <> t -> n <> Some T -> get0 T (tc (save_row h t n i)) = get0 T (tc h).
Proof.
  intros H1 H2. unfold save_row. destruct n as [m|]; cbn [tc]; rewrite ?get0_assign.
  - destruct (String.eqb T m) eqn:E; [apply String.eqb_eq in E; congruence|].
    destruct (String.eqb T t) eqn:E2; [apply String.eqb_eq in E2; congruence|reflexivity].
  - destruct (String.eqb T t) eqn:E2; [apply String.eqb_eq in E2; congruence|reflexivity].
Qed.

Lemma save_row_tc_same h n i T :
  n <> Some T -> get0 T (tc (save_row h T n i)) = i.
Proof.
  intros H2. unfold save_row. destruct n as [m|]; cbn [tc]; rewrite ?get0_assign.
  - destruct (String.eqb T m) eqn:E; [apply String.eqb_eq in E; congruence|].
    rewrite String.eqb_refl. reflexivity.
  - rewrite String.eqb_refl. reflexivity.
Qed.

Theorem ordered_dense T base ops : forall h,
  dense_from T base h -> ordered_for T h ops -> dense_from T base (apply_ops h ops).
Proof.
  induction ops as [|op ops IH]; intros h HD HO; cbn [apply_ops]; [exact HD|].
  destruct op as [t n i0| |name d|name]; cbn [ordered_for] in HO.
  - destruct HO as (Hi & Hn & HO). apply IH; [|exact HO].
    intros i Hb. destruct (String.eqb T t) eqn:E.
    + apply String.eqb_eq in E. subst t. rewrite (save_row_tc_same _ _ _ _ Hn) in Hb.
      specialize (Hi eq_refl). destruct (Z.eq_dec i i0) as [->|Hne].
      * exists (mkHrow T i0 n (match n with Some m => get0 m (nc h) + 1 | None => 0 end)).
        split; [|cbn; auto]. unfold save_row. destruct n; cbn [hrows]; apply in_or_app; right; left; reflexivity.
      * destruct (HD i ltac:(lia)) as (r & Hr & Hrest). exists r. split; [apply save_row_rows; exact Hr|exact Hrest].
    + assert (Hne : T <> t) by (intros ->; rewrite String.eqb_refl in E; discriminate).
      rewrite (save_row_tc_other _ _ _ _ _ Hne Hn) in Hb.
      destruct (HD i Hb) as (r & Hr & Hrest). exists r. split; [apply save_row_rows; exact Hr|exact Hrest].
  - apply IH; [exact HD|exact HO].
  - apply IH; [exact HD|exact HO].
  - apply IH; [exact HD|exact HO].
Qed.

(* consequence for references by table name: with ordered ids the target is a saved row of
   the table or an id issued before the history started (a row of an earlier run) *)
Theorem table_ref_exists T base ops h0 d tbl i :
  dense_from T base h0 -> ordered_for T h0 ops ->
  lookupS T (n2t (apply_ops h0 ops)) = None ->
  random_ref (apply_ops h0 ops) T d = Ok (tbl, i) ->
  tbl = T /\ ((exists r, In r (hrows (apply_ops h0 ops)) /\ h_table r = T /\ h_id r = i) \/ i <= base).
Proof.
  intros HD HO Hl H. destruct (table_ref_range _ _ _ _ _ Hl H) as (-> & -> & m & Hm & Hle & _).
  split; [reflexivity|]. destruct (Z_le_dec d base) as [Hb|Hb]; [right; exact Hb|left].
  apply (ordered_dense T base ops h0 HD HO). unfold get0. rewrite Hm. lia.
Qed.

(* ------------------------------------------------------------------ unique *)

(* a chain of unique draws is a script of the updatable range *)
Fixpoint uchain (u : uctx) (reqs : list (Z * Z)) (oracle : list (Z * Z)) : result (list Z) :=
  match reqs with
  | [] => Ok []
  | (a, b) :: r =>
    do '(v, u1) <- unique_draw u a b oracle;
    do rest <- uchain (Some u1) r (u_oracle u1);
    Ok (v :: rest)
  end.

Definition req_ops (reqs : list (Z * Z)) : list uop :=
  flat_map (fun '(a, b) => [USet a (b + 1); UNext]) reqs.

Lemma uchain_run reqs : forall u vs,
  uchain (Some u) reqs (u_oracle u) = Ok vs ->
  exists u', urr_run u (req_ops reqs) = Ok (map Some vs, u').
Proof.
  induction reqs as [|[a b] r IH]; intros u vs H; cbn [uchain] in H.
  - injection H as <-. exists u. reflexivity.
  - unfold unique_draw in H. cbn [bind] in H.
    destruct (urr_set_new_range u a (b + 1)) as [u1|e] eqn:E1; [|discriminate]. cbn [bind] in H.
    destruct (urr_next u1) as [[v u2]|e] eqn:E2; [|discriminate]. cbn [bind] in H.
    destruct v as [x|]; [|discriminate]. cbn [bind] in H.
    destruct (uchain (Some u2) r (u_oracle u2)) as [rest|e] eqn:E3; [|discriminate]. cbn [bind] in H.
    injection H as <-. destruct (IH _ _ E3) as (u' & Hr).
    exists u'. cbn [req_ops flat_map app urr_run]. rewrite E1. cbn [bind]. rewrite E2. cbn [bind].
    fold (req_ops r). rewrite Hr. reflexivity.
Qed.

Lemma produced_map_Some vs : produced (map Some vs) = vs.
Proof. induction vs as [|v r IH]; cbn [map produced]; [reflexivity|]. rewrite IH. reflexivity. Qed.

(* No number is drawn twice by one unique random_reference context, whatever intervals the
   row history requests over time (as long as the range object accepts them). *)
Theorem unique_draws_no_repeat reqs oracle vs :
  uchain None reqs oracle = Ok vs -> NoDup vs.
Proof.
  destruct reqs as [|[a b] r]; cbn [uchain]; intros H.
  - injection H as <-. constructor.
  - unfold unique_draw in H. cbn [bind] in H.
    destruct (urr_init a (b + 1) oracle) as [u1|e] eqn:E1; [|discriminate]. cbn [bind] in H.
    destruct (urr_next u1) as [[v u2]|e] eqn:E2; [|discriminate]. cbn [bind] in H.
    destruct v as [x|]; [|discriminate]. cbn [bind] in H.
    destruct (uchain (Some u2) r (u_oracle u2)) as [rest|e] eqn:E3; [|discriminate]. cbn [bind] in H.
    injection H as <-. destruct (uchain_run _ _ _ E3) as (u' & Hr).
    assert (Hs : urr_script a (b + 1) oracle (UNext :: req_ops r) = Ok (Some x :: map Some rest)).
    { unfold urr_script. rewrite E1. cbn [bind urr_run]. rewrite E2. cbn [bind]. rewrite Hr. reflexivity. }
    apply updatable_no_repeat in Hs. cbn [produced] in Hs. rewrite produced_map_Some in Hs. exact Hs.
Qed.
