(* DepsP.v — the inter-table dependencies the interpreter records (Globals.intertable_dependencies,
   the input of the CCI mapping generator, property C16) are tied to the rows it writes:
   every reference cell of every written row has its (table, target table, field) triple
   recorded, and every recorded triple comes from a field of a created row.                *)
From Coq Require Import ZArith List Lia Bool.
From SFV Require Import Base Interp.
From SFV.P Require Import BaseP InterpP InterpHeapP IdsP.
Import ListNotations. Open Scope Z_scope.

(* ------------------------------------------------------------------ deps-quiet steps *)

Definition tt_same (s s' : st) : Prop := forall v, target_table s' v = target_table s v.

(* the recorded dependencies and the table every value points at are untouched *)
Definition dq (s s' : st) : Prop := deps s' = deps s /\ tt_same s s'.

Lemma dq_refl s : dq s s.
Proof. split; [reflexivity|intros v; reflexivity]. Qed.

Lemma dq_trans a b c : dq a b -> dq b c -> dq a c.
Proof.
  intros [d1 t1] [d2 t2]. split; [congruence|]. intros v. rewrite t2, t1. reflexivity.
Qed.

Lemma tt_of_parts s s' :
  heap s' = heap s ->
  (forall n, option_map s_table (lookup n (slots s')) = option_map s_table (lookup n (slots s))) ->
  tt_same s s'.
Proof.
  intros Hh Hs v. destruct v; cbn [target_table]; try reflexivity.
  - rewrite Hh. reflexivity.
  - specialize (Hs name). destruct (lookup name (slots s')), (lookup name (slots s)); cbn [option_map] in Hs;
      try discriminate; try reflexivity. injection Hs as ->. reflexivity.
Qed.

Lemma touch_slot_dq s n s' i : touch_slot s n = Ok (s', i) -> dq s s'.
Proof.
  unfold touch_slot. destruct (lookup n (slots s)) as [sl|] eqn:Hl; [|discriminate].
  destruct (s_alloc sl); intros H; injection H as <- _; [apply dq_refl|].
  split; [reflexivity|]. apply tt_of_parts; [reflexivity|].
  intros m. cbn [slots upd_slots generate_id fst upd_ids].
  destruct (String.eqb m n) eqn:E.
  - apply String.eqb_eq in E. subst m. rewrite lookup_assign_same, Hl. reflexivity.
  - rewrite lookup_assign_other; [reflexivity|]. intros ->. rewrite String.eqb_refl in E. discriminate.
Qed.

Lemma eval_expr_dq e x : forall s s' v, eval_expr e x s = Ok (s', v) -> dq s s'.
Proof.
  induction x as [z|n|a IHa f|a IHa b IHb|a IHa b IHb|a IHa b IHb]; intros s s' v H; cbn [eval_expr] in H.
  - injection H as <- _. apply dq_refl.
  - dbind H as o. destruct o; injection H as <- _; apply dq_refl.
  - dbind H as [s1 v1]. apply IHa in E.
    destruct v1; try discriminate;
      try (destruct (py_own_attr f); [discriminate|]);
      try (injection H as <- _; exact E);
      try (dbind H as w0; injection H as <- _; exact E).
    + destruct (nth_error (heap s1) h); [|discriminate].
      destruct (row_attr c f); injection H as <- _; exact E.
    + destruct (String.eqb f "id"); [|discriminate]. dbind H as [s2 i].
      injection H as <- _. apply touch_slot_dq in E0. eapply dq_trans; eassumption.
  - dbind H as [s1 v1]. dbind H as [s2 v2]. apply IHa in E. apply IHb in E0.
    destruct v1, v2; try discriminate; injection H as <- _; eapply dq_trans; eassumption.
  - dbind H as [s1 v1]. dbind H as [s2 v2]. apply IHa in E. apply IHb in E0.
    destruct v1, v2; try discriminate; injection H as <- _; eapply dq_trans; eassumption.
  - dbind H as [s1 v1]. dbind H as [s2 v2]. apply IHa in E. apply IHb in E0.
    destruct v1, v2; try discriminate; injection H as <- _; eapply dq_trans; eassumption.
Qed.

Lemma render_pieces_dq e ps : forall s s' t, render_pieces e ps s = Ok (s', t) -> dq s s'.
Proof.
  induction ps as [|p ps IH]; intros s s' t H; cbn [render_pieces] in H.
  - injection H as <- _. apply dq_refl.
  - destruct p as [tx|x].
    + dbind H as [s1 rest]. injection H as <- _. eauto.
    + dbind H as [s1 v]. dbind H as w0. dbind H as [s2 rest].
      injection H as <- _. apply eval_expr_dq in E. apply IH in E1. eapply dq_trans; eassumption.
Qed.

Lemma render_formula_dq e ps s s' v : render_formula e ps s = Ok (s', v) -> dq s s'.
Proof.
  unfold render_formula. intros H.
  destruct (version e =? 3).
  - destruct ps as [|[tx|x] [|p2 r]];
      try (dbind H as [s1 t]; dbind H as w0; injection H as <- _;
           apply render_pieces_dq in E; exact E).
    dbind H as [s1 w]. apply eval_expr_dq in E.
    destruct w; try discriminate; try (injection H as <- _; exact E).
    dbind H as w0. injection H as <- _. exact E.
  - dbind H as [s1 t]. dbind H as w0. injection H as <- _.
    apply render_pieces_dq in E. exact E.
Qed.

Lemma getattr_path_dq s v p s' w : getattr_path s v p = Ok (s', w) -> dq s s'.
Proof.
  unfold getattr_path. intros E. destruct v; try discriminate.
  - destruct (nth_error (heap s) h); [|discriminate].
    destruct (row_attr c p); [|discriminate]. injection E as <- _. apply dq_refl.
  - destruct (String.eqb p "id"); [|discriminate]. dbind E as [s2 i].
    injection E as <- _. apply touch_slot_dq in E0. exact E0.
  - dbind E as w0. injection E as <- _. apply dq_refl.
Qed.

Lemma follow_path_dq parts : forall s v s' w, follow_path s v parts = Ok (s', w) -> dq s s'.
Proof.
  induction parts as [|p r IH]; intros s v s' w H; cbn [follow_path] in H.
  - injection H as <- _. apply dq_refl.
  - dbind H as [s1 w1]. apply IH in H. apply getattr_path_dq in E. eapply dq_trans; eassumption.
Qed.

Lemma reference_dq e path s s' v : reference e path s = Ok (s', v) -> dq s s'.
Proof.
  unfold reference. intros H.
  destruct (split_dot path) as [|first parts]; [discriminate|].
  dbind H as o. destruct o as [v0|]; [|destruct parts; discriminate].
  dbind H as [s1 target]. apply follow_path_dq in E0.
  destruct target; try discriminate.
  - injection H as <- _. exact E0.
  - dbind H as [s2 i]. injection H as <- _.
    apply touch_slot_dq in E1. eapply dq_trans; eassumption.
  - injection H as <- _. exact E0.
Qed.

Lemma rnd_only_dq s s' : rnd_only s s' -> dq s s'.
Proof. intros [x ->]. split; [reflexivity|]. apply tt_of_parts; reflexivity. Qed.

(* ------------------------------------------------------------------ what flatten writes *)

(* every reference cell that flatten produces comes from a field whose value points at that table *)
Lemma flatten_fields_ref fs : forall s s' l,
  flatten_fields s fs = Ok (s', l) ->
  dq s s' /\
  forall f U i, In (f, ORef U i) l -> exists v, In (f, v) fs /\ target_table s v = Some U.
Proof.
  induction fs as [|[n v] r IH]; intros s s' l H; cbn [flatten_fields] in H.
  - injection H as <- <-. split; [apply dq_refl|]. intros f U i [].
  - destruct (hidden n).
    + apply IH in H. destruct H as [Hq Hr]. split; [exact Hq|].
      intros f U i Hin. destruct (Hr f U i Hin) as (v' & Hv & Ht). exists v'. split; [right; exact Hv|exact Ht].
    + dbind H as [s1 o]. dbind H as [s2 rest]. injection H as <- <-.
      apply IH in E0. destruct E0 as [Hq2 Hr].
      assert (H1 : dq s s1 /\ forall U i, o = ORef U i -> target_table s v = Some U).
      { destruct v; try discriminate;
          try (injection E as <- <-; split; [apply dq_refl|intros U i Hx; discriminate Hx]).
        - destruct (nth_error (heap s) h) as [c|] eqn:Hc; [|discriminate]. injection E as <- <-.
          split; [apply dq_refl|]. intros U i Hx. injection Hx as <- _. cbn [target_table]. rewrite Hc. reflexivity.
        - destruct (lookup name (slots s)) as [sl|] eqn:Hl; [|discriminate]. dbind E as [s3 j].
          injection E as <- <-. apply touch_slot_dq in E0. split; [exact E0|].
          intros U i Hx. injection Hx as <- _. cbn [target_table]. rewrite Hl. reflexivity.
        - injection E as <- <-. split; [apply dq_refl|]. intros U i Hx. injection Hx as <- _. reflexivity. }
      destruct H1 as [Hq1 Ho]. split; [eapply dq_trans; eassumption|].
      intros f U i [Hx|Hx].
      * injection Hx as <- ->. exists v. split; [left; reflexivity|]. eapply Ho. reflexivity.
      * destruct (Hr f U i Hx) as (v' & Hv & Ht). exists v'. split; [right; exact Hv|].
        destruct Hq1 as [_ Htt]. rewrite <- Htt. exact Ht.
Qed.

Lemma write_row_cases s h s' :
  write_row s h = Ok s' ->
  (s' = s /\ exists c, nth_error (heap s) h = Some c /\ hidden (c_table c) = true) \/
  exists c s1 fs, nth_error (heap s) h = Some c /\ flatten_fields s (c_fields c) = Ok (s1, fs) /\
                  s' = upd_out s1 ((c_table c, ("id"%string, OInt (c_id c)) :: fs) :: out s1).
Proof.
  unfold write_row. destruct (nth_error (heap s) h) as [c|]; [|discriminate].
  destruct (hidden (c_table c)) eqn:Hh; [intros H; injection H as <-; left; split; [reflexivity|exists c; auto]|].
  intros H. dbind H as [s1 fs]. injection H as <-. right. exists c, s1, fs. auto.
Qed.

(* ------------------------------------------------------------------ what remember_deps records *)

Lemma dep_eqb_eq a b : dep_eqb a b = true -> a = b.
Proof.
  destruct a as [[a1 a2] a3], b as [[b1 b2] b3]. cbn [dep_eqb]. intros H.
  apply andb_true_iff in H. destruct H as [H H3]. apply andb_true_iff in H. destruct H as [H1 H2].
  apply String.eqb_eq in H1, H2, H3. subst. reflexivity.
Qed.

Definition dstep (table : string) (acc : st) (p : string * value) : st :=
  let '(fname, v) := p in
  match target_table acc v with
  | Some tgt => let d := (table, tgt, fname) in
                if existsb (dep_eqb d) (deps acc) then acc else upd_deps acc (deps acc ++ [d])
  | None => acc
  end.

Lemma remember_deps_fold s T fs : remember_deps s T fs = fold_left (dstep T) fs s.
Proof. reflexivity. Qed.

Lemma dstep_spec T s p :
  incl (deps s) (deps (dstep T s p)) /\ tt_same s (dstep T s p) /\
  (forall U, target_table s (snd p) = Some U -> In (T, U, fst p) (deps (dstep T s p))) /\
  (forall d, In d (deps (dstep T s p)) -> In d (deps s) \/
             exists U, target_table s (snd p) = Some U /\ d = (T, U, fst p)).
Proof.
  destruct p as [f v]. cbn [dstep fst snd].
  destruct (target_table s v) as [tgt|] eqn:Ht.
  - destruct (existsb (dep_eqb (T, tgt, f)) (deps s)) eqn:Ex.
    + splits; [apply incl_refl|intros w; reflexivity| |intros d Hd; left; exact Hd].
      intros U HU. injection HU as <-. apply existsb_exists in Ex. destruct Ex as (d & Hd & He).
      apply dep_eqb_eq in He. subst d. exact Hd.
    + splits.
      * cbn [deps upd_deps]. apply incl_appl. apply incl_refl.
      * apply tt_of_parts; reflexivity.
      * intros U HU. injection HU as <-. cbn [deps upd_deps]. apply in_or_app. right. left. reflexivity.
      * intros d Hd. cbn [deps upd_deps] in Hd. apply in_app_or in Hd. destruct Hd as [Hd|[<-|[]]]; [left; exact Hd|].
        right. exists tgt. split; reflexivity.
  - splits; [apply incl_refl|intros w; reflexivity|intros U HU; discriminate HU|intros d Hd; left; exact Hd].
Qed.

Lemma remember_deps_spec fs : forall s T,
  incl (deps s) (deps (remember_deps s T fs)) /\ tt_same s (remember_deps s T fs) /\
  (forall f v U, In (f, v) fs -> target_table s v = Some U -> In (T, U, f) (deps (remember_deps s T fs))) /\
  (forall d, In d (deps (remember_deps s T fs)) -> In d (deps s) \/
             exists f v U, In (f, v) fs /\ target_table s v = Some U /\ d = (T, U, f)).
Proof.
  induction fs as [|p r IH]; intros s T; rewrite remember_deps_fold; cbn [fold_left].
  - splits; [apply incl_refl|intros v; reflexivity|intros f v U []|intros d Hd; left; exact Hd].
  - rewrite <- remember_deps_fold.
    destruct (dstep_spec T s p) as (I1 & T1 & A1 & S1).
    destruct (IH (dstep T s p) T) as (I2 & T2 & A2 & S2).
    splits.
    + eapply incl_tran; eassumption.
    + intros v. rewrite T2, T1. reflexivity.
    + intros f v U [Hp|Hin] Ht.
      * subst p. cbn [fst snd] in A1. apply I2. apply (A1 U). exact Ht.
      * apply (A2 f v U Hin). rewrite T1. exact Ht.
    + intros d Hd. destruct (S2 d Hd) as [Hd1|(f & v & U & Hin & Ht & ->)].
      * destruct (S1 d Hd1) as [Hd0|(U & Ht & ->)]; [left; exact Hd0|].
        right. exists (fst p), (snd p), U. split; [left; destruct p; reflexivity|]. split; [exact Ht|reflexivity].
      * right. exists f, v, U. split; [right; exact Hin|]. split; [rewrite <- T1; exact Ht|reflexivity].
Qed.

(* ------------------------------------------------------------------ simple state updates *)

Lemma set_var_deps s n v : deps (set_var s n v) = deps s.
Proof. unfold set_var. destruct (frames s); reflexivity. Qed.
Lemma set_obj_deps s h : deps (set_obj s h) = deps s.
Proof. unfold set_obj. destruct (frames s); reflexivity. Qed.
Lemma push_frame_deps s : deps (push_frame s) = deps s.
Proof. reflexivity. Qed.
Lemma pop_frame_deps s : deps (pop_frame s) = deps s.
Proof. unfold pop_frame. destruct (frames s); reflexivity. Qed.
Lemma set_field_deps s h n v : deps (set_field s h n v) = deps s.
Proof. unfold set_field. destruct (nth_error (heap s) h); reflexivity. Qed.
Lemma register_object_deps s h t nick once : deps (register_object s h t nick once) = deps s.
Proof. unfold register_object. destruct nick, once; reflexivity. Qed.
Lemma consume_for_deps s n t s' i : consume_for s n t = Some (s', i) -> deps s' = deps s.
Proof.
  unfold consume_for. destruct (lookup n (slots s)) as [sl|]; [|discriminate].
  destruct (s_alloc sl); [|discriminate].
  destruct (negb (s_consumed sl) && String.eqb (s_table sl) t); [|discriminate].
  intros H. injection H as <- _. reflexivity.
Qed.
Lemma new_row_id_deps s t nick : deps (fst (new_row_id s t nick)) = deps s.
Proof.
  unfold new_row_id. destruct nick as [n|].
  - destruct (consume_for s n t) as [[s' i]|] eqn:E; [cbn [fst]; eapply consume_for_deps; exact E|].
    destruct (consume_for s t t) as [[s' i]|] eqn:E2; [cbn [fst]; eapply consume_for_deps; exact E2|reflexivity].
  - destruct (consume_for s t t) as [[s' i]|] eqn:E2; [cbn [fst]; eapply consume_for_deps; exact E2|reflexivity].
Qed.

(* ------------------------------------------------------------------ the invariant *)

(* every reference cell of every written row has its dependency recorded *)
Definition R (s : st) : Prop :=
  forall row f U i, In row (out s) -> In (f, ORef U i) (snd row) -> In (fst row, U, f) (deps s).

Lemma R_same s s' : out s' = out s -> incl (deps s) (deps s') -> R s -> R s'.
Proof. intros Ho Hi HR row f U i Hr Hf. rewrite Ho in Hr. apply Hi. eapply HR; eassumption. Qed.

Theorem run_deps fuel : forall e tk s s' r,
  run fuel e tk s = Ok (s', r) -> incl (deps s) (deps s') /\ (R s -> R s').
Proof.
  induction fuel as [|n IH]; intros e tk s s' r H; [discriminate|].
  cbn [run] in H. destruct tk as [l c|x c|t|t i cnt last|t i|h fs|d].
  - (* TStmts *)
    destruct l as [|x l]; [injection H as <- _; split; [apply incl_refl|auto]|].
    dbind H as [s1 r1]. apply IH in E. apply IH in H. destruct E as [I1 R1], H as [I2 R2].
    split; [eapply incl_tran; eassumption|auto].
  - (* TStmt *)
    destruct x as [t|name d].
    + destruct (t_once t && c); [injection H as <- _; split; [apply incl_refl|auto]|].
      dbind H as [s1 r1]. injection H as <- _. apply IH in E. exact E.
    + destruct d; try discriminate;
        (dbind H as [s1 r1]; injection H as <- _; apply IH in E; destruct E as [I1 R1];
         rewrite push_frame_deps in I1; split;
         [rewrite set_var_deps, pop_frame_deps; exact I1|];
         intros HR; apply (R_same (pop_frame s1));
         [rewrite set_var_out; reflexivity|rewrite set_var_deps; apply incl_refl|];
         apply (R_same s1); [apply pop_frame_out|rewrite pop_frame_deps; apply incl_refl|];
         apply R1; apply (R_same s); [apply push_frame_out|rewrite push_frame_deps; apply incl_refl|exact HR]).
  - (* TRows *)
    dbind H as [s1 cnt]. dbind H as [s2 r2]. injection H as <- _.
    assert (H1 : incl (deps s) (deps s1) /\ (R s -> R s1)).
    { destruct (t_count t) as [d|].
      - dbind E as [s1' r1]. dbind E as w0. injection E as <- _. apply IH in E1.
        destruct E1 as [I1 R1]. rewrite push_frame_deps in I1. split; [exact I1|].
        intros HR. apply R1. apply (R_same s); [apply push_frame_out|rewrite push_frame_deps; apply incl_refl|exact HR].
      - injection E as <- _. split; [rewrite push_frame_deps; apply incl_refl|].
        apply R_same; [apply push_frame_out|rewrite push_frame_deps; apply incl_refl]. }
    apply IH in E0. destruct H1 as [I1 R1], E0 as [I2 R2].
    split; [rewrite pop_frame_deps; eapply incl_tran; eassumption|].
    intros HR. apply (R_same s2); [apply pop_frame_out|rewrite pop_frame_deps; apply incl_refl|auto].
  - (* TLoop *)
    destruct (i <? cnt); [|injection H as <- _; split; [apply incl_refl|auto]].
    dbind H as [s1 r1]. apply IH in E.
    destruct r1; try discriminate. apply IH in H.
    destruct E as [I1 R1], H as [I2 R2]. rewrite set_var_deps in I1.
    split; [eapply incl_tran; eassumption|].
    intros HR. apply R2. apply R1. apply (R_same s); [apply set_var_out|rewrite set_var_deps; apply incl_refl|exact HR].
  - (* TRow *)
    destruct (new_row_id s (t_table t) (t_nick t)) as [s1 id] eqn:Hid.
    dbind H as [s4 r4].
    destruct (nth_error (heap s4) (length (heap s1))) as [c|] eqn:Hc; [|discriminate].
    dbind H as s5. dbind H as s6. dbind H as [s7 r7]. injection H as <- _.
    pose proof (run_heap_ext _ _ _ _ _ _ E) as Hext.
    apply IH in E. apply IH in E2. destruct E as [I4 R4], E2 as [I7 R7].
    assert (Hd1 : deps s1 = deps s).
    { pose proof (new_row_id_deps s (t_table t) (t_nick t)) as Hn. rewrite Hid in Hn. exact Hn. }
    assert (Ho1 : out s1 = out s).
    { pose proof (new_row_id_out s (t_table t) (t_nick t)) as Hn. rewrite Hid in Hn. exact Hn. }
    rewrite register_object_deps, set_obj_deps in I4. cbn [deps upd_heap] in I4. rewrite Hd1 in I4.
    (* the cell keeps its table *)
    assert (Htab : c_table c = t_table t).
    { destruct (Hext (length (heap s1)) (mkCell (t_table t) id i [])) as (c' & Hc' & Hk).
      - rewrite register_object_heap, set_obj_heap. cbn [heap upd_heap].
        rewrite nth_error_app2; [|lia]. rewrite Nat.sub_diag. reflexivity.
      - rewrite Hc in Hc'. injection Hc' as <-. destruct Hk as [Hk _]. exact Hk. }
    destruct (remember_deps_spec (c_fields c) s4 (t_table t)) as (Id & Td & Ad & _).
    set (s4d := remember_deps s4 (t_table t) (c_fields c)) in *.
    pose proof (remember_history_rnd _ _ _ _ _ _ E0) as Hrnd.
    pose proof (rnd_only_dq _ _ Hrnd) as [Hd5 Ht5].
    pose proof (rnd_only_out _ _ Hrnd) as Ho5.
    pose proof (rnd_only_heap _ _ Hrnd) as Hh5.
    destruct (write_row_cases _ _ _ E1) as [(-> & _)|(c5 & s5' & fs & Hc5 & Hfl & ->)].
    + (* hidden table: nothing written *)
      split.
      * eapply incl_tran; [exact I4|]. eapply incl_tran; [exact Id|]. rewrite <- Hd5. exact I7.
      * intros HR. apply R7. apply (R_same s4d); [exact Ho5|rewrite Hd5; apply incl_refl|].
        apply (R_same s4); [apply remember_deps_out|exact Id|].
        apply R4. apply (R_same s); [|rewrite register_object_deps, set_obj_deps; cbn [deps upd_heap]; rewrite Hd1; apply incl_refl|exact HR].
        rewrite register_object_out, set_obj_out. cbn [out upd_heap]. exact Ho1.
    + destruct (flatten_fields_ref _ _ _ _ Hfl) as [[Hdf _] Href].
      cbn [deps upd_out] in I7.
      split.
      * eapply incl_tran; [exact I4|]. eapply incl_tran; [exact Id|]. rewrite <- Hd5, <- Hdf. exact I7.
      * intros HR. apply R7. clear R7 I7.
        assert (R5 : R s5).
        { apply (R_same s4d); [exact Ho5|rewrite Hd5; apply incl_refl|].
          apply (R_same s4); [apply remember_deps_out|exact Id|].
          apply R4. apply (R_same s); [|rewrite register_object_deps, set_obj_deps; cbn [deps upd_heap]; rewrite Hd1; apply incl_refl|exact HR].
          rewrite register_object_out, set_obj_out. cbn [out upd_heap]. exact Ho1. }
        assert (Hout : out s5' = out s5).
        { apply flatten_fields_spec in Hfl. destruct Hfl as [Ho _]. exact Ho. }
        intros row f U j Hrow Hf. cbn [out upd_out deps] in *. rewrite Hdf.
        destruct Hrow as [<-|Hrow].
        -- cbn [fst snd] in *. destruct Hf as [Hf|Hf]; [discriminate Hf|].
           destruct (Href f U j Hf) as (v & Hv & Htv).
           rewrite Hh5 in Hc5. unfold s4d in Hc5. rewrite remember_deps_heap in Hc5.
           rewrite Hc in Hc5. injection Hc5 as <-.
           rewrite Hd5, Htab. apply (Ad f v U Hv). rewrite <- Td, <- Ht5. exact Htv.
        -- rewrite Hout in Hrow. eapply R5; eassumption.
  - (* TFields *)
    destruct fs as [|[name d] fs]; [injection H as <- _; split; [apply incl_refl|auto]|].
    destruct (String.eqb name "id"); [discriminate|].
    dbind H as [s1 v]. apply IH in E. apply IH in H. destruct E as [I1 R1], H as [I2 R2].
    rewrite set_field_deps in I2. split; [eapply incl_tran; eassumption|].
    intros HR. apply R2. apply (R_same s1); [apply set_field_out|rewrite set_field_deps; apply incl_refl|auto].
  - (* TField *)
    destruct d as [z|x|ps|path|t|to].
    + injection H as <- _. split; [apply incl_refl|auto].
    + destruct (version e =? 3); [injection H as <- _; split; [apply incl_refl|auto]|].
      dbind H as w0. injection H as <- _. split; [apply incl_refl|auto].
    + dbind H as [s1 v]. injection H as <- _.
      pose proof (render_formula_out _ _ _ _ _ E) as Ho. apply render_formula_dq in E. destruct E as [Hd _].
      split; [rewrite Hd; apply incl_refl|]. apply R_same; [exact Ho|rewrite Hd; apply incl_refl].
    + dbind H as [s1 v]. injection H as <- _.
      pose proof (reference_out _ _ _ _ _ E) as Ho. apply reference_dq in E. destruct E as [Hd _].
      split; [rewrite Hd; apply incl_refl|]. apply R_same; [exact Ho|rewrite Hd; apply incl_refl].
    + apply IH in H. exact H.
    + dbind H as [s1 v]. injection H as <- _.
      pose proof (random_reference_rnd _ _ _ _ _ E) as Hr.
      pose proof (rnd_only_out _ _ Hr) as Ho. apply rnd_only_dq in Hr. destruct Hr as [Hd _].
      split; [rewrite Hd; apply incl_refl|]. apply R_same; [exact Ho|rewrite Hd; apply incl_refl].
Qed.

Strategy 1000 [iteration run].

Lemma iteration_deps e stmts c s s' :
  iteration e stmts c s = Ok s' -> incl (deps s) (deps s') /\ (R s -> R s').
Proof.
  unfold iteration. intros H. dbind H as [s1 r].
  destruct (slots_filled s1); [|discriminate].
  destruct (stale_slot 4 s1 (survivors s1)); [discriminate|]. injection H as <-.
  apply run_deps in E. exact E.
Qed.

Lemma iterations_deps k : forall e stmts c s s',
  iterations k e stmts c s = Ok s' -> incl (deps s) (deps s') /\ (R s -> R s').
Proof.
  induction k as [|k IH]; intros e stmts c s s' H; cbn [iterations] in H.
  - injection H as <-. split; [apply incl_refl|auto].
  - dbind H as s1. apply iteration_deps in E. apply IH in H. destruct E as [I1 R1], H as [I2 R2].
    split; [eapply incl_tran; eassumption|auto].
Qed.

(* One run (fresh or continued) from a state that has written nothing yet: every reference cell
   of every row written by the run has its (table, target table, field) triple among the
   recorded dependencies - the input from which the mapping generator decides "lookup". *)
Theorem written_references_recorded e stmts c k s0 s :
  out s0 = [] -> iterations k e stmts c s0 = Ok s ->
  forall row f U i, In row (out s) -> In (f, ORef U i) (snd row) -> In (fst row, U, f) (deps s).
Proof.
  intros Ho H. destruct (iterations_deps _ _ _ _ _ _ H) as [_ HR].
  apply HR. intros row f U i Hr. rewrite Ho in Hr. destruct Hr.
Qed.

Theorem written_references_recorded_fresh (r : recipe) k s :
  run_fresh r k = Ok s ->
  forall row f U i, In row (out s) -> In (f, ORef U i) (snd row) -> In (fst row, U, f) (deps s).
Proof. unfold run_fresh. apply written_references_recorded. reflexivity. Qed.

(* dependencies recorded by earlier runs are never lost *)
Theorem recorded_dependencies_persist e stmts c k s0 s :
  iterations k e stmts c s0 = Ok s -> incl (deps s0) (deps s).
Proof. intros H. destruct (iterations_deps _ _ _ _ _ _ H) as [HI _]. exact HI. Qed.

(* ------------------------------------------------------------------ the converse: nothing is recorded without a cell *)

(* every visible field whose value points at a table comes out of flatten as a reference cell to it *)
Lemma flatten_fields_complete fs : forall s s' l,
  flatten_fields s fs = Ok (s', l) ->
  forall f v U, In (f, v) fs -> hidden f = false -> target_table s v = Some U ->
    exists i, In (f, ORef U i) l.
Proof.
  induction fs as [|[n w] r IH]; intros s s' l H f v U Hin Hf Ht; [destruct Hin|].
  cbn [flatten_fields] in H. destruct (hidden n) eqn:Hn.
  - destruct Hin as [Heq|Hin]; [injection Heq as -> ->; congruence|]. eapply IH; eassumption.
  - dbind H as [s1 o]. dbind H as [s2 rest]. injection H as <- <-.
    destruct Hin as [Heq|Hin].
    + injection Heq as -> ->.
      destruct v; cbn [target_table] in Ht; try discriminate Ht.
      * destruct (nth_error (heap s) h) as [c|] eqn:Hc; [|discriminate Ht]. injection Ht as <-.
        injection E as <- <-. exists (c_id c). left. reflexivity.
      * destruct (lookup name (slots s)) as [sl|] eqn:Hl; [|discriminate Ht]. injection Ht as <-.
        dbind E as [s3 j]. injection E as <- <-. exists j. left. reflexivity.
      * injection Ht as <-. injection E as <- <-. exists id. left. reflexivity.
    + assert (Hq : dq s s1).
      { destruct w; try discriminate; try (injection E as <- _; apply dq_refl).
        - destruct (nth_error (heap s) h); [|discriminate]. injection E as <- _. apply dq_refl.
        - destruct (lookup name (slots s)); [|discriminate]. dbind E as [s3 j].
          injection E as <- _. apply touch_slot_dq in E1. exact E1. }
      destruct Hq as [_ Htt]. destruct (IH _ _ _ E0 f v U Hin Hf) as [i Hi]; [rewrite Htt; exact Ht|].
      exists i. right. exact Hi.
Qed.

(* every recorded dependency between a visible table and a visible field is backed by a
   reference cell of a written row (D: what was recorded before, e.g. by earlier runs) *)
Definition Sd (D : list (string * string * string)) (s : st) : Prop :=
  forall T U f, In (T, U, f) (deps s) ->
    In (T, U, f) D \/ hidden T = true \/ hidden f = true \/
    exists row i, In row (out s) /\ fst row = T /\ In (f, ORef U i) (snd row).

Lemma Sd_step D s s' : incl (deps s') (deps s) -> extends s s' -> Sd D s -> Sd D s'.
Proof.
  intros Hd (new & Ho & _) HS T U f Hin. destruct (HS T U f (Hd _ Hin)) as [H|[H|[H|(row & i & Hr & Ht & Hf)]]]; auto.
  right; right; right. exists row, i. splits; [rewrite Ho; apply in_or_app; right; exact Hr|exact Ht|exact Hf].
Qed.

Lemma Sd_same D s s' : deps s' = deps s -> out s' = out s -> Sd D s -> Sd D s'.
Proof. intros Hd Ho. apply Sd_step; [rewrite Hd; apply incl_refl|apply extends_same; exact Ho]. Qed.

Theorem run_deps_sound fuel : forall e tk s s' r D,
  run fuel e tk s = Ok (s', r) -> Sd D s -> Sd D s'.
Proof.
  induction fuel as [|n IH]; intros e tk s s' r D H HS; [discriminate|].
  cbn [run] in H. destruct tk as [l c|x c|t|t i cnt last|t i|h fs|d].
  - destruct l as [|x l]; [injection H as <- _; exact HS|].
    dbind H as [s1 r1]. eapply IH; [exact H|]. eapply IH; eassumption.
  - destruct x as [t|name d].
    + destruct (t_once t && c); [injection H as <- _; exact HS|].
      dbind H as [s1 r1]. injection H as <- _. eapply IH; eassumption.
    + destruct d; try discriminate;
        (dbind H as [s1 r1]; injection H as <- _;
         apply (Sd_same D (pop_frame s1)); [apply set_var_deps|apply set_var_out|];
         apply (Sd_same D s1); [apply pop_frame_deps|apply pop_frame_out|];
         eapply IH; [exact E|]; apply (Sd_same D s); [apply push_frame_deps|apply push_frame_out|exact HS]).
  - dbind H as [s1 cnt]. dbind H as [s2 r2]. injection H as <- _.
    apply (Sd_same D s2); [apply pop_frame_deps|apply pop_frame_out|].
    eapply IH; [exact E0|].
    destruct (t_count t) as [d|].
    + dbind E as [s1' r1]. dbind E as w0. injection E as <- _.
      eapply IH; [exact E1|]. apply (Sd_same D s); [apply push_frame_deps|apply push_frame_out|exact HS].
    + injection E as <- _. apply (Sd_same D s); [apply push_frame_deps|apply push_frame_out|exact HS].
  - destruct (i <? cnt); [|injection H as <- _; exact HS].
    dbind H as [s1 r1]. destruct r1; try discriminate.
    eapply IH; [exact H|]. eapply IH; [exact E|].
    apply (Sd_same D s); [apply set_var_deps|apply set_var_out|exact HS].
  - destruct (new_row_id s (t_table t) (t_nick t)) as [s1 id] eqn:Hid.
    dbind H as [s4 r4].
    destruct (nth_error (heap s4) (length (heap s1))) as [c|] eqn:Hc; [|discriminate].
    dbind H as s5. dbind H as s6. dbind H as [s7 r7]. injection H as <- _.
    pose proof (run_heap_ext _ _ _ _ _ _ E) as Hext.
    assert (Hd1 : deps s1 = deps s).
    { pose proof (new_row_id_deps s (t_table t) (t_nick t)) as Hn. rewrite Hid in Hn. exact Hn. }
    assert (Ho1 : out s1 = out s).
    { pose proof (new_row_id_out s (t_table t) (t_nick t)) as Hn. rewrite Hid in Hn. exact Hn. }
    assert (Htab : c_table c = t_table t).
    { destruct (Hext (length (heap s1)) (mkCell (t_table t) id i [])) as (c' & Hc' & Hk).
      - rewrite register_object_heap, set_obj_heap. cbn [heap upd_heap].
        rewrite nth_error_app2; [|lia]. rewrite Nat.sub_diag. reflexivity.
      - rewrite Hc in Hc'. injection Hc' as <-. destruct Hk as [Hk _]. exact Hk. }
    assert (S4 : Sd D s4).
    { eapply IH; [exact E|]. apply (Sd_same D s); [|rewrite register_object_out, set_obj_out; cbn [out upd_heap]; exact Ho1|exact HS].
      rewrite register_object_deps, set_obj_deps. cbn [deps upd_heap]. exact Hd1. }
    destruct (remember_deps_spec (c_fields c) s4 (t_table t)) as (_ & Td & _ & Sdp).
    set (s4d := remember_deps s4 (t_table t) (c_fields c)) in *.
    pose proof (remember_history_rnd _ _ _ _ _ _ E0) as Hrnd.
    pose proof (rnd_only_dq _ _ Hrnd) as [Hd5 Ht5].
    pose proof (rnd_only_out _ _ Hrnd) as Ho5.
    pose proof (rnd_only_heap _ _ Hrnd) as Hh5.
    eapply IH; [exact E2|]. clear E2.
    intros T U f Hin.
    destruct (write_row_cases _ _ _ E1) as [(-> & c5 & Hc5 & Hhid)|(c5 & s5' & fs & Hc5 & Hfl & ->)].
    + (* hidden table: nothing written; new triples have a hidden source table *)
      rewrite Hh5 in Hc5. unfold s4d in Hc5. rewrite remember_deps_heap, Hc in Hc5. injection Hc5 as <-.
      rewrite Hd5 in Hin. destruct (Sdp _ Hin) as [Hold|(f0 & v & U0 & _ & _ & Heq)].
      * destruct (S4 T U f Hold) as [H|[H|[H|(row & j & Hr & Hx & Hf)]]]; auto.
        right; right; right. exists row, j. rewrite Ho5. unfold s4d. rewrite remember_deps_out. auto.
      * injection Heq as -> -> ->. right; left. rewrite <- Htab. exact Hhid.
    + destruct (flatten_fields_ref _ _ _ _ Hfl) as [[Hdf _] _].
      cbn [deps upd_out out] in *. rewrite Hdf, Hd5 in Hin.
      assert (Hout : out s5' = out s5).
      { apply flatten_fields_spec in Hfl. destruct Hfl as [Ho _]. exact Ho. }
      rewrite Hh5 in Hc5. unfold s4d in Hc5. rewrite remember_deps_heap, Hc in Hc5. injection Hc5 as <-.
      destruct (Sdp _ Hin) as [Hold|(f0 & v & U0 & Hv & Htv & Heq)].
      * destruct (S4 T U f Hold) as [H|[H|[H|(row & j & Hr & Hx & Hf)]]]; auto.
        right; right; right. exists row, j. splits; [right; rewrite Hout, Ho5; unfold s4d; rewrite remember_deps_out; exact Hr|exact Hx|exact Hf].
      * injection Heq as -> -> ->.
        destruct (hidden f0) eqn:Hf0; [right; right; left; reflexivity|].
        right; right; right.
        destruct (flatten_fields_complete _ _ _ _ Hfl f0 v U0 Hv Hf0) as [j Hj].
        { rewrite Ht5, Td. exact Htv. }
        exists (c_table c, ("id"%string, OInt (c_id c)) :: fs), j. splits; [left; reflexivity|exact Htab|right; exact Hj].
  - destruct fs as [|[name d] fs]; [injection H as <- _; exact HS|].
    destruct (String.eqb name "id"); [discriminate|].
    dbind H as [s1 v]. eapply IH; [exact H|].
    apply (Sd_same D s1); [apply set_field_deps|apply set_field_out|]. eapply IH; eassumption.
  - destruct d as [z|x|ps|path|t|to].
    + injection H as <- _. exact HS.
    + destruct (version e =? 3); [injection H as <- _; exact HS|].
      dbind H as w0. injection H as <- _. exact HS.
    + dbind H as [s1 v]. injection H as <- _.
      pose proof (render_formula_out _ _ _ _ _ E) as Ho. apply render_formula_dq in E. destruct E as [Hd _].
      eapply Sd_same; eassumption.
    + dbind H as [s1 v]. injection H as <- _.
      pose proof (reference_out _ _ _ _ _ E) as Ho. apply reference_dq in E. destruct E as [Hd _].
      eapply Sd_same; eassumption.
    + eapply IH; eassumption.
    + dbind H as [s1 v]. injection H as <- _.
      pose proof (random_reference_rnd _ _ _ _ _ E) as Hr.
      pose proof (rnd_only_out _ _ Hr) as Ho. apply rnd_only_dq in Hr. destruct Hr as [Hd _].
      eapply Sd_same; eassumption.
Qed.

Lemma iteration_deps_sound e stmts c s s' D : iteration e stmts c s = Ok s' -> Sd D s -> Sd D s'.
Proof.
  unfold iteration. intros H. dbind H as [s1 r].
  destruct (slots_filled s1); [|discriminate].
  destruct (stale_slot 4 s1 (survivors s1)); [discriminate|]. injection H as <-.
  intros HS. eapply (run_deps_sound _ _ _ _ _ _ D) in E; [|exact HS]. exact E.
Qed.

Lemma iterations_deps_sound k : forall e stmts c s s' D, iterations k e stmts c s = Ok s' -> Sd D s -> Sd D s'.
Proof.
  induction k as [|k IH]; intros e stmts c s s' D H HS; cbn [iterations] in H.
  - injection H as <-. exact HS.
  - dbind H as s1. eapply IH; [exact H|]. eapply iteration_deps_sound; eassumption.
Qed.

(* One run from a state whose recorded dependencies are D: every dependency it adds between a
   visible table and a visible field is backed by a reference cell of a row it wrote - so a
   field that never held a reference in any written row is never a lookup on account of this run. *)
Theorem recorded_dependencies_backed e stmts c k s0 s :
  iterations k e stmts c s0 = Ok s ->
  forall T U f, In (T, U, f) (deps s) ->
    In (T, U, f) (deps s0) \/ hidden T = true \/ hidden f = true \/
    exists row i, In row (out s) /\ fst row = T /\ In (f, ORef U i) (snd row).
Proof.
  intros H. apply (iterations_deps_sound _ _ _ _ _ _ (deps s0) H).
  intros T U f Hin. left. exact Hin.
Qed.
