(* BaseP.v — lemmas about the shared definitions of Base.v *)
From Coq Require Import ZArith List Lia Bool Permutation.
From SFV Require Import Base.
Import ListNotations. Open Scope Z_scope.

Lemma Zseq_length a n : length (Zseq a n) = n.
Proof. revert a; induction n; intros; cbn [Zseq length]; auto. Qed.

Lemma Zseq_In a n y : In y (Zseq a n) <-> a <= y < a + Z.of_nat n.
Proof.
  revert a; induction n as [|n IH]; intros a; cbn [Zseq In].
  - lia.
  - rewrite IH. lia.
Qed.

Lemma Zseq_NoDup a n : NoDup (Zseq a n).
Proof.
  revert a; induction n as [|n IH]; intros a; cbn [Zseq]; constructor.
  - rewrite Zseq_In. lia.
  - apply IH.
Qed.

Lemma Zseq_map_add a s n : map (fun v => v + s) (Zseq a n) = Zseq (a + s) n.
Proof.
  revert a; induction n as [|n IH]; intros a; cbn [Zseq map]; [reflexivity|].
  rewrite IH. f_equal. f_equal. lia.
Qed.

Lemma Zseq_app a n1 n2 : Zseq a (n1 + n2) = Zseq a n1 ++ Zseq (a + Z.of_nat n1) n2.
Proof.
  revert a; induction n1 as [|n1 IH]; intros a; cbn [Zseq Nat.add app].
  - f_equal. lia.
  - rewrite IH. do 3 f_equal. lia.
Qed.

(* two duplicate-free lists with the same elements are permutations of each other *)
Lemma NoDup_same_elements_perm (l1 l2 : list Z) :
  NoDup l1 -> NoDup l2 -> (forall x, In x l1 <-> In x l2) -> Permutation l1 l2.
Proof. intros; apply NoDup_Permutation; assumption. Qed.

Lemma filter_NoDup {A} (p : A -> bool) l : NoDup l -> NoDup (filter p l).
Proof.
  induction 1 as [|x l Hx Hl IH]; cbn [filter]; [constructor|].
  destruct (p x); [constructor|]; auto. rewrite filter_In. tauto.
Qed.

Lemma NoDup_app_l {A} (l1 l2 : list A) : NoDup (l1 ++ l2) -> NoDup l1.
Proof.
  induction l1 as [|x l1 IH]; cbn [app]; intros H; [constructor|].
  inversion H as [|? ? Hx Hl]; subst. constructor.
  - intros Hin. apply Hx. apply in_or_app. auto.
  - apply IH. assumption.
Qed.

Lemma NoDup_app_intro {A} (l1 l2 : list A) :
  NoDup l1 -> NoDup l2 -> (forall x, In x l1 -> ~ In x l2) -> NoDup (l1 ++ l2).
Proof.
  induction 1 as [|x l1 Hx Hl1 IH]; intros H2 Hd; cbn [app]; [assumption|].
  constructor.
  - rewrite in_app_iff. intros [H|H]; [contradiction|]. apply (Hd x); cbn; auto.
  - apply IH; [assumption|]. intros y Hy. apply Hd. cbn; auto.
Qed.
