(* YamlScalarP.v — proofs about theories/YamlScalar.v *)
From Coq Require Import ZArith List Bool String Ascii Lia.
From Coq Require Import DecimalString DecimalZ DecimalPos DecimalFacts DecimalN.
From SFV Require Import Base YamlScalar.
Import ListNotations. Open Scope string_scope.

Lemma ytag_eqb_eq a b : ytag_eqb a b = true <-> a = b.
Proof.
  split.
  - destruct a, b; cbn [ytag_eqb]; intro H; try discriminate; try reflexivity.
    apply String.eqb_eq in H. now subst.
  - intros ->. destruct b; cbn [ytag_eqb]; try reflexivity. apply String.eqb_refl.
Qed.

Lemma ytag_eqb_refl a : ytag_eqb a a = true.
Proof. now apply ytag_eqb_eq. Qed.

(* ---------------------------------------------------------------- the tag of a scalar survives *)
Section ScalarP.
  Variable resolve : string -> ytag.
  Variable default_tag : ytag.

  (* whatever style is chosen, as long as plain is chosen only under implicit[0] *)
  Lemma compose_emit_as plain n p :
    emit_scalar_as resolve default_tag plain n = Some p ->
    compose_scalar resolve default_tag p = n.
  Proof.
    unfold emit_scalar_as, implicit_of. cbn [fst snd].
    destruct n as [tag text]. cbn [sn_tag sn_text].
    destruct plain; cbn [andb negb].
    - destruct (ytag_eqb tag (resolve text)) eqn:E; cbn [negb]; [|discriminate].
      intros [= <-]. unfold compose_scalar, composed_tag, written_tag. cbn [fst snd ps_tag ps_plain ps_text].
      apply ytag_eqb_eq in E. now rewrite <- E.
    - intros [= <-]. unfold compose_scalar, composed_tag, written_tag. cbn [fst snd ps_tag ps_plain ps_text].
      destruct (ytag_eqb tag default_tag) eqn:E; [|reflexivity].
      apply ytag_eqb_eq in E. now rewrite <- E.
  Qed.

  Variable analyze : string -> analysis.

  Lemma style_plain_implicit sk flow i an :
    is_plain (choose_scalar_style sk flow i an) = true -> i = true.
  Proof.
    unfold choose_scalar_style. destruct i; [reflexivity|]. cbn [andb].
    destruct (an_allow_single_quoted an && negb (sk && an_multiline an)); cbn [is_plain]; discriminate.
  Qed.

  (* the emitter's own choice is one of the allowed ones *)
  Lemma emit_is_emit_as sk flow n :
    emit_scalar_as resolve default_tag (ps_plain (emit_scalar resolve default_tag analyze sk flow n)) n
    = Some (emit_scalar resolve default_tag analyze sk flow n).
  Proof.
    unfold emit_scalar, emit_scalar_as. cbn [ps_plain].
    destruct (is_plain (choose_scalar_style sk flow (fst (implicit_of resolve default_tag n))
                                            (analyze (sn_text n)))) eqn:E.
    - apply style_plain_implicit in E. rewrite E. reflexivity.
    - reflexivity.
  Qed.

  Theorem compose_emit sk flow n :
    compose_scalar resolve default_tag (emit_scalar resolve default_tag analyze sk flow n) = n.
  Proof. eapply compose_emit_as. apply emit_is_emit_as. Qed.

  Corollary composed_tag_emit sk flow n :
    composed_tag resolve default_tag (emit_scalar resolve default_tag analyze sk flow n) = sn_tag n.
  Proof.
    pose proof (compose_emit sk flow n) as H. unfold compose_scalar in H.
    destruct n as [tag text]. cbn [sn_tag]. now injection H.
  Qed.

  Lemma emit_text sk flow n : ps_text (emit_scalar resolve default_tag analyze sk flow n) = sn_text n.
  Proof. reflexivity. Qed.

  (* a scalar is written plain only if the loader's resolver gives its text the node's tag *)
  Lemma plain_only_if_resolved sk flow n :
    ps_plain (emit_scalar resolve default_tag analyze sk flow n) = true ->
    resolve (sn_text n) = sn_tag n.
  Proof.
    unfold emit_scalar. cbn [ps_plain]. intro H. apply style_plain_implicit in H.
    unfold implicit_of in H. cbn [fst] in H. apply ytag_eqb_eq in H. now symmetry.
  Qed.
End ScalarP.

(* ---------------------------------------------------------------- decimal integers *)
Definition digit_char (c : ascii) : bool := digit c.

Fixpoint all_chars (p : ascii -> bool) (s : string) : bool :=
  match s with
  | EmptyString => true
  | String c s' => p c && all_chars p s'
  end.

Lemma uint_text_digits d : all_chars digit_char (NilEmpty.string_of_uint d) = true.
Proof. induction d; cbn [NilEmpty.string_of_uint all_chars]; try reflexivity; rewrite IHd; reflexivity. Qed.

Lemma remove_char_digits x s :
  digit_char x = false -> all_chars digit_char s = true -> remove_char x s = s.
Proof.
  intros Hx. induction s as [|c s IH]; cbn [all_chars remove_char]; [reflexivity|].
  intro H. apply andb_prop in H as [Hc Hs].
  destruct (Ascii.eqb c x) eqn:E.
  - apply Ascii.eqb_eq in E. subst. congruence.
  - now rewrite IH.
Qed.

Lemma has_char_digits x s :
  digit_char x = false -> all_chars digit_char s = true -> has_char x s = false.
Proof.
  intros Hx. induction s as [|c s IH]; cbn [all_chars has_char]; [reflexivity|].
  intro H. apply andb_prop in H as [Hc Hs].
  destruct (Ascii.eqb c x) eqn:E.
  - apply Ascii.eqb_eq in E. subst. congruence.
  - now rewrite IH.
Qed.

(* Pos.to_uint has no leading zero *)
Lemma to_uint_head p d : Pos.to_uint p <> Decimal.D0 d.
Proof.
  intro H.
  pose proof (DecimalPos.Unsigned.of_to p) as Hof.
  pose proof (DecimalN.Unsigned.to_of (Pos.to_uint p)) as Hto.
  unfold N.of_uint in Hto. rewrite Hof in Hto. cbn [N.to_uint] in Hto.
  rewrite H in Hto. unfold Decimal.unorm in Hto. cbn [Decimal.nzhead] in Hto.
  destruct (Decimal.nzhead d) eqn:E.
  - injection Hto as Hd. subst d. exact (DecimalPos.Unsigned.to_uint_nonzero p H).
  - exact (DecimalFacts.nzhead_nonzero d u E).
  - discriminate. - discriminate. - discriminate. - discriminate. - discriminate.
  - discriminate. - discriminate. - discriminate. - discriminate.
Qed.

Lemma string_of_uint_inj d d' :
  NilEmpty.string_of_uint d = NilEmpty.string_of_uint d' -> d = d'.
Proof.
  intro H. pose proof (NilEmpty.usu d) as A. rewrite H, NilEmpty.usu in A. now injection A.
Qed.

Lemma pos_text p :
  exists c s, NilEmpty.string_of_uint (Pos.to_uint p) = String c s /\
              digit_char c = true /\ Ascii.eqb c "0" = false /\
              all_chars digit_char (String c s) = true.
Proof.
  pose proof (uint_text_digits (Pos.to_uint p)) as Hd.
  pose proof (to_uint_head p) as Hh.
  pose proof (DecimalPos.Unsigned.to_uint_nonnil p) as Hn.
  destruct (Pos.to_uint p) eqn:E; cbn [NilEmpty.string_of_uint] in *;
    try (eexists _, _; split; [reflexivity|]; split; [reflexivity|]; split; [reflexivity|]; exact Hd).
  - congruence.
  - exfalso. eapply Hh. reflexivity.
Qed.

Lemma digits_value_pos p :
  digits_value (NilEmpty.string_of_uint (Pos.to_uint p)) = Some (Z.pos p).
Proof.
  destruct (pos_text p) as (c & s & E & _).
  unfold digits_value. rewrite E. rewrite <- E. rewrite NilEmpty.usu. cbn [option_map].
  unfold Z.of_uint. rewrite DecimalPos.Unsigned.of_to. reflexivity.
Qed.

Lemma construct_unsigned p (sgn : Z) c s :
  NilEmpty.string_of_uint (Pos.to_uint p) = String c s ->
  (if String.eqb (String c s) "0" then Some 0%Z
   else if Ascii.eqb c "0" then None
        else if has_char ":" (String c s) then None
             else option_map (fun n => (sgn * n)%Z) (digits_value (String c s)))
  = Some (sgn * Z.pos p)%Z.
Proof.
  intro E. destruct (pos_text p) as (c' & s' & E' & Hc & H0 & Hall).
  rewrite E in E'. injection E' as <- <-.
  assert (Hne : String.eqb (String c s) "0" = false).
  { apply String.eqb_neq. intro H. injection H as -> _. discriminate. }
  rewrite Hne, H0. rewrite (has_char_digits ":" _ eq_refl Hall).
  rewrite <- E, digits_value_pos. reflexivity.
Qed.

(* str(n) read by construct_yaml_int gives n, for every integer *)
Theorem construct_int_text z : construct_int (int_text z) = Some z.
Proof.
  unfold int_text. destruct z as [|p|p]; cbn [Z.to_int NilZero.string_of_int].
  - reflexivity.
  - unfold NilZero.string_of_uint.
    destruct (pos_text p) as (c & s & E & Hc & H0 & Hall).
    assert (Hs : match Pos.to_uint p with Decimal.Nil => "0" | _ => NilEmpty.string_of_uint (Pos.to_uint p) end
                 = String c s).
    { destruct (Pos.to_uint p) eqn:Ep; try exact E.
      exfalso. exact (DecimalPos.Unsigned.to_uint_nonnil p Ep). }
    rewrite Hs. unfold construct_int.
    rewrite (remove_char_digits "_" _ eq_refl Hall).
    assert (Hsg : one_of "+-" c = false).
    { unfold one_of. cbn [list_ascii_of_string existsb].
      destruct (Ascii.eqb c "+") eqn:A; [apply Ascii.eqb_eq in A; subst; discriminate|].
      destruct (Ascii.eqb c "-") eqn:B; [apply Ascii.eqb_eq in B; subst; discriminate|]. reflexivity. }
    assert (Hm : Ascii.eqb c "-" = false).
    { destruct (Ascii.eqb c "-") eqn:B; [apply Ascii.eqb_eq in B; subst; discriminate|reflexivity]. }
    rewrite Hsg, Hm.
    rewrite (construct_unsigned p 1 c s E). reflexivity.
  - unfold NilZero.string_of_uint.
    destruct (pos_text p) as (c & s & E & Hc & H0 & Hall).
    assert (Hs : match Pos.to_uint p with Decimal.Nil => "0" | _ => NilEmpty.string_of_uint (Pos.to_uint p) end
                 = String c s).
    { destruct (Pos.to_uint p) eqn:Ep; try exact E.
      exfalso. exact (DecimalPos.Unsigned.to_uint_nonnil p Ep). }
    rewrite Hs. unfold construct_int.
    assert (Hrm : remove_char "_" (String "-" (String c s)) = String "-" (String c s)).
    { change (remove_char "_" (String "-" (String c s))) with (String "-" (remove_char "_" (String c s))).
      f_equal. apply remove_char_digits; [reflexivity|exact Hall]. }
    rewrite Hrm.
    change (Ascii.eqb "-" "-") with true. change (one_of "+-" "-") with true. cbv iota.
    rewrite (construct_unsigned p (-1) c s E). reflexivity.
Qed.

(* ---------------------------------------------------------------- the matcher implements the usual
   meaning of regular expressions *)
Lemma app_nil_r_s (s : string) : s ++ "" = s.
Proof. induction s as [|c s IH]; cbn [append]; [reflexivity|now rewrite IH]. Qed.

Lemma app_assoc_s (a b c : string) : (a ++ b) ++ c = a ++ (b ++ c).
Proof. induction a as [|x a IH]; cbn [append]; [reflexivity|now rewrite IH]. Qed.

Lemma app_eq_nil_s (a b : string) : a ++ b = "" -> a = "" /\ b = "".
Proof. destruct a; cbn [append]; [auto|discriminate]. Qed.

Lemma lang_cat_inv a b s :
  lang (Cat a b) s -> exists s1 s2, s = s1 ++ s2 /\ lang a s1 /\ lang b s2.
Proof. inversion 1; subst; eauto. Qed.

Lemma lang_alt_inv a b s : lang (Alt a b) s -> lang a s \/ lang b s.
Proof. inversion 1; subst; auto. Qed.

Lemma lang_emp s : ~ lang Emp s.
Proof. inversion 1. Qed.

Lemma lang_eps s : lang Eps s -> s = "".
Proof. inversion 1; reflexivity. Qed.

Lemma lang_chr p s : lang (Chr p) s -> exists c, s = String c "" /\ p c = true.
Proof. inversion 1; subst; eauto. Qed.

Lemma nullable_lang r : nullable r = true <-> lang r "".
Proof.
  induction r as [| |p|a IHa b IHb|a IHa b IHb|a IHa]; cbn [nullable].
  - split; [discriminate|intro H; destruct (lang_emp _ H)].
  - split; [constructor|reflexivity].
  - split; [discriminate|]. intro H. apply lang_chr in H as (c & E & _). discriminate.
  - rewrite andb_true_iff, IHa, IHb. split.
    + intros [Ha Hb]. change "" with ("" ++ ""). now constructor.
    + intro H. apply lang_cat_inv in H as (s1 & s2 & E & H1 & H2). symmetry in E.
      apply app_eq_nil_s in E as [-> ->]. auto.
  - rewrite orb_true_iff, IHa, IHb. split.
    + intros [H|H]; [now apply LAltL|now apply LAltR].
    + apply lang_alt_inv.
  - split; [constructor|reflexivity].
Qed.

Lemma cat_lang a b s : lang (cat a b) s <-> lang (Cat a b) s.
Proof.
  assert (Hemp_l : forall b s, lang (Cat Emp b) s -> False).
  { intros ? ? H. apply lang_cat_inv in H as (? & ? & _ & H & _). destruct (lang_emp _ H). }
  assert (Hemp_r : forall a s, lang (Cat a Emp) s -> False).
  { intros ? ? H. apply lang_cat_inv in H as (? & ? & _ & _ & H). destruct (lang_emp _ H). }
  assert (Heps : forall b s, lang b s <-> lang (Cat Eps b) s).
  { intros b' s'. split.
    - intro H. change s' with ("" ++ s'). constructor; [constructor|exact H].
    - intro H. apply lang_cat_inv in H as (s1 & s2 & -> & H1 & H2). apply lang_eps in H1. now subst. }
  unfold cat. destruct a; destruct b; try tauto;
    try (split; [intro H; destruct (lang_emp _ H)|intro H; exfalso; eauto]); try apply Heps.
Qed.

Lemma alt_lang a b s : lang (alt a b) s <-> lang (Alt a b) s.
Proof.
  assert (Hl : forall b s, lang b s <-> lang (Alt Emp b) s).
  { intros. split; [now apply LAltR|]. intro H. apply lang_alt_inv in H as [H|H]; [destruct (lang_emp _ H)|exact H]. }
  assert (Hr : forall a s, lang a s <-> lang (Alt a Emp) s).
  { intros. split; [now apply LAltL|]. intro H. apply lang_alt_inv in H as [H|H]; [exact H|destruct (lang_emp _ H)]. }
  unfold alt. destruct a; destruct b; try tauto; try apply Hl; try apply Hr.
Qed.

(* a non-empty word of (Star a) starts with a non-empty word of a *)
Lemma star_cons a c s :
  lang (Star a) (String c s) ->
  exists s1 s2, s = s1 ++ s2 /\ lang a (String c s1) /\ lang (Star a) s2.
Proof.
  intro H. remember (Star a) as r eqn:Er. remember (String c s) as w eqn:Ew.
  revert a c s Er Ew. induction H as [| | | | | |a' s1 s2 H1 _ H2 IH2]; intros a0 c0 s0 Er Ew; try discriminate.
  injection Er as ->. destruct s1 as [|c1 s1]; cbn [append] in Ew.
  - apply (IH2 a0 c0 s0 eq_refl Ew).
  - injection Ew as -> <-. exists s1, s2. auto.
Qed.

Lemma deriv_lang c r : forall s, lang (deriv c r) s <-> lang r (String c s).
Proof.
  induction r as [| |p|a IHa b IHb|a IHa b IHb|a IHa]; intro s; cbn [deriv].
  - split; intro H; destruct (lang_emp _ H).
  - split; intro H; [destruct (lang_emp _ H)|apply lang_eps in H; discriminate].
  - destruct (p c) eqn:E; split; intro H.
    + apply lang_eps in H. subst. now constructor.
    + apply lang_chr in H as (c' & [= -> ->] & _). constructor.
    + destruct (lang_emp _ H).
    + apply lang_chr in H as (c' & [= -> ->] & Hp). congruence.
  - assert (Hc : lang (cat (deriv c a) b) s <-> exists s1 s2, s = s1 ++ s2 /\ lang a (String c s1) /\ lang b s2).
    { rewrite cat_lang. split.
      - intro H. apply lang_cat_inv in H as (s1 & s2 & -> & H1 & H2). exists s1, s2. rewrite <- IHa. auto.
      - intros (s1 & s2 & -> & H1 & H2). constructor; [now apply IHa|exact H2]. }
    assert (Hsplit : lang (Cat a b) (String c s) ->
                     (exists s1 s2, s = s1 ++ s2 /\ lang a (String c s1) /\ lang b s2) \/
                     (lang a "" /\ lang b (String c s))).
    { intro H. apply lang_cat_inv in H as (s1 & s2 & E & H1 & H2). destruct s1 as [|c1 s1]; cbn [append] in E.
      - subst s2. right. auto.
      - injection E as -> ->. left. eauto. }
    destruct (nullable a) eqn:N.
    + rewrite alt_lang. split.
      * intro H. apply lang_alt_inv in H as [H1|H1].
        -- apply Hc in H1 as (s1 & s2 & -> & Ha & Hb). change (String c (s1 ++ s2)) with (String c s1 ++ s2). now constructor.
        -- apply IHb in H1. change (String c s) with ("" ++ String c s). constructor; [now apply nullable_lang|exact H1].
      * intro H. apply Hsplit in H as [H|[_ H]].
        -- apply LAltL. now apply Hc.
        -- apply LAltR. now apply IHb.
    + rewrite Hc. split.
      * intros (s1 & s2 & -> & Ha & Hb). change (String c (s1 ++ s2)) with (String c s1 ++ s2). now constructor.
      * intro H. apply Hsplit in H as [H|[H _]]; [exact H|]. apply nullable_lang in H. congruence.
  - rewrite alt_lang. split; intro H; apply lang_alt_inv in H as [H|H].
    + apply LAltL. now apply IHa.
    + apply LAltR. now apply IHb.
    + apply LAltL. now apply IHa.
    + apply LAltR. now apply IHb.
  - rewrite cat_lang. split.
    + intro H. apply lang_cat_inv in H as (s1 & s2 & -> & H1 & H2). apply IHa in H1.
      change (String c (s1 ++ s2)) with (String c s1 ++ s2). now constructor.
    + intro H. apply star_cons in H as (s1 & s2 & -> & H1 & H2). constructor; [now apply IHa|exact H2].
Qed.

Theorem re_match_lang r s : re_match r s = true <-> lang r s.
Proof.
  revert r. induction s as [|c s IH]; intro r; cbn [re_match].
  - apply nullable_lang.
  - rewrite IH. apply deriv_lang.
Qed.

(* ---------------------------------------------------------------- the resolver recognises str(n) as an int,
   for integers of any size (so ints are written without a tag and read back through the same pattern) *)
Definition all_ascii : list ascii := map ascii_of_nat (seq 0 256).

(* every word of [r] contains the character [c] (a syntactic sufficient condition) *)
Fixpoint must_contain (c : ascii) (r : re) : bool :=
  match r with
  | Emp => true
  | Eps => false
  | Chr p => forallb (fun x => implb (p x) (Ascii.eqb x c)) all_ascii
  | Cat a b => must_contain c a || must_contain c b
  | Alt a b => must_contain c a && must_contain c b
  | Star _ => false
  end.

Lemma all_ascii_complete x : In x all_ascii.
Proof.
  unfold all_ascii. rewrite <- (ascii_nat_embedding x). apply in_map. apply in_seq.
  pose proof (nat_ascii_bounded x). lia.
Qed.

Lemma has_char_app c s1 s2 : has_char c (s1 ++ s2) = has_char c s1 || has_char c s2.
Proof. induction s1 as [|x s1 IH]; cbn [append has_char]; [reflexivity|]. now rewrite IH, orb_assoc. Qed.

Lemma must_contain_sound c r s : must_contain c r = true -> lang r s -> has_char c s = true.
Proof.
  intros M L. induction L as [|p x Hp|a b s1 s2 _ IH1 _ IH2|a b s _ IH|a b s _ IH| |]; cbn [must_contain] in M;
    try discriminate.
  - rewrite forallb_forall in M. specialize (M x (all_ascii_complete x)). rewrite Hp in M. cbn [implb] in M.
    cbn [has_char]. now rewrite M.
  - rewrite has_char_app. apply orb_true_iff in M as [M|M]; [rewrite (IH1 M)|rewrite (IH2 M), orb_true_r]; reflexivity.
  - apply andb_prop in M as [M _]. auto.
  - apply andb_prop in M as [_ M]. auto.
Qed.

Lemma float_needs_dot s : re_match re_float s = true -> has_char "." s = true.
Proof. intro H. apply re_match_lang in H. eapply must_contain_sound; [|exact H]. vm_compute. reflexivity. Qed.

Lemma digit_cases c :
  digit_char c = true ->
  c = "0"%char \/ c = "1"%char \/ c = "2"%char \/ c = "3"%char \/ c = "4"%char \/
  c = "5"%char \/ c = "6"%char \/ c = "7"%char \/ c = "8"%char \/ c = "9"%char.
Proof.
  destruct c as [[] [] [] [] [] [] [] []]; vm_compute; intro H; try discriminate H; tauto.
Qed.

Lemma chop_has_nl s s' : chop_final_newline s = Some s' -> has_char nl s = true.
Proof.
  revert s'. induction s as [|c s IH]; intro s'; cbn [chop_final_newline]; [discriminate|].
  destruct s as [|c2 s2].
  - destruct (Ascii.eqb c nl) eqn:E; [|discriminate]. intros _. cbn [has_char]. now rewrite E.
  - destruct (chop_final_newline (String c2 s2)) eqn:E; [|discriminate]. intros _.
    cbn [has_char] in *. rewrite (IH _ eq_refl). apply orb_true_r.
Qed.

Lemma digits_star s : all_chars digit_char s = true -> lang (Star (Chr digit_us)) s.
Proof.
  induction s as [|c s IH]; cbn [all_chars]; [constructor|]. intro H. apply andb_prop in H as [Hc Hs].
  change (String c s) with (String c "" ++ s). constructor; [|now apply IH].
  constructor. unfold digit_us, either. unfold digit_char in Hc. now rewrite Hc.
Qed.

(* unsigned decimal text: a digit 1-9 followed by digits *)
Lemma unsigned_is_int c s :
  digit_char c = true -> Ascii.eqb c "0" = false -> all_chars digit_char s = true ->
  lang (Alt (ch "0") (Cat (Chr (in_range "1" "9")) (Star (Chr digit_us)))) (String c s).
Proof.
  intros Hc H0 Hs. apply LAltR. change (String c s) with (String c "" ++ s).
  constructor; [|now apply digits_star]. constructor.
  destruct (digit_cases c Hc) as [->|[->|[->|[->|[->|[->|[->|[->|[->| ->]]]]]]]]]; try reflexivity; discriminate.
Qed.

Lemma sign_digits_no c s (x : ascii) :
  (digit_char c = true \/ c = "-"%char) -> all_chars digit_char s = true ->
  digit_char x = false -> Ascii.eqb "-" x = false -> has_char x (String c s) = false.
Proof.
  intros Hc Hs Hx Hm. cbn [has_char]. rewrite (has_char_digits x s Hx Hs), orb_false_r.
  destruct (Ascii.eqb c x) eqn:E; [|reflexivity]. apply Ascii.eqb_eq in E. subst x.
  destruct Hc as [Hc| ->]; [congruence|]. discriminate.
Qed.

Lemma not_float c s :
  (digit_char c = true \/ c = "-"%char) -> all_chars digit_char s = true ->
  anchored_match re_float (String c s) = false.
Proof.
  intros Hc Hs. unfold anchored_match.
  destruct (re_match re_float (String c s)) eqn:E.
  - apply float_needs_dot in E. rewrite (sign_digits_no c s "." Hc Hs eq_refl eq_refl) in E. discriminate.
  - destruct (chop_final_newline (String c s)) eqn:E2; [|reflexivity].
    apply chop_has_nl in E2. rewrite (sign_digits_no c s nl Hc Hs eq_refl eq_refl) in E2. discriminate.
Qed.

Lemma int_matches_unsigned c s :
  digit_char c = true -> Ascii.eqb c "0" = false -> all_chars digit_char s = true ->
  anchored_match re_int (String c s) = true.
Proof.
  intros Hc H0 Hs. unfold anchored_match. apply orb_true_iff. left. apply re_match_lang.
  unfold re_int. cbn [alts]. apply LAltR. apply LAltR. apply LAltL. cbn [cats].
  change (String c s) with ("" ++ String c s). constructor; [apply LAltR; constructor|].
  now apply unsigned_is_int.
Qed.

Lemma int_matches_negative c s :
  digit_char c = true -> Ascii.eqb c "0" = false -> all_chars digit_char s = true ->
  anchored_match re_int (String "-" (String c s)) = true.
Proof.
  intros Hc H0 Hs. unfold anchored_match. apply orb_true_iff. left. apply re_match_lang.
  unfold re_int. cbn [alts]. apply LAltR. apply LAltR. apply LAltL. cbn [cats].
  change (String "-" (String c s)) with (String "-" "" ++ String c s). constructor.
  - apply LAltL. constructor. reflexivity.
  - now apply unsigned_is_int.
Qed.

Lemma filed_digit c s :
  digit_char c = true ->
  filter (filed_under (String c s)) implicit_resolvers =
  [mkIR TgFloat "-+0123456789." false re_float; mkIR TgInt "-+0123456789" false re_int;
   mkIR TgTimestamp "0123456789" false re_timestamp].
Proof.
  intro Hc.
  destruct (digit_cases c Hc) as [->|[->|[->|[->|[->|[->|[->|[->|[->| ->]]]]]]]]]; reflexivity.
Qed.

Theorem int_text_resolves z : resolve_plain (int_text z) = TgInt.
Proof.
  unfold int_text. destruct z as [|p|p]; cbn [Z.to_int NilZero.string_of_int].
  - vm_compute. reflexivity.
  - unfold NilZero.string_of_uint.
    destruct (pos_text p) as (c & s & E & Hc & H0 & Hall).
    assert (Hs : match Pos.to_uint p with Decimal.Nil => "0" | _ => NilEmpty.string_of_uint (Pos.to_uint p) end
                 = String c s).
    { destruct (Pos.to_uint p) eqn:Ep; try exact E.
      exfalso. exact (DecimalPos.Unsigned.to_uint_nonnil p Ep). }
    rewrite Hs. cbn [all_chars] in Hall. apply andb_prop in Hall as [_ Hall].
    unfold resolve_plain. rewrite (filed_digit c s Hc). cbn [first_match ir_re ir_tag].
    rewrite (not_float c s (or_introl Hc) Hall), (int_matches_unsigned c s Hc H0 Hall). reflexivity.
  - unfold NilZero.string_of_uint.
    destruct (pos_text p) as (c & s & E & Hc & H0 & Hall).
    assert (Hs : match Pos.to_uint p with Decimal.Nil => "0" | _ => NilEmpty.string_of_uint (Pos.to_uint p) end
                 = String c s).
    { destruct (Pos.to_uint p) eqn:Ep; try exact E.
      exfalso. exact (DecimalPos.Unsigned.to_uint_nonnil p Ep). }
    rewrite Hs.
    assert (Hf : filter (filed_under (String "-" (String c s))) implicit_resolvers =
                 [mkIR TgFloat "-+0123456789." false re_float; mkIR TgInt "-+0123456789" false re_int])
      by reflexivity.
    unfold resolve_plain. rewrite Hf. cbn [first_match ir_re ir_tag].
    rewrite (not_float "-" (String c s) (or_intror eq_refl) Hall), (int_matches_negative c s Hc H0).
    + reflexivity.
    + cbn [all_chars] in Hall. now apply andb_prop in Hall as [_ Hall].
Qed.
