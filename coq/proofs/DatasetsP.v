(* DatasetsP.v — proofs about theories/Datasets.v (property C17). *)
From Coq Require Import ZArith List Lia Bool Permutation Arith PeanoNat.
From SFV Require Import Base Datasets.
Import ListNotations. Open Scope Z_scope.

Ltac splits := repeat match goal with |- _ /\ _ => split end.

Section Proofs.
Variable R : Type.
Variable C : Type.
Variable col : R -> nat -> option C.

Notation upd := (upd R).
Notation swap := (swap R).
Notation fy := (fy R).
Notation shuffle := (shuffle R).
Notation dsref := (dsref R).
Notation iter := (iter R).
Notation start := (start R).
Notation new_iter := (new_iter R).
Notation iter_next := (iter_next R).
Notation field_draw := (field_draw R).
Notation draw_seq := (draw_seq R).
Notation zip_drain := (zip_drain R).

(* ------------------------------------------------------------------ random.shuffle *)

Lemma upd_length l i v : length (upd l i v) = length l.
Proof.
  revert i; induction l as [|x l IH]; intros [|i]; cbn [Datasets.upd length]; auto.
Qed.

Lemma upd_head_perm (r : list R) b x y :
  nth_error r b = Some y -> Permutation (y :: upd r b x) (x :: r).
Proof.
  revert b; induction r as [|h r IH]; intros [|b] H; cbn [nth_error] in H; try discriminate.
  - inversion H; subst. cbn [Datasets.upd]. apply perm_swap.
  - cbn [Datasets.upd].
    eapply perm_trans; [apply perm_swap|].
    eapply perm_trans; [apply perm_skip, IH, H|]. apply perm_swap.
Qed.

Lemma swap_perm l i j l' : swap l i j = Ok l' -> Permutation l' l.
Proof.
  unfold Datasets.swap.
  destruct (nth_error l i) as [xi|] eqn:Hi; [|discriminate].
  destruct (nth_error l j) as [xj|] eqn:Hj; [|discriminate].
  intros H; inversion H; subst l'; clear H.
  revert i j Hi Hj; induction l as [|h r IH]; intros [|i] [|j] Hi Hj;
    cbn [nth_error] in Hi, Hj; try discriminate.
  - inversion Hi; inversion Hj; subst. cbn [Datasets.upd]. apply Permutation_refl.
  - inversion Hi; subst. cbn [Datasets.upd]. apply upd_head_perm; assumption.
  - inversion Hj; subst. cbn [Datasets.upd]. apply upd_head_perm; assumption.
  - cbn [Datasets.upd]. apply perm_skip. apply IH; assumption.
Qed.

Lemma swap_length l i j l' : swap l i j = Ok l' -> length l' = length l.
Proof. intros H. apply Permutation_length, (swap_perm _ _ _ _ H). Qed.

Lemma swap_total l i j : (i < length l)%nat -> (j < length l)%nat -> exists l', swap l i j = Ok l'.
Proof.
  intros Hi Hj. unfold Datasets.swap.
  destruct (nth_error l i) eqn:E1; [|apply nth_error_None in E1; lia].
  destruct (nth_error l j) eqn:E2; [|apply nth_error_None in E2; lia].
  eauto.
Qed.

Lemma fy_perm i : forall l orc l' orc', fy i l orc = Ok (l', orc') -> Permutation l' l.
Proof.
  induction i as [|i IH]; intros l orc l' orc' H; cbn [Datasets.fy] in H.
  - inversion H; subst. apply Permutation_refl.
  - destruct orc as [|j rest]; [discriminate|].
    destruct ((0 <=? j) && (j <=? Z.of_nat (S i))) eqn:Hr; [|discriminate].
    destruct (swap l (S i) (Z.to_nat j)) as [l1|] eqn:Hs; cbn [bind] in H; [|discriminate].
    eapply perm_trans; [eapply IH; eassumption|]. eapply swap_perm; eassumption.
Qed.

(* the loop indexes only inside the list, so the only way to fail is the oracle *)
Lemma fy_err i : forall l orc e, (i < length l)%nat -> fy i l orc = Err e -> e = BadOracle.
Proof.
  induction i as [|i IH]; intros l orc e Hlen H; cbn [Datasets.fy] in H; [discriminate|].
  destruct orc as [|j rest]; [inversion H; reflexivity|].
  destruct ((0 <=? j) && (j <=? Z.of_nat (S i))) eqn:Hr; [|inversion H; reflexivity].
  apply andb_prop in Hr. destruct Hr as [H0 H1].
  apply Z.leb_le in H0. apply Z.leb_le in H1.
  destruct (swap_total l (S i) (Z.to_nat j)) as [l1 Hs]; [lia|lia|].
  rewrite Hs in H; cbn [bind] in H.
  eapply IH; [|eassumption]. rewrite (swap_length _ _ _ _ Hs). lia.
Qed.

(* with enough in-range draws the shuffle succeeds: [good_draws i orc] = the first i entries
   are draws for indices i, i-1, ..., 1 *)
Fixpoint good_draws (i : nat) (orc : list Z) : Prop :=
  match i with
  | O => True
  | S i' => match orc with
            | [] => False
            | j :: rest => 0 <= j <= Z.of_nat i /\ good_draws i' rest
            end
  end.

Lemma fy_total i : forall l orc, (i < length l)%nat -> good_draws i orc ->
  exists l' orc', fy i l orc = Ok (l', orc').
Proof.
  induction i as [|i IH]; intros l orc Hlen Hg; cbn [Datasets.fy].
  - eauto.
  - destruct orc as [|j rest]; cbn [good_draws] in Hg; [contradiction|].
    destruct Hg as [Hj Hg].
    replace ((0 <=? j) && (j <=? Z.of_nat (S i))) with true
      by (symmetry; apply andb_true_intro; split; apply Z.leb_le; lia).
    destruct (swap_total l (S i) (Z.to_nat j)) as [l1 Hs]; [lia|lia|].
    rewrite Hs; cbn [bind]. apply IH; [|assumption].
    rewrite (swap_length _ _ _ _ Hs). lia.
Qed.

Lemma shuffle_perm l orc l' orc' : shuffle l orc = Ok (l', orc') -> Permutation l' l.
Proof. apply fy_perm. Qed.

Lemma shuffle_err l orc e : shuffle l orc = Err e -> e = BadOracle.
Proof.
  unfold Datasets.shuffle. destruct l as [|x l]; cbn [length Nat.pred Datasets.fy].
  - discriminate.
  - apply fy_err. cbn [length]. lia.
Qed.

(* ------------------------------------------------------------------ start / new_iter *)

Lemma start_perm (d : dsref) orc res orc' :
  start d orc = Ok (res, orc') -> Permutation res (d_data R d).
Proof.
  unfold Datasets.start. destruct (d_mode R d).
  - intros H; inversion H; subst. apply Permutation_refl.
  - apply shuffle_perm.
Qed.

Lemma start_linear (d : dsref) orc :
  d_mode R d = Linear -> start d orc = Ok (d_data R d, orc).
Proof. unfold Datasets.start. intros ->. reflexivity. Qed.

Lemma start_err (d : dsref) orc e : start d orc = Err e -> e = BadOracle.
Proof.
  unfold Datasets.start. destruct (d_mode R d); [discriminate|]. apply shuffle_err.
Qed.

Lemma new_iter_spec (d : dsref) orc it orc' :
  new_iter d orc = Ok (it, orc') ->
  i_ds R it = d /\ i_repeat R it = d_repeat R d /\ start d orc = Ok (i_rest R it, orc').
Proof.
  unfold Datasets.new_iter. destruct (start d orc) as [[res o]|] eqn:Hs; cbn [bind]; [|discriminate].
  intros H; inversion H; subst. cbn. auto.
Qed.

Lemma new_iter_err (d : dsref) orc e : new_iter d orc = Err e -> e = BadOracle.
Proof.
  unfold Datasets.new_iter. destruct (start d orc) as [[res o]|] eqn:Hs; cbn [bind]; [discriminate|].
  intros H; inversion H; subst. eapply start_err; eassumption.
Qed.

(* ------------------------------------------------------------------ draw_seq, generally *)

Lemma draw_seq_app a : forall b (it : iter) orc l it2 orc2,
  draw_seq (a + b) it orc = Ok (l, it2, orc2) ->
  exists l1 l2 it1 orc1,
    draw_seq a it orc = Ok (l1, it1, orc1) /\ draw_seq b it1 orc1 = Ok (l2, it2, orc2) /\
    l = l1 ++ l2.
Proof.
  induction a as [|a IH]; intros b it orc l it2 orc2 H.
  - cbn [Nat.add] in H. exists [], l, it, orc. cbn [Datasets.draw_seq app]. auto.
  - cbn [Nat.add Datasets.draw_seq] in H |- *.
    destruct (field_draw it orc) as [[[x it1] orc1]|] eqn:Hd; cbn [bind] in H |- *; [|discriminate].
    destruct (draw_seq (a + b) it1 orc1) as [[[l' it'] orc']|] eqn:Hr; cbn [bind] in H; [|discriminate].
    inversion H; subst; clear H.
    destruct (IH _ _ _ _ _ _ Hr) as (l1 & l2 & it3 & orc3 & H1 & H2 & ->).
    exists (x :: l1), l2, it3, orc3. rewrite H1; cbn [bind app]. auto.
Qed.

Lemma draw_seq_app_ok a : forall b (it : iter) orc l1 it1 orc1 l2 it2 orc2,
  draw_seq a it orc = Ok (l1, it1, orc1) -> draw_seq b it1 orc1 = Ok (l2, it2, orc2) ->
  draw_seq (a + b) it orc = Ok (l1 ++ l2, it2, orc2).
Proof.
  induction a as [|a IH]; intros b it orc l1 it1 orc1 l2 it2 orc2 H1 H2.
  - cbn [Datasets.draw_seq] in H1. inversion H1; subst. exact H2.
  - cbn [Nat.add Datasets.draw_seq] in H1 |- *.
    destruct (field_draw it orc) as [[[x it'] orc']|] eqn:Hd; cbn [bind] in H1 |- *; [|discriminate].
    destruct (draw_seq a it' orc') as [[[l' it''] orc'']|] eqn:Hr; cbn [bind] in H1; [|discriminate].
    inversion H1; subst; clear H1.
    rewrite (IH _ _ _ _ _ _ _ _ _ Hr H2). reflexivity.
Qed.

Lemma draw_seq_app_err a : forall b (it : iter) orc l1 it1 orc1 e,
  draw_seq a it orc = Ok (l1, it1, orc1) -> draw_seq b it1 orc1 = Err e ->
  draw_seq (a + b) it orc = Err e.
Proof.
  induction a as [|a IH]; intros b it orc l1 it1 orc1 e H1 H2.
  - cbn [Datasets.draw_seq] in H1. inversion H1; subst. exact H2.
  - cbn [Nat.add Datasets.draw_seq] in H1 |- *.
    destruct (field_draw it orc) as [[[x it'] orc']|] eqn:Hd; cbn [bind] in H1 |- *; [|discriminate].
    destruct (draw_seq a it' orc') as [[[l' it''] orc'']|] eqn:Hr; cbn [bind] in H1; [|discriminate].
    inversion H1; subst; clear H1.
    rewrite (IH _ _ _ _ _ _ _ Hr H2). reflexivity.
Qed.

Lemma draw_seq_length k : forall (it : iter) orc l it' orc',
  draw_seq k it orc = Ok (l, it', orc') -> length l = k.
Proof.
  induction k as [|k IH]; intros it orc l it' orc' H; cbn [Datasets.draw_seq] in H.
  - inversion H; reflexivity.
  - destruct (field_draw it orc) as [[[x it1] orc1]|]; cbn [bind] in H; [|discriminate].
    destruct (draw_seq k it1 orc1) as [[[l1 it2] orc2]|] eqn:Hr; cbn [bind] in H; [|discriminate].
    inversion H; subst. cbn [length]. f_equal. eapply IH; eassumption.
Qed.

(* drawing what is left of the current pass: in order, no oracle use, whatever the mode *)
Lemma draw_seq_pass : forall (rest : list R) (d : dsref) rp orc,
  draw_seq (length rest) (mkIter R d rp rest) orc = Ok (rest, mkIter R d rp [], orc).
Proof.
  induction rest as [|x r IH]; intros d rp orc; cbn [length Datasets.draw_seq].
  - reflexivity.
  - unfold Datasets.field_draw, Datasets.iter_next. cbn [i_rest i_ds i_repeat bind].
    rewrite IH. reflexivity.
Qed.

(* ------------------------------------------------------------------ the linear iterator *)

(* the first k elements of: rest, then data, data, data, ... *)
Fixpoint cyc_from (rest data : list R) (k : nat) : list R :=
  match k with
  | O => []
  | S k' =>
    match rest with
    | x :: r => x :: cyc_from r data k'
    | [] => match data with
            | x :: r => x :: cyc_from r data k'
            | [] => []
            end
    end
  end.

(* what is left of the current pass after k draws *)
Fixpoint rest_after (rest data : list R) (k : nat) : list R :=
  match k with
  | O => rest
  | S k' =>
    match rest with
    | _ :: r => rest_after r data k'
    | [] => match data with
            | _ :: r => rest_after r data k'
            | [] => []
            end
    end
  end.

Lemma draw_seq_linear nm k : forall rest data rp orc,
  data <> [] ->
  draw_seq k (mkIter R (mkDs data Linear rp nm) true rest) orc =
  Ok (cyc_from rest data k, mkIter R (mkDs data Linear rp nm) true (rest_after rest data k), orc).
Proof.
  induction k as [|k IH]; intros rest data rp orc Hne; cbn [Datasets.draw_seq cyc_from rest_after].
  - reflexivity.
  - unfold Datasets.field_draw, Datasets.iter_next. cbn [i_rest i_ds i_repeat].
    destruct rest as [|x r]; cbn [bind].
    + unfold Datasets.start. cbn [d_mode d_data bind].
      destruct data as [|x r]; [contradiction|]. cbn [bind].
      rewrite IH by assumption. reflexivity.
    + rewrite IH by assumption. reflexivity.
Qed.

Lemma skipn_cons_nth (data : list R) p x r :
  skipn p data = x :: r -> nth_error data p = Some x /\ skipn (S p) data = r /\ (p < length data)%nat.
Proof.
  revert p; induction data as [|h t IH]; intros [|p] H; cbn [skipn] in H; try discriminate.
  - inversion H; subst. cbn. splits; auto; lia.
  - destruct (IH _ H) as (H1 & H2 & H3). cbn [nth_error length]. splits; auto; lia.
Qed.

Lemma skipn_nil_length (data : list R) p : skipn p data = [] -> (length data <= p)%nat.
Proof.
  revert p; induction data as [|h t IH]; intros [|p] H; cbn [skipn length] in *; try lia; try discriminate.
  apply IH in H. lia.
Qed.

(* the arithmetic content: position j of the cyclic stream is record (p + j) mod n *)
Lemma cyc_from_nth k : forall (data : list R) p j,
  data <> [] -> (p <= length data)%nat -> (j < k)%nat ->
  nth_error (cyc_from (skipn p data) data k) j = nth_error data ((p + j) mod length data).
Proof.
  induction k as [|k IH]; intros data p j Hne Hp Hj; [lia|].
  assert (Hn : (length data <> 0)%nat) by (destruct data; cbn; [contradiction|lia]).
  cbn [cyc_from].
  destruct (skipn p data) as [|x r] eqn:Hs.
  - apply skipn_nil_length in Hs. assert (p = length data) by lia. subst p.
    destruct data as [|x r] eqn:Hd; [contradiction|]. rewrite <- Hd in *.
    destruct j as [|j]; cbn [nth_error].
    + rewrite Nat.add_0_r, Nat.mod_same by assumption. rewrite Hd. reflexivity.
    + replace r with (skipn 1 data) by (rewrite Hd; reflexivity).
      rewrite IH; [|assumption| |lia].
      * f_equal. replace (length data + S j)%nat with ((1 + j) + 1 * length data)%nat by lia.
        rewrite Nat.mod_add by assumption. reflexivity.
      * rewrite Hd; cbn [length]; lia.
  - destruct (skipn_cons_nth _ _ _ _ Hs) as (H1 & H2 & H3).
    destruct j as [|j]; cbn [nth_error].
    + rewrite Nat.add_0_r, Nat.mod_small by assumption. symmetry; assumption.
    + rewrite <- H2. rewrite IH; [|assumption|lia|lia].
      f_equal. f_equal. lia.
Qed.

(* C17, iterate: the k-th draw (0-based, any k) of a freshly opened repeating linear iterator
   is record k mod n, for all draws of every prefix *)
Theorem iterate_mod_n (data : list R) (orc : list Z) (k : nat) (nm : option nat) :
  data <> [] ->
  exists it l it',
    new_iter (mkDs data Linear true nm) orc = Ok (it, orc) /\
    draw_seq k it orc = Ok (l, it', orc) /\
    length l = k /\
    forall j, (j < k)%nat -> nth_error l j = nth_error data (j mod length data).
Proof.
  intros Hne.
  exists (mkIter R (mkDs data Linear true nm) true data), (cyc_from data data k),
         (mkIter R (mkDs data Linear true nm) true (rest_after data data k)).
  pose proof (draw_seq_linear nm k data data true orc Hne) as Hd.
  split; [reflexivity|]. split; [exact Hd|]. split.
  - eapply draw_seq_length. exact Hd.
  - intros j Hj.
    pose proof (cyc_from_nth k data 0 j Hne ltac:(lia) Hj) as Hc.
    cbn [skipn Nat.add] in Hc. exact Hc.
Qed.

(* ------------------------------------------------------------------ cycles of any iterator *)

(* between two passes: nothing left, or a complete fresh pass *)
Definition at_boundary (it : iter) : Prop :=
  i_rest R it = [] \/ Permutation (i_rest R it) (d_data R (i_ds R it)).

Lemma draw_cycle (it : iter) orc l it' orc' :
  i_repeat R it = true -> d_data R (i_ds R it) <> [] -> at_boundary it ->
  draw_seq (length (d_data R (i_ds R it))) it orc = Ok (l, it', orc') ->
  Permutation l (d_data R (i_ds R it)) /\
  i_ds R it' = i_ds R it /\ i_repeat R it' = true /\ i_rest R it' = [].
Proof.
  destruct it as [d rp rest]. cbn [i_repeat i_ds i_rest]. intros -> Hne Hb H.
  unfold at_boundary in Hb; cbn [i_rest i_ds] in Hb.
  destruct Hb as [Hb|Hb].
  - subst rest.
    destruct (d_data R d) as [|x0 r0] eqn:Hd; [contradiction|]. cbn [length Datasets.draw_seq] in H.
    unfold Datasets.field_draw, Datasets.iter_next in H. cbn [i_rest i_ds i_repeat] in H.
    destruct (start d orc) as [[res o1]|e] eqn:Hs; cbn [bind] in H;
      [|pose proof (start_err _ _ _ Hs); subst e; discriminate].
    pose proof (start_perm _ _ _ _ Hs) as Hp. rewrite Hd in Hp.
    destruct res as [|x r]; [apply Permutation_nil in Hp; discriminate|].
    cbn [bind] in H.
    assert (Hl : length r = length r0).
    { apply Permutation_length in Hp. cbn [length] in Hp. lia. }
    rewrite <- Hl in H. rewrite draw_seq_pass in H. cbn [bind] in H.
    inversion H; subst. cbn. auto.
  - pose proof (Permutation_length Hb) as Hl. rewrite <- Hl in H.
    rewrite draw_seq_pass in H. inversion H; subst. cbn. auto.
Qed.

(* C17, shuffle (and iterate): counted from a fresh iterator, draws c*n .. c*n+n-1 are a
   permutation of the records, for every c and every oracle stream that lets the run succeed *)
Theorem cycle_perm (d : dsref) (c : nat) orc it orc1 l it' orc' :
  d_repeat R d = true -> d_data R d <> [] ->
  new_iter d orc = Ok (it, orc1) ->
  draw_seq (c * length (d_data R d) + length (d_data R d)) it orc1 = Ok (l, it', orc') ->
  Permutation (firstn (length (d_data R d)) (skipn (c * length (d_data R d)) l)) (d_data R d).
Proof.
  intros Hrp Hne Hnew.
  destruct (new_iter_spec _ _ _ _ Hnew) as (Hds & Hr & Hst).
  assert (Hb : at_boundary it).
  { right. rewrite Hds. eapply start_perm; eassumption. }
  rewrite Hrp in Hr. clear Hnew Hst.
  revert it orc1 l it' orc' Hds Hr Hb.
  induction c as [|c IH]; intros it orc1 l it' orc' Hds Hr Hb H.
  - cbn [Nat.mul Nat.add skipn] in *. rewrite <- Hds in H.
    pose proof (draw_seq_length _ _ _ _ _ _ H) as Hl.
    destruct (draw_cycle _ _ _ _ _ Hr ltac:(rewrite Hds; assumption) Hb H) as (Hp & _).
    rewrite Hds in *. rewrite <- Hl, firstn_all. assumption.
  - replace (S c * length (d_data R d) + length (d_data R d))%nat
      with (length (d_data R d) + (c * length (d_data R d) + length (d_data R d)))%nat in H by lia.
    destruct (draw_seq_app _ _ _ _ _ _ _ H) as (l1 & l2 & it1 & o1 & H1 & H2 & ->).
    assert (H1' : draw_seq (length (d_data R (i_ds R it))) it orc1 = Ok (l1, it1, o1))
      by (rewrite Hds; exact H1).
    destruct (draw_cycle _ _ _ _ _ Hr ltac:(rewrite Hds; assumption) Hb H1') as (Hp & Hd1 & Hr1 & Hrest).
    pose proof (draw_seq_length _ _ _ _ _ _ H1) as Hl1.
    rewrite skipn_app. rewrite (skipn_all2 l1) by lia. cbn [app].
    replace (S c * length (d_data R d) - length l1)%nat with (c * length (d_data R d))%nat by lia.
    eapply IH; [| | |exact H2].
    + rewrite Hd1; exact Hds.
    + exact Hr1.
    + left; exact Hrest.
Qed.

(* a draw changes neither the dataset nor the repeat flag of an iterator *)
Lemma field_draw_pres (it : iter) orc x it' orc' :
  field_draw it orc = Ok (x, it', orc') -> i_ds R it' = i_ds R it /\ i_repeat R it' = i_repeat R it.
Proof.
  unfold Datasets.field_draw, Datasets.iter_next.
  destruct (i_rest R it) as [|y r].
  - destruct (i_repeat R it) eqn:Hr; [|discriminate].
    destruct (start (i_ds R it) orc) as [[res o]|e]; cbn [bind].
    + destruct res as [|y r]; [discriminate|]. intros H; inversion H; subst. cbn. auto.
    + destruct e; discriminate.
  - intros H; inversion H; subst. cbn. auto.
Qed.

(* a repeating iterator over a non-empty dataset can only fail through the oracle *)
Lemma field_draw_err_repeat (it : iter) orc e :
  i_repeat R it = true -> d_data R (i_ds R it) <> [] ->
  field_draw it orc = Err e -> e = BadOracle.
Proof.
  unfold Datasets.field_draw, Datasets.iter_next. intros Hr Hne.
  destruct (i_rest R it) as [|y r]; [|discriminate].
  rewrite Hr.
  destruct (start (i_ds R it) orc) as [[res o]|e'] eqn:Hs; cbn [bind].
  - destruct res as [|y r]; [|discriminate].
    apply start_perm in Hs. apply Permutation_nil in Hs. contradiction.
  - apply start_err in Hs. subst e'. intros H; inversion H; reflexivity.
Qed.

Lemma draw_seq_err_repeat k : forall (it : iter) orc e,
  i_repeat R it = true -> d_data R (i_ds R it) <> [] ->
  draw_seq k it orc = Err e -> e = BadOracle.
Proof.
  induction k as [|k IH]; intros it orc e Hr Hne H; cbn [Datasets.draw_seq] in H; [discriminate|].
  destruct (field_draw it orc) as [[[x it1] orc1]|e1] eqn:Hd; cbn [bind] in H.
  - destruct (field_draw_pres _ _ _ _ _ Hd) as [H1 H2].
    destruct (draw_seq k it1 orc1) as [[[l it2] orc2]|e2] eqn:Hk; cbn [bind] in H; [discriminate|].
    inversion H; subst. eapply IH; [| |eassumption]; congruence.
  - inversion H; subst. eapply field_draw_err_repeat; eassumption.
Qed.

Lemma repeating_never_fails (d : dsref) orc it orc1 k e :
  d_repeat R d = true -> d_data R d <> [] -> new_iter d orc = Ok (it, orc1) ->
  draw_seq k it orc1 = Err e -> e = BadOracle.
Proof.
  intros Hrp Hne Hnew H.
  destruct (new_iter_spec _ _ _ _ Hnew) as (Hds & Hr & _).
  eapply draw_seq_err_repeat; [| |eassumption]; rewrite ?Hds; congruence.
Qed.

Lemma shuffle_total (l : list R) orc :
  good_draws (Nat.pred (length l)) orc -> exists l' orc', shuffle l orc = Ok (l', orc').
Proof.
  intros Hg. unfold Datasets.shuffle. destruct l as [|x l].
  - cbn [length Nat.pred Datasets.fy]. eauto.
  - apply fy_total; [cbn [length Nat.pred]; lia|assumption].
Qed.

(* ------------------------------------------------------------------ exhaustion *)

Definition is_dge (e : err) : Prop := match e with DGE _ => True | _ => False end.

(* C17: a non-repeating dataset hands out its n records once; every further request is a
   DataGenError (never a record), however often it is asked *)
Theorem no_silent_reuse (d : dsref) orc it orc1 :
  d_repeat R d = false ->
  new_iter d orc = Ok (it, orc1) ->
  Permutation (i_rest R it) (d_data R d) /\
  (d_mode R d = Linear -> i_rest R it = d_data R d) /\
  (exists it', draw_seq (length (d_data R d)) it orc1 = Ok (i_rest R it, it', orc1) /\
     forall j, exists e, is_dge e /\ draw_seq (S j) it' orc1 = Err e) /\
  forall j, exists e, is_dge e /\ draw_seq (length (d_data R d) + S j) it orc1 = Err e.
Proof.
  intros Hrp Hnew.
  destruct (new_iter_spec _ _ _ _ Hnew) as (Hds & Hr & Hst).
  pose proof (start_perm _ _ _ _ Hst) as Hp.
  destruct it as [d0 rp rest]. cbn [i_ds i_repeat i_rest] in *. subst d0. rewrite Hrp in Hr. subst rp.
  assert (Hlin : d_mode R d = Linear -> rest = d_data R d).
  { intros Hm. rewrite (start_linear _ _ Hm) in Hst. inversion Hst; reflexivity. }
  assert (Hex : forall j, exists e, is_dge e /\ draw_seq (S j) (mkIter R d false []) orc1 = Err e).
  { intros j. eexists. split; [|cbn [Datasets.draw_seq]; unfold Datasets.field_draw, Datasets.iter_next;
                                  cbn [i_rest i_repeat bind]; reflexivity]. exact I. }
  assert (Hn : draw_seq (length (d_data R d)) (mkIter R d false rest) orc1
               = Ok (rest, mkIter R d false [], orc1)).
  { rewrite <- (Permutation_length Hp). apply draw_seq_pass. }
  splits; auto.
  - eauto.
  - intros j. destruct (Hex j) as (e & He & Hj). exists e. split; [assumption|].
    eapply draw_seq_app_err; eassumption.
Qed.

(* C17: an empty dataset gives an error at the very first request, repeating or not,
   linear or shuffled, and consumes no random draw *)
Theorem empty_dataset_error (d : dsref) orc :
  d_data R d = [] ->
  exists it, new_iter d orc = Ok (it, orc) /\ exists e, is_dge e /\ field_draw it orc = Err e.
Proof.
  intros Hd. destruct d as [data m rp nm]. cbn [d_data] in Hd. subst data.
  assert (Hs : forall o, start (mkDs [] m rp nm) o = Ok ([], o)).
  { intros o. unfold Datasets.start. destruct m; reflexivity. }
  exists (mkIter R (mkDs [] m rp nm) rp []). split.
  - unfold Datasets.new_iter. rewrite Hs. reflexivity.
  - eexists. split; [|unfold Datasets.field_draw, Datasets.iter_next; cbn [i_rest i_repeat i_ds];
                       destruct rp; [rewrite Hs|]; cbn [bind]; reflexivity].
    destruct rp; exact I.
Qed.

(* ------------------------------------------------------------------ for_each *)

(* zip(iterator, count()) over an iterator whose repeat flag is off: exactly the rest of the
   current pass, in order, then StopIteration; no oracle use *)
Lemma zip_drain_norepeat : forall (rest : list R) (d : dsref) orc fuel,
  (length rest < fuel)%nat ->
  zip_drain fuel (mkIter R d false rest) orc = Ok (rest, orc).
Proof.
  induction rest as [|x r IH]; intros d orc fuel Hf; (destruct fuel as [|f]; [cbn [length] in Hf; lia|]);
    cbn [Datasets.zip_drain]; unfold Datasets.iter_next; cbn [i_rest i_repeat i_ds].
  - reflexivity.
  - rewrite IH by (cbn [length] in Hf; lia). reflexivity.
Qed.

Notation tmpl := (tmpl R).
Notation tmpls := (tmpls R).
Notation row := (row R C).
Notation st := (st R C).
Notation gen_rows := (gen_rows R C col).
Notation gen_list := (gen_list R C col).
Notation project := (project R C col).
Notation run_recipe := (run_recipe R C col).
Notation run_update := (run_update R C col).

(* rows of one for_each expansion of a leaf template: record i with child_index i0 + i *)
Fixpoint fe_rows (tid : nat) (p : R -> list C) (recs : list R) (i : Z) : list row :=
  match recs with
  | [] => []
  | x :: r => mkRow tid (Some x) i [] (p x) :: fe_rows tid p r (i + 1)
  end.

Lemma fe_rows_length tid p recs i : length (fe_rows tid p recs i) = length recs.
Proof. revert i; induction recs; intros; cbn [fe_rows length]; auto. Qed.

Lemma fe_rows_nth tid p recs : forall i k x,
  nth_error recs k = Some x ->
  nth_error (fe_rows tid p recs i) k = Some (mkRow tid (Some x) (i + Z.of_nat k) [] (p x)).
Proof.
  induction recs as [|y r IH]; intros i [|k] x H; cbn [nth_error fe_rows] in *; try discriminate.
  - inversion H; subst. replace (i + Z.of_nat 0) with i by lia. reflexivity.
  - rewrite (IH _ _ _ H). replace (i + 1 + Z.of_nat k) with (i + Z.of_nat (S k)) by lia. reflexivity.
Qed.

Notation rok := (@ROk R C _).
Notation rerr := (@RErr R C _).

Lemma each_loop_emit tid (p : R -> list C) (body : R -> Z -> st -> res R C unit) :
  forall (recs : list R) i sites orc out,
  (forall x i s, In x recs -> body x i s = rok tt (emit R C (mkRow tid (Some x) i [] (p x)) s)) ->
  each_loop R C body recs i (mkSt R C sites orc out)
  = rok tt (mkSt R C sites orc (out ++ fe_rows tid p recs i)).
Proof.
  induction recs as [|x r IH]; intros i sites orc out Hb; cbn [Datasets.each_loop fe_rows].
  - rewrite app_nil_r. reflexivity.
  - rewrite Hb by (left; reflexivity).
    unfold Datasets.emit. cbn [s_sites s_orc s_out].
    rewrite IH by (intros y j s Hy; apply Hb; right; assumption).
    rewrite <- app_assoc. reflexivity.
Qed.

(* C17, for_each: a template with for_each writes exactly one row per record of the pass, in
   order, child_index 0..n-1, and stops; with an empty dataset it writes nothing.  The pass is
   the file order for Dataset.iterate and a permutation of it for Dataset.shuffle. *)
Theorem for_each_exact tid (d : dsref) pass (p : R -> list C) rc sites orc out it orc1 :
  new_iter d orc = Ok (it, orc1) ->
  (forall x, In x (d_data R d) -> project (Some x) pass = Ok (p x)) ->
  gen_rows (Tmpl tid (LForEach d) [] pass TNil TNil) rc (mkSt R C sites orc out)
  = rok tt (mkSt R C sites orc1 (out ++ fe_rows tid p (i_rest R it) 0)) /\
  Permutation (i_rest R it) (d_data R d) /\
  (d_mode R d = Linear -> i_rest R it = d_data R d /\ orc1 = orc).
Proof.
  intros Hnew Hp.
  destruct (new_iter_spec _ _ _ _ Hnew) as (Hds & Hr & Hst).
  pose proof (start_perm _ _ _ _ Hst) as Hperm.
  splits.
  - cbn [Datasets.gen_rows]. unfold Datasets.memo_get. cbn [s_orc s_sites s_out]. rewrite Hnew. cbn [bind].
    apply each_loop_emit. intros x i s Hx.
    cbn [Datasets.draw_sites Datasets.gen_list].
    rewrite (Hp x) by (eapply Permutation_in; eassumption). reflexivity.
  - assumption.
  - intros Hm. rewrite (start_linear _ _ Hm) in Hst. inversion Hst; auto.
Qed.

(* unfolding equations *)
Lemma gen_list_nil rc (s : st) : gen_list TNil rc s = rok tt s.
Proof. reflexivity. Qed.

Lemma gen_list_cons t r rc (s : st) :
  gen_list (TCons t r) rc s =
  match gen_rows t rc s with
  | ROk _ _ _ _ s1 => gen_list r rc s1
  | RErr _ _ _ e o => rerr e o
  end.
Proof.
  change (gen_list (TCons t r) rc s)
    with (match gen_rows t rc s with ROk _ _ _ _ s1 => gen_list r rc s1 | e => e end).
  destruct (gen_rows t rc s); reflexivity.
Qed.

Lemma iterations_S k ts (s : st) :
  iterations R C col (S k) ts s =
  match gen_list ts false s with
  | ROk _ _ _ _ s1 => iterations R C col k ts s1
  | RErr _ _ _ e o => rerr e o
  end.
Proof.
  change (iterations R C col (S k) ts s)
    with (match gen_list ts false s with ROk _ _ _ _ s1 => iterations R C col k ts s1 | e => e end).
  destruct (gen_list ts false s); reflexivity.
Qed.

(* update mode: one row per input record, in input order, pass-through columns projected from
   that same record; an empty input file gives no rows and no error *)
Theorem update_exact tid lp (own : list nat) (input : list R) (passthrough : list nat) (p : R -> list C) orc :
  (forall m, lp <> LCount m) ->
  (forall x, In x input -> project (Some x) (own ++ passthrough) = Ok (p x)) ->
  run_update (TCons (Tmpl tid lp [] own TNil TNil) TNil) input passthrough orc
  = (fe_rows tid p input 0, None).
Proof.
  intros Hlp Hp. unfold Datasets.run_update, Datasets.build_update.
  assert (Hb : match lp with
               | LCount _ => Err (DGE "Update templates should have no 'count'")
               | _ => Ok (TCons (Tmpl tid (LForEach (mkDs input Linear false None)) [] (own ++ passthrough) TNil TNil) TNil)
               end = Ok (TCons (Tmpl tid (LForEach (mkDs input Linear false None)) [] (own ++ passthrough) TNil TNil) TNil)).
  { destruct lp; try reflexivity. exfalso. eapply Hlp; reflexivity. }
  rewrite Hb. unfold Datasets.run_recipe. rewrite iterations_S, gen_list_cons.
  destruct (for_each_exact tid (mkDs input Linear false None) (own ++ passthrough) p false [] orc []
              (mkIter R (mkDs input Linear false None) false input) orc eq_refl Hp) as (Hg & _ & _).
  rewrite Hg. rewrite gen_list_nil. cbn [Datasets.iterations i_rest app s_out]. reflexivity.
Qed.

(* update mode rejects anything but a single template without count *)
Lemma update_rejects_count tid m sites pass nested friends input pt orc :
  run_update (TCons (Tmpl tid (LCount m) sites pass nested friends) TNil) input pt orc
  = ([], Some (DGE "Update templates should have no 'count'")).
Proof. reflexivity. Qed.

(* ------------------------------------------------------------------ the for_each scope *)

(* A Dataset.iterate call evaluated while recalculate_every_time is on: a new iterator per
   evaluation, hence always the first record, nothing stored.  Before the repair of
   ForEachVariableDefinition.evaluate (KNOWN_FINDINGS, fixed: Dataset.iterate/shuffle below a
   for_each) every field inside / below a for_each template was evaluated this way; now only the
   for_each expression itself is, and gen_rows never passes recalc = true down from run_recipe. *)
Lemma site_draw_recalc_linear sid (x : R) (r : list R) rp nm (s : st) :
  site_draw R C true sid (mkDs (x :: r) Linear rp nm) s = ROk R C R x s.
Proof.
  destruct s as [sites orc out].
  unfold Datasets.site_draw, Datasets.new_iter, Datasets.start, Datasets.field_draw, Datasets.iter_next.
  cbn. reflexivity.
Qed.

(* ------------------------------------------------------------------ placement (lifting) *)

(* _generate_row, as a function of the template's parts *)
Definition one_row tid (sites : list (nat * dsref)) pass (nested friends : tmpls)
           (rc : bool) (fe : option R) (i : Z) (s : st) : res R C unit :=
  match draw_sites R C rc sites s with
  | RErr _ _ _ e o => rerr e o
  | ROk _ _ _ cs s1 =>
    match gen_list nested rc s1 with
    | RErr _ _ _ e o => rerr e o
    | ROk _ _ _ _ s2 =>
      match project fe pass with
      | Err e => rerr e (s_out R C s2)
      | Ok pv => gen_list friends rc (emit R C (mkRow tid fe i cs pv) s2)
      end
    end
  end.

Lemma gen_rows_eq tid lp sites pass nested friends rc (s : st) :
  gen_rows (Tmpl tid lp sites pass nested friends) rc s =
  match lp with
  | LDefault => count_loop R C (one_row tid sites pass nested friends rc None) 1 0 s
  | LCount m => count_loop R C (one_row tid sites pass nested friends rc None) m 0 s
  | LForEach d =>
    match new_iter d (s_orc R C s) with
    | Err e => rerr e (s_out R C s)
    | Ok (it, orc1) =>
      each_loop R C (fun x => one_row tid sites pass nested friends rc (Some x)) (i_rest R it) 0
                (mkSt R C (s_sites R C s) orc1 (s_out R C s))
    end
  end.
Proof.
  destruct lp as [|m|d]; try reflexivity.
  cbn [Datasets.gen_rows]. unfold Datasets.memo_get.
  destruct (new_iter d (s_orc R C s)) as [[it o]|e]; reflexivity.
Qed.

(* for_each and `name`: the for_each expression is evaluated under recalculate_every_time, so the
   keyword plays no role — the loop over a named dataset is, row for row and state for state, the
   loop over the same dataset without the name (every evaluation: every iteration, every parent
   row, any context, any remembered state under that name) *)
Lemma for_each_name_irrelevant tid data m rp nm sites pass nested friends rc (s : st) :
  gen_rows (Tmpl tid (LForEach (mkDs data m rp nm)) sites pass nested friends) rc s =
  gen_rows (Tmpl tid (LForEach (mkDs data m rp None)) sites pass nested friends) rc s.
Proof.
  rewrite !gen_rows_eq. unfold Datasets.new_iter, Datasets.start. cbn [d_mode d_data d_repeat].
  destruct m; cbn [bind]; [reflexivity|].
  destruct (shuffle data (s_orc R C s)) as [[res o]|e]; reflexivity.
Qed.

(* invariants through the loops *)
Definition holds (P : st -> Prop) (Q : list row -> Prop) (r : res R C unit) : Prop :=
  match r with ROk _ _ _ _ s' => P s' | RErr _ _ _ _ o => Q o end.

Lemma count_loop_inv (P : st -> Prop) (Q : list row -> Prop) body :
  (forall i s, P s -> holds P Q (body i s)) ->
  forall m i s, P s -> holds P Q (count_loop R C body m i s).
Proof.
  intros Hb. induction m as [|m IH]; intros i s Hs; cbn [Datasets.count_loop].
  - exact Hs.
  - specialize (Hb i s Hs). destruct (body i s) as [a s1|e o]; cbn [holds] in *.
    + apply IH; assumption.
    + assumption.
Qed.

Lemma each_loop_inv (P : st -> Prop) (Q : list row -> Prop) body :
  (forall x i s, P s -> holds P Q (body x i s)) ->
  forall l i s, P s -> holds P Q (each_loop R C body l i s).
Proof.
  intros Hb. induction l as [|x l IH]; intros i s Hs; cbn [Datasets.each_loop].
  - exact Hs.
  - specialize (Hb x i s Hs). destruct (body x i s) as [a s1|e o]; cbn [holds] in *.
    + apply IH; assumption.
    + assumption.
Qed.

(* ------------------------------------------------------------------ state keys *)

Lemma mode_eqb_eq a b : mode_eqb a b = true <-> a = b.
Proof. destruct a, b; cbn; split; intros H; try reflexivity; discriminate. Qed.

Lemma key_eqb_eq a b : key_eqb a b = true <-> a = b.
Proof.
  destruct a as [x|f x], b as [y|g y]; cbn [Datasets.key_eqb]; split; intros H; try discriminate.
  - apply Nat.eqb_eq in H. subst. reflexivity.
  - inversion H; subst. apply Nat.eqb_refl.
  - apply andb_prop in H. destruct H as [H1 H2]. apply mode_eqb_eq in H1. apply Nat.eqb_eq in H2.
    subst. reflexivity.
  - inversion H; subst. apply andb_true_intro. split; [apply mode_eqb_eq; reflexivity|apply Nat.eqb_refl].
Qed.

Lemma key_eqb_refl a : key_eqb a a = true.
Proof. apply key_eqb_eq. reflexivity. Qed.

Lemma key_eqb_neq a b : key_eqb a b = false <-> a <> b.
Proof.
  split.
  - intros H E. apply key_eqb_eq in E. rewrite E in H. discriminate.
  - intros H. destruct (key_eqb a b) eqn:E; [apply key_eqb_eq in E; contradiction|reflexivity].
Qed.

Lemma key_eq_dec (a b : key) : {a = b} + {a <> b}.
Proof.
  destruct (key_eqb a b) eqn:E; [left; apply key_eqb_eq; exact E|right; apply key_eqb_neq; exact E].
Qed.

(* which evaluations share an iterator: two call sites have the same state key exactly when both
   are named, call the same function (iterate / shuffle) and carry the same name — or are the
   same unnamed call site *)
Lemma key_of_shared s1 (d1 : dsref) s2 (d2 : dsref) :
  key_of R s1 d1 = key_of R s2 d2 <->
  match d_name R d1, d_name R d2 with
  | Some n1, Some n2 => n1 = n2 /\ d_mode R d1 = d_mode R d2
  | None, None => s1 = s2
  | _, _ => False
  end.
Proof.
  unfold Datasets.key_of.
  destruct (d_name R d1) as [n1|], (d_name R d2) as [n2|]; split; intros H;
    try discriminate; try contradiction.
  - inversion H; subst. auto.
  - destruct H as [-> ->]. reflexivity.
  - inversion H; reflexivity.
  - subst. reflexivity.
Qed.

Section Placement.
Variable sid : key.                (* the state key we follow: an unnamed call site, or a name *)
Variable d0 : dsref.               (* the arguments of every call under that key *)
(* the call site's iterator as a process: its state and what it has handed out after k draws.
   A draw either advances the process by one record without touching the oracle, or fails. *)
Variable seq_at : nat -> list R.
Variable iter_at : nat -> iter.
Hypothesis new_at : forall orc, new_iter d0 orc = Ok (iter_at 0, orc).
Hypothesis seq_0 : seq_at 0 = [].
Hypothesis step_at : forall k orc,
  match field_draw (iter_at k) orc with
  | Ok (x, it, o) => it = iter_at (S k) /\ o = orc /\ seq_at (S k) = seq_at k ++ [x]
  | Err _ => True
  end.

(* occurrences of the call site in a recipe *)
Fixpoint occ_sites (l : list (nat * dsref)) : nat :=
  match l with
  | [] => O
  | (k, d) :: r => (if key_eqb (key_of R k d) sid then 1 else 0) + occ_sites r
  end.

Fixpoint occ (t : tmpl) : nat :=
  match t with
  | Tmpl _ _ sites _ nested friends => occ_sites sites + occ_list nested + occ_list friends
  end
with occ_list (ts : tmpls) : nat :=
  match ts with
  | TNil => O
  | TCons t r => occ t + occ_list r
  end.

(* where the calls under the key may stand so that the order in which rows are WRITTEN is the order
   in which they consumed: a template that draws under the key in its own fields has no draw
   under the key in its nested objects (a nested object's rows are written before the row that
   contains them, after that row's own fields were evaluated).  Friends, sibling templates,
   several fields of one row, other iterations are all fine.  A key that occurs once (an unnamed
   call site) always satisfies this: occ_le1_nest_ok. *)
Fixpoint nest_ok (t : tmpl) : Prop :=
  match t with
  | Tmpl _ _ sites _ nested friends =>
    (occ_sites sites = O \/ occ_list nested = O) /\ nest_ok_list nested /\ nest_ok_list friends
  end
with nest_ok_list (ts : tmpls) : Prop :=
  match ts with
  | TNil => True
  | TCons t r => nest_ok t /\ nest_ok_list r
  end.

(* every occurrence has the arguments d0 (rc = the inherited recalculate_every_time, which
   nothing in a recipe can turn on for a field any more: false from the root) *)
Fixpoint sites_ok (rc : bool) (l : list (nat * dsref)) : Prop :=
  match l with
  | [] => True
  | (k, d) :: r => (key_of R k d = sid -> d = d0 /\ rc = false) /\ sites_ok rc r
  end.

Fixpoint plain (rc : bool) (t : tmpl) : Prop :=
  match t with
  | Tmpl _ _ sites _ nested friends =>
    sites_ok rc sites /\ plain_list rc nested /\ plain_list rc friends
  end
with plain_list (rc : bool) (ts : tmpls) : Prop :=
  match ts with
  | TNil => True
  | TCons t r => plain rc t /\ plain_list rc r
  end.

(* the records the site has handed out, as visible in the rows *)
Fixpoint vals (l : list (key * R)) : list R :=
  match l with
  | [] => []
  | (k, x) :: r => if key_eqb k sid then x :: vals r else vals r
  end.

Fixpoint trace (rows : list row) : list R :=
  match rows with
  | [] => []
  | r :: rest => vals (r_cons R C r) ++ trace rest
  end.

Lemma trace_app a b : trace (a ++ b) = trace a ++ trace b.
Proof. induction a as [|r a IH]; cbn [trace app]; [reflexivity|]. rewrite IH, app_assoc. reflexivity. Qed.

Lemma lookup_store_other k v l : k <> sid -> lookup R sid (store R k v l) = lookup R sid l.
Proof.
  intros Hk. induction l as [|[k' w] l IH]; cbn [Datasets.store Datasets.lookup].
  - destruct (key_eqb k sid) eqn:E; [apply key_eqb_eq in E; contradiction|reflexivity].
  - destruct (key_eqb k' k) eqn:E1; cbn [Datasets.lookup].
    + apply key_eqb_eq in E1. subst k'.
      destruct (key_eqb k sid) eqn:E; [apply key_eqb_eq in E; contradiction|reflexivity].
    + rewrite IH. reflexivity.
Qed.

Lemma lookup_store_same v l : lookup R sid (store R sid v l) = Some v.
Proof.
  induction l as [|[k' w] l IH]; cbn [Datasets.store Datasets.lookup].
  - rewrite key_eqb_refl. reflexivity.
  - destruct (key_eqb k' sid) eqn:E1; cbn [Datasets.lookup]; rewrite E1; [reflexivity|assumption].
Qed.

(* ---- frame: a part of the recipe without the call site leaves its iterator and trace alone *)

Definition frame_P (lk : option iter) (out0 : list row) (s : st) : Prop :=
  lookup R sid (s_sites R C s) = lk /\ exists extra, s_out R C s = out0 ++ extra /\ trace extra = [].
Definition frame_Q (out0 : list row) (o : list row) : Prop :=
  exists extra, o = out0 ++ extra /\ trace extra = [].

Lemma frame_P_refl (s : st) : frame_P (lookup R sid (s_sites R C s)) (s_out R C s) s.
Proof. split; [reflexivity|]. exists []. rewrite app_nil_r. auto. Qed.

Lemma site_draw_frame rc k d lk out0 (s : st) :
  key_of R k d <> sid -> frame_P lk out0 s ->
  match site_draw R C rc k d s with
  | ROk _ _ _ _ s' => frame_P lk out0 s'
  | RErr _ _ _ _ o => frame_Q out0 o
  end.
Proof.
  intros Hk [Hl Ho]. unfold Datasets.site_draw, Datasets.memo_get.
  destruct rc.
  - destruct (new_iter d (s_orc R C s)) as [[it o1]|e]; cbn [bind]; [|exact Ho].
    destruct (field_draw it o1) as [[[x it'] o2]|e]; [|exact Ho].
    split; cbn [s_sites s_out]; assumption.
  - destruct (lookup R (key_of R k d) (s_sites R C s)) as [it|].
    + destruct (field_draw it (s_orc R C s)) as [[[x it'] o2]|e]; [|exact Ho].
      split; cbn [s_sites s_out]; [|assumption].
      rewrite lookup_store_other by assumption. assumption.
    + destruct (new_iter d (s_orc R C s)) as [[it o1]|e]; cbn [bind]; [|exact Ho].
      destruct (field_draw it o1) as [[[x it'] o2]|e]; [|exact Ho].
      split; cbn [s_sites s_out]; [|assumption].
      rewrite lookup_store_other by assumption. assumption.
Qed.

Lemma draw_sites_frame rc lk out0 : forall sites (s : st),
  occ_sites sites = O -> frame_P lk out0 s ->
  match draw_sites R C rc sites s with
  | ROk _ _ _ cs s' => frame_P lk out0 s' /\ vals cs = []
  | RErr _ _ _ _ o => frame_Q out0 o
  end.
Proof.
  induction sites as [|[k d] sites IH]; intros s Hocc Hs; cbn [Datasets.draw_sites].
  - split; [assumption|reflexivity].
  - cbn [occ_sites] in Hocc.
    destruct (key_eqb (key_of R k d) sid) eqn:Ek; [lia|]. apply key_eqb_neq in Ek.
    pose proof (site_draw_frame rc k d lk out0 s Ek Hs) as H1.
    destruct (site_draw R C rc k d s) as [x s1|e o]; [|exact H1].
    specialize (IH s1 ltac:(lia) H1).
    destruct (draw_sites R C rc sites s1) as [cs s2|e o]; [|exact IH].
    destruct IH as [IH1 IH2]. split; [assumption|].
    cbn [vals]. apply key_eqb_neq in Ek. rewrite Ek. assumption.
Qed.

Lemma frame_emit lk out0 (s : st) r :
  frame_P lk out0 s -> vals (r_cons R C r) = [] -> frame_P lk out0 (emit R C r s).
Proof.
  intros [Hl (extra & Ho & Ht)] Hv. split; [exact Hl|].
  exists (extra ++ [r]). unfold Datasets.emit; cbn [s_out]. rewrite Ho, app_assoc. split; [reflexivity|].
  rewrite trace_app, Ht. cbn [trace app]. rewrite Hv. reflexivity.
Qed.

Lemma frame_Q_of_P lk out0 (s : st) : frame_P lk out0 s -> frame_Q out0 (s_out R C s).
Proof. intros [_ H]. exact H. Qed.

Scheme tmpl_ind2 := Induction for Datasets.tmpl Sort Prop
  with tmpls_ind2 := Induction for Datasets.tmpls Sort Prop.
Combined Scheme tmpl_mutind from tmpl_ind2, tmpls_ind2.

Lemma frame_gen :
  (forall t : tmpl, occ t = O -> forall rc lk out0 s, frame_P lk out0 s ->
      holds (frame_P lk out0) (frame_Q out0) (gen_rows t rc s)) /\
  (forall ts : tmpls, occ_list ts = O -> forall rc lk out0 s, frame_P lk out0 s ->
      holds (frame_P lk out0) (frame_Q out0) (gen_list ts rc s)).
Proof.
  apply tmpl_mutind.
  - intros tid lp sites pass nested IHn friends IHf Hocc rc lk out0 s Hs.
    cbn [occ] in Hocc.
    assert (Hrow : forall rc' fe i s, frame_P lk out0 s ->
               holds (frame_P lk out0) (frame_Q out0) (one_row tid sites pass nested friends rc' fe i s)).
    { intros rc' fe i s1 Hs1. unfold one_row.
      pose proof (draw_sites_frame rc' lk out0 sites s1 ltac:(lia) Hs1) as H1.
      destruct (draw_sites R C rc' sites s1) as [cs s2|e o]; [|exact H1].
      destruct H1 as [H1 Hv].
      pose proof (IHn ltac:(lia) rc' lk out0 s2 H1) as H2.
      destruct (gen_list nested rc' s2) as [u s3|e o]; [|exact H2].
      cbn [holds] in H2.
      destruct (project fe pass) as [pv|e]; [|cbn [holds]; eapply frame_Q_of_P; eassumption].
      apply IHf; [lia|]. apply frame_emit; assumption. }
    rewrite gen_rows_eq. destruct lp as [|m|d].
    + apply count_loop_inv; [|assumption]. intros; apply Hrow; assumption.
    + apply count_loop_inv; [|assumption]. intros; apply Hrow; assumption.
    + destruct (new_iter d (s_orc R C s)) as [[it o1]|e]; [|cbn [holds]; eapply frame_Q_of_P; eassumption].
      apply each_loop_inv; [intros; apply Hrow; assumption|].
      destruct Hs as [Hl Ho]. split; cbn [s_sites s_out]; assumption.
  - intros _ rc lk out0 s Hs. rewrite gen_list_nil. exact Hs.
  - intros t IHt r IHr Hocc rc lk out0 s Hs. cbn [occ_list] in Hocc.
    rewrite gen_list_cons.
    pose proof (IHt ltac:(lia) rc lk out0 s Hs) as H1.
    destruct (gen_rows t rc s) as [u s1|e o]; [|exact H1].
    apply IHr; [lia|exact H1].
Qed.

(* ---- the call site's iterator advances one record per row, wherever the rows are written *)

Definition Good (l : list R) : Prop := l = seq_at (length l).
Definition eff (s : st) : iter :=
  match lookup R sid (s_sites R C s) with Some it => it | None => iter_at 0 end.

(* pend = records drawn for the row under construction, not yet written *)
Definition InvP (s : st) (pend : list R) : Prop :=
  Good (trace (s_out R C s)) /\ Good (trace (s_out R C s) ++ pend) /\
  eff s = iter_at (length (trace (s_out R C s) ++ pend)).
Definition GoodOut (o : list row) : Prop := Good (trace o).

Lemma cached_draw k (s : st) pend :
  key_of R k d0 = sid ->
  InvP s pend ->
  match site_draw R C false k d0 s with
  | ROk _ _ _ x s' => InvP s' (pend ++ [x])
  | RErr _ _ _ _ o => o = s_out R C s
  end.
Proof.
  intros Hkey (Hg1 & Hg2 & He). unfold Datasets.site_draw, Datasets.memo_get. rewrite Hkey.
  set (n := length (trace (s_out R C s) ++ pend)) in *.
  assert (Hit : match lookup R sid (s_sites R C s) with
                | Some it => Ok (it, s_orc R C s, Some sid)
                | None => do '(it, orc1) <- new_iter d0 (s_orc R C s); Ok (it, orc1, Some sid)
                end = Ok (iter_at n, s_orc R C s, Some sid)).
  { unfold eff in He. destruct (lookup R sid (s_sites R C s)); [rewrite He; reflexivity|].
    rewrite new_at, He. reflexivity. }
  rewrite Hit. pose proof (step_at n (s_orc R C s)) as Hd.
  destruct (field_draw (iter_at n) (s_orc R C s)) as [[[x it'] o']|e]; [|reflexivity].
  destruct Hd as (-> & -> & Hc).
  unfold InvP, eff; cbn [s_out s_sites]. rewrite lookup_store_same.
  rewrite app_assoc, app_length. cbn [length]. fold n.
  splits; [assumption| |f_equal; lia].
  unfold Good. rewrite app_length. cbn [length]. fold n.
  replace (n + 1)%nat with (S n) by lia. rewrite Hc. f_equal. exact Hg2.
Qed.

Lemma InvP_frame (s s' : st) pend :
  frame_P (lookup R sid (s_sites R C s)) (s_out R C s) s' -> InvP s pend -> InvP s' pend.
Proof.
  intros [Hl (extra & Ho & Ht)] (H1 & H2 & H3).
  unfold InvP, eff in *. rewrite Hl, Ho, trace_app, Ht, app_nil_r. auto.
Qed.

Lemma GoodOut_frame (s : st) pend o :
  frame_Q (s_out R C s) o -> InvP s pend -> GoodOut o.
Proof.
  intros (extra & Ho & Ht) (H1 & _). unfold GoodOut. rewrite Ho, trace_app, Ht, app_nil_r. assumption.
Qed.

Lemma InvP_GoodOut (s : st) pend : InvP s pend -> GoodOut (s_out R C s).
Proof. intros (H & _). exact H. Qed.

Lemma draw_sites_inv rc : forall sites (s : st) pend,
  sites_ok rc sites -> InvP s pend ->
  match draw_sites R C rc sites s with
  | ROk _ _ _ cs s' => InvP s' (pend ++ vals cs)
  | RErr _ _ _ _ o => GoodOut o
  end.
Proof.
  induction sites as [|[k d] sites IH]; intros s pend Hok Hs; cbn [Datasets.draw_sites].
  - cbn [vals]. rewrite app_nil_r. auto.
  - cbn [sites_ok] in Hok. destruct Hok as [Hk Hok].
    destruct (key_eq_dec (key_of R k d) sid) as [Heq|Hne].
    + destruct (Hk Heq) as [-> ->].
      pose proof (cached_draw k s pend Heq Hs) as Hd.
      destruct (site_draw R C false k d0 s) as [x s1|e o];
        [|subst o; eapply InvP_GoodOut; eassumption].
      specialize (IH s1 (pend ++ [x]) Hok Hd).
      destruct (draw_sites R C false sites s1) as [cs s2|e o]; [|exact IH].
      cbn [vals]. rewrite Heq, key_eqb_refl.
      rewrite <- app_assoc in IH. exact IH.
    + pose proof (site_draw_frame rc k d _ _ s Hne (frame_P_refl s)) as H1.
      destruct (site_draw R C rc k d s) as [x s1|e o].
      * pose proof (InvP_frame _ _ _ H1 Hs) as Hs1.
        specialize (IH s1 pend Hok Hs1).
        destruct (draw_sites R C rc sites s1) as [cs s2|e o]; [|exact IH].
        cbn [vals].
        destruct (key_eqb (key_of R k d) sid) eqn:E; [apply key_eqb_eq in E; contradiction|].
        exact IH.
      * eapply GoodOut_frame; eassumption.
Qed.

Lemma InvP_emit (s : st) r :
  InvP s (vals (r_cons R C r)) -> InvP (emit R C r s) [].
Proof.
  intros (H1 & H2 & H3). unfold InvP, eff, Datasets.emit in *. cbn [s_out s_sites].
  rewrite trace_app. cbn [trace]. rewrite !app_nil_r. auto.
Qed.

Lemma plain_true_occ :
  (forall t : tmpl, plain true t -> occ t = O) /\
  (forall ts : tmpls, plain_list true ts -> occ_list ts = O).
Proof.
  apply tmpl_mutind.
  - intros tid lp sites pass nested IHn friends IHf (Hs & Hn & Hf).
    cbn [occ]. rewrite (IHn Hn), (IHf Hf).
    assert (occ_sites sites = O); [|lia].
    clear - Hs. induction sites as [|[k d] sites IH]; cbn [occ_sites sites_ok] in *; [reflexivity|].
    destruct Hs as [Hk Hs]. destruct (key_eqb (key_of R k d) sid) eqn:E.
    + apply key_eqb_eq in E. destruct (Hk E) as [_ H]. discriminate.
    + rewrite (IH Hs). reflexivity.
  - reflexivity.
  - intros t IHt r IHr [H1 H2]. cbn [occ_list]. rewrite (IHt H1), (IHr H2). reflexivity.
Qed.

Lemma vals_occ rc : forall sites (s : st),
  occ_sites sites = O ->
  match draw_sites R C rc sites s with
  | ROk _ _ _ cs _ => vals cs = []
  | RErr _ _ _ _ _ => True
  end.
Proof.
  induction sites as [|[k d] sites IH]; intros s Hocc; cbn [Datasets.draw_sites]; [reflexivity|].
  cbn [occ_sites] in Hocc. destruct (key_eqb (key_of R k d) sid) eqn:E; [lia|].
  destruct (site_draw R C rc k d s) as [x s1|e o]; [|exact I].
  specialize (IH s1 ltac:(lia)).
  destruct (draw_sites R C rc sites s1) as [cs s2|e o]; [|exact I].
  cbn [vals]. rewrite E. exact IH.
Qed.

Lemma placement_gen :
  (forall t : tmpl, nest_ok t -> forall rc s, plain rc t -> InvP s [] ->
      holds (fun s' => InvP s' []) GoodOut (gen_rows t rc s)) /\
  (forall ts : tmpls, nest_ok_list ts -> forall rc s, plain_list rc ts -> InvP s [] ->
      holds (fun s' => InvP s' []) GoodOut (gen_list ts rc s)).
Proof.
  apply tmpl_mutind.
  - intros tid lp sites pass nested IHn friends IHf Hocc rc s Hpl Hs.
    cbn [nest_ok] in Hocc. destruct Hocc as (Hor & Hnn & Hnf).
    cbn [plain] in Hpl. destruct Hpl as (Hso & Hpn & Hpf).
    set (rc' := rc) in *.
    assert (Hrow : forall fe i s, InvP s [] ->
               holds (fun s' => InvP s' []) GoodOut (one_row tid sites pass nested friends rc' fe i s)).
    { intros fe i s1 Hs1. unfold one_row.
      pose proof (draw_sites_inv rc' sites s1 [] Hso Hs1) as H1.
      pose proof (vals_occ rc' sites s1) as Hv.
      destruct (draw_sites R C rc' sites s1) as [cs s2|e o]; [|exact H1].
      cbn [app] in H1.
      (* after the nested objects: the row's own draws are still pending *)
      assert (H3 : holds (fun s3 => InvP s3 (vals cs)) GoodOut (gen_list nested rc' s2)).
      { destruct (Nat.eq_dec (occ_sites sites) 0) as [Hz|Hnz].
        - (* no draw under the key among this template's fields: go into the children *)
          rewrite (Hv Hz) in *.
          exact (IHn Hnn rc' s2 Hpn H1).
        - (* this template draws under the key: its nested objects do not touch it *)
          assert (Hn0 : occ_list nested = O) by (destruct Hor; [contradiction|assumption]).
          pose proof (proj2 (frame_gen) nested Hn0 rc' _ _ s2 (frame_P_refl s2)) as H2.
          destruct (gen_list nested rc' s2) as [u s3|e o]; cbn [holds] in *.
          + eapply InvP_frame; eassumption.
          + eapply GoodOut_frame; eassumption. }
      destruct (gen_list nested rc' s2) as [u s3|e o]; [|exact H3].
      cbn [holds] in H3.
      destruct (project fe pass) as [pv|e]; [|cbn [holds]; eapply InvP_GoodOut; eassumption].
      apply IHf; [assumption|assumption|].
      apply InvP_emit. exact H3. }
    rewrite gen_rows_eq. subst rc'. destruct lp as [|m|d].
    + apply count_loop_inv; [|assumption]. intros; apply Hrow; assumption.
    + apply count_loop_inv; [|assumption]. intros; apply Hrow; assumption.
    + destruct (new_iter d (s_orc R C s)) as [[it o1]|e]; [|cbn [holds]; eapply InvP_GoodOut; eassumption].
      apply each_loop_inv; [intros; apply Hrow; assumption|]. exact Hs.
  - intros _ rc s _ Hs. rewrite gen_list_nil. exact Hs.
  - intros t IHt r IHr [Ho1 Ho2] rc s [Hp1 Hp2] Hs.
    rewrite gen_list_cons.
    pose proof (IHt Ho1 rc s Hp1 Hs) as H1.
    destruct (gen_rows t rc s) as [u s1|e o]; [|exact H1].
    apply IHr; [assumption|assumption|exact H1].
Qed.

Lemma occ_le1_nest_ok :
  (forall t : tmpl, (occ t <= 1)%nat -> nest_ok t) /\
  (forall ts : tmpls, (occ_list ts <= 1)%nat -> nest_ok_list ts).
Proof.
  apply tmpl_mutind.
  - intros tid lp sites pass nested IHn friends IHf H. cbn [occ] in H. cbn [nest_ok].
    splits; [lia|apply IHn; lia|apply IHf; lia].
  - intros _. exact I.
  - intros t IHt r IHr H. cbn [occ_list] in H. cbn [nest_ok_list]. split; [apply IHt|apply IHr]; lia.
Qed.

Lemma iterations_inv ts :
  nest_ok_list ts -> plain_list false ts ->
  forall k s, InvP s [] -> holds (fun s' => InvP s' []) GoodOut (iterations R C col k ts s).
Proof.
  intros Hocc Hpl. induction k as [|k IH]; intros s Hs.
  - exact Hs.
  - rewrite iterations_S.
    pose proof (proj2 placement_gen ts Hocc false s Hpl Hs) as H1.
    destruct (gen_list ts false s) as [u s1|e o]; [|exact H1].
    apply IH. exact H1.
Qed.

(* the records the call site hands out, read off the written rows, are exactly the first
   (so many) outputs of its iterator process *)
Theorem placement_general iters ts orc rows e :
  nest_ok_list ts -> plain_list false ts ->
  run_recipe iters ts orc = (rows, e) ->
  trace rows = seq_at (length (trace rows)).
Proof.
  intros Hocc Hpl Hrun.
  unfold Datasets.run_recipe in Hrun.
  assert (H0 : InvP (mkSt R C [] orc []) []).
  { unfold InvP, Good, eff. cbn. rewrite seq_0. auto. }
  pose proof (iterations_inv ts Hocc Hpl iters _ H0) as H.
  destruct (iterations R C col iters ts (mkSt R C [] orc [])) as [u s1|e1 o]; cbn [holds] in H;
    inversion Hrun; subst.
  - eapply InvP_GoodOut; eassumption.
  - exact H.
Qed.

End Placement.

(* a part of a recipe without a FIELD call under a key leaves the iterator remembered under that key
   exactly as it was — for_each loops over the same name (occ does not count them: they never use
   the remembered state) included *)
Theorem untouched_state (k0 : key) (t : tmpl) rc (s : st) :
  occ k0 t = O ->
  match gen_rows t rc s with
  | ROk _ _ _ _ s' => lookup R k0 (s_sites R C s') = lookup R k0 (s_sites R C s)
  | RErr _ _ _ _ _ => True
  end.
Proof.
  intros Hocc.
  pose proof (proj1 (frame_gen k0) t Hocc rc _ _ s (frame_P_refl k0 s)) as H.
  destruct (gen_rows t rc s) as [u s'|e o]; [|exact I].
  destruct H as [H _]. exact H.
Qed.

(* ---- instance 1: Dataset.iterate with repeat on, n > 0 *)

Lemma draw_step nm (data : list R) k orc :
  data <> [] ->
  exists x, field_draw (mkIter R (mkDs data Linear true nm) true (rest_after data data k)) orc
            = Ok (x, mkIter R (mkDs data Linear true nm) true (rest_after data data (S k)), orc) /\
            cyc_from data data (S k) = cyc_from data data k ++ [x].
Proof.
  intros data_ne.
  pose proof (draw_seq_linear nm (k + 1) data data true orc data_ne) as H.
  destruct (draw_seq_app _ _ _ _ _ _ _ H) as (l1 & l2 & it1 & o1 & H1 & H2 & Hl).
  rewrite (draw_seq_linear nm k data data true orc data_ne) in H1. inversion H1; subst l1 it1 o1; clear H1.
  cbn [Datasets.draw_seq] in H2.
  destruct (field_draw (mkIter R (mkDs data Linear true nm) true (rest_after data data k)) orc)
    as [[[x it'] o']|] eqn:Hd; cbn [bind] in H2; [|discriminate].
  inversion H2; subst. exists x. replace (S k) with (k + 1)%nat by lia. split; [reflexivity|assumption].
Qed.

(* C17, placement: follow one Dataset.iterate call site (repeat on, n > 0 records) that lies
   anywhere in a recipe: top level, friend, nested object, inside or below for_each templates, at
   any depth, next to any other templates and call sites.  The records it hands to the rows, read off
   the rows in the order they are written over all iterations, are record 0, 1, .., n-1, 0, 1, ..
   — also when the run ends in an error (for the rows written before it). *)
Theorem placement_mod_n (sid : key) (data : list R) (nm : option nat) iters ts orc rows e :
  data <> [] ->
  nest_ok_list sid ts -> plain_list sid (mkDs data Linear true nm) false ts ->
  run_recipe iters ts orc = (rows, e) ->
  forall j, (j < length (trace sid rows))%nat ->
    nth_error (trace sid rows) j = nth_error data (j mod length data).
Proof.
  intros Hne Hocc Hpl Hrun j Hj.
  assert (Hg : trace sid rows = cyc_from data data (length (trace sid rows))).
  { eapply (placement_general sid (mkDs data Linear true nm) (fun k => cyc_from data data k)
              (fun k => mkIter R (mkDs data Linear true nm) true (rest_after data data k)));
      try eassumption.
    - reflexivity.
    - reflexivity.
    - intros k o. destruct (draw_step nm data k o Hne) as (x & Hd & Hc). rewrite Hd. auto. }
  rewrite Hg.
  pose proof (cyc_from_nth (length (trace sid rows)) data 0 j Hne ltac:(lia) Hj) as Hc.
  cbn [skipn Nat.add] in Hc. exact Hc.
Qed.

(* ---- instance 2: Dataset.iterate with repeat: False *)

Lemma firstn_S_skipn (data : list R) k x r :
  skipn k data = x :: r -> firstn (S k) data = firstn k data ++ [x].
Proof.
  revert k; induction data as [|h t IH]; intros [|k] H; cbn [skipn] in H; try discriminate.
  - inversion H; subst. reflexivity.
  - cbn [firstn app]. f_equal. apply IH. exact H.
Qed.

(* C17, placement, no silent reuse: a repeat: False call site anywhere in a recipe (also inside or
   below for_each templates), hands out at most n records over the whole run (all rows, all iterations), and they
   are the file's records in file order.  A run in which more than n rows consume it therefore
   cannot succeed: the model's only way out is the DataGenError of no_silent_reuse. *)
Theorem placement_norepeat (sid : key) (data : list R) (nm : option nat) iters ts orc rows e :
  nest_ok_list sid ts -> plain_list sid (mkDs data Linear false nm) false ts ->
  run_recipe iters ts orc = (rows, e) ->
  trace sid rows = firstn (length (trace sid rows)) data /\
  (length (trace sid rows) <= length data)%nat.
Proof.
  intros Hocc Hpl Hrun.
  assert (Hg : trace sid rows = firstn (length (trace sid rows)) data).
  { eapply (placement_general sid (mkDs data Linear false nm) (fun k => firstn k data)
              (fun k => mkIter R (mkDs data Linear false nm) false (skipn k data)));
      try eassumption.
    - reflexivity.
    - reflexivity.
    - intros k o. unfold Datasets.field_draw, Datasets.iter_next. cbn [i_rest i_repeat i_ds].
      destruct (skipn k data) as [|x r] eqn:Hs; [exact I|].
      destruct (skipn_cons_nth _ _ _ _ Hs) as (_ & H2 & _).
      rewrite H2. splits; auto. eapply firstn_S_skipn; eassumption. }
  split; [exact Hg|].
  pose proof (f_equal (@length R) Hg) as Hl. rewrite firstn_length in Hl. lia.
Qed.

(* ------------------------------------------------------------------ for_each with children *)

Section ForEachGeneral.
Variable tid : nat.

Fixpoint tid_free (t : tmpl) : Prop :=
  match t with
  | Tmpl k _ _ _ nested friends => k <> tid /\ tid_free_list nested /\ tid_free_list friends
  end
with tid_free_list (ts : tmpls) : Prop :=
  match ts with
  | TNil => True
  | TCons t r => tid_free t /\ tid_free_list r
  end.

Definition mine (rows : list row) : list row := filter (fun r => Nat.eqb (r_tid r) tid) rows.
Definition fe_key (r : row) : option R * Z := (r_fe R C r, r_index R C r).
Fixpoint keys (recs : list R) (i : Z) : list (option R * Z) :=
  match recs with
  | [] => []
  | x :: r => (Some x, i) :: keys r (i + 1)
  end.

Lemma mine_app a b : mine (a ++ b) = mine a ++ mine b.
Proof. apply filter_app. Qed.

Lemma site_draw_out rc k d (s : st) :
  match site_draw R C rc k d s with
  | ROk _ _ _ _ s' => s_out R C s' = s_out R C s
  | RErr _ _ _ _ o => o = s_out R C s
  end.
Proof.
  unfold Datasets.site_draw.
  destruct (memo_get R C rc k d s) as [[[it o1] ko]|e]; [|reflexivity].
  destruct (field_draw it o1) as [[[x it'] o2]|e]; reflexivity.
Qed.

Lemma draw_sites_out rc : forall sites (s : st),
  match draw_sites R C rc sites s with
  | ROk _ _ _ _ s' => s_out R C s' = s_out R C s
  | RErr _ _ _ _ o => o = s_out R C s
  end.
Proof.
  induction sites as [|[k d] sites IH]; intros s; cbn [Datasets.draw_sites]; [reflexivity|].
  pose proof (site_draw_out rc k d s) as H1.
  destruct (site_draw R C rc k d s) as [x s1|e o]; [|exact H1].
  specialize (IH s1). destruct (draw_sites R C rc sites s1) as [cs s2|e o]; congruence.
Qed.

(* templates with other ids write no row of ours *)
Definition quiet_P (out0 : list row) (s : st) : Prop :=
  exists ex, s_out R C s = out0 ++ ex /\ mine ex = [].
Definition quiet_Q (out0 : list row) (o : list row) : Prop :=
  exists ex, o = out0 ++ ex /\ mine ex = [].

Lemma quiet_refl (s : st) : quiet_P (s_out R C s) s.
Proof. exists []. rewrite app_nil_r. auto. Qed.

Lemma quiet_gen :
  (forall t : tmpl, tid_free t -> forall rc out0 s, quiet_P out0 s ->
      holds (quiet_P out0) (quiet_Q out0) (gen_rows t rc s)) /\
  (forall ts : tmpls, tid_free_list ts -> forall rc out0 s, quiet_P out0 s ->
      holds (quiet_P out0) (quiet_Q out0) (gen_list ts rc s)).
Proof.
  apply tmpl_mutind.
  - intros k lp sites pass nested IHn friends IHf (Hk & Hn & Hf) rc out0 s Hs.
    assert (Hrow : forall rc' fe i s, quiet_P out0 s ->
               holds (quiet_P out0) (quiet_Q out0) (one_row k sites pass nested friends rc' fe i s)).
    { intros rc' fe i s1 Hs1. unfold one_row.
      pose proof (draw_sites_out rc' sites s1) as H1.
      destruct (draw_sites R C rc' sites s1) as [cs s2|e o]; [|cbn [holds]; subst o; exact Hs1].
      assert (Hs2 : quiet_P out0 s2) by (unfold quiet_P in *; rewrite H1; exact Hs1).
      pose proof (IHn Hn rc' out0 s2 Hs2) as H2.
      destruct (gen_list nested rc' s2) as [u s3|e o]; [|exact H2].
      cbn [holds] in H2.
      destruct (project fe pass) as [pv|e]; [|exact H2].
      apply IHf; [assumption|].
      destruct H2 as (ex & Ho & Hm). exists (ex ++ [mkRow k fe i cs pv]).
      unfold Datasets.emit; cbn [s_out]. rewrite Ho, app_assoc. split; [reflexivity|].
      rewrite mine_app, Hm. cbn [mine filter r_tid app].
      destruct (Nat.eqb k tid) eqn:E; [apply Nat.eqb_eq in E; contradiction|reflexivity]. }
    rewrite gen_rows_eq. destruct lp as [|m|d].
    + apply count_loop_inv; [|assumption]. intros; apply Hrow; assumption.
    + apply count_loop_inv; [|assumption]. intros; apply Hrow; assumption.
    + destruct (new_iter d (s_orc R C s)) as [[it o1]|e]; [|exact Hs].
      apply each_loop_inv; [intros; apply Hrow; assumption|]. exact Hs.
  - intros _ rc out0 s Hs. rewrite gen_list_nil. exact Hs.
  - intros t IHt r IHr [H1 H2] rc out0 s Hs. rewrite gen_list_cons.
    pose proof (IHt H1 rc out0 s Hs) as H3.
    destruct (gen_rows t rc s) as [u s1|e o]; [|exact H3].
    apply IHr; assumption.
Qed.

Definition prefix {A} (a b : list A) : Prop := exists c, b = a ++ c.

(* one row of our template: exactly one row of ours is written, carrying (fe, i); on failure at
   most that one *)
Lemma one_row_mine sites pass nested friends rc fe i (s : st) :
  tid_free_list nested -> tid_free_list friends ->
  match one_row tid sites pass nested friends rc fe i s with
  | ROk _ _ _ _ s' => exists ex, s_out R C s' = s_out R C s ++ ex /\ map fe_key (mine ex) = [(fe, i)]
  | RErr _ _ _ _ o => exists ex, o = s_out R C s ++ ex /\ prefix (map fe_key (mine ex)) [(fe, i)]
  end.
Proof.
  intros Hn Hf. unfold one_row.
  pose proof (draw_sites_out rc sites s) as H1.
  destruct (draw_sites R C rc sites s) as [cs s1|e o].
  2:{ exists []. rewrite app_nil_r. split; [assumption|]. exists [(fe, i)]. reflexivity. }
  pose proof (proj2 quiet_gen nested Hn rc _ s1 (quiet_refl s1)) as H2.
  destruct (gen_list nested rc s1) as [u s2|e o]; cbn [holds] in H2.
  2:{ destruct H2 as (ex & Ho & Hm). exists ex. rewrite Ho, H1. split; [reflexivity|].
      rewrite Hm. exists [(fe, i)]. reflexivity. }
  destruct H2 as (ex & Ho & Hm).
  destruct (project fe pass) as [pv|e].
  2:{ exists ex. rewrite Ho, H1. split; [reflexivity|]. rewrite Hm. exists [(fe, i)]. reflexivity. }
  set (s3 := emit R C (mkRow tid fe i cs pv) s2).
  pose proof (proj2 quiet_gen friends Hf rc _ s3 (quiet_refl s3)) as H3.
  assert (Hs3 : s_out R C s3 = s_out R C s ++ (ex ++ [mkRow tid fe i cs pv])).
  { unfold s3, Datasets.emit; cbn [s_out]. rewrite Ho, H1, app_assoc. reflexivity. }
  assert (Hk : map fe_key (mine (ex ++ [mkRow tid fe i cs pv])) = [(fe, i)]).
  { rewrite mine_app, Hm. cbn [mine filter r_tid app]. rewrite Nat.eqb_refl. reflexivity. }
  destruct (gen_list friends rc s3) as [u' s4|e o]; cbn [holds] in H3;
    destruct H3 as (ex2 & Ho2 & Hm2); exists ((ex ++ [mkRow tid fe i cs pv]) ++ ex2);
    rewrite Ho2, Hs3, <- app_assoc; (split; [reflexivity|]);
    rewrite (mine_app (ex ++ [mkRow tid fe i cs pv]) ex2), Hm2, app_nil_r, Hk.
  - reflexivity.
  - exists []. reflexivity.
Qed.

Lemma each_loop_mine sites pass nested friends rc :
  tid_free_list nested -> tid_free_list friends ->
  forall recs i (s : st),
  match each_loop R C (fun x => one_row tid sites pass nested friends rc (Some x)) recs i s with
  | ROk _ _ _ _ s' => exists ex, s_out R C s' = s_out R C s ++ ex /\ map fe_key (mine ex) = keys recs i
  | RErr _ _ _ _ o => exists ex, o = s_out R C s ++ ex /\ prefix (map fe_key (mine ex)) (keys recs i)
  end.
Proof.
  intros Hn Hf. induction recs as [|x r IH]; intros i s; cbn [Datasets.each_loop keys].
  - exists []. rewrite app_nil_r. auto.
  - pose proof (one_row_mine sites pass nested friends rc (Some x) i s Hn Hf) as H1.
    destruct (one_row tid sites pass nested friends rc (Some x) i s) as [u s1|e o].
    + destruct H1 as (ex1 & Ho1 & Hk1). specialize (IH (i + 1) s1).
      destruct (each_loop R C (fun x0 => one_row tid sites pass nested friends rc (Some x0)) r (i + 1) s1)
        as [u' s2|e o]; destruct IH as (ex2 & Ho2 & Hk2); exists (ex1 ++ ex2);
        rewrite Ho2, Ho1, <- app_assoc; (split; [reflexivity|]); rewrite mine_app, map_app, Hk1.
      * rewrite Hk2. reflexivity.
      * destruct Hk2 as (c & Hc). exists c. cbn [app]. rewrite Hc. reflexivity.
    + destruct H1 as (ex1 & Ho1 & (c & Hc)). exists ex1. split; [assumption|].
      exists (c ++ keys r (i + 1)). rewrite app_assoc, <- Hc. reflexivity.
Qed.

(* C17, for_each in general: a for_each template with any fields, nested objects and friends
   (none of which writes rows under the same template id), in any context: if it completes, the
   rows it wrote carry exactly the records of one pass, in order, with child_index 0..n-1; if the
   run fails inside, the rows written so far carry a prefix of that. *)
Theorem for_each_general (d : dsref) sites pass nested friends rc (s : st) :
  tid_free_list nested -> tid_free_list friends ->
  match gen_rows (Tmpl tid (LForEach d) sites pass nested friends) rc s with
  | ROk _ _ _ _ s' =>
    exists it orc1 ex, new_iter d (s_orc R C s) = Ok (it, orc1) /\
      s_out R C s' = s_out R C s ++ ex /\ map fe_key (mine ex) = keys (i_rest R it) 0
  | RErr _ _ _ _ o =>
    (exists e, new_iter d (s_orc R C s) = Err e /\ o = s_out R C s) \/
    exists it orc1 ex, new_iter d (s_orc R C s) = Ok (it, orc1) /\
      o = s_out R C s ++ ex /\ prefix (map fe_key (mine ex)) (keys (i_rest R it) 0)
  end.
Proof.
  intros Hn Hf. rewrite gen_rows_eq.
  destruct (new_iter d (s_orc R C s)) as [[it o1]|e] eqn:Hnew.
  - pose proof (each_loop_mine sites pass nested friends rc Hn Hf (i_rest R it) 0
                  (mkSt R C (s_sites R C s) o1 (s_out R C s))) as H.
    cbn [s_out] in H.
    destruct (each_loop R C (fun x => one_row tid sites pass nested friends rc (Some x)) (i_rest R it) 0
                (mkSt R C (s_sites R C s) o1 (s_out R C s))) as [u s1|e o].
    + destruct H as (ex & Ho & Hk). exists it, o1, ex. auto.
    + right. destruct H as (ex & Ho & Hk). exists it, o1, ex. auto.
  - left. exists e. auto.
Qed.

Lemma keys_length recs i : length (keys recs i) = length recs.
Proof. revert i; induction recs; intros; cbn [keys length]; auto. Qed.

Lemma keys_nth recs : forall i k x,
  nth_error recs k = Some x -> nth_error (keys recs i) k = Some (Some x, i + Z.of_nat k).
Proof.
  induction recs as [|y r IH]; intros i [|k] x H; cbn [nth_error keys] in *; try discriminate.
  - inversion H; subst. replace (i + Z.of_nat 0) with i by lia. reflexivity.
  - rewrite (IH _ _ _ H). replace (i + 1 + Z.of_nat k) with (i + Z.of_nat (S k)) by lia. reflexivity.
Qed.

End ForEachGeneral.

End Proofs.

(* ------------------------------------------------------------------ the CSV reader *)

Definition feed1 (s : rd) (acc : list (list (list Z))) (c : option Z)
  : result (rd * list (list (list Z))) :=
  do s' <- csv_step s c;
  match c, rd_state s' with
  | None, StartRecord => Ok (rd0, rev (rd_fields s') :: acc)
  | _, _ => Ok (s', acc)
  end.

Lemma csv_run_cons s acc c r :
  csv_run s acc (c :: r) = do '(s', acc') <- feed1 s acc c; csv_run s' acc' r.
Proof.
  cbn [csv_run]. unfold feed1. destruct (csv_step s c) as [s'|e]; cbn [bind]; [|reflexivity].
  destruct c; [reflexivity|]. destruct (rd_state s'); reflexivity.
Qed.

Lemma eolize_cons pcr mid c r :
  eolize pcr mid (c :: r) =
  (if pcr && negb (c =? LF) then [None] else []) ++
  (if c =? LF then Some c :: None :: eolize false false r
   else if c =? CR then Some c :: eolize true false r
   else Some c :: eolize false true r).
Proof. reflexivity. Qed.

Definition fits (cur f : list Z) : Prop := Z.of_nat (length cur + length f) <= FIELD_LIMIT.

Lemma add_char_ok st fs cur c st' :
  Z.of_nat (length cur) < FIELD_LIMIT ->
  add_char (mkRd st fs cur) c st' = Ok (mkRd st' fs (c :: cur)).
Proof.
  intros H. unfold add_char. cbn [rd_field rd_fields].
  destruct (Z.of_nat (length cur) <? FIELD_LIMIT) eqn:E; [reflexivity|].
  apply Z.ltb_ge in E. lia.
Qed.

(* ---- inside a quoted field *)

Lemma quoted_eol fs cur acc r :
  csv_run (mkRd InQuoted fs cur) acc (None :: r) = csv_run (mkRd InQuoted fs cur) acc r.
Proof. rewrite csv_run_cons. reflexivity. Qed.

Lemma quoted_pre (b : bool) fs cur acc r :
  csv_run (mkRd InQuoted fs cur) acc ((if b then [None] else []) ++ r)
  = csv_run (mkRd InQuoted fs cur) acc r.
Proof. destruct b; cbn [app]; [apply quoted_eol|reflexivity]. Qed.

Lemma quoted_char fs cur acc c r :
  (c =? QUOTE) = false -> Z.of_nat (length cur) < FIELD_LIMIT ->
  csv_run (mkRd InQuoted fs cur) acc (Some c :: r) = csv_run (mkRd InQuoted fs (c :: cur)) acc r.
Proof.
  intros Hq Hl. rewrite csv_run_cons. unfold feed1, csv_step. cbn [rd_state]. rewrite Hq.
  rewrite add_char_ok by assumption. reflexivity.
Qed.

Lemma quoted_quote fs cur acc r :
  csv_run (mkRd InQuoted fs cur) acc (Some QUOTE :: r) = csv_run (mkRd QuoteInQuoted fs cur) acc r.
Proof. rewrite csv_run_cons. reflexivity. Qed.

Lemma qq_quote fs cur acc r :
  Z.of_nat (length cur) < FIELD_LIMIT ->
  csv_run (mkRd QuoteInQuoted fs cur) acc (Some QUOTE :: r) = csv_run (mkRd InQuoted fs (QUOTE :: cur)) acc r.
Proof.
  intros Hl. rewrite csv_run_cons. unfold feed1, csv_step. cbn [rd_state].
  change (QUOTE =? QUOTE) with true. cbv iota. rewrite add_char_ok by assumption. reflexivity.
Qed.

(* the body of a quoted cell, up to and including the closing quote: every character of the cell
   arrives, line ends inside it included; the line structure of the file plays no role *)
Lemma quoted_body : forall f rest fs cur acc pcr mid,
  fits cur f ->
  csv_run (mkRd InQuoted fs cur) acc (eolize pcr mid (escape_quotes f ++ QUOTE :: rest))
  = csv_run (mkRd QuoteInQuoted fs (rev f ++ cur)) acc (eolize false true rest).
Proof.
  unfold fits.
  induction f as [|c f IH]; intros rest fs cur acc pcr mid Hfit; cbn [escape_quotes app rev].
  - rewrite eolize_cons. change (QUOTE =? LF) with false. change (QUOTE =? CR) with false.
    rewrite quoted_pre. apply quoted_quote.
  - cbn [length] in Hfit.
    assert (Hl : Z.of_nat (length cur) < FIELD_LIMIT) by lia.
    assert (Hfit' : forall x, Z.of_nat (length (x :: cur) + length f) <= FIELD_LIMIT) by (intros; cbn [length]; lia).
    rewrite <- List.app_assoc. cbn [app].
    destruct (c =? QUOTE) eqn:Eq.
    + apply Z.eqb_eq in Eq. subst c. cbn [app].
      rewrite eolize_cons. change (QUOTE =? LF) with false. change (QUOTE =? CR) with false.
      rewrite quoted_pre, quoted_quote.
      rewrite eolize_cons. change (QUOTE =? LF) with false. change (QUOTE =? CR) with false.
      cbn [andb app]. rewrite qq_quote by assumption. apply IH. apply Hfit'.
    + cbn [app]. rewrite eolize_cons, quoted_pre.
      destruct (c =? LF) eqn:El; [|destruct (c =? CR) eqn:Ec].
      * rewrite quoted_char by assumption. rewrite quoted_eol. apply IH. apply Hfit'.
      * rewrite quoted_char by assumption. apply IH. apply Hfit'.
      * rewrite quoted_char by assumption. apply IH. apply Hfit'.
Qed.

(* ---- a bare cell *)

Lemma plain_char_spec c :
  plain_char c = true -> (c =? COMMA) = false /\ (c =? QUOTE) = false /\ (c =? CR) = false /\ (c =? LF) = false.
Proof.
  unfold plain_char. intros H. apply negb_true_iff in H.
  repeat (apply orb_false_elim in H; destruct H as [H ?]). auto.
Qed.

Lemma is_nl_plain c : plain_char c = true -> is_nl c = false.
Proof. intros H. destruct (plain_char_spec c H) as (_ & _ & H1 & H2). unfold is_nl. rewrite H1, H2. reflexivity. Qed.

Lemma eolize_plain mid c r :
  plain_char c = true -> eolize false mid (c :: r) = Some c :: eolize false true r.
Proof.
  intros H. destruct (plain_char_spec c H) as (_ & _ & H1 & H2).
  rewrite eolize_cons, H1, H2. reflexivity.
Qed.

Lemma infield_char fs cur acc c r :
  plain_char c = true -> Z.of_nat (length cur) < FIELD_LIMIT ->
  csv_run (mkRd InField fs cur) acc (Some c :: r) = csv_run (mkRd InField fs (c :: cur)) acc r.
Proof.
  intros Hp Hl. destruct (plain_char_spec c Hp) as (H0 & _ & _ & _).
  rewrite csv_run_cons. unfold feed1, csv_step. cbn [rd_state].
  rewrite (is_nl_plain c Hp), H0. rewrite add_char_ok by assumption. reflexivity.
Qed.

Lemma bare_body : forall f rest fs cur acc,
  forallb plain_char f = true -> fits cur f ->
  csv_run (mkRd InField fs cur) acc (eolize false true (f ++ rest))
  = csv_run (mkRd InField fs (rev f ++ cur)) acc (eolize false true rest).
Proof.
  unfold fits.
  induction f as [|c f IH]; intros rest fs cur acc Hp Hfit; cbn [app rev]; [reflexivity|].
  cbn [forallb] in Hp. apply andb_prop in Hp. destruct Hp as [Hc Hp].
  cbn [length] in Hfit.
  rewrite eolize_plain by assumption. rewrite infield_char by (assumption || lia).
  rewrite <- List.app_assoc. cbn [app]. apply IH; [assumption|cbn [length]; lia].
Qed.

(* the first character of a bare cell, at the start of a record or after a comma *)
Lemma fieldstart_char st fs acc c r :
  st = StartRecord \/ st = StartField ->
  plain_char c = true ->
  csv_run (mkRd st fs []) acc (Some c :: r) = csv_run (mkRd InField fs [c]) acc r.
Proof.
  intros Hst Hp. destruct (plain_char_spec c Hp) as (H0 & H1 & _ & _).
  rewrite csv_run_cons. unfold feed1, csv_step, start_field. cbn [rd_state].
  destruct Hst as [-> | ->]; rewrite (is_nl_plain c Hp), H1, H0;
    (rewrite add_char_ok by (cbn; unfold FIELD_LIMIT; lia)); reflexivity.
Qed.

Lemma fieldstart_quote st fs acc r :
  st = StartRecord \/ st = StartField ->
  csv_run (mkRd st fs []) acc (Some QUOTE :: r) = csv_run (mkRd InQuoted fs []) acc r.
Proof. intros [-> | ->]; rewrite csv_run_cons; reflexivity. Qed.

(* ---- one cell *)

(* the reader right after the text of a cell f (fields fs before it) *)
Inductive after_cell (f : list Z) (fs : list (list Z)) : rd -> Prop :=
| AfterBare : f <> [] -> after_cell f fs (mkRd InField fs (rev f))
| AfterQuoted : after_cell f fs (mkRd QuoteInQuoted fs (rev f))
| AfterEmpty : f = [] -> after_cell f fs (mkRd StartField fs []).

Lemma read_cell c alone st fs acc mid rest :
  cell_ok alone c = true ->
  (st = StartRecord /\ mid = false /\ (alone = true \/ w_quoted c = true \/ w_text c <> [])) \/
  (st = StartField /\ mid = true) ->
  exists s, after_cell (w_text c) fs s /\
    csv_run (mkRd st fs []) acc (eolize false mid (write_cell c ++ rest))
    = csv_run s acc (eolize false true rest).
Proof.
  intros Hok Hst. unfold cell_ok in Hok. apply andb_prop in Hok. destruct Hok as [Hlen Hok].
  apply Z.leb_le in Hlen.
  assert (Hs : st = StartRecord \/ st = StartField) by (destruct Hst as [(H & _)|(H & _)]; auto).
  unfold write_cell. destruct c as [f q]. cbn [w_text w_quoted] in *.
  destruct q.
  - (* quoted *)
    exists (mkRd QuoteInQuoted fs (rev f)). split; [constructor|].
    cbn [app]. rewrite eolize_cons. change (QUOTE =? LF) with false. change (QUOTE =? CR) with false.
    cbn [andb app]. rewrite fieldstart_quote by assumption.
    rewrite <- List.app_assoc. cbn [app].
    rewrite quoted_body by (unfold fits; cbn [length]; lia).
    rewrite app_nil_r. reflexivity.
  - cbn [orb] in Hok. apply andb_prop in Hok. destruct Hok as [Hp Hal].
    destruct f as [|c f].
    + (* an empty bare cell: only after a comma *)
      destruct Hst as [(-> & -> & [Ha|[Ha|Ha]])|(-> & ->)].
      * subst alone. discriminate.
      * discriminate.
      * contradiction.
      * exists (mkRd StartField fs []). split; [constructor; reflexivity|reflexivity].
    + exists (mkRd InField fs (rev (c :: f))). split; [constructor; discriminate|].
      cbn [forallb] in Hp. apply andb_prop in Hp. destruct Hp as [Hc Hp].
      cbn [app]. rewrite eolize_plain by assumption.
      rewrite fieldstart_char by assumption.
      cbn [length] in Hlen.
      rewrite bare_body by (assumption || (unfold fits; cbn [length]; lia)).
      cbn [rev]. reflexivity.
Qed.

(* ---- what may follow a cell *)

Lemma after_comma f fs s acc rest :
  after_cell f fs s ->
  csv_run s acc (eolize false true (COMMA :: rest))
  = csv_run (mkRd StartField (f :: fs) []) acc (eolize false true rest).
Proof.
  intros H. rewrite eolize_cons. change (COMMA =? LF) with false. change (COMMA =? CR) with false.
  cbn [andb app]. rewrite csv_run_cons.
  destruct H as [Hne| |He]; unfold feed1, csv_step, start_field, save_field; cbn [rd_state rd_field rd_fields bind];
    change (is_nl COMMA) with false; change (COMMA =? QUOTE) with false; change (COMMA =? COMMA) with true;
    cbv iota; cbn [bind rd_state]; rewrite ?rev_involutive; try subst f; reflexivity.
Qed.

Lemma after_lf f fs s acc rest :
  after_cell f fs s ->
  csv_run s acc (eolize false true (LF :: rest))
  = csv_run rd0 (rev (f :: fs) :: acc) (eolize false false rest).
Proof.
  intros H. rewrite eolize_cons. change (LF =? LF) with true. cbn [andb negb app]. cbv iota.
  rewrite csv_run_cons.
  destruct H as [Hne| |He]; unfold feed1, csv_step, start_field, save_field; cbn [rd_state rd_field rd_fields bind];
    change (is_nl LF) with true; change (LF =? QUOTE) with false; change (LF =? COMMA) with false;
    cbv iota; cbn [bind rd_state]; rewrite ?rev_involutive; try subst f;
    rewrite csv_run_cons; reflexivity.
Qed.

Lemma after_crlf f fs s acc rest :
  after_cell f fs s ->
  csv_run s acc (eolize false true (CR :: LF :: rest))
  = csv_run rd0 (rev (f :: fs) :: acc) (eolize false false rest).
Proof.
  intros H. rewrite eolize_cons. change (CR =? LF) with false. change (CR =? CR) with true.
  cbn [andb negb app]. cbv iota. rewrite eolize_cons. change (LF =? LF) with true. cbn [andb negb app]. cbv iota.
  rewrite csv_run_cons.
  destruct H as [Hne| |He]; unfold feed1, csv_step, start_field, save_field; cbn [rd_state rd_field rd_fields bind];
    change (is_nl CR) with true; change (CR =? QUOTE) with false; change (CR =? COMMA) with false;
    cbv iota; cbn [bind rd_state]; rewrite ?rev_involutive; try subst f;
    rewrite csv_run_cons; unfold feed1, csv_step; cbn [rd_state bind]; change (is_nl LF) with true; cbv iota; cbn [bind rd_state];
    rewrite csv_run_cons; reflexivity.
Qed.

Lemma after_end f fs s acc :
  after_cell f fs s ->
  csv_run s acc (eolize false true []) = Ok (rev (rev (f :: fs) :: acc)).
Proof.
  intros H. cbn [eolize orb]. rewrite csv_run_cons.
  destruct H as [Hne| |He]; unfold feed1, csv_step, start_field, save_field; cbn [rd_state rd_field rd_fields bind];
    rewrite ?rev_involutive; try subst f; reflexivity.
Qed.

(* ---- the cells of a row *)

Lemma start_comma acc r :
  csv_run (mkRd StartRecord [] []) acc (eolize false false (COMMA :: r))
  = csv_run (mkRd StartField [[]] []) acc (eolize false true r).
Proof.
  rewrite eolize_cons. change (COMMA =? LF) with false. change (COMMA =? CR) with false.
  cbn [andb app]. rewrite csv_run_cons. reflexivity.
Qed.

Lemma write_cells_cons2 c c2 r : write_cells (c :: c2 :: r) = write_cell c ++ COMMA :: write_cells (c2 :: r).
Proof. reflexivity. Qed.

Lemma read_cells : forall cs st fs mid acc term K,
  cs <> [] ->
  ((st = StartRecord /\ mid = false /\ fs = [] /\ cells_ok cs = true) \/
   (st = StartField /\ mid = true /\ forallb (cell_ok false) cs = true)) ->
  (forall s f fs', after_cell f fs' s -> csv_run s acc (eolize false true term) = K (f :: fs')) ->
  csv_run (mkRd st fs []) acc (eolize false mid (write_cells cs ++ term))
  = K (rev (map w_text cs) ++ fs).
Proof.
  induction cs as [|c cs IH]; intros st fs mid acc term K Hne Hst HK; [contradiction|].
  destruct cs as [|c2 r].
  - (* the last cell of the row *)
    cbn [write_cells map rev app].
    assert (Hc : exists alone, cell_ok alone c = true /\
               ((st = StartRecord /\ mid = false /\ (alone = true \/ w_quoted c = true \/ w_text c <> [])) \/
                (st = StartField /\ mid = true))).
    { destruct Hst as [(-> & -> & -> & H)|(-> & -> & H)].
      - exists true. cbn [cells_ok] in H. split; [assumption|]. left. auto.
      - exists false. cbn [forallb] in H. apply andb_prop in H. destruct H as [H _].
        split; [assumption|]. right. auto. }
    destruct Hc as (alone & Hok & Hs).
    destruct (read_cell c alone st fs acc mid term Hok Hs) as (s & Ha & ->).
    apply HK. exact Ha.
  - (* a cell followed by a comma *)
    rewrite write_cells_cons2, <- List.app_assoc. cbn [app].
    assert (Hall : forallb (cell_ok false) (c :: c2 :: r) = true).
    { destruct Hst as [(_ & _ & _ & H)|(_ & _ & H)]; exact H. }
    cbn [forallb] in Hall. apply andb_prop in Hall. destruct Hall as [Hc Hrest].
    assert (Hgoal : forall fs1, fs1 = w_text c :: fs ->
              csv_run (mkRd StartField fs1 []) acc (eolize false true (write_cells (c2 :: r) ++ term))
              = K (rev (map w_text (c :: c2 :: r)) ++ fs)).
    { intros fs1 ->. rewrite (IH StartField (w_text c :: fs) true acc term K); [| discriminate | right; auto | exact HK].
      f_equal. cbn [map rev]. rewrite <- !List.app_assoc. reflexivity. }
    destruct (w_quoted c) eqn:Eq; [|destruct (w_text c) as [|x t] eqn:Et].
    + (* quoted *)
      assert (Hs : (st = StartRecord /\ mid = false /\ (false = true \/ w_quoted c = true \/ w_text c <> [])) \/
                   (st = StartField /\ mid = true)).
      { destruct Hst as [(-> & -> & _)|(-> & -> & _)]; [left|right]; auto. }
      destruct (read_cell c false st fs acc mid (COMMA :: write_cells (c2 :: r) ++ term) Hc Hs) as (s & Ha & ->).
      rewrite (after_comma _ _ _ _ _ Ha). apply Hgoal. reflexivity.
    + (* bare and empty: the comma comes at once *)
      assert (Hw : write_cell c = []) by (unfold write_cell; rewrite Eq, Et; reflexivity).
      rewrite Hw. cbn [app].
      destruct Hst as [(-> & -> & -> & _)|(-> & -> & _)].
      * rewrite start_comma. apply Hgoal. reflexivity.
      * rewrite (after_comma [] fs (mkRd StartField fs []) acc _ (AfterEmpty [] fs eq_refl)).
        apply Hgoal. reflexivity.
    + assert (Hs : (st = StartRecord /\ mid = false /\ (false = true \/ w_quoted c = true \/ w_text c <> [])) \/
                   (st = StartField /\ mid = true)).
      { destruct Hst as [(-> & -> & _)|(-> & -> & _)]; [left|right]; auto.
        split; [reflexivity|]. split; [reflexivity|]. right. right. rewrite Et. discriminate. }
      destruct (read_cell c false st fs acc mid (COMMA :: write_cells (c2 :: r) ++ term) Hc Hs) as (s & Ha & ->).
      rewrite Et in Ha. rewrite (after_comma _ _ _ _ _ Ha). apply Hgoal. try rewrite Et. reflexivity.
Qed.

(* ---- rows, files *)

Lemma read_blank_row crlf acc rest :
  csv_run rd0 acc (eolize false false (write_eol crlf ++ rest))
  = csv_run rd0 ([] :: acc) (eolize false false rest).
Proof.
  destruct crlf; cbn [write_eol app].
  - rewrite eolize_cons. change (CR =? LF) with false. change (CR =? CR) with true.
    cbn [andb app]. cbv iota. rewrite eolize_cons. change (LF =? LF) with true. cbn [andb negb app]. cbv iota.
    rewrite !csv_run_cons. reflexivity.
  - rewrite eolize_cons. change (LF =? LF) with true. cbn [andb negb app]. cbv iota.
    rewrite !csv_run_cons. reflexivity.
Qed.

Lemma read_row r acc rest :
  row_ok r = true ->
  csv_run rd0 acc (eolize false false (write_cells (w_cells r) ++ write_eol (w_crlf r) ++ rest))
  = csv_run rd0 (row_texts (w_cells r) :: acc) (eolize false false rest).
Proof.
  intros Hok. unfold row_ok in Hok. destruct r as [cs crlf]. cbn [w_cells w_crlf] in *.
  destruct cs as [|c cs].
  - cbn [write_cells app row_texts map]. apply read_blank_row.
  - unfold rd0.
    rewrite (read_cells (c :: cs) StartRecord [] false acc (write_eol crlf ++ rest)
               (fun fields => csv_run rd0 (rev fields :: acc) (eolize false false rest))).
    + rewrite app_nil_r, rev_involutive. reflexivity.
    + discriminate.
    + left. auto.
    + intros s f fs' Ha. destruct crlf; cbn [write_eol app].
      * apply after_crlf. exact Ha.
      * apply after_lf. exact Ha.
Qed.

Lemma read_rows : forall rows acc tail,
  forallb row_ok rows = true ->
  csv_run rd0 acc (eolize false false (write_rows rows ++ tail))
  = csv_run rd0 (rev (map (fun r => row_texts (w_cells r)) rows) ++ acc) (eolize false false tail).
Proof.
  induction rows as [|r rows IH]; intros acc tail Hok; cbn [write_rows map rev]; [reflexivity|].
  cbn [forallb] in Hok. apply andb_prop in Hok. destruct Hok as [Hr Hrows].
  rewrite <- !List.app_assoc. rewrite read_row by assumption.
  rewrite IH by assumption. reflexivity.
Qed.

Lemma strip_bom_file bom body : bom_ok bom body = true ->
  strip_bom ((if bom then [BOMC] else []) ++ body) = body.
Proof.
  unfold bom_ok. destruct bom; cbn [orb app]; [reflexivity|].
  destruct body as [|c r]; [reflexivity|]. cbn [strip_bom]. intros H.
  apply negb_true_iff in H. rewrite H. reflexivity.
Qed.

(* C17, reading a CSV file: whatever rows are written — any number of cells (none: a blank line),
   any characters in a cell (commas, quotes, CR, LF, U+FEFF, ...) provided a cell that needs quotes has
   them, each row ended by LF or CRLF, the last row possibly without terminator, with or without a
   byte order mark — csv.reader over the file opened the way Snowfakery opens it returns exactly
   those rows, cell for cell *)
Theorem csv_roundtrip bom rows last :
  forallb row_ok rows = true ->
  match last with Some cs => cs <> [] /\ cells_ok cs = true | None => True end ->
  bom_ok bom (write_rows rows ++ match last with Some cs => write_cells cs | None => [] end) = true ->
  csv_rows (write_file bom rows last)
  = Ok (map (fun r => row_texts (w_cells r)) rows ++
        match last with Some cs => [row_texts cs] | None => [] end).
Proof.
  intros Hrows Hlast Hbom. unfold csv_rows, write_file.
  rewrite (strip_bom_file _ _ Hbom). rewrite read_rows by assumption.
  rewrite app_nil_r.
  destruct last as [cs|].
  - destruct Hlast as [Hne Hok]. unfold rd0.
    rewrite <- (app_nil_r (write_cells cs)).
    rewrite (read_cells cs StartRecord [] false _ []
               (fun fields => Ok (rev (rev fields :: rev (map (fun r => row_texts (w_cells r)) rows))))).
    + rewrite app_nil_r, rev_involutive. cbn [rev]. rewrite rev_involutive. reflexivity.
    + assumption.
    + left. auto.
    + intros s f fs' Ha. apply after_end. exact Ha.
  - cbn [eolize orb csv_run rd0 rd_field rd_state]. rewrite rev_involutive, app_nil_r. reflexivity.
Qed.

(* ... and DictReader: with a header row of h names and every other row blank or of at most h
   cells, the records are the non-blank rows, in order, filled up with None *)
Lemma all_ok_map_ok {A B} (f : A -> B) (l : list A) : all_ok (map (fun x => Ok (f x)) l) = Ok (map f l).
Proof. induction l as [|x l IH]; cbn [map all_ok]; [reflexivity|]. rewrite IH. reflexivity. Qed.

Definition pad_row (n : nat) (r : list (list Z)) : rec := map Some r ++ repeat None (n - length r).

Theorem csv_records_roundtrip bom header rows last :
  forallb row_ok (header :: rows) = true ->
  match last with Some cs => cs <> [] /\ cells_ok cs = true | None => True end ->
  bom_ok bom (write_rows (header :: rows) ++ match last with Some cs => write_cells cs | None => [] end) = true ->
  let body := map (fun r => row_texts (w_cells r)) rows ++
              match last with Some cs => [row_texts cs] | None => [] end in
  Forall (fun r => (length r <= length (w_cells header))%nat) body ->
  csv_records (write_file bom (header :: rows) last)
  = Ok (Some (row_texts (w_cells header)),
        map (pad_row (length (w_cells header))) (filter (fun r => negb (is_blank r)) body)).
Proof.
  intros Hrows Hlast Hbom body Hshort. unfold csv_records.
  rewrite (csv_roundtrip bom (header :: rows) last Hrows Hlast Hbom). cbn [bind map app dict_reader].
  fold body.
  assert (Hl : length (row_texts (w_cells header)) = length (w_cells header)) by (unfold row_texts; apply map_length).
  rewrite Hl.
  assert (Hm : map (dict_record (length (w_cells header))) (filter (fun r => negb (is_blank r)) body)
             = map (fun r => Ok (pad_row (length (w_cells header)) r)) (filter (fun r => negb (is_blank r)) body)).
  { apply map_ext_in. intros r Hin. apply filter_In in Hin. destruct Hin as [Hin _].
    rewrite Forall_forall in Hshort. specialize (Hshort r Hin). unfold dict_record.
    destruct (Nat.ltb (length (w_cells header)) (length r)) eqn:E; [apply Nat.ltb_lt in E; lia|reflexivity]. }
  rewrite Hm, all_ok_map_ok. reflexivity.
Qed.

(* ------------------------------------------------------------------ arguments rendered per row *)

Section ArgsMemoProofs.
Variable R : Type.

Lemma akey_eqb_eq a b : akey_eqb a b = true <-> a = b.
Proof.
  destruct a as [a1 a2], b as [b1 b2]. unfold akey_eqb. cbn [fst snd].
  rewrite andb_true_iff, !Nat.eqb_eq. split.
  - intros [H1 H2]; subst; reflexivity.
  - intros H; inversion H; auto.
Qed.

Lemma akey_eqb_refl a : akey_eqb a a = true.
Proof. apply akey_eqb_eq. reflexivity. Qed.

Lemma akey_eqb_neq a b : a <> b -> akey_eqb a b = false.
Proof.
  intros H. destruct (akey_eqb a b) eqn:E; [|reflexivity]. apply akey_eqb_eq in E. contradiction.
Qed.

Lemma alookup_astore_same k v l : alookup R k (astore R k v l) = Some v.
Proof.
  induction l as [|[k1 w] l IH]; cbn [astore alookup].
  - rewrite akey_eqb_refl. reflexivity.
  - destruct (akey_eqb k1 k) eqn:E; cbn [alookup]; rewrite E; [reflexivity|exact IH].
Qed.

Lemma alookup_astore_other k k' v l : k' <> k -> alookup R k' (astore R k v l) = alookup R k' l.
Proof.
  intros Hne. induction l as [|[k1 w] l IH]; cbn [astore alookup].
  - rewrite (akey_eqb_neq k k'); [reflexivity|congruence].
  - destruct (akey_eqb k1 k) eqn:E; cbn [alookup].
    + apply akey_eqb_eq in E. subst k1. rewrite (akey_eqb_neq k k'); [reflexivity|congruence].
    + destruct (akey_eqb k1 k'); [reflexivity|exact IH].
Qed.

Lemma skipn_cons_nth_a : forall q (l : list R) x r,
  skipn q l = x :: r -> nth_error l q = Some x /\ skipn (S q) l = r.
Proof.
  induction q as [|q IH]; intros [|a l] x r H; cbn [skipn nth_error] in *; try discriminate.
  - inversion H; subst. split; reflexivity.
  - apply IH in H. exact H.
Qed.

(* one draw of a repeating linear iterator that stands q records into its file *)
Lemma linear_draw (it : iter R) orc (d : dsref R) q :
  i_ds R it = d -> i_repeat R it = true -> d_mode R d = Linear -> d_data R d <> [] ->
  i_rest R it = skipn q (d_data R d) -> (q <= length (d_data R d))%nat ->
  exists x q',
    field_draw R it orc = Ok (x, mkIter R d true (skipn q' (d_data R d)), orc) /\
    nth_error (d_data R d) (q mod length (d_data R d)) = Some x /\
    (q' <= length (d_data R d))%nat /\
    (q' mod length (d_data R d) = S q mod length (d_data R d))%nat.
Proof.
  destruct it as [ds rp rest]. cbn [i_ds i_repeat i_rest]. intros -> -> Hm Hne -> Hq.
  set (n := length (d_data R d)).
  assert (Hn : n <> 0%nat) by (subst n; destruct (d_data R d); [congruence|cbn [length]; lia]).
  unfold field_draw, iter_next. cbn [i_rest i_repeat i_ds].
  destruct (skipn q (d_data R d)) as [|x r] eqn:E.
  - assert (Hqn : q = n).
    { pose proof (skipn_length q (d_data R d)) as HL. rewrite E in HL. cbn [length] in HL. subst n. lia. }
    unfold start. rewrite Hm. cbn [bind].
    destruct (d_data R d) as [|y r'] eqn:Ed; [congruence|].
    exists y, 1%nat. cbn [skipn]. splits.
    + reflexivity.
    + rewrite Hqn, Nat.mod_same by exact Hn. reflexivity.
    + subst n. cbn [length]. lia.
    + rewrite Hqn. replace (S n) with (1 + 1 * n)%nat by lia. rewrite Nat.mod_add by exact Hn. reflexivity.
  - apply skipn_cons_nth_a in E. destruct E as [Hx Hr].
    assert (Hlt : (q < n)%nat) by (subst n; apply nth_error_Some; rewrite Hx; discriminate).
    exists x, (S q). splits.
    + rewrite Hr. reflexivity.
    + rewrite Nat.mod_small by exact Hlt. exact Hx.
    + lia.
    + reflexivity.
Qed.

Variable dsof : akey -> dsref R.

Definition akey_good (k : akey) : Prop :=
  d_mode R (dsof k) = Linear /\ d_repeat R (dsof k) = true /\ d_data R (dsof k) <> [].

(* the remembered iterator of key k after cnt k draws *)
Definition args_inv (tbl : list (akey * iter R)) (cnt : akey -> nat) : Prop :=
  forall k,
    match alookup R k tbl with
    | None => cnt k = 0%nat
    | Some it =>
      i_ds R it = dsof k /\ i_repeat R it = true /\
      exists q, i_rest R it = skipn q (d_data R (dsof k)) /\ (q <= length (d_data R (dsof k)))%nat /\
                (cnt k mod length (d_data R (dsof k)) = q mod length (d_data R (dsof k)))%nat
    end.

Lemma prior_cons k c l :
  prior R k (c :: l) = ((if akey_eqb (c_key R c) k then 1 else 0) + prior R k l)%nat.
Proof.
  unfold prior. cbn [filter]. destruct (akey_eqb (c_key R c) k); reflexivity.
Qed.

Lemma mod_succ_congr a b n : n <> 0%nat -> (a mod n = b mod n -> S a mod n = S b mod n)%nat.
Proof.
  intros Hn H. replace (S a) with (a + 1)%nat by lia. replace (S b) with (b + 1)%nat by lia.
  rewrite (Nat.add_mod a 1 n), (Nat.add_mod b 1 n) by exact Hn. rewrite H. reflexivity.
Qed.

Lemma args_run_inv : forall calls tbl cnt orc,
  args_inv tbl cnt ->
  (forall c, In c calls -> c_ds R c = dsof (c_key R c) /\ akey_good (c_key R c)) ->
  exists xs, args_run R calls tbl orc = (xs, None) /\ length xs = length calls /\
    forall i c, nth_error calls i = Some c ->
      nth_error xs i = nth_error (d_data R (c_ds R c))
                                 ((cnt (c_key R c) + prior R (c_key R c) (firstn i calls))
                                  mod length (d_data R (c_ds R c))).
Proof.
  induction calls as [|c rest IH]; intros tbl cnt orc Hinv Hall.
  - exists []. splits; [reflexivity|reflexivity|]. intros [|i] c H; discriminate.
  - destruct (Hall c (or_introl eq_refl)) as [Hds [Hm [Hr Hne]]].
    set (k := c_key R c) in *. set (d := dsof k) in *.
    assert (Hn : length (d_data R d) <> 0%nat) by (destruct (d_data R d); [congruence|cbn [length]; lia]).
    (* the iterator the call gets, q records into the file, with cnt k = q (mod n) *)
    assert (Hget : exists it q,
              (match alookup R k tbl with Some it => Ok (it, orc) | None => new_iter R (c_ds R c) orc end)
              = Ok (it, orc) /\
              i_ds R it = d /\ i_repeat R it = true /\ i_rest R it = skipn q (d_data R d) /\
              (q <= length (d_data R d))%nat /\
              (cnt k mod length (d_data R d) = q mod length (d_data R d))%nat).
    { pose proof (Hinv k) as Hk. destruct (alookup R k tbl) as [it|].
      - destruct Hk as [H1 [H2 [q [H3 [H4 H5]]]]]. exists it, q. splits; auto.
      - exists (mkIter R d true (d_data R d)), 0%nat. cbn [i_ds i_repeat i_rest skipn].
        split. { rewrite Hds. unfold new_iter, start. rewrite Hm. cbn [bind]. rewrite Hr. reflexivity. }
        split. { reflexivity. } split. { reflexivity. } split. { reflexivity. } split. { lia. }
        rewrite Hk. reflexivity. }
    destruct Hget as [it [q [Hg [Hi1 [Hi2 [Hi3 [Hq Hc]]]]]]].
    destruct (linear_draw it orc d q Hi1 Hi2 Hm Hne Hi3 Hq) as [x [q' [Hd [Hx [Hq' Hc']]]]].
    set (cnt' := fun k' => if akey_eqb k' k then S (cnt k') else cnt k').
    assert (Hinv' : args_inv (astore R k (mkIter R d true (skipn q' (d_data R d))) tbl) cnt').
    { intros k'. destruct (akey_eqb k' k) eqn:E.
      - apply akey_eqb_eq in E. subst k'. rewrite alookup_astore_same. cbn [i_ds i_repeat i_rest].
        splits; auto. exists q'. splits; auto. unfold cnt'. rewrite akey_eqb_refl.
        fold d. rewrite Hc'. apply mod_succ_congr; [exact Hn|exact Hc].
      - assert (Hne' : k' <> k) by (intros ->; rewrite akey_eqb_refl in E; discriminate).
        rewrite alookup_astore_other by exact Hne'. unfold cnt'. rewrite E. apply Hinv. }
    destruct (IH _ cnt' orc Hinv' (fun c0 H => Hall c0 (or_intror H))) as [xs [Hrun [Hlen Hnth]]].
    exists (x :: xs). splits.
    + cbn [args_run]. fold k. rewrite Hg, Hd, Hrun. reflexivity.
    + cbn [length]. rewrite Hlen. reflexivity.
    + intros [|i] c0 H0; cbn [nth_error firstn] in *.
      * inversion H0; subst c0. fold k. rewrite Hds. fold d. unfold prior. cbn [filter length].
        rewrite Nat.add_0_r, Hc. exact (eq_sym Hx).
      * rewrite (Hnth i c0 H0). rewrite prior_cons. unfold cnt'. fold k.
        destruct (akey_eqb (c_key R c0) k) eqn:E.
        -- apply akey_eqb_eq in E. rewrite E. rewrite akey_eqb_refl. f_equal. f_equal. lia.
        -- assert (E2 : akey_eqb k (c_key R c0) = false).
           { apply akey_eqb_neq. intros H1. rewrite H1, akey_eqb_refl in E. discriminate. }
           rewrite E2. f_equal.
Qed.

End ArgsMemoProofs.

(* Every row of a Dataset.iterate field whose arguments are rendered per row gets the next record
   of the dataset ITS arguments name: the i-th evaluation of a run — whatever call sites and
   argument tuples the evaluations before it had — receives record (j mod n) of its own dataset,
   j = the number of earlier evaluations of the same call site with the same rendered arguments. *)
Theorem args_key_mod_n (R : Type) (dsof : nat -> nat -> dsref R) (calls : list (acall R)) (orc : list Z) :
  (forall c, In c calls ->
     c_ds R c = dsof (c_site R c) (c_args R c) /\
     d_mode R (c_ds R c) = Linear /\ d_repeat R (c_ds R c) = true /\ d_data R (c_ds R c) <> []) ->
  exists xs, args_run R calls [] orc = (xs, None) /\ length xs = length calls /\
    forall i c, nth_error calls i = Some c ->
      nth_error xs i = nth_error (d_data R (c_ds R c))
                                 (prior R (c_key R c) (firstn i calls) mod length (d_data R (c_ds R c))).
Proof.
  intros Hall.
  destruct (args_run_inv R (fun k => dsof (fst k) (snd k)) calls [] (fun _ => 0%nat) orc) as [xs [H1 [H2 H3]]].
  - intros k. cbn [alookup]. reflexivity.
  - intros c Hin. destruct (Hall c Hin) as [Hd [Hm [Hr Hne]]]. unfold c_key, akey_good. cbn [fst snd].
    rewrite <- Hd. auto.
  - exists xs. splits; auto.
Qed.

(* ------------------------------------------------------------------ records: columns by name *)

Lemma name_eqb_spec (a b : name) : name_eqb a b = true <-> a = b.
Proof.
  unfold name_eqb. revert b. induction a as [|x a IH]; intros [|y b]; cbn [list_eqb]; split; intro H;
    try reflexivity; try discriminate.
  - apply andb_true_iff in H. destruct H as [H1 H2]. apply Z.eqb_eq in H1. apply IH in H2. subst. reflexivity.
  - inversion H; subst. apply andb_true_iff. split; [apply Z.eqb_refl|apply IH; reflexivity].
Qed.

Lemma name_eqb_false (a b : name) : name_eqb a b = false <-> a <> b.
Proof.
  split.
  - intros H E. apply name_eqb_spec in E. congruence.
  - intros H. destruct (name_eqb a b) eqn:E; [apply name_eqb_spec in E; contradiction|reflexivity].
Qed.

Section CiRecordP.
Variable V : Type.

Notation keys := (map (@fst name (name * V))).

Lemma cid_set_fresh (d : cidict V) fk k v :
  ~ In fk (keys d) -> cid_set d fk k v = d ++ [(fk, (k, v))].
Proof.
  induction d as [|[fk' kv] r IH]; intros Hn; cbn [cid_set app]; [reflexivity|].
  cbn [map fst In] in Hn.
  destruct (name_eqb fk' fk) eqn:E.
  - apply name_eqb_spec in E. exfalso. apply Hn. left. exact E.
  - rewrite IH; [reflexivity|]. intro H. apply Hn. right. exact H.
Qed.

Lemma cid_set_keys_in (d : cidict V) fk k v x :
  In x (keys (cid_set d fk k v)) -> x = fk \/ In x (keys d).
Proof.
  induction d as [|[fk' kv] r IH]; cbn [cid_set map fst In].
  - intros [H|[]]. left. symmetry. exact H.
  - destruct (name_eqb fk' fk) eqn:E; cbn [map fst In].
    + intros [H|H]; right; [left|right]; assumption.
    + intros [H|H]; [right; left; exact H|]. destruct (IH H) as [H1|H1]; [left|right; right]; assumption.
Qed.

Lemma cid_set_keys_nodup (d : cidict V) fk k v :
  NoDup (keys d) -> NoDup (keys (cid_set d fk k v)).
Proof.
  induction d as [|[fk' kv] r IH]; cbn [cid_set map fst]; intros Hnd.
  - constructor; [intros []|constructor].
  - inversion Hnd as [|? ? Hni Hr]; subst.
    destruct (name_eqb fk' fk) eqn:E; cbn [map fst].
    + constructor; assumption.
    + constructor; [|apply IH; exact Hr].
      intro H. apply cid_set_keys_in in H. destruct H as [H|H]; [|contradiction].
      apply name_eqb_false in E. congruence.
Qed.

Lemma cid_build_keys (l : list (name * (name * V))) (d : cidict V) :
  NoDup (keys d) ->
  NoDup (keys (cid_build d l)) /\ incl (keys (cid_build d l)) (keys d ++ map fst l).
Proof.
  revert d. induction l as [|[fk [k v]] r IH]; intros d Hnd; cbn [cid_build map fst].
  - split; [exact Hnd|]. rewrite app_nil_r. apply incl_refl.
  - destruct (IH (cid_set d fk k v) (cid_set_keys_nodup d fk k v Hnd)) as [H1 H2]. split; [exact H1|].
    intros x Hx. apply H2 in Hx. apply in_app_or in Hx. apply in_or_app. destruct Hx as [Hx|Hx].
    + apply cid_set_keys_in in Hx. destruct Hx as [Hx|Hx]; [right; left; symmetry; exact Hx|left; exact Hx].
    + right. right. exact Hx.
Qed.

Lemma cid_build_fresh (l : list (name * (name * V))) (d : cidict V) :
  NoDup (map fst l) -> (forall x, In x (map fst l) -> ~ In x (keys d)) ->
  cid_build d l = d ++ l.
Proof.
  revert d. induction l as [|[fk [k v]] r IH]; intros d Hnd Hdis; cbn [cid_build].
  - rewrite app_nil_r. reflexivity.
  - cbn [map fst] in Hnd, Hdis. inversion Hnd as [|? ? Hni Hr]; subst.
    rewrite cid_set_fresh by (apply Hdis; left; reflexivity).
    rewrite IH; [rewrite <- app_assoc; reflexivity|exact Hr|].
    intros x Hx Hin. rewrite map_app in Hin. apply in_app_or in Hin. destruct Hin as [Hin|Hin].
    + exact (Hdis x (or_intror Hx) Hin).
    + cbn [map fst In] in Hin. destruct Hin as [Hin|[]]. subst x. contradiction.
Qed.

Variable fold : name -> name.

Lemma with_fold_keys (l : list (name * V)) : map fst (with_fold fold l) = map fold (map fst l).
Proof. unfold with_fold. rewrite !map_map. reflexivity. Qed.

Lemma with_fold_items (l : list (name * V)) : cid_items (with_fold fold l) = l.
Proof. unfold cid_items, with_fold. rewrite map_map. cbn [snd]. apply map_id. Qed.

Lemma with_fold_get (l : list (name * V)) k v k' :
  NoDup (map fold (map fst l)) -> In (k, v) l -> fold k' = fold k ->
  cid_get (with_fold fold l) (fold k') = Some v.
Proof.
  induction l as [|[k0 v0] r IH]; intros Hnd Hin Hf; [destruct Hin|].
  cbn [map fst] in Hnd. inversion Hnd as [|? ? Hni Hr]; subst.
  unfold with_fold. cbn [map fst cid_get]. fold (with_fold fold r).
  destruct (name_eqb (fold k0) (fold k')) eqn:E.
  - apply name_eqb_spec in E. destruct Hin as [Hin|Hin]; [inversion Hin; reflexivity|].
    exfalso. apply Hni. rewrite E, Hf. apply in_map. apply (in_map fst) in Hin. exact Hin.
  - apply name_eqb_false in E. destruct Hin as [Hin|Hin]; [inversion Hin; subst; congruence|].
    apply IH; assumption.
Qed.

(* every column intact: when the column names are pairwise different under the folding, the record
   shows exactly the columns of the row, in order, and looking a column up under any spelling that
   folds like its name gives that column's value *)
Theorem record_columns_intact (l : list (name * V)) :
  NoDup (map fold (map fst l)) ->
  cid_items (record_of fold l) = l /\
  forall k v k', In (k, v) l -> fold k' = fold k -> record_get fold (record_of fold l) k' = Some v.
Proof.
  intros Hnd. unfold record_of, record_get.
  rewrite cid_build_fresh; [|rewrite with_fold_keys; exact Hnd|intros x _ []].
  cbn [app]. split; [apply with_fold_items|]. intros k v k' Hin Hf. apply (with_fold_get l k v k'); assumption.
Qed.

(* ... and only then: two names that fold alike are ONE key, the record has fewer columns than the row *)
Theorem record_twins_lose_a_column (l : list (name * V)) :
  ~ NoDup (map fold (map fst l)) -> (length (cid_items (record_of fold l)) < length l)%nat.
Proof.
  intros Hdup. unfold record_of, cid_items. rewrite map_length.
  destruct (cid_build_keys (with_fold fold l) [] (NoDup_nil _)) as [Hnd Hincl].
  cbn [map app] in Hincl. rewrite with_fold_keys in Hincl.
  pose proof (NoDup_incl_length Hnd Hincl) as Hle. rewrite !map_length in Hle.
  destruct (Nat.lt_ge_cases (length (cid_build [] (with_fold fold l))) (length l)) as [Hlt|Hge]; [exact Hlt|].
  exfalso. apply Hdup. apply (NoDup_incl_NoDup Hnd); [rewrite !map_length; exact Hge|exact Hincl].
Qed.

End CiRecordP.

(* ------------------------------------------------------------------ macros *)
Section MacrosP.
Variable R : Type.

Lemma shift_sites_sids k (l : list (nat * dsref R)) :
  map fst (shift_sites R k l) = map (Nat.add k) (map fst l).
Proof. unfold shift_sites. rewrite !map_map. reflexivity. Qed.

Lemma shift_sids k :
  (forall t : tmpl R, tmpl_sids R (shift_tmpl R k t) = map (Nat.add k) (tmpl_sids R t)) /\
  (forall ts : tmpls R, tmpls_sids R (shift_tmpls R k ts) = map (Nat.add k) (tmpls_sids R ts)).
Proof.
  apply (tmpl_mutind R).
  - intros tid lp sites pass nested IHn friends IHf.
    change (tmpl_sids R (shift_tmpl R k (Tmpl tid lp sites pass nested friends)))
      with (map fst (shift_sites R k sites) ++ tmpls_sids R (shift_tmpls R k nested) ++ tmpls_sids R (shift_tmpls R k friends)).
    change (tmpl_sids R (Tmpl tid lp sites pass nested friends))
      with (map fst sites ++ tmpls_sids R nested ++ tmpls_sids R friends).
    rewrite shift_sites_sids, IHn, IHf, !map_app. reflexivity.
  - reflexivity.
  - intros t IHt r IHr.
    change (tmpls_sids R (shift_tmpls R k (TCons t r)))
      with (tmpl_sids R (shift_tmpl R k t) ++ tmpls_sids R (shift_tmpls R k r)).
    change (tmpls_sids R (TCons t r)) with (tmpl_sids R t ++ tmpls_sids R r).
    rewrite IHt, IHr, map_app. reflexivity.
Qed.

Lemma tapp_sids (a b : tmpls R) : tmpls_sids R (tapp R a b) = tmpls_sids R a ++ tmpls_sids R b.
Proof.
  revert a. fix IH 1. intros [|t r].
  - reflexivity.
  - change (tmpls_sids R (tapp R (TCons t r) b)) with (tmpl_sids R t ++ tmpls_sids R (tapp R r b)).
    change (tmpls_sids R (TCons t r)) with (tmpl_sids R t ++ tmpls_sids R r).
    rewrite IH, app_assoc. reflexivity.
Qed.

(* the call sites of a template that includes a macro: the macro's, renumbered for this inclusion, and its own *)
Lemma include_macro_sids k (m : macro R) (t : tmpl R) s :
  In s (tmpl_sids R (include_macro R k m t)) <->
  In s (map (Nat.add k) (macro_sids R m)) \/ In s (tmpl_sids R t).
Proof.
  destruct t as [tid lp sites pass nested friends]. unfold macro_sids.
  change (tmpl_sids R (include_macro R k m (Tmpl tid lp sites pass nested friends)))
    with (map fst (shift_sites R k (m_sites R m) ++ sites) ++
          tmpls_sids R (tapp R (shift_tmpls R k (m_nested R m)) nested) ++
          tmpls_sids R (tapp R (shift_tmpls R k (m_friends R m)) friends)).
  change (tmpl_sids R (Tmpl tid lp sites pass nested friends))
    with (map fst sites ++ tmpls_sids R nested ++ tmpls_sids R friends).
  rewrite !map_app, !tapp_sids, shift_sites_sids.
  rewrite (proj2 (shift_sids k) (m_nested R m)), (proj2 (shift_sids k) (m_friends R m)).
  rewrite ?map_app. repeat rewrite in_app_iff. tauto.
Qed.

(* every inclusion has call sites of its own: with local numbers below B, the inclusions numbered
   from i*B and from j*B (i <> j) have no call site in common *)
Theorem inclusions_own_call_sites (m : macro R) (B i j : nat) :
  (forall s, In s (macro_sids R m) -> (s < B)%nat) -> i <> j ->
  forall s, In s (map (Nat.add (i * B)) (macro_sids R m)) ->
            ~ In s (map (Nat.add (j * B)) (macro_sids R m)).
Proof.
  intros Hb Hij s Hi Hj. apply in_map_iff in Hi. destruct Hi as [a [Ha Hina]].
  apply in_map_iff in Hj. destruct Hj as [b [Hb' Hinb]].
  apply Hb in Hina. apply Hb in Hinb. subst s.
  assert (i = j); [|contradiction]. nia.
Qed.

(* ... so the unnamed Dataset calls of two inclusions never share a state key, named ones do *)
Theorem inclusions_keys (d : dsref R) (a b : nat) :
  a <> b -> (key_of R a d = key_of R b d <-> d_name R d <> None).
Proof.
  intros Hab. unfold key_of. destruct (d_name R d) as [nm|]; split; intro H; try reflexivity; try discriminate.
  - inversion H. contradiction.
  - exfalso. apply H. reflexivity.
Qed.
End MacrosP.
