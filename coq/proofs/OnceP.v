(* OnceP.v — property C06 at the level of the SF-core interpreter: just_once templates run
   only when `continuing` is false; every later iteration and every continued run leaves
   the persistent name maps untouched, and the rows they denote keep table and id.        *)
From Coq Require Import ZArith List Lia Bool Permutation ZifyBool.
From SFV Require Import Base Interp.
From SFV.P Require Import BaseP InterpP InterpHeapP IdsP RefsP.
Import ListNotations. Open Scope Z_scope.

(* ------------------------------------------------------------------ syntactic side condition:
   just_once occurs only on top-level templates (the parser rejects it elsewhere)          *)

Fixpoint fdef_nf (d : fdef) : bool :=
  match d with
  | FNested t => tpl_nf t
  | _ => true
  end
with tpl_nf (t : template) : bool :=          (* no just_once anywhere inside, itself included *)
  match t with
  | Tpl _ _ cnt once fields friends =>
    negb once &&
    (match cnt with Some d => fdef_nf d | None => true end) &&
    (fix go (l : list (string * fdef)) : bool :=
       match l with [] => true | (_, d) :: r => fdef_nf d && go r end) fields &&
    (fix gs (l : list stmt) : bool :=
       match l with [] => true | x :: r => stmt_nf x && gs r end) friends
  end
with stmt_nf (x : stmt) : bool :=
  match x with
  | SObj t => tpl_nf t
  | SVar _ d => fdef_nf d
  end.

Definition fields_nf (l : list (string * fdef)) : bool := forallb (fun nd => fdef_nf (snd nd)) l.
Definition stmts_nf (l : list stmt) : bool := forallb stmt_nf l.

(* the body of a template: everything but its own just_once flag *)
Definition tpl_body_nf (t : template) : bool :=
  (match t_count t with Some d => fdef_nf d | None => true end) &&
  fields_nf (t_fields t) && stmts_nf (t_friends t).

Lemma tpl_nf_unfold t : tpl_nf t = negb (t_once t) && tpl_body_nf t.
Proof.
  destruct t as [tb nk cnt once fields friends]. unfold tpl_body_nf, fields_nf, stmts_nf.
  cbn [tpl_nf t_once t_count t_fields t_friends].
  assert (Hf : (fix go (l : list (string * fdef)) : bool :=
                  match l with [] => true | (_, d) :: r => fdef_nf d && go r end) fields
               = forallb (fun nd => fdef_nf (snd nd)) fields).
  { induction fields as [|[n d] r IH]; cbn [forallb snd]; [reflexivity|]. rewrite IH. reflexivity. }
  assert (Hs : (fix gs (l : list stmt) : bool :=
                  match l with [] => true | x :: r => stmt_nf x && gs r end) friends
               = forallb stmt_nf friends).
  { induction friends as [|x r IH]; cbn [forallb]; [reflexivity|]. rewrite IH. reflexivity. }
  rewrite Hf, Hs. rewrite !andb_assoc. reflexivity.
Qed.

(* top-level statements: a template may be just_once, its body may not contain one *)
Definition top_stmt_ok (x : stmt) : bool :=
  match x with SObj t => tpl_body_nf t | SVar _ d => fdef_nf d end.
Definition once_top_only (l : list stmt) : bool := forallb top_stmt_ok l.

(* tasks that cannot create a just_once row *)
Definition task_nf (tk : task) : bool :=
  match tk with
  | TStmts l c => if c then forallb top_stmt_ok l else stmts_nf l
  | TStmt x c => if c then top_stmt_ok x else stmt_nf x
  | TRows t => tpl_nf t
  | TLoop t _ _ _ => tpl_nf t
  | TRow t _ => tpl_nf t
  | TFields _ fs => fields_nf fs
  | TField d => fdef_nf d
  end.

(* ------------------------------------------------------------------ the persistent maps *)

Definition same_persist (s s' : st) : Prop := p_nicks s' = p_nicks s /\ p_tables s' = p_tables s.

Lemma sp_refl s : same_persist s s.
Proof. split; reflexivity. Qed.
Lemma sp_trans a b c : same_persist a b -> same_persist b c -> same_persist a c.
Proof. intros [x y] [z w]. split; congruence. Qed.

Lemma touch_slot_sp s n s' i : touch_slot s n = Ok (s', i) -> same_persist s s'.
Proof.
  unfold touch_slot. destruct (lookup n (slots s)) as [sl|]; [|discriminate].
  destruct (s_alloc sl); intros H; injection H as <- _; split; reflexivity.
Qed.

Lemma eval_expr_sp e x : forall s s' v, eval_expr e x s = Ok (s', v) -> same_persist s s'.
Proof.
  induction x as [z|n|a IHa f|a IHa b IHb|a IHa b IHb|a IHa b IHb]; intros s s' v H; cbn [eval_expr] in H.
  - injection H as <- _. apply sp_refl.
  - dbind H as o. destruct o; injection H as <- _; apply sp_refl.
  - dbind H as [s1 v1]. apply IHa in E.
    destruct v1; try discriminate;
      try (destruct (py_own_attr f); [discriminate|]);
      try (injection H as <- _; exact E);
      try (dbind H as w0; injection H as <- _; exact E).
    + destruct (nth_error (heap s1) h); [|discriminate].
      destruct (row_attr c f); injection H as <- _; exact E.
    + destruct (String.eqb f "id"); [|discriminate]. dbind H as [s2 i].
      injection H as <- _. apply touch_slot_sp in E0. eapply sp_trans; eassumption.
  - dbind H as [s1 v1]. dbind H as [s2 v2]. apply IHa in E. apply IHb in E0.
    destruct v1, v2; try discriminate; injection H as <- _; eapply sp_trans; eassumption.
  - dbind H as [s1 v1]. dbind H as [s2 v2]. apply IHa in E. apply IHb in E0.
    destruct v1, v2; try discriminate; injection H as <- _; eapply sp_trans; eassumption.
  - dbind H as [s1 v1]. dbind H as [s2 v2]. apply IHa in E. apply IHb in E0.
    destruct v1, v2; try discriminate; injection H as <- _; eapply sp_trans; eassumption.
Qed.

Lemma render_pieces_sp e ps : forall s s' t, render_pieces e ps s = Ok (s', t) -> same_persist s s'.
Proof.
  induction ps as [|p ps IH]; intros s s' t H; cbn [render_pieces] in H.
  - injection H as <- _. apply sp_refl.
  - destruct p as [tx|x].
    + dbind H as [s1 rest]. injection H as <- _. eauto.
    + dbind H as [s1 v]. dbind H as w0. dbind H as [s2 rest].
      injection H as <- _. apply eval_expr_sp in E. apply IH in E1. eapply sp_trans; eassumption.
Qed.

Lemma render_formula_sp e ps s s' v : render_formula e ps s = Ok (s', v) -> same_persist s s'.
Proof.
  unfold render_formula. intros H.
  destruct (version e =? 3).
  - destruct ps as [|[tx|x] [|p2 r]];
      try (dbind H as [s1 t]; dbind H as w0; injection H as <- _;
           apply render_pieces_sp in E; exact E).
    dbind H as [s1 w]. apply eval_expr_sp in E.
    destruct w; try discriminate; try (injection H as <- _; exact E).
    dbind H as w0. injection H as <- _. exact E.
  - dbind H as [s1 t]. dbind H as w0. injection H as <- _.
    apply render_pieces_sp in E. exact E.
Qed.

Lemma follow_path_sp parts : forall s v s' w, follow_path s v parts = Ok (s', w) -> same_persist s s'.
Proof.
  induction parts as [|p r IH]; intros s v s' w H; cbn [follow_path] in H.
  - injection H as <- _. apply sp_refl.
  - dbind H as [s1 w1]. apply IH in H. eapply sp_trans; [|exact H].
    unfold getattr_path in E. destruct v; try discriminate.
    + destruct (nth_error (heap s) h); [|discriminate].
      destruct (row_attr c p); [|discriminate]. injection E as <- _. apply sp_refl.
    + destruct (String.eqb p "id"); [|discriminate]. dbind E as [s2 i].
      injection E as <- _. apply touch_slot_sp in E0. exact E0.
    + dbind E as w0. injection E as <- _. apply sp_refl.
Qed.

Lemma reference_sp e path s s' v : reference e path s = Ok (s', v) -> same_persist s s'.
Proof.
  unfold reference. intros H.
  destruct (split_dot path) as [|first parts]; [discriminate|].
  dbind H as o. destruct o as [v0|]; [|destruct parts; discriminate].
  dbind H as [s1 target]. apply follow_path_sp in E0.
  destruct target; try discriminate.
  - injection H as <- _. exact E0.
  - dbind H as [s2 i]. injection H as <- _.
    apply touch_slot_sp in E1. eapply sp_trans; eassumption.
  - injection H as <- _. exact E0.
Qed.

Lemma rnd_only_sp s s' : rnd_only s s' -> same_persist s s'.
Proof. intros [x ->]. split; reflexivity. Qed.

Lemma flatten_fields_sp fs : forall s s' l, flatten_fields s fs = Ok (s', l) -> same_persist s s'.
Proof.
  induction fs as [|[n v] r IH]; intros s s' l H; cbn [flatten_fields] in H.
  - injection H as <- _. apply sp_refl.
  - destruct (hidden n); [eauto|].
    dbind H as [s1 o]. dbind H as [s2 rest]. injection H as <- _.
    apply IH in E0. eapply sp_trans; [|exact E0].
    destruct v; try discriminate; try (injection E as <- _; apply sp_refl).
    + destruct (nth_error (heap s) h); [|discriminate]. injection E as <- _. apply sp_refl.
    + destruct (lookup name (slots s)); [|discriminate]. dbind E as [s3 i].
      injection E as <- _. apply touch_slot_sp in E1. exact E1.
Qed.

Lemma write_row_sp s h s' : write_row s h = Ok s' -> same_persist s s'.
Proof.
  unfold write_row. destruct (nth_error (heap s) h); [|discriminate].
  destruct (hidden (c_table c)); [intros H; injection H as <-; apply sp_refl|].
  intros H. dbind H as [s1 fs]. injection H as <-. apply flatten_fields_sp in E. exact E.
Qed.

Lemma set_var_sp s n v : same_persist s (set_var s n v).
Proof. unfold set_var. destruct (frames s); split; reflexivity. Qed.
Lemma set_obj_sp s h : same_persist s (set_obj s h).
Proof. unfold set_obj. destruct (frames s); split; reflexivity. Qed.
Lemma pop_frame_sp s : same_persist s (pop_frame s).
Proof. unfold pop_frame. destruct (frames s); split; reflexivity. Qed.
Lemma set_field_sp s h n v : same_persist s (set_field s h n v).
Proof. unfold set_field. destruct (nth_error (heap s) h); split; reflexivity. Qed.
Lemma remember_deps_sp fs : forall s t, same_persist s (remember_deps s t fs).
Proof.
  unfold remember_deps. induction fs as [|[n v] r IH]; intros s t; cbn [fold_left]; [apply sp_refl|].
  destruct (target_table s v); [|apply IH]. destruct (existsb _ _); [apply IH|].
  eapply sp_trans; [|apply IH]. split; reflexivity.
Qed.
Lemma new_row_id_sp s t nick : same_persist s (fst (new_row_id s t nick)).
Proof.
  unfold new_row_id, consume_for, generate_id.
  destruct nick as [n|].
  - destruct (lookup n (slots s)) as [sl|]; [destruct (s_alloc sl); [destruct (_ && _)|]|];
      try (split; reflexivity);
      destruct (lookup t (slots s)) as [sl2|]; try (split; reflexivity);
      destruct (s_alloc sl2); try (split; reflexivity); destruct (_ && _); split; reflexivity.
  - destruct (lookup t (slots s)) as [sl2|]; try (split; reflexivity);
      destruct (s_alloc sl2); try (split; reflexivity); destruct (_ && _); split; reflexivity.
Qed.
Lemma register_object_sp s h t nick : same_persist s (register_object s h t nick false).
Proof. unfold register_object. destruct nick; split; reflexivity. Qed.

Lemma forallb_cons {A} (p : A -> bool) x l : forallb p (x :: l) = p x && forallb p l.
Proof. reflexivity. Qed.

Lemma stmt_nf_top x : stmt_nf x = true -> top_stmt_ok x = true.
Proof.
  destruct x as [t|n d]; cbn [stmt_nf top_stmt_ok]; [|auto].
  rewrite tpl_nf_unfold. intros H. apply andb_true_iff in H. tauto.
Qed.

Lemma stmts_nf_top l : stmts_nf l = true -> forallb top_stmt_ok l = true.
Proof.
  unfold stmts_nf. induction l as [|x r IH]; cbn [forallb]; [auto|].
  intros H. apply andb_true_iff in H. destruct H as [H1 H2].
  rewrite (stmt_nf_top _ H1), (IH H2). reflexivity.
Qed.

Strategy 1000 [iteration run].

(* no task free of just_once templates touches the persistent maps *)
Theorem run_persist fuel : forall e tk s s' r,
  run fuel e tk s = Ok (s', r) -> task_nf tk = true -> same_persist s s'.
Proof.
  induction fuel as [|n IH]; intros e tk s s' r H Hnf; [discriminate|].
  cbn [run] in H. destruct tk as [l c|x c|t|t i cnt last|t i|h fs|d]; cbn [task_nf] in Hnf.
  - destruct l as [|x l]; [injection H as <- _; apply sp_refl|].
    dbind H as [s1 r1].
    assert (H1 : task_nf (TStmt x c) = true /\ task_nf (TStmts l c) = true).
    { cbn [task_nf]. unfold stmts_nf in *. destruct c; rewrite forallb_cons in Hnf; apply andb_true_iff in Hnf; exact Hnf. }
    destruct H1 as [H1 H2]. apply IH in E; [|exact H1]. apply IH in H; [|exact H2].
    eapply sp_trans; eassumption.
  - destruct x as [t|name d].
    + destruct (t_once t && c) eqn:Eo; [injection H as <- _; apply sp_refl|].
      dbind H as [s1 r1]. injection H as <- _. apply IH in E; [exact E|].
      cbn [task_nf]. rewrite tpl_nf_unfold. destruct c; cbn [top_stmt_ok stmt_nf] in Hnf.
      * rewrite andb_true_r in Eo. rewrite Eo. exact Hnf.
      * rewrite tpl_nf_unfold in Hnf. exact Hnf.
    + assert (Hd : fdef_nf d = true) by (destruct c; exact Hnf).
      destruct d; try discriminate;
        (dbind H as [s1 r1]; injection H as <- _; apply IH in E; [|exact Hd];
         destruct E as [a b]; (eapply sp_trans; [split; [exact a|exact b]|]);
         eapply sp_trans; [apply pop_frame_sp|apply set_var_sp]).
  - rewrite tpl_nf_unfold in Hnf. apply andb_true_iff in Hnf. destruct Hnf as [Ho Hb].
    unfold tpl_body_nf in Hb. apply andb_true_iff in Hb. destruct Hb as [Hb Hfr].
    apply andb_true_iff in Hb. destruct Hb as [Hcnt Hfs].
    dbind H as [s1 cnt]. dbind H as [s2 r2]. injection H as <- _.
    assert (H1 : same_persist s s1).
    { destruct (t_count t) as [d|].
      - dbind E as [s1' r1]. dbind E as w0. injection E as <- _. apply IH in E1; [|exact Hcnt].
        destruct E1 as [a b]. split; [exact a|exact b].
      - injection E as <- _. split; reflexivity. }
    apply IH in E0.
    + eapply sp_trans; [exact H1|]. eapply sp_trans; [exact E0|apply pop_frame_sp].
    + cbn [task_nf]. rewrite tpl_nf_unfold. unfold tpl_body_nf. rewrite Ho, Hcnt, Hfs, Hfr. reflexivity.
  - destruct (i <? cnt); [|injection H as <- _; apply sp_refl].
    dbind H as [s1 r1]. apply IH in E; [|exact Hnf].
    destruct r1; try discriminate. apply IH in H; [|exact Hnf].
    eapply sp_trans; [apply set_var_sp|]. eapply sp_trans; eassumption.
  - pose proof Hnf as Hnf0.
    rewrite tpl_nf_unfold in Hnf. apply andb_true_iff in Hnf. destruct Hnf as [Ho Hb].
    unfold tpl_body_nf in Hb. apply andb_true_iff in Hb. destruct Hb as [Hb Hfr].
    apply andb_true_iff in Hb. destruct Hb as [Hcnt Hfs].
    assert (Honce : t_once t = false) by (destruct (t_once t); [discriminate|reflexivity]).
    destruct (new_row_id s (t_table t) (t_nick t)) as [s1 id] eqn:Hid.
    dbind H as [s4 r4].
    destruct (nth_error (heap s4) (length (heap s1))) as [c|]; [|discriminate].
    dbind H as s5h. dbind H as s6. dbind H as [s7 r7]. injection H as <- _.
    apply IH in E; [|exact Hfs]. apply IH in E2; [|cbn [task_nf]; apply stmts_nf_top; exact Hfr].
    apply write_row_sp in E1. apply remember_history_rnd in E0. apply rnd_only_sp in E0.
    pose proof (new_row_id_sp s (t_table t) (t_nick t)) as H0. rewrite Hid in H0. cbn [fst] in H0.
    eapply sp_trans; [exact H0|].
    eapply sp_trans; [|exact E2]. eapply sp_trans; [|exact E1]. eapply sp_trans; [|exact E0].
    eapply sp_trans; [|apply remember_deps_sp]. eapply sp_trans; [|exact E].
    rewrite Honce. eapply sp_trans; [|apply register_object_sp].
    eapply sp_trans; [|apply set_obj_sp]. split; reflexivity.
  - destruct fs as [|[name d] fs]; [injection H as <- _; apply sp_refl|].
    destruct (String.eqb name "id"); [discriminate|].
    unfold fields_nf in Hnf. rewrite forallb_cons in Hnf. apply andb_true_iff in Hnf. destruct Hnf as [H1 H2].
    dbind H as [s1 v]. apply IH in E; [|exact H1]. apply IH in H; [|exact H2].
    eapply sp_trans; [exact E|]. eapply sp_trans; [apply set_field_sp|exact H].
  - destruct d as [z|x|ps|path|t|to].
    + injection H as <- _. apply sp_refl.
    + destruct (version e =? 3); [injection H as <- _; apply sp_refl|].
      dbind H as w0. injection H as <- _. apply sp_refl.
    + dbind H as [s1 v]. injection H as <- _. apply render_formula_sp in E. exact E.
    + dbind H as [s1 v]. injection H as <- _. apply reference_sp in E. exact E.
    + apply IH in H; [exact H|exact Hnf].
    + dbind H as [s1 v]. injection H as <- _. apply rnd_only_sp. eapply random_reference_rnd. exact E.
Qed.

(* ------------------------------------------------------------------ C06 statements *)

(* a just_once statement is skipped whenever `continuing` holds *)
Theorem just_once_skipped fuel e t s :
  t_once t = true -> run (S fuel) e (TStmt (SObj t) true) s = Ok (s, RUnit).
Proof. intros H. cbn [run]. rewrite H. reflexivity. Qed.

(* every iteration after the first, and every iteration of a continued run, leaves the
   just_once rows' name bindings untouched; the rows keep their table and id *)
Theorem later_iterations_keep_singletons e stmts s s' :
  once_top_only stmts = true -> iteration e stmts true s = Ok s' ->
  same_persist s s' /\ heap_ext s s'.
Proof.
  unfold iteration. intros Hok H. dbind H as [s1 r].
  destruct (slots_filled s1); [|discriminate].
  destruct (stale_slot 4 s1 (survivors s1)); [discriminate|]. injection H as <-.
  split.
  - apply run_persist in E; [|exact Hok]. destruct E as [a b]. split; [exact a|exact b].
  - apply run_heap_ext in E. intros h c Hc. destruct (E h c Hc) as (c' & Hc' & Hk). exists c'. auto.
Qed.

Theorem later_iterations_keep_singletons_k k : forall e stmts s s',
  once_top_only stmts = true -> iterations k e stmts true s = Ok s' ->
  same_persist s s' /\ heap_ext s s'.
Proof.
  induction k as [|k IH]; intros e stmts s s' Hok H; cbn [iterations] in H.
  - injection H as <-. split; [apply sp_refl|apply heap_ext_refl].
  - dbind H as s1. destruct (later_iterations_keep_singletons _ _ _ _ Hok E) as [P1 X1].
    destruct (IH _ _ _ _ Hok H) as [P2 X2]. split; [eapply sp_trans|eapply heap_ext_trans]; eassumption.
Qed.

(* a name bound to a just_once row denotes, at any later point of the run, a row with the
   same table and id *)
Theorem singleton_denotation_stable k e stmts s s' n h c :
  once_top_only stmts = true -> iterations k e stmts true s = Ok s' ->
  (lookup n (p_nicks s) = Some h \/ lookup n (p_tables s) = Some h) ->
  nth_error (heap s) h = Some c ->
  (lookup n (p_nicks s') = Some h \/ lookup n (p_tables s') = Some h) /\
  exists c', nth_error (heap s') h = Some c' /\ c_table c' = c_table c /\ c_id c' = c_id c.
Proof.
  intros Hok H Hl Hc. destruct (later_iterations_keep_singletons_k _ _ _ _ _ Hok H) as [[P1 P2] X].
  split; [rewrite P1, P2; exact Hl|].
  destruct (X h c Hc) as (c' & Hc' & k1 & k2 & _). exists c'. auto.
Qed.

(* across a continuation: the persistent names keep their handles, and every row keeps its
   table, id and child index *)
Lemma clean_handles_ext hs : forall h h1, clean_handles h hs = Ok h1 ->
  forall x c, nth_error h x = Some c ->
    exists c', nth_error h1 x = Some c' /\ c_table c' = c_table c /\ c_id c' = c_id c /\ c_index c' = c_index c.
Proof.
  induction hs as [|y r IH]; intros h h1 H x c Hx; cbn [clean_handles] in H.
  - injection H as <-. exists c. auto.
  - destruct (nth_error h y) as [cy|] eqn:Hy; [|discriminate]. dbind H as fs.
    assert (Hx' : exists c1, nth_error (set_nth y (mkCell (c_table cy) (c_id cy) (c_index cy) fs) h) x = Some c1 /\
                             c_table c1 = c_table c /\ c_id c1 = c_id c /\ c_index c1 = c_index c).
    { rewrite nth_error_set_nth. destruct (Nat.eqb y x) eqn:Exy.
      - apply Nat.eqb_eq in Exy. subst y. rewrite Hx. rewrite Hy in Hx. injection Hx as <-.
        eexists. split; [reflexivity|]. cbn. auto.
      - exists c. auto. }
    destruct Hx' as (c1 & Hc1 & k1 & k2 & k3).
    destruct (IH _ _ H x c1 Hc1) as (c' & Hc' & j1 & j2 & j3). exists c'. splits; congruence.
Qed.

Theorem singletons_survive_continuation e s c s0 :
  save s = Ok c -> load e c = Ok s0 ->
  p_nicks s0 = p_nicks s /\ p_tables s0 = p_tables s /\
  forall h cl, nth_error (heap s) h = Some cl ->
    exists c', nth_error (heap s0) h = Some c' /\
               c_table c' = c_table cl /\ c_id c' = c_id cl /\ c_index c' = c_index cl.
Proof.
  unfold save. intros H Hl. dbind H as h1. injection H as <-.
  destruct (load_spec _ _ _ Hl) as [hh ->].
  cbn [p_nicks p_tables heap k_p_nicks k_p_tables k_heap]. splits; try reflexivity.
  intros h cl Hc. eapply clean_handles_ext; eassumption.
Qed.

(* ------------------------------------------------------------------ which row a name denotes between iterations *)

(* Globals.object_names, "later overrides earlier": once the per-iteration names are gone (a new
   iteration, a continued run), a name that is both the table of a just_once row and the nickname of
   another denotes the row of the TABLE, as it did in the iteration that created them. *)
Lemma persistent_table_entry_wins s n h :
  lookup n (last_by_table s) = None -> lookup n (nick_objs s) = None ->
  lookup n (p_tables s) = Some h -> object_name s n = Some (VRow h).
Proof. intros H1 H2 H3. unfold object_name. rewrite H1, H2, H3. reflexivity. Qed.

Lemma persistent_nickname_entry_last s n h :
  lookup n (last_by_table s) = None -> lookup n (nick_objs s) = None -> lookup n (p_tables s) = None ->
  lookup n (p_nicks s) = Some h -> object_name s n = Some (VRow h).
Proof. intros H1 H2 H3 H4. unfold object_name. rewrite H1, H2, H3, H4. reflexivity. Qed.
