(* HiddenRowsP.v — property C09, "a hidden table is computed exactly like a visible one": the rows of
   EVERY table, hidden ones included, are created with dense ids; only writing differs.       *)
From Coq Require Import ZArith List Lia Bool Permutation.
From SFV Require Import Base Interp.
From SFV.P Require Import BaseP InterpP InterpHeapP IdsP.
Import ListNotations. Open Scope Z_scope.

Strategy 1000 [iteration run].

(* One run (fresh or continued) of k iterations: for every table T - hidden or not - the cells of
   table T created by this run carry exactly the ids last0+1 .. last, each once. *)
Theorem cells_dense_run e stmts c k s0 s :
  start_ok s0 -> iterations k e stmts c s0 = Ok s ->
  forall T, Permutation (cell_ids T (skipn (length (heap s0)) (heap s)))
                        (Zseq (last_id s0 T + 1) (Z.to_nat (last_id s T - last_id s0 T))).
Proof.
  intros Hs0 H T. pose proof Hs0 as (_ & _ & Hnn0 & _).
  destruct (iterations_K (miss_of s0) (length (heap s0)) k _ _ _ _ _ H (start_K _ Hs0))
    as ([_ HK] & _ & HR).
  { destruct Hs0 as (_ & Hr & _). exact Hr. }
  destruct (HK T) as [HP Hnn]. rewrite HR in HP. cbn [app] in HP.
  assert (Hle : last_id s0 T <= last_id s T).
  { apply Permutation_length in HP. rewrite app_length, !Zseq_length in HP.
    specialize (Hnn0 T). unfold miss_of in HP. rewrite Zseq_length in HP. lia. }
  assert (Hsplit : Zseq 1 (Z.to_nat (last_id s T)) =
                   miss_of s0 T ++ Zseq (last_id s0 T + 1) (Z.to_nat (last_id s T - last_id s0 T))).
  { unfold miss_of. specialize (Hnn0 T).
    replace (Z.to_nat (last_id s T)) with (Z.to_nat (last_id s0 T) + Z.to_nat (last_id s T - last_id s0 T))%nat by lia.
    rewrite Zseq_app. do 2 f_equal. lia. }
  rewrite Hsplit in HP. apply Permutation_app_inv_l in HP. exact HP.
Qed.

(* ... so a hidden table takes part in the id arithmetic exactly like a visible one: as many
   rows of it are created as its counter advances, none of them is written. *)
Corollary hidden_rows_created_not_written e stmts c k s0 s T :
  start_ok s0 -> iterations k e stmts c s0 = Ok s -> hidden T = true ->
  Z.of_nat (length (cell_ids T (skipn (length (heap s0)) (heap s)))) = last_id s T - last_id s0 T /\
  forall row, In row (out s) -> fst row <> T.
Proof.
  intros Hs0 H HT. split.
  - pose proof (cells_dense_run _ _ _ _ _ _ Hs0 H T) as HP. apply Permutation_length in HP.
    rewrite Zseq_length in HP. rewrite HP.
    assert (last_id s0 T <= last_id s T).
    { destruct (ids_dense_run _ _ _ _ _ _ Hs0 H) as [_ HD]. destruct (HD T) as [Hle _]. exact Hle. }
    lia.
  - intros row Hr Heq. destruct Hs0 as (_ & _ & _ & Ho).
    destruct (iterations_extends _ _ _ _ _ _ H) as (new & Hnew & Hclean).
    rewrite Ho, app_nil_r in Hnew. rewrite Hnew in Hr.
    rewrite Forall_forall in Hclean. destruct (Hclean row Hr) as [Hvis _]. rewrite Heq, HT in Hvis. discriminate.
Qed.

(* ------------------------------------------------------------------ fields read through random_reference *)

(* The copy of a row that the row history hands back has, under EVERY field name - hidden or not -
   the value the live row has: reading `f` through a random_reference to the row gives what reading
   it through the row itself gives (forward-reference slots aside, which the history flattens). *)
Lemma hist_attr_live h cells c f w :
  find_cell (c_table c) (c_id c) cells = Some c ->
  in_history h (c_table c) (c_id c) = true ->
  py_own_attr f || String.eqb f "sql_tablename" || String.eqb f "_data" = false ->
  row_attr c f = Some w -> (forall n, w <> VSlot n) ->
  hist_attr h cells (c_table c) (c_id c) f = Ok w.
Proof.
  intros Hc Hh Hown Hw Hns. unfold hist_attr, row_attr in *.
  destruct (String.eqb f "id"); [injection Hw as <-; reflexivity|].
  rewrite Hown, Hh, Hc, Hw. cbn [negb]. destruct w; try reflexivity. exfalso. eapply Hns. reflexivity.
Qed.

(* and a name the row does not have is an error whatever it looks like, never a silent `undefined` *)
Lemma hist_attr_missing h cells c f :
  find_cell (c_table c) (c_id c) cells = Some c ->
  in_history h (c_table c) (c_id c) = true ->
  py_own_attr f || String.eqb f "sql_tablename" || String.eqb f "_data" = false ->
  row_attr c f = None ->
  hist_attr h cells (c_table c) (c_id c) f = Err (DGE "history-attr").
Proof.
  intros Hc Hh Hown Hw. unfold hist_attr, row_attr in *.
  destruct (String.eqb f "id"); [discriminate|].
  rewrite Hown, Hh, Hc, Hw. reflexivity.
Qed.

(* ------------------------------------------------------------------ the lookup finds THE row *)

Lemma find_cell_unique l : forall c,
  NoDup (cell_ids (c_table c) l) -> In c l -> find_cell (c_table c) (c_id c) l = Some c.
Proof.
  induction l as [|c0 l IH]; intros c Hnd Hin; [destruct Hin|].
  cbn [find_cell]. unfold cell_ids in Hnd. cbn [filter] in Hnd.
  destruct (String.eqb (c_table c0) (c_table c)) eqn:Et.
  - cbn [map] in Hnd. inversion Hnd as [|x xs Hnot Hnd']; subst.
    destruct (c_id c0 =? c_id c) eqn:Ei; cbn [andb].
    + destruct Hin as [->|Hin]; [reflexivity|]. exfalso. apply Hnot.
      apply Z.eqb_eq in Ei. rewrite Ei. apply in_map. apply filter_In. split; [exact Hin|apply String.eqb_refl].
    + destruct Hin as [->|Hin]; [rewrite Z.eqb_refl in Ei; discriminate|]. apply IH; assumption.
  - cbn [andb]. destruct Hin as [->|Hin]; [rewrite String.eqb_refl in Et; discriminate|]. apply IH; assumption.
Qed.

(* In a fresh run every row of the heap is what a history lookup by its (table, id) finds: ids are
   per table and never handed out twice (C01), so "the row with that table and id" is that row. *)
Theorem fresh_run_lookup_finds_the_row r k s c :
  run_fresh r k = Ok s -> In c (heap s) -> find_cell (c_table c) (c_id c) (heap s) = Some c.
Proof.
  unfold run_fresh. intros H Hin. apply find_cell_unique; [|exact Hin].
  pose proof (cells_dense_run _ _ _ _ _ _ (init_start_ok _ _) H (c_table c)) as HP.
  cbn [init_st heap length skipn] in HP.
  eapply Permutation_NoDup; [apply Permutation_sym; exact HP|apply Zseq_NoDup].
Qed.

(* hence, in a fresh run, a field of a row read through a random_reference is the row's field *)
Corollary fresh_run_field_through_history r k s c f w :
  run_fresh r k = Ok s -> In c (heap s) ->
  in_history (hist (rnd s)) (c_table c) (c_id c) = true ->
  py_own_attr f || String.eqb f "sql_tablename" || String.eqb f "_data" = false ->
  row_attr c f = Some w -> (forall n, w <> VSlot n) ->
  hist_attr (hist (rnd s)) (heap s) (c_table c) (c_id c) f = Ok w.
Proof.
  intros H Hin Hh Hown Hw Hns. apply hist_attr_live; try assumption.
  eapply fresh_run_lookup_finds_the_row; eassumption.
Qed.
