(* RandFuncsP.v — proofs about theories/RandFuncs.v (property C11) *)
From Coq Require Import ZArith List Lia Bool ZifyBool.
From SFV Require Import Base RandFuncs.
Import ListNotations. Open Scope Z_scope.

Ltac splits := repeat match goal with |- _ /\ _ => split end.
(* an impossible branch: the goal itself may contain terms lia cannot read *)
Ltac contra := exfalso; lia.
Ltac disc := unfold value_error, type_error, index_error in *; discriminate.

(* ------------------------------------------------------------------ arithmetic helpers *)

Lemma div_lower a b c : 0 < c -> a * c <= b -> a <= b / c.
Proof. intros Hc H. apply Z.div_le_lower_bound; lia. Qed.

Lemma div_upper a b c : 0 < c -> b <= a * c -> b / c <= a.
Proof.
  intros Hc H. apply Z.div_le_upper_bound; lia.
Qed.

Lemma div_mul_le a c : 0 < c -> c * (a / c) <= a.
Proof. intros. apply Z.mul_div_le; lia. Qed.

(* ------------------------------------------------------------------ random_number *)

Lemma randrange_n_pos a b step :
  1 <= step ->
  randrange_n a b step =
    if 0 <? b - a then Ok ((b - a + step - 1) / step) else value_error.
Proof.
  intros Hs. unfold randrange_n.
  destruct (step =? 1) eqn:E1.
  - assert (step = 1) by lia. subst. replace (b - a + 1 - 1) with (b - a) by lia.
    rewrite Z.div_1_r. reflexivity.
  - destruct (0 <? step) eqn:E2; [|contra].
    destruct (0 <? b - a) eqn:E3.
    + assert (1 <= (b - a + step - 1) / step) by (apply div_lower; lia).
      destruct ((b - a + step - 1) / step <=? 0) eqn:E4; [contra|reflexivity].
    + assert ((b - a + step - 1) / step <= 0).
      { assert ((b - a + step - 1) / step < 1); [|lia].
        apply Z.div_lt_upper_bound; lia. }
      destruct ((b - a + step - 1) / step <=? 0) eqn:E4; [reflexivity|contra].
Qed.

Lemma number_n mn mx step :
  mn <= mx -> 1 <= step -> randrange_n mn (mx + 1) step = Ok ((mx - mn) / step + 1).
Proof.
  intros H Hs. rewrite randrange_n_pos by assumption.
  destruct (0 <? mx + 1 - mn) eqn:E; [|contra].
  f_equal. replace (mx + 1 - mn + step - 1) with ((mx - mn) + 1 * step) by lia.
  rewrite Z.div_add by lia. reflexivity.
Qed.

Lemma number_empty mn mx step :
  mx < mn -> 1 <= step -> randrange_n mn (mx + 1) step = value_error.
Proof.
  intros H Hs. rewrite randrange_n_pos by assumption.
  destruct (0 <? mx + 1 - mn) eqn:E; [contra|reflexivity].
Qed.

(* every draw lands on the lattice, inside the bounds *)
Lemma random_number_lattice mn mx step :
  mn <= mx -> 1 <= step ->
  exists n, randrange_n mn (mx + 1) step = Ok n /\ n = (mx - mn) / step + 1 /\ 1 <= n /\
    forall k, 0 <= k < n ->
      random_number mn mx step (Some k) = Ok (mn + step * k) /\
      mn <= mn + step * k <= mx /\ (mn + step * k - mn) mod step = 0.
Proof.
  intros H Hs. exists ((mx - mn) / step + 1).
  assert (Hq : 0 <= (mx - mn) / step) by (apply Z.div_pos; lia).
  splits; [apply number_n; assumption | reflexivity | lia |].
  intros k Hk. splits.
  - unfold random_number, randrange. rewrite number_n by assumption.
    cbn [bind draw_below].
    destruct ((0 <=? k) && (k <? (mx - mn) / step + 1)) eqn:E; [reflexivity|contra].
  - nia.
  - assert (step * k <= step * ((mx - mn) / step)) by nia.
    pose proof (div_mul_le (mx - mn) step ltac:(lia)). lia.
  - replace (mn + step * k - mn) with (k * step) by lia. apply Z.mod_mul. lia.
Qed.

(* every lattice point is produced by some draw: in particular both ends *)
Lemma random_number_complete mn mx step v :
  mn <= mx -> 1 <= step -> mn <= v <= mx -> (v - mn) mod step = 0 ->
  exists k, 0 <= k < (mx - mn) / step + 1 /\ random_number mn mx step (Some k) = Ok v.
Proof.
  intros H Hs Hv Hm.
  destruct (random_number_lattice mn mx step H Hs) as (n & Hn & Hnv & Hn1 & Hall).
  exists ((v - mn) / step).
  assert (Hk : 0 <= (v - mn) / step < (mx - mn) / step + 1).
  { split; [apply Z.div_pos; lia|].
    assert ((v - mn) / step <= (mx - mn) / step) by (apply Z.div_le_mono; lia). lia. }
  split; [assumption|].
  subst n. destruct (Hall _ Hk) as (Hr & _). rewrite Hr. f_equal.
  pose proof (Z.div_mod (v - mn) step ltac:(lia)). lia.
Qed.

Lemma random_number_min_attained mn mx step :
  mn <= mx -> 1 <= step ->
  exists k, 0 <= k < (mx - mn) / step + 1 /\ random_number mn mx step (Some k) = Ok mn.
Proof.
  intros H Hs. apply random_number_complete; try lia.
  replace (mn - mn) with 0 by lia. apply Z.mod_0_l. lia.
Qed.

Lemma random_number_max_attained mn mx step :
  mn <= mx -> 1 <= step ->
  exists k, 0 <= k < (mx - mn) / step + 1 /\
            random_number mn mx step (Some k) = Ok (mx - (mx - mn) mod step).
Proof.
  intros H Hs.
  pose proof (Z.mod_pos_bound (mx - mn) step ltac:(lia)) as Hb.
  pose proof (Z.div_mod (mx - mn) step ltac:(lia)) as Hd.
  assert (Hq : 0 <= (mx - mn) / step) by (apply Z.div_pos; lia).
  assert (Hm : (mx - mn) mod step <= mx - mn) by nia.
  apply random_number_complete; try lia.
  replace (mx - (mx - mn) mod step - mn) with ((mx - mn) / step * step) by lia.
  apply Z.mod_mul. lia.
Qed.

(* whatever the draw, an empty range / a zero step is an error *)
Lemma random_number_empty mn mx step d :
  mx < mn -> 1 <= step -> random_number mn mx step d = value_error.
Proof.
  intros. unfold random_number, randrange. rewrite number_empty by assumption. reflexivity.
Qed.

Lemma random_number_zero_step mn mx d : random_number mn mx 0 d = value_error.
Proof. reflexivity. Qed.

(* no result outside the lattice, for every draw (in range or not) *)
Lemma random_number_sound mn mx step d x :
  1 <= step -> random_number mn mx step d = Ok x ->
  mn <= x <= mx /\ (x - mn) mod step = 0 /\ on_lattice mn mx step x = true.
Proof.
  intros Hs Hr.
  destruct (Z_lt_le_dec mx mn) as [Hlt|Hle].
  - rewrite random_number_empty in Hr by assumption. disc.
  - destruct (random_number_lattice mn mx step Hle Hs) as (n & Hn & Hnv & Hn1 & Hall).
    unfold random_number, randrange in Hr. rewrite Hn in Hr.
    destruct d as [k|]; cbn [bind draw_below] in Hr; [|discriminate].
    destruct ((0 <=? k) && (k <? n)) eqn:E; [|discriminate].
    inversion Hr; subst x. destruct (Hall k ltac:(lia)) as (_ & Hb & Hm).
    splits; try lia; try assumption.
    unfold on_lattice. rewrite Hm. lia.
Qed.

(* the decidable predicate used for free draws is exactly "some draw produces v" *)
Lemma number_possible_iff mn mx step v :
  number_possible mn mx step v = true <-> exists k, random_number mn mx step (Some k) = Ok v.
Proof.
  unfold number_possible, random_number, randrange.
  destruct (randrange_n mn (mx + 1) step) as [n|e]; cbn [bind draw_below].
  - split.
    + intros H. exists ((v - mn) / step).
      destruct ((0 <=? (v - mn) / step) && ((v - mn) / step <? n)) eqn:E; [|contra].
      f_equal. lia.
    + intros (k & Hk).
      destruct ((0 <=? k) && (k <? n)) eqn:E; [|discriminate].
      inversion Hk as [Hv].
      destruct (Z.eq_dec step 0) as [Hz|Hz].
      * subst step. rewrite Zdiv_0_r. lia.
      * replace (mn + step * k - mn) with (k * step) by lia. rewrite Z.div_mul by assumption.
        lia.
  - split; [discriminate|]. intros (k & Hk). discriminate.
Qed.

(* ------------------------------------------------------------------ random_choice *)

Fixpoint psums (acc : Z) (zs : list Z) : list Z :=
  match zs with [] => [] | z :: r => (acc + z) :: psums (acc + z) r end.

Definition zsum (zs : list Z) : Z := fold_right Z.add 0 zs.

Lemma accumulate_some acc zs : accumulate acc (map Some zs) = Ok (psums acc zs).
Proof.
  revert acc; induction zs as [|z r IH]; intros acc; cbn [map accumulate psums]; [reflexivity|].
  rewrite IH. reflexivity.
Qed.

Lemma accumulate_ok acc ws cum :
  accumulate acc ws = Ok cum -> exists zs, ws = map Some zs /\ cum = psums acc zs.
Proof.
  revert acc cum; induction ws as [|[w|] r IH]; intros acc cum H; cbn [accumulate] in H.
  - inversion H. exists []. split; reflexivity.
  - destruct (accumulate (acc + w) r) as [t|e] eqn:E; cbn [bind] in H; [|discriminate].
    inversion H; subst cum. destruct (IH _ _ E) as (zs & -> & ->).
    exists (w :: zs). split; reflexivity.
  - disc.
Qed.

Lemma accumulate_none acc ws : In None ws -> accumulate acc ws = type_error.
Proof.
  revert acc; induction ws as [|[w|] r IH]; intros acc H; cbn [accumulate].
  - destruct H.
  - destruct H as [H|H]; [discriminate|]. rewrite IH by assumption. reflexivity.
  - reflexivity.
Qed.

Lemma psums_length acc zs : length (psums acc zs) = length zs.
Proof. revert acc; induction zs; intros; cbn [psums length]; auto. Qed.

Lemma psums_nth acc zs i :
  (i < length zs)%nat -> nth i (psums acc zs) 0 = acc + zsum (firstn (S i) zs).
Proof.
  revert acc i; induction zs as [|z r IH]; intros acc i Hi; cbn [length] in Hi; [lia|].
  destruct i as [|i].
  - cbn [psums nth firstn zsum fold_right]. destruct r; cbn [firstn fold_right]; lia.
  - cbn [psums nth]. rewrite IH by lia.
    change (firstn (S (S i)) (z :: r)) with (z :: firstn (S i) r).
    cbn [zsum fold_right]. unfold zsum. lia.
Qed.

Lemma zsum_firstn_S zs i :
  (i < length zs)%nat -> zsum (firstn (S i) zs) = zsum (firstn i zs) + nth i zs 0.
Proof.
  revert i; induction zs as [|z r IH]; intros i Hi; cbn [length] in Hi; [lia|].
  destruct i as [|i].
  - cbn [firstn zsum fold_right nth]. destruct r; cbn [firstn fold_right]; lia.
  - change (firstn (S (S i)) (z :: r)) with (z :: firstn (S i) r).
    change (firstn (S i) (z :: r)) with (z :: firstn i r).
    cbn [zsum fold_right nth]. fold (zsum (firstn (S i) r)). fold (zsum (firstn i r)).
    rewrite IH by lia. lia.
Qed.

Lemma zsum_firstn_all zs : zsum (firstn (length zs) zs) = zsum zs.
Proof. rewrite firstn_all. reflexivity. Qed.

Lemma zsum_firstn_mono zs i j :
  Forall (fun z => 0 <= z) zs -> (i <= j)%nat -> (j <= length zs)%nat ->
  zsum (firstn i zs) <= zsum (firstn j zs).
Proof.
  intros Hpos Hij Hj. induction j as [|j IH].
  - assert (i = 0)%nat by lia. subst. lia.
  - destruct (Nat.eq_dec i (S j)) as [->|Hne]; [lia|].
    rewrite zsum_firstn_S by lia.
    assert (0 <= nth j zs 0).
    { rewrite Forall_forall in Hpos. apply Hpos. apply nth_In. lia. }
    specialize (IH ltac:(lia) ltac:(lia)). lia.
Qed.

Lemma last_opt_psums acc zs :
  zs <> [] -> last_opt (psums acc zs) = Some (acc + zsum zs).
Proof.
  revert acc; induction zs as [|z r IH]; intros acc Hne; [congruence|].
  destruct r as [|z' r'].
  - cbn [psums last_opt zsum fold_right]. f_equal. lia.
  - change (psums acc (z :: z' :: r')) with ((acc + z) :: psums (acc + z) (z' :: r')).
    assert (Hl : forall (x : Z) (l : list Z), l <> [] -> last_opt (x :: l) = last_opt l).
    { intros x l Hl. destruct l; [congruence|reflexivity]. }
    rewrite Hl.
    + rewrite IH by discriminate. cbn [zsum fold_right]. f_equal. lia.
    + cbn [psums]. discriminate.
Qed.

(* the binary search finds the boundary of a monotone predicate *)
Lemma bisect_spec cum xn den (P : Z -> bool) len :
  (forall i, 0 <= i < len -> lt_at cum xn den i = Ok (P i)) ->
  (forall i j, 0 <= i <= j -> j < len -> P i = true -> P j = true) ->
  forall fuel lo hi, 0 <= lo -> lo <= hi -> hi <= len -> hi - lo < Z.of_nat fuel ->
  exists r, bisect_right fuel cum xn den lo hi = Ok r /\ lo <= r <= hi /\
            (forall i, lo <= i < r -> P i = false) /\ (forall i, r <= i < hi -> P i = true).
Proof.
  intros Hlt Hmono. induction fuel as [|f IH]; intros lo hi H0 Hlo Hhi Hf; [lia|].
  cbn [bisect_right].
  destruct (lo <? hi) eqn:E.
  - assert (Hmid : lo <= (lo + hi) / 2 < hi).
    { split; [apply div_lower; lia|apply Z.div_lt_upper_bound; lia]. }
    rewrite Hlt by lia. cbn [bind].
    destruct (P ((lo + hi) / 2)) eqn:EP.
    + destruct (IH lo ((lo + hi) / 2) ltac:(lia) ltac:(lia) ltac:(lia) ltac:(lia))
        as (r & Hr & Hb & Hl & Hh).
      exists r. splits; try assumption; try lia.
      intros i Hi. destruct (Z_lt_le_dec i ((lo + hi) / 2)).
      * apply Hh. lia.
      * apply (Hmono ((lo + hi) / 2) i); solve [lia|assumption].
    + destruct (IH ((lo + hi) / 2 + 1) hi ltac:(lia) ltac:(lia) ltac:(lia) ltac:(lia))
        as (r & Hr & Hb & Hl & Hh).
      exists r. splits; try assumption; try lia.
      intros i Hi. destruct (Z_lt_le_dec ((lo + hi) / 2) i).
      * apply Hl. lia.
      * destruct (P i) eqn:EPi; [|reflexivity].
        assert (P ((lo + hi) / 2) = true) by (apply (Hmono i); solve [lia|assumption]).
        congruence.
  - exists lo. splits; try reflexivity; try lia; intros; lia.
Qed.

(* valid weights (all present, non-negative, positive total): the pick is listed and its
   weight is positive; no error *)
Lemma weighted_choice_support zs opts num den :
  length opts = length zs -> Forall (fun z => 0 <= z) zs -> 0 < zsum zs -> 0 <= num < den ->
  exists i o w, weighted_choice (map Some zs) opts (Some num) den = Ok o /\
                nth_error opts i = Some o /\ nth_error zs i = Some w /\ 0 < w.
Proof.
  intros Hlen Hpos Htot Hnum.
  assert (Hne : zs <> []) by (intros ->; cbn in Htot; lia).
  unfold weighted_choice. rewrite accumulate_some. cbn [bind].
  rewrite last_opt_psums by assumption. rewrite Z.add_0_l.
  destruct (zsum zs <=? 0) eqn:E0; [contra|].
  cbn [draw_below].
  destruct ((0 <=? num) && (num <? den)) eqn:En; [|contra].
  rewrite psums_length.
  set (cum := psums 0 zs). set (n := length zs).
  assert (Hn : (0 < n)%nat) by (subst n; destruct zs; [congruence|cbn; lia]).
  set (P := fun i : Z => num * zsum zs <? nth (Z.to_nat i) cum 0 * den).
  assert (Hcum : forall i, (i < n)%nat -> nth i cum 0 = zsum (firstn (S i) zs)).
  { intros i Hi. subst cum. rewrite psums_nth by assumption. lia. }
  destruct (bisect_spec cum (num * zsum zs) den P (Z.of_nat n)) with
      (fuel := S n) (lo := 0) (hi := Z.of_nat n - 1) as (r & Hr & Hb & Hl & Hh); try lia.
  { intros i Hi. unfold lt_at.
    rewrite (nth_error_nth' cum 0) by (subst cum; rewrite psums_length; fold n; lia).
    reflexivity. }
  { intros i j Hij Hj HPi. unfold P in *.
    assert (nth (Z.to_nat i) cum 0 <= nth (Z.to_nat j) cum 0).
    { rewrite !Hcum by lia. apply zsum_firstn_mono; try assumption; subst n; lia. }
    apply Z.ltb_lt in HPi. apply Z.ltb_lt. nia. }
  rewrite Hr. cbn [bind].
  assert (Hri : (Z.to_nat r < n)%nat) by lia.
  destruct (nth_error opts (Z.to_nat r)) as [o|] eqn:Eo.
  2: { apply nth_error_None in Eo. exfalso. subst n. lia. }
  exists (Z.to_nat r), o, (nth (Z.to_nat r) zs 0).
  splits; [reflexivity|assumption|apply nth_error_nth'; assumption|].
  (* upper side: X < cum[r] * den *)
  assert (Hup : num * zsum zs < zsum (firstn (S (Z.to_nat r)) zs) * den).
  { destruct (Z.eq_dec r (Z.of_nat n - 1)) as [Heq|Hneq].
    - replace (S (Z.to_nat r)) with n by lia. subst n. rewrite zsum_firstn_all. nia.
    - specialize (Hh r ltac:(lia)). unfold P in Hh. rewrite Hcum in Hh by lia.
      apply Z.ltb_lt in Hh. assumption. }
  (* lower side: cum[r-1] * den <= X *)
  assert (Hlow : zsum (firstn (Z.to_nat r) zs) * den <= num * zsum zs).
  { destruct (Z.eq_dec r 0) as [->|Hr0].
    - cbn [Z.to_nat firstn zsum fold_right]. nia.
    - specialize (Hl (r - 1) ltac:(lia)). unfold P in Hl. rewrite Hcum in Hl by lia.
      replace (S (Z.to_nat (r - 1))) with (Z.to_nat r) in Hl by lia.
      apply Z.ltb_ge in Hl. assumption. }
  rewrite zsum_firstn_S in Hup by assumption. nia.
Qed.

(* all the weight on one option: that option, always *)
Lemma weighted_choice_single zs opts num den i0 :
  length opts = length zs -> Forall (fun z => 0 <= z) zs -> 0 < zsum zs -> 0 <= num < den ->
  (forall j w, nth_error zs j = Some w -> 0 < w -> j = i0) ->
  exists o, weighted_choice (map Some zs) opts (Some num) den = Ok o /\ nth_error opts i0 = Some o.
Proof.
  intros Hlen Hpos Htot Hnum Huniq.
  destruct (weighted_choice_support zs opts num den Hlen Hpos Htot Hnum)
    as (i & o & w & Hr & Ho & Hw & Hw0).
  exists o. split; [assumption|]. rewrite <- (Huniq i w Hw Hw0). assumption.
Qed.

(* a missing weight is an error for every draw *)
Lemma weighted_choice_none ws opts d den :
  In None ws -> weighted_choice ws opts d den = type_error.
Proof. intros H. unfold weighted_choice. rewrite accumulate_none by assumption. reflexivity. Qed.

(* no positive total: error for every draw *)
Lemma weighted_choice_no_mass zs opts d den :
  zsum zs <= 0 -> exists e, weighted_choice (map Some zs) opts d den = Err e.
Proof.
  intros H. unfold weighted_choice. rewrite accumulate_some. cbn [bind].
  destruct zs as [|z r].
  - cbn [psums last_opt]. eexists; reflexivity.
  - rewrite last_opt_psums by discriminate. rewrite Z.add_0_l.
    destruct (zsum (z :: r) <=? 0) eqn:E; [eexists; reflexivity|contra].
Qed.

Lemma listed_positive_intro ws opts v i w :
  nth_error ws i = Some (Some w) -> 0 < w -> nth_error opts i = Some v ->
  listed_positive ws opts v = true.
Proof.
  revert ws opts; induction i as [|i IH]; intros ws opts Hw Hpos Ho;
    destruct ws as [|w0 ws]; destruct opts as [|o opts]; cbn [nth_error] in *; try discriminate.
  - inversion Hw; inversion Ho; subst. cbn [listed_positive].
    apply orb_true_iff. left. apply andb_true_iff. split; lia.
  - cbn [listed_positive]. destruct w0 as [w0|]; [|eauto].
    apply orb_true_iff. right. eauto.
Qed.

Lemma listed_positive_elim ws opts v :
  listed_positive ws opts v = true ->
  exists i w, nth_error ws i = Some (Some w) /\ 0 < w /\ nth_error opts i = Some v.
Proof.
  revert opts; induction ws as [|w0 ws IH]; intros opts H; [cbn in H; discriminate|].
  destruct opts as [|o opts]; [destruct w0; cbn in H; discriminate|].
  cbn [listed_positive] in H. destruct w0 as [w0|].
  - apply orb_true_iff in H. destruct H as [H|H].
    + apply andb_true_iff in H. destruct H as [H1 H2].
      exists 0%nat, w0. cbn [nth_error]. splits; try reflexivity; [lia|f_equal; lia].
    + destruct (IH _ H) as (i & w & ? & ? & ?). exists (S i), w. cbn [nth_error]. auto.
  - destruct (IH _ H) as (i & w & ? & ? & ?). exists (S i), w. cbn [nth_error]. auto.
Qed.

(* --- the three argument shapes of random_choice --- *)

(* plain list: the draw indexes the list; every option is reachable *)
Lemma random_choice_list opts :
  opts <> [] ->
  (forall k, 0 <= k < Z.of_nat (length opts) ->
     exists o, random_choice (RCList opts) (Some k) 0 = Ok o /\ nth_error opts (Z.to_nat k) = Some o
               /\ In o opts) /\
  (forall o, In o opts -> exists k, 0 <= k < Z.of_nat (length opts) /\
                                    forall den, random_choice (RCList opts) (Some k) den = Ok o).
Proof.
  intros Hne. split.
  - intros k Hk. destruct opts as [|o0 r]; [congruence|].
    cbn [random_choice draw_below].
    destruct ((0 <=? k) && (k <? Z.of_nat (length (o0 :: r)))) eqn:E; [|contra].
    destruct (nth_error (o0 :: r) (Z.to_nat k)) as [o|] eqn:Eo.
    + exists o. splits; try reflexivity. eapply nth_error_In; eassumption.
    + apply nth_error_None in Eo. contra.
  - intros o Hin. apply In_nth_error in Hin. destruct Hin as (i & Hi).
    assert (Hlt : (i < length opts)%nat) by (apply nth_error_Some; congruence).
    exists (Z.of_nat i). split; [lia|]. intros den.
    destruct opts as [|o0 r]; [congruence|].
    cbn [random_choice draw_below].
    destruct ((0 <=? Z.of_nat i) && (Z.of_nat i <? Z.of_nat (length (o0 :: r)))) eqn:E; [|contra].
    rewrite Nat2Z.id. rewrite Hi. reflexivity.
Qed.

Lemma random_choice_empty d den : random_choice (RCList []) d den = value_error.
Proof. reflexivity. Qed.

Lemma random_choice_weighted_eq a :
  match a with RCList _ => False | RCChoices items => items <> [] | RCDict items => items <> [] end ->
  forall d den, random_choice a d den = weighted_choice (rc_weights a) (rc_options a) d den.
Proof.
  intros H d den. destruct a as [opts|items|items]; [destruct H| |];
    destruct items; try congruence; reflexivity.
Qed.

Lemma rc_lengths a : length (rc_options a) = length (rc_weights a).
Proof. destruct a; cbn [rc_options rc_weights]; rewrite ?map_length; reflexivity. Qed.

(* weighted shapes with valid weights *)
Lemma random_choice_support a zs num den :
  match a with RCList _ => False | _ => True end ->
  rc_weights a = map Some zs -> Forall (fun z => 0 <= z) zs -> 0 < zsum zs -> 0 <= num < den ->
  exists i o w, random_choice a (Some num) den = Ok o /\
                nth_error (rc_options a) i = Some o /\ nth_error zs i = Some w /\ 0 < w.
Proof.
  intros Hshape Hws Hpos Htot Hnum.
  assert (Hne : zs <> []) by (intros ->; cbn in Htot; lia).
  rewrite random_choice_weighted_eq.
  - rewrite Hws. apply weighted_choice_support; try assumption.
    rewrite rc_lengths, Hws, map_length. reflexivity.
  - destruct a as [opts|items|items]; [destruct Hshape| |]; intros ->;
      (destruct zs; cbn in Hws; [congruence|discriminate]).
Qed.

Lemma random_choice_single a zs num den i0 :
  match a with RCList _ => False | _ => True end ->
  rc_weights a = map Some zs -> Forall (fun z => 0 <= z) zs -> 0 < zsum zs -> 0 <= num < den ->
  (forall j w, nth_error zs j = Some w -> 0 < w -> j = i0) ->
  exists o, random_choice a (Some num) den = Ok o /\ nth_error (rc_options a) i0 = Some o.
Proof.
  intros Hshape Hws Hpos Htot Hnum Huniq.
  destruct (random_choice_support a zs num den Hshape Hws Hpos Htot Hnum)
    as (i & o & w & Hr & Ho & Hw & Hw0).
  exists o. split; [assumption|]. rewrite <- (Huniq i w Hw Hw0). assumption.
Qed.

(* with valid weights a pick is always one the `possible` predicate accepts, i.e. listed with a
   positive weight: an option whose weight is 0 at every position is never returned *)
Lemma random_choice_possible a zs num den o :
  match a with RCList _ => False | _ => True end ->
  rc_weights a = map Some zs -> Forall (fun z => 0 <= z) zs -> 0 < zsum zs -> 0 <= num < den ->
  random_choice a (Some num) den = Ok o -> choice_possible a o = true.
Proof.
  intros Hshape Hws Hpos Htot Hnum Hr.
  destruct (random_choice_support a zs num den Hshape Hws Hpos Htot Hnum)
    as (i & o' & w & Hr' & Ho & Hw & Hw0).
  rewrite Hr in Hr'. inversion Hr'; subst o'.
  unfold choice_possible. eapply listed_positive_intro; try eassumption.
  rewrite Hws. rewrite nth_error_map. rewrite Hw. reflexivity.
Qed.

(* the dict form spelled out: the returned key carries a positive weight *)
Lemma random_choice_dict items num den :
  Forall (fun it => 0 <= snd it) items -> 0 < zsum (map snd items) -> 0 <= num < den ->
  exists o w, random_choice (RCDict items) (Some num) den = Ok o /\ In (o, w) items /\ 0 < w.
Proof.
  intros Hpos Htot Hnum.
  destruct (random_choice_support (RCDict items) (map snd items) num den) as
      (i & o & w & Hr & Ho & Hw & Hw0); try assumption; try exact I.
  - cbn [rc_weights]. rewrite map_map. reflexivity.
  - rewrite Forall_map. assumption.
  - exists o, w. splits; try assumption.
    cbn [rc_options] in Ho. rewrite nth_error_map in Ho, Hw.
    destruct (nth_error items i) as [[o' w']|] eqn:Ei; cbn in Ho, Hw; try discriminate.
    inversion Ho; inversion Hw; subst. eapply nth_error_In; eassumption.
Qed.

(* the choice-item form: probabilities present, >= 0, not all 0: an item with probability 0 is
   never picked (and is no error) *)
Lemma random_choice_choices items num den :
  Forall (fun it => exists p, fst it = Some p /\ 0 <= p) items ->
  0 < zsum (map (fun it => match fst it with Some p => p | None => 0 end) items) ->
  0 <= num < den ->
  exists o p, random_choice (RCChoices items) (Some num) den = Ok o /\ In (Some p, o) items /\ 0 < p.
Proof.
  intros Hall Htot Hnum.
  set (zs := map (fun it => match fst it with Some p => p | None => 0 end) items) in *.
  assert (Hws : rc_weights (RCChoices items) = map Some zs).
  { cbn [rc_weights]. subst zs. rewrite map_map. apply map_ext_in.
    intros it Hin. rewrite Forall_forall in Hall. destruct (Hall it Hin) as (p & Hp & Hp0).
    rewrite Hp. reflexivity. }
  assert (Hpos : Forall (fun z => 0 <= z) zs).
  { subst zs. rewrite Forall_map. rewrite Forall_forall in *. intros it Hin.
    destruct (Hall it Hin) as (p & -> & Hp0). assumption. }
  destruct (random_choice_support (RCChoices items) zs num den I Hws Hpos Htot Hnum)
    as (i & o & w & Hr & Ho & Hw & Hw0).
  cbn [rc_options] in Ho. subst zs. rewrite nth_error_map in Ho, Hw.
  destruct (nth_error items i) as [[p' o']|] eqn:Ei; cbn in Ho, Hw; try discriminate.
  rewrite Forall_forall in Hall.
  destruct (Hall (p', o') ltac:(eapply nth_error_In; eassumption)) as (p & Hp & Hp0).
  cbn in Hp. subst p'. inversion Ho; subst o'. inversion Hw; subst w.
  exists o, p. splits; try assumption. eapply nth_error_In; eassumption.
Qed.

(* a missing probability is still an error for every draw *)
Lemma random_choice_missing_probability items d den :
  In None (map fst items) -> random_choice (RCChoices items) d den = type_error.
Proof.
  intros H. destruct items as [|it r]; [destruct H|].
  cbn [random_choice]. apply weighted_choice_none.
  apply in_map_iff in H. destruct H as (x & Hx & Hin).
  apply in_map_iff. exists x. split; [|assumption]. rewrite Hx. reflexivity.
Qed.

(* ------------------------------------------------------------------ rounding *)

(* round-half-even stays between the integer bounds of its argument *)
Lemma rhe_between L H num den :
  0 < den -> L * den <= num <= H * den -> L <= rhe num den <= H.
Proof.
  intros Hd [Hl Hh]. unfold rhe.
  pose proof (Z.div_mod num den ltac:(lia)) as Hdm.
  pose proof (Z.mod_pos_bound num den Hd) as Hmb.
  assert (HL : L <= num / den) by (apply div_lower; assumption).
  assert (HH : num / den <= H) by (apply div_upper; assumption).
  assert (HH1 : num mod den <> 0 -> num / den + 1 <= H).
  { intros Hnz. assert (num / den < H); [|lia].
    apply Z.div_lt_upper_bound; [lia|].
    destruct (Z.eq_dec num (H * den)) as [Heq|Hneq]; [|lia].
    exfalso. apply Hnz. rewrite Heq. apply Z.mod_mul. lia. }
  destruct (2 * (num mod den) <? den) eqn:E1; [lia|].
  destruct (den <? 2 * (num mod den)) eqn:E2.
  - assert (num mod den <> 0) by lia. specialize (HH1 ltac:(assumption)). lia.
  - destruct (Z.even (num / den)); [lia|].
    assert (num mod den <> 0) by lia. specialize (HH1 ltac:(assumption)). lia.
Qed.

Lemma quot_between L H num den :
  0 < den -> L * den <= num <= H * den -> L <= Z.quot num den <= H.
Proof.
  intros Hd [Hl Hh].
  pose proof (Z.quot_rem' num den) as Hq.
  destruct (Z_le_gt_dec 0 num) as [Hpos|Hneg].
  - pose proof (Z.rem_bound_pos_pos num den Hd Hpos). nia.
  - pose proof (Z.rem_bound_pos_neg num den Hd ltac:(lia)). nia.
Qed.

(* ------------------------------------------------------------------ date_between *)

Lemma day_of_us_between ds de us :
  ds * DAYUS <= us <= de * DAYUS -> ds <= us / DAYUS <= de.
Proof.
  intros [H1 H2]. unfold DAYUS in *. split; [apply div_lower|apply div_upper]; lia.
Qed.

(* Faker's draw, as transcribed, stays inside the closed interval of days *)
Lemma faker_day_of_between ds de num den :
  ds <= de -> 0 <= num < den ->
  ds <= faker_day_of (ds * DAY) (de * DAY) num den <= de.
Proof.
  intros Hle Hnum. unfold faker_day_of.
  set (tn := ds * DAY * den + (de * DAY - ds * DAY) * num).
  assert (Htn : ds * DAY * den <= tn <= de * DAY * den).
  { subst tn. unfold DAY. nia. }
  destruct (0 <=? tn) eqn:E.
  - apply day_of_us_between.
    assert (ds * DAY * US <= rhe (tn * US) den <= de * DAY * US).
    { apply rhe_between; [lia|]. unfold US. nia. }
    unfold DAYUS, DAY, US in *. lia.
  - assert (ds * DAY <= Z.quot tn den <= de * DAY) by (apply quot_between; lia).
    unfold DAY in *. split; [apply div_lower|apply div_upper]; lia.
Qed.

Lemma date_between_bounds c s e ds de num den :
  resolve_date c s = Ok ds -> resolve_date c e = Ok de -> 0 <= num < den ->
  (ds <= de -> exists v, date_between c s e (Some num) den = Ok (Some v) /\ ds <= v <= de) /\
  (de < ds -> forall d, date_between c s e d den = Ok None).
Proof.
  intros Hs He Hnum. unfold date_between. rewrite Hs, He. cbn [bind]. split.
  - intros Hle. destruct (de <? ds) eqn:E; [contra|].
    cbn [draw_below]. destruct ((0 <=? num) && (num <? den)) eqn:En; [|contra].
    eexists. split; [reflexivity|]. apply faker_day_of_between; assumption.
  - intros Hlt d. destruct (de <? ds) eqn:E; [reflexivity|contra].
Qed.

(* any draw at all inside the closed interval of timestamps Faker is given (floats included) *)
Lemma date_any_draw_between ds de ts_us :
  ds * DAYUS <= ts_us <= de * DAYUS -> ds <= ts_us / DAYUS <= de.
Proof. apply day_of_us_between. Qed.

(* what each bound denotes: the day as written, today, or today + whole days of the offset *)
Lemma resolve_date_meaning c :
  (forall d, resolve_date c (SDate d) = Ok d) /\
  (forall w o, resolve_date c (SStamp (mkStamp w o)) = Ok (w / DAYUS)) /\
  resolve_date c SToday = Ok (today c) /\ resolve_date c SNow = Ok (today c) /\
  (forall y mo w d h mi s,
      resolve_date c (SRel y mo w d h mi s) = Ok (today c + rel_seconds y mo w d h mi s / DAY)).
Proof. splits; reflexivity. Qed.

Lemma date_between_possible c s e num den v :
  0 <= num < den -> run_fn (FDate c s e) (Some num) den = Ok v -> possible (FDate c s e) v = true.
Proof.
  intros Hnum Hr. cbn [run_fn] in Hr. cbn [possible].
  destruct (date_between c s e (Some num) den) as [r|] eqn:Edb; cbn [bind] in Hr; [|discriminate].
  inversion Hr; subst v; clear Hr.
  unfold date_between in Edb.
  destruct (resolve_date c s) as [ds|] eqn:Es; cbn [bind] in Edb; [|discriminate].
  destruct (resolve_date c e) as [de|] eqn:Ee; cbn [bind] in Edb; [|discriminate].
  destruct (de <? ds) eqn:E.
  - inversion Edb; subst r. reflexivity.
  - cbn [draw_below] in Edb. destruct ((0 <=? num) && (num <? den)); [|discriminate].
    inversion Edb; subst r.
    pose proof (faker_day_of_between ds de num den ltac:(lia) Hnum). lia.
Qed.

(* ------------------------------------------------------------------ datetime_between *)

Lemma floor_sec_bounds us : floor_sec us * US <= us < floor_sec us * US + US.
Proof.
  unfold floor_sec, US.
  pose proof (Z.div_mod us 1000000 ltac:(lia)). pose proof (Z.mod_pos_bound us 1000000 ltac:(lia)).
  lia.
Qed.

Lemma faker_dt_between_coded a b num den :
  a <= b -> 0 <= num < den ->
  a * US <= faker_dt_between a b num den <= Z.max b (a + 1) * US.
Proof.
  intros Hab Hnum. unfold faker_dt_between.
  destruct (b - a <=? 1) eqn:E.
  - assert (a * US <= rhe ((a * den + num) * US) den <= (a + 1) * US).
    { apply rhe_between; [lia|]. unfold US. nia. }
    unfold US in *. lia.
  - assert (a * US <= rhe ((a * den + (b - a) * num) * US) den <= b * US).
    { apply rhe_between; [lia|]. unfold US. nia. }
    unfold US in *. lia.
Qed.

(* when the end lies in a later whole second than the start, the result never passes b *)
Lemma faker_dt_between_closed a b num den :
  a < b -> 0 <= num < den -> a * US <= faker_dt_between a b num den <= b * US.
Proof.
  intros Hab Hnum. pose proof (faker_dt_between_coded a b num den ltac:(lia) Hnum).
  replace (Z.max b (a + 1)) with b in * by lia. assumption.
Qed.

Lemma parse_off_some c sp ps : parse_datetimespec c sp = Ok ps -> exists o, off ps = Some o.
Proof.
  destruct sp as [| |[w [o|]]|d|y mo w d h mi x|]; cbn [parse_datetimespec off]; intros H;
    inversion H; subst; cbn [off]; eauto.
Qed.

(* normalisation keeps the instant the user wrote, for every specification *)
Lemma datetime_fn_instant c sp ps :
  parse_datetimespec c sp = Ok ps ->
  exists s', datetime_fn c sp = Ok s' /\ instant s' = instant ps /\ off s' = Some 0.
Proof.
  intros H. destruct (parse_off_some c sp ps H) as (o & Ho).
  unfold datetime_fn. rewrite H. cbn [bind]. rewrite Ho.
  eexists. splits; [reflexivity| |reflexivity].
  unfold instant at 1. cbn [wall off]. lia.
Qed.

(* min(max(rc, lo), hi) lies in [lo, hi] whatever Faker returned *)
Lemma clamp_between rc lo hi tz :
  lo <= hi -> lo <= fst (clamp rc lo hi tz) <= hi /\
              (snd (clamp rc lo hi tz) = tz \/ snd (clamp rc lo hi tz) = bound_zone tz).
Proof.
  intros H. unfold clamp.
  destruct (rc <? lo) eqn:E1.
  - destruct (hi <? lo) eqn:E2; [contra|]. cbn [fst snd]. split; [lia|auto].
  - destruct (hi <? rc) eqn:E2; cbn [fst snd]; split; try lia; auto.
Qed.

(* the value is Faker's own whenever that already lies inside the bounds *)
Lemma clamp_id rc lo hi tz : lo <= rc <= hi -> clamp rc lo hi tz = (rc, tz).
Proof.
  intros H. unfold clamp. destruct (rc <? lo) eqn:E1; [contra|].
  destruct (hi <? rc) eqn:E2; [contra|reflexivity].
Qed.

(* THE PROPERTY for datetime_between: every pair of bounds (offsets, fractional seconds, equal),
   every draw, every presentation zone incl. timezone: False: start <= v <= end as the instants
   the user wrote; reversed bounds are a DataGenError *)
Lemma datetime_between_bounds cs ce s e tz num den ps pe :
  parse_datetimespec cs s = Ok ps -> parse_datetimespec ce e = Ok pe -> 0 <= num < den ->
  (instant pe < instant ps ->
     forall d, exists m, datetime_between cs ce s e tz d den = Err (DGE m)) /\
  (instant ps <= instant pe ->
     exists v o, datetime_between cs ce s e tz (Some num) den = Ok (v, o) /\
                 instant ps <= v <= instant pe /\ (o = tz \/ o = bound_zone tz)).
Proof.
  intros Hs He Hnum.
  destruct (datetime_fn_instant cs s ps Hs) as (s' & Hds & His & _).
  destruct (datetime_fn_instant ce e pe He) as (e' & Hde & Hie & _).
  unfold datetime_between. rewrite Hds, Hde. cbn [bind]. rewrite His, Hie. split.
  - intros Hlt d. destruct (instant pe <? instant ps) eqn:E; [|contra]. eexists; reflexivity.
  - intros Hle. destruct (instant pe <? instant ps) eqn:E; [contra|].
    cbn [draw_below]. destruct ((0 <=? num) && (num <? den)) eqn:En; [|contra].
    set (rc := faker_dt_between _ _ _ _).
    destruct (clamp_between rc (instant ps) (instant pe) tz Hle) as (Hb & Ho).
    exists (fst (clamp rc (instant ps) (instant pe) tz)),
           (snd (clamp rc (instant ps) (instant pe) tz)).
    splits; try lia; try assumption.
    rewrite <- surjective_pairing. reflexivity.
Qed.

(* on whole-second starts with the end in a later second the clamp is the identity: the value is
   the one Faker drew *)
Lemma datetime_between_unclamped cs ce s e tz num den ps pe :
  parse_datetimespec cs s = Ok ps -> parse_datetimespec ce e = Ok pe -> 0 <= num < den ->
  instant ps mod US = 0 -> floor_sec (instant ps) < floor_sec (instant pe) ->
  datetime_between cs ce s e tz (Some num) den =
    Ok (faker_dt_between (floor_sec (instant ps)) (floor_sec (instant pe)) num den, tz).
Proof.
  intros Hs He Hnum Hwhole Hlater.
  destruct (datetime_fn_instant cs s ps Hs) as (s' & Hds & His & _).
  destruct (datetime_fn_instant ce e pe He) as (e' & Hde & Hie & _).
  unfold datetime_between. rewrite Hds, Hde. cbn [bind]. rewrite His, Hie.
  pose proof (floor_sec_bounds (instant ps)) as Hbs.
  pose proof (floor_sec_bounds (instant pe)) as Hbe.
  assert (Hstart : floor_sec (instant ps) * US = instant ps).
  { unfold floor_sec, US in *. pose proof (Z.div_mod (instant ps) 1000000 ltac:(lia)). lia. }
  destruct (instant pe <? instant ps) eqn:E.
  { exfalso. apply Z.ltb_lt in E. unfold US in *. lia. }
  cbn [draw_below]. destruct ((0 <=? num) && (num <? den)) eqn:En; [|contra].
  pose proof (faker_dt_between_closed _ _ num den Hlater Hnum).
  rewrite clamp_id; [reflexivity|]. unfold US in *. lia.
Qed.

Lemma datetime_between_possible cs ce s e tz num den v :
  0 <= num < den -> run_fn (FDateTime cs ce s e tz) (Some num) den = Ok v ->
  possible (FDateTime cs ce s e tz) v = true.
Proof.
  intros Hnum Hr. cbn [run_fn] in Hr.
  destruct (datetime_between cs ce s e tz (Some num) den) as [[us o]|] eqn:Edb; cbn [bind] in Hr;
    [|discriminate].
  inversion Hr; subst v; clear Hr. cbn [possible].
  unfold datetime_between in Edb.
  destruct (datetime_fn cs s) as [s'|] eqn:Es; cbn [bind] in Edb; [|discriminate].
  destruct (datetime_fn ce e) as [e'|] eqn:Ee; cbn [bind] in Edb; [|discriminate].
  destruct (instant e' <? instant s') eqn:E; [discriminate|].
  cbn [draw_below] in Edb. destruct ((0 <=? num) && (num <? den)); [|discriminate].
  inversion Edb as [Hc]. clear Edb.
  set (rc := faker_dt_between (floor_sec (instant s')) (floor_sec (instant e')) num den) in Hc.
  unfold clamp in Hc. rewrite E in Hc.
  assert (Hrefl : forall x : option Z, option_eqb Z.eqb x x = true).
  { intros [x|]; cbn [option_eqb]; [apply Z.eqb_refl|reflexivity]. }
  destruct (rc <? instant s') eqn:E1.
  - inversion Hc; subst us o. rewrite Hrefl, (Z.eqb_refl (instant s')). cbn [orb andb].
    rewrite orb_true_r. rewrite !andb_true_iff. splits; lia.
  - destruct (instant e' <? rc) eqn:E2; inversion Hc; subst us o.
    + rewrite (Hrefl (bound_zone tz)), (Z.eqb_refl (instant e')). rewrite !orb_true_r.
      rewrite !andb_true_iff. splits; lia.
    + rewrite Hrefl. cbn [orb]. rewrite !andb_true_iff. splits; lia.
Qed.

(* what each datetime bound denotes: the instant as written, midnight (UTC) of the day, the clock
   reading, or the clock reading plus the relative offset (years = 365.24 d, months = 30.42 d) *)
Lemma parse_datetimespec_meaning c :
  (forall w o, exists ps, parse_datetimespec c (SStamp (mkStamp w o)) = Ok ps /\
                          instant ps = instant (mkStamp w o)) /\
  (forall d, exists ps, parse_datetimespec c (SDate d) = Ok ps /\ instant ps = d * DAYUS) /\
  (exists ps, parse_datetimespec c SToday = Ok ps /\ instant ps = today c * DAYUS) /\
  (exists ps, parse_datetimespec c SNow = Ok ps /\ instant ps = now_us c) /\
  (forall y mo w d h mi s, exists ps,
      parse_datetimespec c (SRel y mo w d h mi s) = Ok ps /\
      instant ps = now_us c + rel_seconds y mo w d h mi s * US).
Proof.
  splits.
  - intros w [o|]; eexists; (split; [reflexivity|]); unfold instant; cbn [wall off]; lia.
  - intros d. eexists. split; [reflexivity|]. unfold instant; cbn [wall off]; lia.
  - eexists. split; [reflexivity|]. unfold instant; cbn [wall off]; lia.
  - eexists. split; [reflexivity|]. unfold instant; cbn [wall off]; lia.
  - intros. eexists. split; [reflexivity|]. unfold instant; cbn [wall off]; lia.
Qed.

(* relative bounds spelled out: both bounds relative to (possibly different) clock readings *)
Lemma datetime_between_relative cs ce y1 mo1 w1 d1 h1 mi1 s1 y2 mo2 w2 d2 h2 mi2 s2 tz num den :
  0 <= num < den ->
  let a := now_us cs + rel_seconds y1 mo1 w1 d1 h1 mi1 s1 * US in
  let b := now_us ce + rel_seconds y2 mo2 w2 d2 h2 mi2 s2 * US in
  (b < a -> forall d, exists m,
      datetime_between cs ce (SRel y1 mo1 w1 d1 h1 mi1 s1) (SRel y2 mo2 w2 d2 h2 mi2 s2) tz d den
      = Err (DGE m)) /\
  (a <= b -> exists v o,
      datetime_between cs ce (SRel y1 mo1 w1 d1 h1 mi1 s1) (SRel y2 mo2 w2 d2 h2 mi2 s2) tz
                       (Some num) den = Ok (v, o) /\ a <= v <= b).
Proof.
  intros Hnum a b.
  destruct (datetime_between_bounds cs ce (SRel y1 mo1 w1 d1 h1 mi1 s1) (SRel y2 mo2 w2 d2 h2 mi2 s2)
              tz num den _ _ eq_refl eq_refl Hnum) as (Hrev & Hok).
  assert (Ha : instant (mkStamp a (Some 0)) = a) by (unfold instant; cbn [wall off]; lia).
  assert (Hb : instant (mkStamp b (Some 0)) = b) by (unfold instant; cbn [wall off]; lia).
  fold a in Hrev, Hok. fold b in Hrev, Hok. rewrite Ha, Hb in Hrev, Hok. split.
  - exact Hrev.
  - intros Hle. destruct (Hok Hle) as (v & o & Hr & Hv & _). exists v, o. split; assumption.
Qed.

(* ------------------------------------------------------------------ regressions: the witnesses of
   the repaired defects K4, K10, K11, K12 now satisfy the property *)

(* 2023-01-01T10:00:00 as microseconds of wall clock *)
Definition w_10h : Z := 1672567200000000.

(* K4: start 10:00:00-05:00 (15:00Z), end 18:00Z: lowest and highest draw inside the bounds *)
Lemma regression_offset :
  let c := mkClock 0 0 in
  let s := mkStamp w_10h (Some (-18000)) in
  let e := mkStamp (w_10h + 8 * 3600 * US) (Some 0) in
  datetime_between c c (SStamp s) (SStamp e) (Some 0) (Some 0) 1024 = Ok (instant s, Some 0) /\
  datetime_between c c (SStamp s) (SStamp e) (Some 0) (Some 1023) 1024
    = Ok (instant e - 10546875, Some 0).
Proof. cbv zeta. split; vm_compute; reflexivity. Qed.

(* K4: start 10:00+05:00 (05:00Z), end 06:00Z is accepted *)
Lemma regression_offset_valid_range_accepted :
  let c := mkClock 0 0 in
  let s := mkStamp w_10h (Some 18000) in
  let e := mkStamp (w_10h - 4 * 3600 * US) (Some 0) in
  datetime_between c c (SStamp s) (SStamp e) (Some 0) (Some 512) 1024
    = Ok (instant s + 1800 * US, Some 0).
Proof. cbv zeta. vm_compute. reflexivity. Qed.

(* K10: equal bounds: the only possible value *)
Lemma regression_equal_bounds :
  let c := mkClock 0 0 in
  let s := mkStamp w_10h None in
  datetime_between c c (SStamp s) (SStamp s) (Some 0) (Some 512) 1024 = Ok (instant s, Some 0).
Proof. cbv zeta. vm_compute. reflexivity. Qed.

(* K11: start 10:00:00.9: the lowest draw is clamped to the start *)
Lemma regression_subsecond_start :
  let c := mkClock 0 0 in
  let s := mkStamp (w_10h + 900000) None in
  let e := mkStamp (w_10h + 5 * US) None in
  datetime_between c c (SStamp s) (SStamp e) (Some 0) (Some 0) 1024 = Ok (instant s, Some 0).
Proof. cbv zeta. vm_compute. reflexivity. Qed.

(* K12: probabilities 0% and 50: option 2 for the lowest and the highest draw *)
Lemma regression_zero_probability :
  random_choice (RCChoices [(Some 0, 1); (Some 200, 2)]) (Some 0) 1024 = Ok 2 /\
  random_choice (RCChoices [(Some 0, 1); (Some 200, 2)]) (Some 1023) 1024 = Ok 2.
Proof. split; vm_compute; reflexivity. Qed.

(* K13: 10:00:00.9 .. 10:00:03 with timezone: False: a naive value inside the bounds; the lowest
   draw is the (naive) start itself *)
Lemma regression_timezone_false :
  let c := mkClock 0 0 in
  let s := mkStamp (w_10h + 900000) None in
  let e := mkStamp (w_10h + 3 * US) None in
  datetime_between c c (SStamp s) (SStamp e) None (Some 0) 1024 = Ok (instant s, None) /\
  datetime_between c c (SStamp s) (SStamp e) None (Some 512) 1024 = Ok (w_10h + 1500000, None).
Proof. cbv zeta. split; vm_compute; reflexivity. Qed.
